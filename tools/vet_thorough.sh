#!/bin/bash
# tools/vet_thorough.sh <log> Cxx...: run the thorough tier of the given checks one after the other
log=$1; shift
for c in "$@"; do
  s=$(date +%s)
  /verif/check $c --tier thorough 2>&1 | grep -E "VIOLATION|$c (ok|FAIL)|Traceback|rror" | cut -c1-260 >> $log
  echo "## $c done in $(( $(date +%s) - s ))s" >> $log
done
echo "## ALL DONE" >> $log
