#!/usr/bin/env python3
import sys
t=open('/verif/tools/agent_prompt.txt').read()
name,props,first,hours=sys.argv[1:5]
summary=sys.argv[5]; specific=sys.stdin.read()
print(t.replace('{NAME}',name).replace('{PROPS}',props).replace('{FIRSTPROP}',first).replace('{HOURS}',hours).replace('{SUMMARY}',summary).replace('{SPECIFIC}',specific))
