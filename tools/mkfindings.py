#!/usr/bin/env python3
"""tools/mkfindings.py <Cxx> <groups.json> <report.json...>: build known-finding entries from regex groups;
prints signatures not covered by any group."""
import json,re,sys,os
ROOT=os.path.dirname(os.path.dirname(os.path.abspath(__file__)))
pid=sys.argv[1]; groups=json.load(open(sys.argv[2])); reports=[json.load(open(p)) for p in sys.argv[3:]]
fails=[f for r in reports for f in r['oracle_failures']]
sigs=sorted({f['signature'] for f in fails})
kf_path=os.path.join(ROOT,'known_findings.json')
kf=json.load(open(kf_path))
kf['findings']=[k for k in kf['findings'] if k['property']!=pid]
unc=list(sigs)
os.makedirs(os.path.join(ROOT,'findings'),exist_ok=True)
for g in groups:
    m=[f for f in fails if re.fullmatch(g['signature'],f['signature'])]
    unc=[s for s in unc if not re.fullmatch(g['signature'],s)]
    if not m:
        print('GROUP WITHOUT MATCH',g['id']); continue
    rp='findings/%s.case'%g['id']
    with open(os.path.join(ROOT,rp),'w') as fh:
        fh.write('# %s: %s\n'%(g['id'],g['what']))
        seen=set()
        for f in m:
            if f['signature'] in seen: continue
            seen.add(f['signature'])
            fh.write('# signature: %s\n# detail: %s\n%s\n'%(f['signature'],f['detail'].replace('\n',' ')[:400],f['case']))
    kf['findings'].append({'property':pid,'id':g['id'],'status':'open','signature':g['signature'],'what':g['what'],'replay':rp})
json.dump(kf,open(kf_path,'w'),indent=1)
print('uncovered:',unc)
