#!/usr/bin/env python3
"""tools/seed_prompt.py <Cxx> <n>: print the prompt for an independent mutation-seeding agent.
The agent sees ONLY the property text and a scratch worktree of /repo."""
import json,sys
pid=sys.argv[1]; n=sys.argv[2]
p=[json.loads(l) for l in open('/verif/properties.jsonl') if json.loads(l)['id']==pid][0]
wt='/tmp/seed/%s_%s'%(pid,n)
print(f"""You are testing how well a semantic property of a Rust project is guarded. The project is TurDB (an embedded SQL database: mmap B-tree storage, WAL, MVCC, Volcano executor, HNSW). A scratch git worktree of it is at {wt} (create it first with: git -C /repo worktree add --detach {wt} HEAD). Work ONLY inside {wt} and the output directory {wt}_out (create it). Do NOT read or touch /verif or /repo themselves. The sandbox is offline; use `cargo build --offline` / `cargo test --offline` with CARGO_TARGET_DIR={wt}/target (first build takes several minutes; the machine is busy).

THE PROPERTY (id {pid}): {p['title']}
Statement: {p['statement']}
Quantifier: {p['quantifier']['text']}
Anchored in: {', '.join(p['anchors']['files'])}

YOUR TASK: write ONE small, realistic change to the project's source (the kind of bug a maintainer could plausibly introduce in a refactor or optimisation: an off-by-one on a boundary, a dropped guard, a swapped comparison, a stale cache, a missing flush, a wrong branch for a rare case, two cooperating sites that each look fine alone) that BREAKS this property while the project still compiles and its existing test suite still passes. The change must need something specific to manifest — a particular boundary value or unusual input, a multi-step sequence of operations, a particular interleaving, a crash or fault at a particular point — NOT something ordinary use would expose at once. Do not touch tests, do not add cfg tricks, do not make the change depend on environment variables or time. Avoid changes whose only effect is a crash on every call.

Then write a DEMONSTRATION: a small Rust integration test (a new file under {wt}/tests/) or example program that FAILS with your change and PASSES without it (verify both; NEVER use `git stash` - the stash stack is shared by all worktrees of /repo and other agents use it concurrently: save your change with `git diff > {wt}_out/patch.diff`, remove it with `git apply -R`, re-apply with `git apply`), exercising the property through the public API where possible.
Verify that the existing tests relevant to the touched code still pass with your change (`cargo test --offline --lib <module path>` and any integration test file that exercises it; note that the pinned tree has ~10 always-failing tests unrelated to you: compare with a run without your change if a test fails).

OUTPUT in {wt}_out/: `patch.diff` (git diff of the source change only, no test), `demo.rs` (your demonstration, with a comment on how to run it), `notes.md` (what the change is, why it breaks the property, what exactly is needed to make it manifest, which existing tests you ran and their result with and without the change). Finally leave the worktree CLEAN of your source change (git apply -R or git checkout -- src) but keep {wt}_out. Your final message: a 10-line summary of the above.""")
