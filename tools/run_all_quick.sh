#!/bin/bash
# tools/run_all_quick.sh: run the quick tier of every check (3 streams), log to .scratch/allquick_*.log
cd /verif
ids=$(python3 -c "import json;print(' '.join(c['property_id'] for c in json.load(open('MANIFEST.json'))['checks']))")
i=0; for c in $ids; do s=$((i%3)); eval "l$s=\"\$l$s $c\""; i=$((i+1)); done
for s in 0 1 2; do
  eval "list=\$l$s"
  ( for c in $list; do ./check $c 2>&1 | grep -E "VIOLATION|$c (ok|FAIL)" | cut -c1-160; done > .scratch/allquick_$s.log 2>&1 ) &
done
wait
cat .scratch/allquick_*.log | grep -c " ok tier=quick"
cat .scratch/allquick_*.log | grep -E "FAIL|VIOLATION" | head
