//! Helpers shared by the C10 / C43 / C21 engines (`sql_index`, `sql_bulk`, `sql_ddl`): table
//! definitions with constraints that print as SQL and as `sqldb`/`sqlidx` model requests,
//! conversion of engine cells back to values, bag differences, EXPLAIN classification.
#![allow(dead_code)]
use crate::common::*;
use crate::sqlgen::*;
use turdb::ExecuteResult;

#[derive(Clone, Copy, Debug, PartialEq, Eq)]
pub enum CTy { Big, Dbl, Text, Bool }

impl CTy {
    pub fn sql(&self) -> &'static str { match self { CTy::Big => "BIGINT", CTy::Dbl => "DOUBLE", CTy::Text => "TEXT", CTy::Bool => "BOOLEAN" } }
    pub fn kind(&self) -> &'static str { match self { CTy::Big => "int", CTy::Dbl => "float", CTy::Text => "text", CTy::Bool => "bool" } }
}

#[derive(Clone, Debug)]
pub struct ColSpec {
    pub name: String,
    pub ty: CTy,
    pub pk: bool,
    pub unique: bool,
    pub notnull: bool,
    pub autoinc: bool,
    pub dflt: Option<V>,
}

impl ColSpec {
    pub fn new(name: &str, ty: CTy) -> ColSpec { ColSpec { name: name.into(), ty, pk: false, unique: false, notnull: false, autoinc: false, dflt: None } }
    pub fn pk(mut self) -> Self { self.pk = true; self }
    pub fn unique(mut self) -> Self { self.unique = true; self }
    pub fn notnull(mut self) -> Self { self.notnull = true; self }
    pub fn autoinc(mut self) -> Self { self.autoinc = true; self }
    pub fn dflt(mut self, v: V) -> Self { self.dflt = Some(v); self }
    pub fn sql(&self, constraints: bool) -> String {
        let mut s = format!("{} {}", self.name, self.ty.sql());
        if constraints {
            if self.pk { s.push_str(" PRIMARY KEY"); }
            if self.autoinc { s.push_str(" AUTO_INCREMENT"); }
            if self.unique { s.push_str(" UNIQUE"); }
            if self.notnull { s.push_str(" NOT NULL"); }
        }
        if let Some(d) = &self.dflt { s.push_str(&format!(" DEFAULT {}", d.sql())); }
        s
    }
    /// `(name nn u pk ai dflt)` for the model's `create` / `addcolumn`
    pub fn sx(&self, constraints: bool) -> String {
        let c = constraints;
        format!("({} {} {} {} {} {})", self.name, (c && self.notnull) as u8, (c && self.unique) as u8, (c && self.pk) as u8,
            (c && self.autoinc) as u8, self.dflt.as_ref().map(|v| v.sx()).unwrap_or("(null)".into()))
    }
}

#[derive(Clone, Debug)]
pub struct TDef {
    pub name: String,
    pub cols: Vec<ColSpec>,
}

impl TDef {
    pub fn create_sql(&self, constraints: bool) -> String {
        format!("CREATE TABLE {} ({})", self.name, self.cols.iter().map(|c| c.sql(constraints)).collect::<Vec<_>>().join(", "))
    }
    pub fn model_create(&self, constraints: bool) -> String {
        format!("create {} ({}) () () ()", self.name, self.cols.iter().map(|c| c.sx(constraints)).collect::<Vec<_>>().join(" "))
    }
    pub fn scope(&self) -> Scope { self.cols.iter().map(|c| c.name.clone()).collect() }
    pub fn col(&self, name: &str) -> usize { self.cols.iter().position(|c| c.name == name).expect("column") }
}

pub fn cell_to_v(c: &str) -> Option<V> {
    match c.as_bytes()[0] {
        b'N' => Some(V::Null),
        b'B' => Some(V::Bool(c == "B1")),
        b'I' => c[1..].parse().ok().map(V::Int),
        b'F' => {
            let f: f64 = c[1..].parse().ok()?;
            let scaled = f * 1024.0;
            if scaled.fract() == 0.0 && scaled.abs() < 9e15 { Some(V::Flt(scaled as i64, 1024)) } else { None }
        }
        b'T' => String::from_utf8(unhex(&c[1..])).ok().map(V::Text),
        _ => None,
    }
}

pub fn row_to_vs(cells: &[String]) -> Option<Vec<V>> { cells.iter().map(|c| cell_to_v(c)).collect() }

pub fn vs_sx(vs: &[V]) -> String { format!("({})", vs.iter().map(|v| v.sx()).collect::<Vec<_>>().join(" ")) }

/// multiset difference `a - b` under a cell-agreement relation
pub fn bag_minus(a: &[Vec<String>], b: &[Vec<String>], agree: fn(&str, &str) -> bool) -> Vec<Vec<String>> {
    let mut used = vec![false; b.len()];
    let mut out = vec![];
    'outer: for x in a {
        for (j, y) in b.iter().enumerate() {
            if !used[j] && x.len() == y.len() && x.iter().zip(y).all(|(p, q)| agree(p, q)) {
                used[j] = true;
                continue 'outer;
            }
        }
        out.push(x.clone());
    }
    out
}

pub fn same_cell(a: &str, b: &str) -> bool { a == b }
/// model cell (first) vs engine cell (second)
pub fn model_cell(a: &str, b: &str) -> bool { cells_agree(a, b) }
/// engine cell (first) vs model cell (second)
pub fn cell_model(a: &str, b: &str) -> bool { cells_agree(b, a) }

/// fast exact multiset equality of two engine results
pub fn same_bag(a: &[Vec<String>], b: &[Vec<String>]) -> bool {
    if a.len() != b.len() { return false; }
    let mut x: Vec<String> = a.iter().map(|r| r.join(",")).collect();
    let mut y: Vec<String> = b.iter().map(|r| r.join(",")).collect();
    x.sort();
    y.sort();
    x == y
}

/// rows of a SELECT, or a short error class
pub fn q(db: &Dbh, sql: &str) -> Result<Vec<Vec<String>>, String> {
    match db.exec(sql) {
        Out::Rows(r) => Ok(r),
        Out::Err(e) => Err(format!("err-{}", error_class(&e))),
        Out::Panic(_) => Err("panic".into()),
        o => Err(format!("unexpected-{}", format!("{o:?}").chars().take(20).collect::<String>())),
    }
}

/// column names and rows of a SELECT
pub fn q_cols(db: &Dbh, sql: &str) -> Result<(Vec<String>, Vec<Vec<String>>), String> {
    let d = db.db.as_ref().unwrap();
    let s = sql.to_string();
    match guarded(std::panic::AssertUnwindSafe(move || d.execute(&s))) {
        Err(_) => Err("panic".into()),
        Ok(Err(e)) => Err(format!("err-{}", error_class(&format!("{e:#}")))),
        Ok(Ok(ExecuteResult::Select { columns, rows })) => Ok((columns, rows.iter().map(|r| r.values.iter().map(cell_of).collect()).collect())),
        Ok(Ok(o)) => Err(format!("unexpected-{}", format!("{o:?}").chars().take(20).collect::<String>())),
    }
}

/// name of the index the plan of `sql` uses ("" = no index in the plan)
pub fn explain_index(db: &Dbh, sql: &str) -> String {
    match db.exec(&format!("EXPLAIN {sql}")) {
        Out::Other(s) => {
            if let Some(p) = s.find(" using ") {
                let rest = &s[p + 7..];
                rest.chars().take_while(|c| c.is_alphanumeric() || *c == '_').collect()
            } else { String::new() }
        }
        _ => String::new(),
    }
}

/// outcome class of a DML statement: `ok:<n>` / `err:<class>` / `panic`
pub fn dml_class(o: &Out) -> String {
    match o {
        Out::Affected(n, _) => format!("ok:{n}"),
        Out::Rows(r) => format!("rows:{}", r.len()),
        Out::Other(_) => "ok".into(),
        Out::Err(e) => format!("err:{}", error_class(e)),
        Out::Panic(_) => "panic".into(),
    }
}

pub fn short(s: &str, n: usize) -> String { if s.len() <= n { s.to_string() } else { format!("{}…", s.chars().take(n).collect::<String>()) } }

pub fn show_some(rows: &[Vec<String>], n: usize) -> String {
    let mut s = rows.iter().take(n).map(|r| r.join(",")).collect::<Vec<_>>().join(" ; ");
    if rows.len() > n { s.push_str(&format!(" … ({} rows)", rows.len())); }
    s
}
