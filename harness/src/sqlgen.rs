//! Shared SQL machinery for the SQL-level engines: value/expression/query AST that prints both as
//! SQL text (for TurDB) and as prefix s-expressions (for the Lean reference model `TurVerif.Sql`),
//! result canonicalisation and comparison, a database runner with panic capture.
#![allow(dead_code)]
use crate::common::*;
use turdb::{Database, ExecuteResult, OwnedValue};

#[derive(Clone, Debug, PartialEq)]
pub enum V {
    Null,
    Bool(bool),
    Int(i64),
    /// exact dyadic rational num/den (den a power of two) -- always exactly representable as f64
    Flt(i64, u64),
    Text(String),
}

impl V {
    pub fn sql(&self) -> String {
        match self {
            V::Null => "NULL".into(),
            V::Bool(b) => if *b { "TRUE".into() } else { "FALSE".into() },
            V::Int(i) => {
                if *i < 0 { format!("({i})") } else { format!("{i}") }
            }
            V::Flt(n, d) => {
                let f = *n as f64 / *d as f64;
                let s = format!("{f:?}");
                let s = if s.contains('.') || s.contains('e') { s } else { format!("{s}.0") };
                if f < 0.0 { format!("({s})") } else { s }
            }
            V::Text(s) => format!("'{}'", s.replace('\'', "''")),
        }
    }
    pub fn sx(&self) -> String {
        match self {
            V::Null => "(null)".into(),
            V::Bool(b) => format!("(bool {})", *b as u8),
            V::Int(i) => format!("(int {i})"),
            V::Flt(n, d) => format!("(flt {n} {d})"),
            V::Text(s) => format!("(text {})", hex(s.as_bytes())),
        }
    }
    pub fn kind(&self) -> &'static str {
        match self {
            V::Null => "null",
            V::Bool(true) => "true",
            V::Bool(false) => "false",
            V::Int(_) => "int",
            V::Flt(..) => "float",
            V::Text(_) => "text",
        }
    }
    pub fn f64(&self) -> Option<f64> {
        match self {
            V::Int(i) => Some(*i as f64),
            V::Flt(n, d) => Some(*n as f64 / *d as f64),
            _ => None,
        }
    }
}

#[derive(Clone, Copy, Debug, PartialEq, Eq)]
pub enum Op { Add, Sub, Mul, Div, Mod, Concat, Eq, Ne, Lt, Le, Gt, Ge, And, Or }

impl Op {
    pub fn sql(&self) -> &'static str {
        match self {
            Op::Add => "+", Op::Sub => "-", Op::Mul => "*", Op::Div => "/", Op::Mod => "%",
            Op::Concat => "||", Op::Eq => "=", Op::Ne => "<>", Op::Lt => "<", Op::Le => "<=",
            Op::Gt => ">", Op::Ge => ">=", Op::And => "AND", Op::Or => "OR",
        }
    }
    pub fn sx(&self) -> &'static str {
        match self {
            Op::Add => "add", Op::Sub => "sub", Op::Mul => "mul", Op::Div => "div", Op::Mod => "mod",
            Op::Concat => "concat", Op::Eq => "eq", Op::Ne => "ne", Op::Lt => "lt", Op::Le => "le",
            Op::Gt => "gt", Op::Ge => "ge", Op::And => "and", Op::Or => "or",
        }
    }
    pub fn is_cmp(&self) -> bool { matches!(self, Op::Eq | Op::Ne | Op::Lt | Op::Le | Op::Gt | Op::Ge) }
}

#[derive(Clone, Debug, PartialEq)]
pub enum E {
    Lit(V),
    /// column by index into the FROM row; printed through the scope's names
    Col(usize),
    Neg(Box<E>),
    Not(Box<E>),
    Bin(Op, Box<E>, Box<E>),
    IsNull(Box<E>, bool),
    In(Box<E>, Vec<E>, bool),
    Between(Box<E>, Box<E>, Box<E>, bool),
    Like(Box<E>, Box<E>, bool),
    Coalesce(Vec<E>),
    Case(Vec<(E, E)>, Box<E>),
}

/// names of the columns of the current FROM row, by index (e.g. "t.a")
pub type Scope = Vec<String>;

impl E {
    pub fn sql(&self, sc: &Scope) -> String {
        match self {
            E::Lit(v) => v.sql(),
            E::Col(i) => sc[*i].clone(),
            E::Neg(e) => format!("(-{})", e.sql(sc)),
            E::Not(e) => format!("(NOT {})", e.sql(sc)),
            E::Bin(op, a, b) => format!("({} {} {})", a.sql(sc), op.sql(), b.sql(sc)),
            E::IsNull(e, n) => format!("({} IS {}NULL)", e.sql(sc), if *n { "NOT " } else { "" }),
            E::In(e, l, n) => format!("({} {}IN ({}))", e.sql(sc), if *n { "NOT " } else { "" },
                l.iter().map(|x| x.sql(sc)).collect::<Vec<_>>().join(", ")),
            E::Between(e, lo, hi, n) => format!("({} {}BETWEEN {} AND {})", e.sql(sc), if *n { "NOT " } else { "" }, lo.sql(sc), hi.sql(sc)),
            E::Like(e, p, n) => format!("({} {}LIKE {})", e.sql(sc), if *n { "NOT " } else { "" }, p.sql(sc)),
            E::Coalesce(l) => format!("COALESCE({})", l.iter().map(|x| x.sql(sc)).collect::<Vec<_>>().join(", ")),
            E::Case(ws, els) => format!("(CASE {} ELSE {} END)",
                ws.iter().map(|(c, v)| format!("WHEN {} THEN {}", c.sql(sc), v.sql(sc))).collect::<Vec<_>>().join(" "), els.sql(sc)),
        }
    }
    pub fn sx(&self) -> String {
        match self {
            E::Lit(v) => v.sx(),
            E::Col(i) => format!("(col {i})"),
            E::Neg(e) => format!("(neg {})", e.sx()),
            E::Not(e) => format!("(not {})", e.sx()),
            E::Bin(op, a, b) => format!("(bin {} {} {})", op.sx(), a.sx(), b.sx()),
            E::IsNull(e, n) => format!("({} {})", if *n { "notnull" } else { "isnull" }, e.sx()),
            E::In(e, l, n) => format!("({} {} ({}))", if *n { "notin" } else { "in" }, e.sx(), l.iter().map(|x| x.sx()).collect::<Vec<_>>().join(" ")),
            E::Between(e, lo, hi, n) => format!("({} {} {} {})", if *n { "notbetween" } else { "between" }, e.sx(), lo.sx(), hi.sx()),
            E::Like(e, p, n) => format!("({} {} {})", if *n { "notlike" } else { "like" }, e.sx(), p.sx()),
            E::Coalesce(l) => format!("(coalesce {})", l.iter().map(|x| x.sx()).collect::<Vec<_>>().join(" ")),
            E::Case(ws, els) => format!("(case ({}) {})", ws.iter().map(|(c, v)| format!("({} {})", c.sx(), v.sx())).collect::<Vec<_>>().join(" "), els.sx()),
        }
    }
    /// short name of the top operator, for signatures
    pub fn head(&self) -> String {
        match self {
            E::Lit(v) => format!("lit:{}", v.kind()),
            E::Col(_) => "col".into(),
            E::Neg(_) => "neg".into(),
            E::Not(_) => "not".into(),
            E::Bin(op, ..) => op.sx().into(),
            E::IsNull(_, n) => if *n { "isnotnull".into() } else { "isnull".into() },
            E::In(_, _, n) => if *n { "notin".into() } else { "in".into() },
            E::Between(_, _, _, n) => if *n { "notbetween".into() } else { "between".into() },
            E::Like(_, _, n) => if *n { "notlike".into() } else { "like".into() },
            E::Coalesce(_) => "coalesce".into(),
            E::Case(..) => "case".into(),
        }
    }
    pub fn children(&self) -> Vec<&E> {
        match self {
            E::Lit(_) | E::Col(_) => vec![],
            E::Neg(e) | E::Not(e) | E::IsNull(e, _) => vec![e],
            E::Bin(_, a, b) | E::Like(a, b, _) => vec![a, b],
            E::In(e, l, _) => { let mut v: Vec<&E> = vec![e]; v.extend(l.iter()); v }
            E::Between(e, lo, hi, _) => vec![e, lo, hi],
            E::Coalesce(l) => l.iter().collect(),
            E::Case(ws, els) => { let mut v: Vec<&E> = vec![]; for (c, x) in ws { v.push(c); v.push(x); } v.push(els); v }
        }
    }
    pub fn depth(&self) -> usize { 1 + self.children().iter().map(|c| c.depth()).max().unwrap_or(0) }
}

#[derive(Clone, Debug)]
pub enum FromItem {
    Table(String),
    Join(&'static str, Box<FromItem>, Box<FromItem>, E),
}
impl FromItem {
    pub fn sql(&self, sc: &Scope) -> String {
        match self {
            FromItem::Table(n) => n.clone(),
            FromItem::Join(k, l, r, on) => {
                let kw = match *k { "inner" => "JOIN", "left" => "LEFT JOIN", "right" => "RIGHT JOIN", "full" => "FULL OUTER JOIN", _ => "CROSS JOIN" };
                if *k == "cross" { format!("{} {} {}", l.sql(sc), kw, r.sql(sc)) }
                else { format!("{} {} {} ON {}", l.sql(sc), kw, r.sql(sc), on.sql(sc)) }
            }
        }
    }
    pub fn sx(&self) -> String {
        match self {
            FromItem::Table(n) => format!("(t {n})"),
            FromItem::Join(k, l, r, on) => format!("(join {} {} {} {})", k, l.sx(), r.sx(), on.sx()),
        }
    }
}

#[derive(Clone, Debug)]
pub struct AggItem { pub f: &'static str, pub arg: Option<E> }

#[derive(Clone, Debug)]
pub struct Sel {
    pub from: FromItem,
    pub scope: Scope,
    pub whr: Option<E>,
    pub grouped: bool,
    pub keys: Vec<E>,
    pub aggs: Vec<AggItem>,
    pub having: Option<E>,
    /// plain select: expressions over the FROM row. grouped: E::Col(i) indexes keys++aggs.
    pub items: Vec<E>,
    pub distinct: bool,
    pub order: Vec<(E, bool)>,
    pub order_on_output: bool,
    pub limit: Option<u64>,
    pub offset: u64,
}

impl Sel {
    pub fn simple(table: &str, scope: Scope) -> Sel {
        Sel { from: FromItem::Table(table.into()), scope, whr: None, grouped: false, keys: vec![], aggs: vec![], having: None,
              items: vec![], distinct: false, order: vec![], order_on_output: false, limit: None, offset: 0 }
    }
    fn group_scope(&self) -> Scope {
        let mut s: Scope = self.keys.iter().map(|k| k.sql(&self.scope)).collect();
        for a in &self.aggs {
            s.push(match &a.arg { None => "COUNT(*)".to_string(), Some(e) => format!("{}({})", a.f.to_uppercase(), e.sql(&self.scope)) });
        }
        s
    }
    pub fn sql(&self) -> String {
        let isc = if self.grouped { self.group_scope() } else { self.scope.clone() };
        let mut s = String::from("SELECT ");
        if self.distinct { s.push_str("DISTINCT "); }
        s.push_str(&self.items.iter().map(|e| e.sql(&isc)).collect::<Vec<_>>().join(", "));
        s.push_str(&format!(" FROM {}", self.from.sql(&self.scope)));
        if let Some(w) = &self.whr { s.push_str(&format!(" WHERE {}", w.sql(&self.scope))); }
        if self.grouped && !self.keys.is_empty() {
            s.push_str(&format!(" GROUP BY {}", self.keys.iter().map(|k| k.sql(&self.scope)).collect::<Vec<_>>().join(", ")));
        }
        if let Some(h) = &self.having { s.push_str(&format!(" HAVING {}", h.sql(&isc))); }
        if !self.order.is_empty() {
            let osc: Scope = if self.order_on_output { self.items.iter().map(|e| e.sql(&isc)).collect() } else { isc.clone() };
            s.push_str(&format!(" ORDER BY {}", self.order.iter().map(|(e, d)| format!("{}{}", e.sql(&osc), if *d { " DESC" } else { "" })).collect::<Vec<_>>().join(", ")));
        }
        if let Some(l) = self.limit { s.push_str(&format!(" LIMIT {l}")); }
        if self.offset > 0 { s.push_str(&format!(" OFFSET {}", self.offset)); }
        s
    }
    pub fn sx(&self) -> String {
        let opt = |e: &Option<E>| e.as_ref().map(|x| x.sx()).unwrap_or("(none)".into());
        format!("(select {} {} {} ({}) ({}) {} ({}) {} ({}) {} {} {})",
            self.from.sx(), opt(&self.whr), self.grouped as u8,
            self.keys.iter().map(|k| k.sx()).collect::<Vec<_>>().join(" "),
            self.aggs.iter().map(|a| match &a.arg { None => "(countstar)".to_string(), Some(e) => format!("({} {})", a.f, e.sx()) }).collect::<Vec<_>>().join(" "),
            opt(&self.having),
            self.items.iter().map(|k| k.sx()).collect::<Vec<_>>().join(" "),
            self.distinct as u8,
            self.order.iter().map(|(e, d)| format!("({} {})", e.sx(), *d as u8)).collect::<Vec<_>>().join(" "),
            self.order_on_output as u8,
            self.limit.map(|l| l.to_string()).unwrap_or("(none)".into()),
            self.offset)
    }
}

// ---------------------------------------------------------------- results

/// canonical cell of an engine result
pub fn cell_of(v: &OwnedValue) -> String {
    match v {
        OwnedValue::Null => "N".into(),
        OwnedValue::Bool(b) => format!("B{}", *b as u8),
        OwnedValue::Int(i) => format!("I{i}"),
        OwnedValue::Float(f) => format!("F{:?}", f),
        OwnedValue::Text(s) => format!("T{}", hex(s.as_bytes())),
        OwnedValue::Blob(b) => format!("X{}", hex(b)),
        other => format!("O{:?}", other).replace([' ', ',', ';'], "_"),
    }
}

fn model_num(c: &str) -> Option<f64> {
    if let Some(r) = c.strip_prefix('I') { return r.parse::<f64>().ok(); }
    if let Some(r) = c.strip_prefix('F') {
        if let Some((n, d)) = r.split_once('/') { return Some(n.parse::<f64>().ok()? / d.parse::<f64>().ok()?); }
        return r.parse::<f64>().ok();
    }
    None
}

/// does the engine cell `e` agree with the model cell `m`?  Booleans may be rendered by the engine
/// as BOOL or as 0/1 integers; numbers compare by value (relative 1e-9), so an INT result where the
/// model says FLOAT (or vice versa) is accepted when numerically equal.
pub fn cells_agree(m: &str, e: &str) -> bool {
    if m == e { return true; }
    match m.as_bytes()[0] {
        b'B' => (m == "B1" && (e == "I1")) || (m == "B0" && (e == "I0")),
        b'I' | b'F' => {
            if !(e.starts_with('I') || e.starts_with('F')) { return false; }
            match (model_num(m), model_num(e)) {
                (Some(a), Some(b)) => (a - b).abs() <= 1e-9 * a.abs().max(b.abs()).max(1.0),
                _ => false,
            }
        }
        _ => false,
    }
}

pub fn rows_agree_ordered(m: &[Vec<String>], e: &[Vec<String>]) -> bool {
    m.len() == e.len() && m.iter().zip(e).all(|(a, b)| a.len() == b.len() && a.iter().zip(b).all(|(x, y)| cells_agree(x, y)))
}

/// multiset agreement (greedy matching is exact here because agreement is an equivalence on the
/// generated value domain)
pub fn rows_agree_bag(m: &[Vec<String>], e: &[Vec<String>]) -> bool {
    if m.len() != e.len() { return false; }
    let mut used = vec![false; e.len()];
    'outer: for a in m {
        for (j, b) in e.iter().enumerate() {
            if !used[j] && a.len() == b.len() && a.iter().zip(b).all(|(x, y)| cells_agree(x, y)) {
                used[j] = true;
                continue 'outer;
            }
        }
        return false;
    }
    true
}

pub fn parse_model_rows(resp: &str) -> Result<Vec<Vec<String>>, String> {
    if let Some(r) = resp.strip_prefix("ok ") {
        let (n, rest) = r.split_once(' ').unwrap_or((r, ""));
        let n: usize = n.parse().map_err(|_| format!("bad model response {resp}"))?;
        if n == 0 { return Ok(vec![]); }
        let rows: Vec<Vec<String>> = rest.split(';').map(|row| if row.is_empty() { vec![] } else { row.split(',').map(|c| c.to_string()).collect() }).collect();
        if rows.len() != n { return Err(format!("bad model row count in {resp}")); }
        Ok(rows)
    } else {
        Err(resp.to_string())
    }
}

pub fn show_rows(rows: &[Vec<String>]) -> String {
    rows.iter().map(|r| r.join(",")).collect::<Vec<_>>().join(";")
}

#[derive(Debug, Clone)]
pub enum Out {
    Rows(Vec<Vec<String>>),
    Affected(usize, Option<Vec<Vec<String>>>),
    Other(String),
    Err(String),
    Panic(String),
}

pub fn error_class(msg: &str) -> &'static str {
    let m = msg.to_lowercase();
    if m.contains("failed to create query plan") { "plan" }
    else if m.contains("overflow") { "overflow" }
    else if m.contains("division by zero") || m.contains("divide by zero") { "divzero" }
    else if m.contains("unique") || m.contains("primary key") || m.contains("not null") || m.contains("check") || m.contains("foreign key") || m.contains("constraint") || m.contains("duplicate") { "constraint" }
    else if m.contains("not found") || m.contains("does not exist") || m.contains("no such") || m.contains("unknown") { "missing" }
    else if m.contains("type") || m.contains("mismatch") || m.contains("cannot") { "type" }
    else if m.contains("parse") || m.contains("syntax") || m.contains("unexpected") || m.contains("expected") { "syntax" }
    else { "other" }
}

pub struct Dbh {
    pub db: Option<Database>,
    pub dir: String,
}

impl Dbh {
    pub fn create(ctx: &Ctx, tag: &str) -> Dbh {
        let dir = format!("{}/db-{}-{}", ctx.scratch, tag, std::process::id());
        let _ = std::fs::remove_dir_all(&dir);
        let db = Database::create(&dir).expect("create database");
        Dbh { db: Some(db), dir }
    }
    pub fn reopen(&mut self) -> Result<(), String> {
        if let Some(db) = self.db.take() {
            let _ = guarded(std::panic::AssertUnwindSafe(move || { let _ = db.close(); }));
        }
        let d = self.dir.clone();
        match guarded(move || Database::open(&d)) {
            Ok(Ok(db)) => { self.db = Some(db); Ok(()) }
            Ok(Err(e)) => Err(format!("open failed: {e}")),
            Err(p) => Err(format!("open panicked: {p}")),
        }
    }
    pub fn exec(&self, sql: &str) -> Out {
        let db = self.db.as_ref().unwrap();
        let s = sql.to_string();
        match guarded(std::panic::AssertUnwindSafe(move || db.execute(&s))) {
            Err(p) => Out::Panic(p),
            Ok(Err(e)) => Out::Err(format!("{e:#}")),
            Ok(Ok(r)) => match r {
                ExecuteResult::Select { rows, .. } => Out::Rows(rows.iter().map(|r| r.values.iter().map(cell_of).collect()).collect()),
                ExecuteResult::Insert { rows_affected, returned } | ExecuteResult::Update { rows_affected, returned } | ExecuteResult::Delete { rows_affected, returned } =>
                    Out::Affected(rows_affected, returned.map(|rs| rs.iter().map(|r| r.values.iter().map(cell_of).collect()).collect())),
                ExecuteResult::Truncate { rows_affected } => Out::Affected(rows_affected, None),
                other => Out::Other(format!("{other:?}")),
            },
        }
    }
    pub fn must(&self, sql: &str) {
        match self.exec(sql) {
            Out::Err(e) => panic!("setup statement failed: {sql}: {e}"),
            Out::Panic(p) => panic!("setup statement panicked: {sql}: {p}"),
            _ => {}
        }
    }
}

impl Drop for Dbh {
    fn drop(&mut self) {
        if let Some(db) = self.db.take() {
            let _ = guarded(std::panic::AssertUnwindSafe(move || drop(db)));
        }
        let _ = std::fs::remove_dir_all(&self.dir);
    }
}

// ---------------------------------------------------------------- generators

#[derive(Clone, Copy, Debug, PartialEq, Eq)]
pub enum Ty { Int, Flt, Text, Bool }

impl Ty {
    pub fn sql(&self) -> &'static str { match self { Ty::Int => "INT", Ty::Flt => "DOUBLE", Ty::Text => "TEXT", Ty::Bool => "BOOLEAN" } }
}

pub const TEXTS: &[&str] = &["", "a", "ab", "abc", "b", "ba", "x%", "a_c", "Ab", "zz", "é", "a'b"];

pub fn gen_val(rng: &mut Rng, ty: Ty, null_pct: u64) -> V {
    if rng.chance(null_pct, 100) { return V::Null; }
    match ty {
        Ty::Int => V::Int(*rng.pick(&[-3i64, -1, 0, 1, 2, 3, 5, 10, 10, 20, 100])),
        Ty::Flt => { let n = *rng.pick(&[-6i64, -2, 0, 1, 2, 3, 4, 5, 6, 10, 40]); V::Flt(n, 4) }
        Ty::Text => V::Text(rng.pick(TEXTS).to_string()),
        Ty::Bool => V::Bool(rng.chance(1, 2)),
    }
}

#[derive(Clone, Debug)]
pub struct TableSpec {
    pub name: String,
    pub cols: Vec<(String, Ty)>,
    pub rows: Vec<Vec<V>>,
}

impl TableSpec {
    pub fn scope(&self) -> Scope { self.cols.iter().map(|(n, _)| format!("{}.{}", self.name, n)).collect() }
    pub fn bare_scope(&self) -> Scope { self.cols.iter().map(|(n, _)| n.clone()).collect() }
    pub fn create_sql(&self) -> String {
        format!("CREATE TABLE {} ({})", self.name, self.cols.iter().map(|(n, t)| format!("{} {}", n, t.sql())).collect::<Vec<_>>().join(", "))
    }
    pub fn insert_sqls(&self) -> Vec<String> {
        self.rows.iter().map(|r| format!("INSERT INTO {} VALUES ({})", self.name, r.iter().map(|v| v.sql()).collect::<Vec<_>>().join(", "))).collect()
    }
    pub fn model_lines(&self) -> Vec<String> {
        let mut v = vec![format!("table {} {}", self.name, self.cols.len())];
        for r in &self.rows {
            v.push(format!("row {} ({})", self.name, r.iter().map(|x| x.sx()).collect::<Vec<_>>().join(" ")));
        }
        v
    }
}

/// table with a unique integer first column `id` (1..n) followed by random typed columns
pub fn gen_table(rng: &mut Rng, name: &str, ncols: usize, nrows: usize, null_pct: u64) -> TableSpec {
    let tys = [Ty::Int, Ty::Flt, Ty::Text, Ty::Bool, Ty::Int, Ty::Text];
    let mut cols = vec![("id".to_string(), Ty::Int)];
    for i in 0..ncols {
        let ty = if i < 4 { tys[i] } else { *rng.pick(&tys) };
        let nm = match ty { Ty::Int => format!("n{i}"), Ty::Flt => format!("d{i}"), Ty::Text => format!("s{i}"), Ty::Bool => format!("f{i}") };
        cols.push((nm, ty));
    }
    let mut rows = vec![];
    for r in 0..nrows {
        let mut row = vec![V::Int(r as i64 + 1)];
        for (_, ty) in cols.iter().skip(1) { row.push(gen_val(rng, *ty, null_pct)); }
        rows.push(row);
    }
    TableSpec { name: name.into(), cols, rows }
}

/// typed expression generator over a scope with column types
pub struct ExprGen<'a> {
    pub tys: &'a [Ty],
    pub null_pct: u64,
}

impl<'a> ExprGen<'a> {
    fn cols_of(&self, ty: Ty) -> Vec<usize> { self.tys.iter().enumerate().filter(|(_, t)| **t == ty).map(|(i, _)| i).collect() }
    pub fn leaf(&self, rng: &mut Rng, ty: Ty) -> E {
        let cs = self.cols_of(ty);
        if !cs.is_empty() && rng.chance(2, 3) { E::Col(*rng.pick(&cs)) } else { E::Lit(gen_val(rng, ty, self.null_pct)) }
    }
    pub fn num(&self, rng: &mut Rng, depth: usize) -> E {
        if depth == 0 || rng.chance(1, 2) { let ty = if rng.chance(3, 4) { Ty::Int } else { Ty::Flt }; return self.leaf(rng, ty); }
        match rng.below(6) {
            0 => E::Neg(Box::new(self.num(rng, depth - 1))),
            1 => E::Bin(Op::Add, Box::new(self.num(rng, depth - 1)), Box::new(self.num(rng, depth - 1))),
            2 => E::Bin(Op::Sub, Box::new(self.num(rng, depth - 1)), Box::new(self.num(rng, depth - 1))),
            3 => E::Bin(Op::Mul, Box::new(self.num(rng, depth - 1)), Box::new(self.num(rng, depth - 1))),
            4 => E::Coalesce(vec![self.num(rng, depth - 1), self.num(rng, depth - 1)]),
            _ => E::Case(vec![(self.boolean(rng, depth - 1), self.num(rng, depth - 1))], Box::new(self.num(rng, depth - 1))),
        }
    }
    pub fn text(&self, rng: &mut Rng, depth: usize) -> E {
        if depth == 0 || rng.chance(2, 3) { return self.leaf(rng, Ty::Text); }
        E::Bin(Op::Concat, Box::new(self.text(rng, depth - 1)), Box::new(self.text(rng, depth - 1)))
    }
    pub fn cmp_op(rng: &mut Rng) -> Op { *rng.pick(&[Op::Eq, Op::Ne, Op::Lt, Op::Le, Op::Gt, Op::Ge]) }
    pub fn boolean(&self, rng: &mut Rng, depth: usize) -> E {
        if depth == 0 {
            return match rng.below(4) {
                0 => E::Bin(Self::cmp_op(rng), Box::new(self.num(rng, 0)), Box::new(self.num(rng, 0))),
                1 => E::Bin(Self::cmp_op(rng), Box::new(self.text(rng, 0)), Box::new(self.text(rng, 0))),
                2 => E::IsNull(Box::new(if rng.chance(1, 2) { self.num(rng, 0) } else { self.text(rng, 0) }), rng.chance(1, 2)),
                _ => self.leaf(rng, Ty::Bool),
            };
        }
        match rng.below(10) {
            0 => E::Not(Box::new(self.boolean(rng, depth - 1))),
            1 | 2 => E::Bin(Op::And, Box::new(self.boolean(rng, depth - 1)), Box::new(self.boolean(rng, depth - 1))),
            3 | 4 => E::Bin(Op::Or, Box::new(self.boolean(rng, depth - 1)), Box::new(self.boolean(rng, depth - 1))),
            5 => { let n = 1 + rng.below(3) as usize; E::In(Box::new(self.num(rng, depth - 1)), (0..n).map(|_| self.num(rng, 0)).collect(), rng.chance(1, 2)) }
            6 => E::Between(Box::new(self.num(rng, depth - 1)), Box::new(self.num(rng, 0)), Box::new(self.num(rng, 0)), rng.chance(1, 2)),
            7 => E::Like(Box::new(self.text(rng, depth - 1)), Box::new(E::Lit(V::Text(rng.pick(&["%", "a%", "%b", "_", "a_", "%a%", "ab", "", "_%", "%_%", "a%c"]).to_string()))), rng.chance(1, 3)),
            8 => E::Bin(Self::cmp_op(rng), Box::new(self.num(rng, depth - 1)), Box::new(self.num(rng, depth - 1))),
            _ => self.boolean(rng, 0),
        }
    }
}
