//! vharness: correspondence-check harness. `vharness <engine> --seed N --tier quick|thorough
//! --model <tvmodel> --scratch <dir> --out <report.json> [--replay file]`
mod common;
mod engines;
mod sqlgen;
mod sched;
mod sqlgen_sub;
mod sqlgen_cons;
mod sqlgen_idx;
mod sqlgen_val;
use common::*;

fn main() {
    let args: Vec<String> = std::env::args().collect();
    if args.len() < 2 {
        eprintln!("usage: vharness <engine> [--seed N] [--tier quick|thorough] --model BIN --out FILE");
        std::process::exit(2);
    }
    let engine = args[1].clone();
    let mut seed = 1u64;
    let mut thorough = false;
    let mut model_bin = "/verif/lean/.lake/build/bin/tvmodel".to_string();
    let mut out = String::new();
    let mut scratch = "/verif/.scratch".to_string();
    let mut replay = None;
    let mut corpus_dir = "/verif/harness/corpus".to_string();
    let mut i = 2;
    while i < args.len() {
        match args[i].as_str() {
            "--seed" => { seed = args[i + 1].parse().unwrap_or(1); i += 1; }
            "--tier" => { thorough = args[i + 1] == "thorough"; i += 1; }
            "--model" => { model_bin = args[i + 1].clone(); i += 1; }
            "--out" => { out = args[i + 1].clone(); i += 1; }
            "--scratch" => { scratch = args[i + 1].clone(); i += 1; }
            "--replay" => { replay = Some(args[i + 1].clone()); i += 1; }
            "--corpus" => { corpus_dir = args[i + 1].clone(); i += 1; }
            _ => {}
        }
        i += 1;
    }
    let ctx = Ctx { seed, thorough, model_bin, scratch, replay, corpus_dir };
    let _ = std::fs::create_dir_all(&ctx.scratch);
    // keep panics of the code under test quiet; they are caught and reported by the engines
    if std::env::var("VERIF_SHOW_PANICS").is_err() {
        std::panic::set_hook(Box::new(|_| {}));
    }
    let report = engines::run(&engine, &ctx);
    let js = report.to_json();
    if out.is_empty() {
        println!("{js}");
    } else {
        std::fs::write(&out, js).unwrap();
    }
}
