//! C22 generators: grammar-directed SQL (valid and near-valid) over the dialect of src/sql/parser.rs,
//! boundary literals, token/byte mutations, parameter lists, API call sequences.
//! All randomness comes from the `Rng` passed in (derived from ctx.seed, chunk and case index).
use crate::common::*;

pub const TABLES: &[&str] = &["t1", "t2", "t3", "nosuch", "v1"];
pub const COLS: &[&str] = &["id", "a", "b", "s", "f", "flag", "t1_id", "v", "n", "k", "d", "j", "bl", "ts", "nosuch", "vec"];
const TYPES: &[&str] = &[
    "INT", "INTEGER", "BIGINT", "SMALLINT", "TINYINT", "TEXT", "VARCHAR(10)", "VARCHAR(0)", "CHAR(3)", "DOUBLE",
    "DOUBLE PRECISION", "REAL", "FLOAT", "BOOLEAN", "BOOL", "BLOB", "DATE", "TIME", "TIMESTAMP", "TIMESTAMPTZ",
    "DATETIME", "JSON", "JSONB", "UUID", "DECIMAL(10,2)", "DECIMAL(38,38)", "NUMERIC(0,0)", "NUMERIC", "SERIAL",
    "BIGSERIAL", "SMALLSERIAL", "VECTOR(3)", "VECTOR(0)", "VECTOR(4294967295)", "INTERVAL", "INET", "MACADDR",
    "POINT", "BOX", "CIRCLE", "INT4RANGE", "INT8RANGE", "DATERANGE", "TSRANGE", "VARCHAR(4294967296)",
    "DECIMAL(4294967295,4294967295)", "TIMESTAMP WITH TIME ZONE", "TIME WITHOUT TIME ZONE", "CHARACTER VARYING(5)",
    "INT[]", "TEXT[]", "nosuchtype",
];
pub const INT_LITS: &[&str] = &[
    "0", "1", "-1", "2", "-2", "3", "7", "10", "31", "32", "63", "64", "65", "100", "127", "128", "255", "256", "1000",
    "32767", "32768", "-32768", "-32769", "65535", "65536", "2147483647", "2147483648", "-2147483648", "-2147483649",
    "4294967295", "4294967296", "4294967297", "3037000499", "3037000500", "9223372036854775806", "9223372036854775807",
    "-9223372036854775807", "(-9223372036854775807 - 1)", "9223372036854775808", "-9223372036854775808",
    "18446744073709551615", "18446744073709551616", "99999999999999999999999999999999999999",
    "0x7fffffffffffffff", "0xffffffffffffffff", "0x10000000000000000", "0x0", "0b1", "0b11111111", "0o777", "00000000000000000000001",
];
pub const FLT_LITS: &[&str] = &[
    "0.0", "-0.0", "0.5", "1.5", "-1.5", ".5", "5.", "1e0", "1e10", "1e19", "9.3e18", "1e308", "1.7976931348623157e308", "1e309",
    "1e-308", "5e-324", "1e-400", "1e", "1e+", "1e99999999999", "123456789012345678901234567890.5", "0.1e-1", "9223372036854775807.0",
    "9223372036854775808.0", "-9223372036854775809.0", "4294967296.5", "2147483647.5",
];
pub const STR_LITS: &[&str] = &[
    "''", "'a'", "'abc'", "'ABC'", "'it''s'", "'%'", "'_'", "'%%%'", "'a%b_c'", "'\\'", "'\\%'", "'  pad  '", "'é'", "'日本語'", "'😀'", "'a😀b'",
    "'\u{0}'", "'a\u{0}b'", "'\n'", "'1'", "'-1'", "'1e5'", "' 12 '", "'0x10'", "'9223372036854775808'", "'NaN'", "'inf'", "'-inf'", "'true'", "'null'",
    "'2024-02-29'", "'2023-02-29'", "'0000-00-00'", "'0000-01-01'", "'9999-12-31'", "'99999-12-31'", "'-0001-01-01'", "'2024-13-45'", "'2024-1-1'",
    "'1970-01-01'", "'1969-12-31'", "'2024-02-29 23:59:60'", "'2024-02-29T25:61:61Z'", "'12:34:56'", "'24:00:00'", "'99:99:99'", "'12:34:56.123456789'",
    "'{\"a\":1}'", "'{\"a\":{\"b\":[1,2,{\"c\":null}]}}'", "'[1,2,3]'", "'[]'", "'{'", "'[1,'", "'{\"a\":1e999}'", "'\"\\ud800\"'", "'[1.0,2.0,3.0]'", "'[1e39,0,0]'", "'[NaN,1,2]'",
    "'00000000-0000-0000-0000-000000000000'", "'ffffffff-ffff-ffff-ffff-ffffffffffff'", "'not-a-uuid'", "'192.168.0.1'", "'::1'", "'256.1.1.1'",
    "'aa:bb:cc:dd:ee:ff'", "'(1,2)'", "'1 year 2 months'", "'P1Y'", "'[1,10)'", "x'00ff'", "x''", "x'0'", "X'DEADBEEF'", "$$dollar$$", "$t$a$b$t$",
];
pub const FUNCS: &[&str] = &[
    "ABS", "ACOS", "ADDDATE", "ADDTIME", "ASCII", "ASIN", "ATAN", "ATAN2", "BIN", "CEIL", "CEILING", "CHARACTER_LENGTH", "CHAR_LENGTH", "COALESCE",
    "CONCAT", "CONCAT_WS", "CONNECTION_ID", "CONV", "COS", "COT", "CURDATE", "CURRENT_DATABASE", "CURRENT_DATE", "CURRENT_TIME", "CURRENT_TIMESTAMP",
    "CURRENT_USER", "CURTIME", "DATABASE", "DATE", "DATEDIFF", "DATE_ADD", "DATE_FORMAT", "DATE_SUB", "DAY", "DAYNAME", "DAYOFMONTH", "DAYOFWEEK",
    "DAYOFYEAR", "DEGREES", "DIV", "EXP", "FIELD", "FIND_IN_SET", "FLOOR", "FORMAT", "FROM_DAYS", "GREATEST", "HOUR", "IF", "IFNULL", "IIF", "INSERT",
    "INSTR", "ISNULL", "LAST_DAY", "LAST_INSERT_ID", "LCASE", "LEAST", "LEFT", "LEN", "LENGTH", "LN", "LOCALTIME", "LOCALTIMESTAMP", "LOCATE", "LOG",
    "LOG10", "LOG2", "LOWER", "LPAD", "LTRIM", "MAKEDATE", "MAKETIME", "MICROSECOND", "MID", "MINUTE", "MOD", "MONTH", "MONTHNAME", "NOW", "NULLIF",
    "NVL", "OCTET_LENGTH", "PERIOD_ADD", "PERIOD_DIFF", "PI", "POSITION", "POW", "POWER", "QUARTER", "RADIANS", "RAND", "RANDOM", "REPEAT", "REPLACE",
    "REVERSE", "RIGHT", "ROUND", "RPAD", "RTRIM", "SECOND", "SEC_TO_TIME", "SESSION_USER", "SIGN", "SIN", "SPACE", "SQRT", "STRCMP", "STRFTIME",
    "STR_TO_DATE", "SUBDATE", "SUBSTR", "SUBSTRING", "SUBSTRING_INDEX", "SUBTIME", "SYSDATE", "SYSTEM_USER", "TAN", "TIME", "TIMEDIFF", "TIMESTAMP",
    "TIME_FORMAT", "TIME_TO_SEC", "TO_DAYS", "TRIM", "TRUNC", "TRUNCATE", "TYPEOF", "UCASE", "UPPER", "USER", "VERSION", "WEEK", "WEEKDAY",
    "WEEKOFYEAR", "YEAR", "YEARWEEK", "COUNT", "SUM", "AVG", "MIN", "MAX", "GROUP_CONCAT", "STRING_AGG", "ARRAY_AGG", "JSON_EXTRACT", "JSON_OBJECT",
    "JSONB_SET", "JSON_ARRAY_LENGTH", "L2_DISTANCE", "COSINE_DISTANCE", "nosuchfn",
];
/// functions whose numeric arguments size an allocation or a loop: an argument above this bound is a known
/// resource-exhaustion hazard (tested once, deterministically, in the systematic layer; the random layer keeps
/// their arguments small so that one run does not spend its budget in watchdog time-outs)
pub const SIZED_FUNCS: &[&str] = &["REPEAT", "SPACE", "LPAD", "RPAD", "FORMAT", "CONV", "BIN", "INSERT", "SEC_TO_TIME", "MAKEDATE", "FROM_DAYS", "PERIOD_ADD", "ROUND", "TRUNCATE", "TRUNC", "CONCAT_WS", "POW", "POWER", "EXP", "LEFT", "RIGHT", "SUBSTRING_INDEX", "ADDDATE", "SUBDATE", "DATE_ADD", "DATE_SUB", "ADDTIME", "SUBTIME", "LAST_DAY", "DAYNAME", "MONTHNAME", "WEEK", "YEARWEEK", "WEEKOFYEAR", "TO_DAYS", "DATE_FORMAT", "TIME_FORMAT", "STRFTIME", "STR_TO_DATE", "MAKETIME", "TIMEDIFF", "DATEDIFF", "PERIOD_DIFF"];
const WINFUNCS: &[&str] = &["ROW_NUMBER", "RANK", "DENSE_RANK", "NTILE", "LAG", "LEAD", "FIRST_VALUE", "LAST_VALUE", "NTH_VALUE", "SUM", "COUNT", "AVG", "MIN", "MAX", "PERCENT_RANK", "CUME_DIST"];
const BINOPS: &[&str] = &[
    "+", "-", "*", "/", "%", "^", "||", "&", "|", "#", "<<", ">>", "=", "<>", "!=", "<", "<=", ">", ">=", "<=>", "AND", "OR", "LIKE", "NOT LIKE", "ILIKE",
    "IS DISTINCT FROM", "IS NOT DISTINCT FROM", "->", "->>", "#>", "#>>", "@>", "<@", "?|", "?&", "<->", "<#>", "&&", "SIMILAR TO", "REGEXP", "GLOB", "IS", "IS NOT", "IN", "DIV", "MOD", "XOR", "COLLATE",
];
pub const PRAGMAS: &[&str] = &[
    "WAL", "WAL_AUTOFLUSH", "SYNCHRONOUS", "JOIN_MEMORY_BUDGET", "MEMORY_BUDGET", "MEMORY_STATS", "PERSISTED_MEMORY_STATS", "WAL_CHECKPOINT",
    "WAL_CHECKPOINT_STATS", "WAL_CHECKPOINT_THRESHOLD", "WAL_FRAME_COUNT", "WAL_SIZE", "DATABASE_MODE", "RECOVER_WAL", "nosuch", "table_info",
];
pub const PRAGMA_VALS: &[&str] = &["ON", "OFF", "TRUE", "FALSE", "0", "1", "2", "NORMAL", "FULL", "4294967295", "4294967296", "18446744073709551615", "18446744073709551616", "99999999999999999999", "x", "READ_ONLY", "DEGRADED"];

pub struct G<'a> {
    pub rng: &'a mut Rng,
    /// when true, arguments of SIZED_FUNCS and LIMIT/OFFSET-like positions may be huge
    pub wild: bool,
}

impl<'a> G<'a> {
    fn pick(&mut self, xs: &[&str]) -> String { self.rng.pick(xs).to_string() }
    fn ch(&mut self, n: u64, d: u64) -> bool { self.rng.chance(n, d) }
    pub fn table(&mut self) -> String {
        match self.rng.below(12) {
            0 => "\"t1\"".into(),
            1 => "`t2`".into(),
            2 => "root.t1".into(),
            3 => "nosuch.t1".into(),
            4 => "T1".into(),
            _ => self.pick(TABLES),
        }
    }
    pub fn col(&mut self) -> String {
        match self.rng.below(14) {
            0 => format!("{}.{}", self.pick(TABLES), self.pick(COLS)),
            1 => format!("\"{}\"", self.pick(COLS)),
            2 => "*".into(),
            3 => "t1.*".into(),
            4 => format!("x{}", self.rng.below(3)),
            5 => format!("root.t1.{}", self.pick(COLS)),
            _ => self.pick(COLS),
        }
    }
    pub fn small_int(&mut self) -> String { format!("{}", self.rng.range(-3, 12)) }
    pub fn lit(&mut self) -> String {
        match self.rng.below(16) {
            0..=4 => self.pick(INT_LITS),
            5..=6 => self.pick(FLT_LITS),
            7..=10 => self.pick(STR_LITS),
            11 => self.pick(&["NULL", "TRUE", "FALSE", "DEFAULT", "CURRENT_DATE", "CURRENT_TIMESTAMP", "CURRENT_TIME"]),
            12 => self.pick(&["?", "$1", "$2", "$0", "$4294967295", "$4294967296", ":p", "@p", "?", "$1"]),
            13 => format!("{}", self.rng.next() as i64),
            14 => format!("'{}'", "x".repeat(*self.rng.pick(&[15usize, 16, 17, 255, 256, 1000, 4096, 70000]))),
            _ => self.small_int(),
        }
    }
    pub fn ty(&mut self) -> String { self.pick(TYPES) }
    pub fn func(&mut self, d: usize) -> String {
        let f = self.pick(FUNCS);
        let sized = SIZED_FUNCS.contains(&f.as_str());
        let nargs = *self.rng.pick(&[0usize, 1, 1, 2, 2, 3, 3, 4, 6]);
        let mut args = vec![];
        for i in 0..nargs {
            if sized && !self.wild {
                // keep these bounded: text first argument, small numbers after it
                args.push(if i == 0 && self.ch(1, 2) { self.pick(STR_LITS) } else if self.ch(1, 3) { self.pick(COLS) } else { self.small_int() });
            } else {
                args.push(self.expr(d + 1));
            }
        }
        let inner = match self.rng.below(12) {
            0 => "*".to_string(),
            1 => format!("DISTINCT {}", args.join(", ")),
            _ => args.join(", "),
        };
        let mut s = format!("{f}({inner})");
        if self.ch(1, 12) { s.push_str(" FILTER (WHERE "); s.push_str(&self.expr(d + 1)); s.push(')'); }
        s
    }
    pub fn window(&mut self, d: usize) -> String {
        let f = self.pick(WINFUNCS);
        let arg = match self.rng.below(4) { 0 => String::new(), 1 => "*".into(), 2 => self.expr(d + 1), _ => format!("{}, {}", self.col(), self.lit()) };
        let mut spec = String::new();
        if self.ch(1, 2) { spec.push_str(&format!("PARTITION BY {} ", self.expr(d + 1))); }
        if self.ch(2, 3) { spec.push_str(&format!("ORDER BY {} ", self.order_list(d + 1))); }
        if self.ch(1, 3) {
            let unit = self.pick(&["ROWS", "RANGE", "GROUPS"]);
            let b = |g: &mut G| match g.rng.below(6) { 0 => "UNBOUNDED PRECEDING".to_string(), 1 => "UNBOUNDED FOLLOWING".into(), 2 => "CURRENT ROW".into(), 3 => format!("{} PRECEDING", g.lit()), 4 => format!("{} FOLLOWING", g.lit()), _ => "0 PRECEDING".into() };
            if self.ch(2, 3) { let (x, y) = (b(self), b(self)); spec.push_str(&format!("{unit} BETWEEN {x} AND {y}")); } else { let x = b(self); spec.push_str(&format!("{unit} {x}")); }
        }
        if self.ch(1, 10) { format!("{f}({arg}) OVER w") } else { format!("{f}({arg}) OVER ({spec})") }
    }
    pub fn expr(&mut self, d: usize) -> String {
        if d > 4 || self.ch(1, 3) {
            return if self.ch(1, 2) { self.col() } else { self.lit() };
        }
        match self.rng.below(26) {
            0..=6 => {
                let op = self.pick(BINOPS);
                format!("{} {} {}", self.expr(d + 1), op, self.expr(d + 1))
            }
            7 => format!("({})", self.expr(d + 1)),
            8 => format!("{} {}", self.pick(&["-", "+", "NOT", "~", "- -", "NOT NOT", "!"]), self.expr(d + 1)),
            9..=11 => self.func(d),
            12 => {
                let mut s = "CASE".to_string();
                if self.ch(1, 2) { s.push(' '); s.push_str(&self.expr(d + 1)); }
                for _ in 0..self.rng.below(3) { s.push_str(&format!(" WHEN {} THEN {}", self.expr(d + 1), self.expr(d + 1))); }
                if self.ch(1, 2) { s.push_str(&format!(" ELSE {}", self.expr(d + 1))); }
                s.push_str(" END");
                s
            }
            13 => format!("CAST({} AS {})", self.expr(d + 1), self.ty()),
            14 => format!("{}::{}", self.expr(d + 1), self.ty()),
            15 => {
                let n = *self.rng.pick(&[0usize, 1, 2, 3, 5]);
                let items: Vec<String> = (0..n).map(|_| self.expr(d + 1)).collect();
                format!("{} {}IN ({})", self.expr(d + 1), if self.ch(1, 3) { "NOT " } else { "" }, items.join(", "))
            }
            16 => format!("{} {}IN ({})", self.expr(d + 1), if self.ch(1, 3) { "NOT " } else { "" }, self.select(d + 1)),
            17 => format!("{}EXISTS ({})", if self.ch(1, 3) { "NOT " } else { "" }, self.select(d + 1)),
            18 => format!("{} {}BETWEEN {} AND {}", self.expr(d + 1), if self.ch(1, 3) { "NOT " } else { "" }, self.expr(d + 1), self.expr(d + 1)),
            19 => format!("{} IS {}{}", self.expr(d + 1), if self.ch(1, 2) { "NOT " } else { "" }, self.pick(&["NULL", "TRUE", "FALSE", "UNKNOWN"])),
            20 => format!("({})", self.select(d + 1)),
            21 => self.window(d),
            22 => {
                let n = self.rng.below(4);
                let items: Vec<String> = (0..n).map(|_| self.expr(d + 1)).collect();
                match self.rng.below(3) { 0 => format!("ARRAY[{}]", items.join(", ")), 1 => format!("[{}]", items.join(", ")), _ => format!("({})", items.join(", ")) }
            }
            23 => format!("{} {} {} ({})", self.expr(d + 1), self.pick(&["=", "<", ">", "<>"]), self.pick(&["ANY", "ALL", "SOME"]), self.select(d + 1)),
            24 => format!("{} LIKE {} ESCAPE {}", self.expr(d + 1), self.pick(STR_LITS), self.pick(&["'\\'", "'!'", "''", "'ab'", "NULL"])),
            _ => format!("{}[{}]", self.col(), self.lit()),
        }
    }
    pub fn order_list(&mut self, d: usize) -> String {
        let n = 1 + self.rng.below(3);
        (0..n)
            .map(|_| {
                let e = match self.rng.below(5) { 0 => self.small_int(), 1 => self.expr(d + 1), _ => self.col() };
                format!("{e}{}{}", self.pick(&["", "", " ASC", " DESC"]), self.pick(&["", "", "", " NULLS FIRST", " NULLS LAST"]))
            })
            .collect::<Vec<_>>()
            .join(", ")
    }
    pub fn from(&mut self, d: usize) -> String {
        let base = |g: &mut G| -> String {
            match g.rng.below(10) {
                0 if d < 3 => format!("({}) AS sq{}", g.select(d + 1), g.rng.below(3)),
                1 => format!("{} AS x{}", g.table(), g.rng.below(3)),
                2 => format!("{} x{}", g.table(), g.rng.below(3)),
                3 if d < 3 => format!("LATERAL ({}) AS lq", g.select(d + 1)),
                _ => g.table(),
            }
        };
        let mut s = base(self);
        let joins = *self.rng.pick(&[0u64, 0, 0, 1, 1, 2, 3]);
        for _ in 0..joins {
            let jt = self.pick(&["JOIN", "INNER JOIN", "LEFT JOIN", "LEFT OUTER JOIN", "RIGHT JOIN", "FULL JOIN", "FULL OUTER JOIN", "CROSS JOIN", "NATURAL JOIN", ","]);
            let rhs = base(self);
            s.push_str(&format!(" {jt} {rhs}"));
            if jt != "," && jt != "CROSS JOIN" && jt != "NATURAL JOIN" || self.ch(1, 8) {
                if self.ch(1, 5) { s.push_str(&format!(" USING ({})", self.pick(COLS))); } else { s.push_str(&format!(" ON {}", self.expr(d + 2))); }
            }
        }
        s
    }
    pub fn limit(&mut self) -> String {
        if self.wild || self.ch(1, 6) { self.lit() } else { self.small_int() }
    }
    pub fn select(&mut self, d: usize) -> String {
        let mut s = String::new();
        if d < 2 && self.ch(1, 10) {
            let rec = if self.ch(1, 3) { "RECURSIVE " } else { "" };
            let cols = if self.ch(1, 3) { "(c1, c2)" } else { "" };
            s.push_str(&format!("WITH {rec}cte{cols} AS ({}) ", self.select(d + 1)));
        }
        s.push_str("SELECT ");
        if self.ch(1, 8) { s.push_str(&self.pick(&["DISTINCT ", "ALL ", "DISTINCT ON (a) "])); }
        let n = 1 + self.rng.below(4);
        let cols: Vec<String> = (0..n)
            .map(|_| {
                let e = if self.ch(1, 3) { self.col() } else { self.expr(d + 1) };
                if self.ch(1, 6) { format!("{e} AS al{}", self.rng.below(3)) } else { e }
            })
            .collect();
        s.push_str(&cols.join(", "));
        if self.ch(9, 10) { s.push_str(" FROM "); s.push_str(&self.from(d)); }
        if self.ch(1, 2) { s.push_str(" WHERE "); s.push_str(&self.expr(d + 1)); }
        if self.ch(1, 5) {
            s.push_str(" GROUP BY ");
            s.push_str(&match self.rng.below(4) { 0 => self.small_int(), 1 => self.expr(d + 1), _ => self.col() });
            if self.ch(1, 3) { s.push_str(", "); s.push_str(&self.col()); }
            if self.ch(1, 2) { s.push_str(" HAVING "); s.push_str(&self.expr(d + 1)); }
        }
        if self.ch(1, 12) { s.push_str(" WINDOW w AS (PARTITION BY a ORDER BY id)"); }
        if d < 3 && self.ch(1, 8) {
            let op = self.pick(&["UNION", "UNION ALL", "INTERSECT", "EXCEPT", "INTERSECT ALL", "EXCEPT ALL"]);
            s.push_str(&format!(" {op} {}", self.select(d + 1)));
        }
        if self.ch(1, 3) { s.push_str(" ORDER BY "); s.push_str(&self.order_list(d)); }
        if self.ch(1, 4) { s.push_str(" LIMIT "); s.push_str(&self.limit()); }
        if self.ch(1, 8) { s.push_str(" OFFSET "); s.push_str(&self.limit()); }
        if self.ch(1, 30) { s.push_str(&self.pick(&[" FOR UPDATE", " FOR SHARE", " FOR UPDATE NOWAIT", " FOR UPDATE SKIP LOCKED"])); }
        s
    }
    fn returning(&mut self) -> String {
        if self.ch(1, 4) { format!(" RETURNING {}", if self.ch(1, 2) { "*".to_string() } else { self.expr(2) }) } else { String::new() }
    }
    pub fn insert(&mut self) -> String {
        let t = self.table();
        let mut s = format!("{} INTO {t}", self.pick(&["INSERT", "INSERT", "INSERT", "INSERT OR REPLACE", "INSERT OR IGNORE", "UPSERT", "REPLACE"]));
        if self.ch(1, 3) {
            let n = 1 + self.rng.below(4);
            let cols: Vec<String> = (0..n).map(|_| self.pick(COLS)).collect();
            s.push_str(&format!(" ({})", cols.join(", ")));
        }
        match self.rng.below(10) {
            0 => s.push_str(" DEFAULT VALUES"),
            1 => { s.push(' '); s.push_str(&self.select(1)); }
            _ => {
                let rows = *self.rng.pick(&[1u64, 1, 1, 2, 3, 10]);
                let width = *self.rng.pick(&[0u64, 1, 2, 4, 6, 6, 6, 6, 7]);
                let mut rs = vec![];
                for _ in 0..rows {
                    let vals: Vec<String> = (0..width).map(|i| if i == 0 && self.ch(3, 4) { format!("{}", 100 + self.rng.below(50)) } else if self.ch(1, 5) { self.expr(2) } else { self.lit() }).collect();
                    rs.push(format!("({})", vals.join(", ")));
                }
                s.push_str(" VALUES ");
                s.push_str(&rs.join(", "));
            }
        }
        if self.ch(1, 5) {
            s.push_str(" ON CONFLICT");
            if self.ch(2, 3) { s.push_str(&format!(" ({})", self.pick(COLS))); }
            if self.ch(1, 2) { s.push_str(" DO NOTHING"); } else { s.push_str(&format!(" DO UPDATE SET {} = {}", self.pick(COLS), self.pick(&["EXCLUDED.a", "a + 1", "NULL", "excluded.nosuch", "9223372036854775807 + a"]))); }
        }
        if self.ch(1, 12) { s.push_str(" ON DUPLICATE KEY UPDATE a = a + 1"); }
        s.push_str(&self.returning());
        s
    }
    pub fn update(&mut self) -> String {
        let mut s = format!("UPDATE {} SET ", self.table());
        let n = 1 + self.rng.below(3);
        let sets: Vec<String> = (0..n).map(|_| format!("{} = {}", self.pick(COLS), self.expr(2))).collect();
        s.push_str(&sets.join(", "));
        if self.ch(1, 10) { s.push_str(&format!(" FROM {}", self.from(2))); }
        if self.ch(3, 4) { s.push_str(" WHERE "); s.push_str(&self.expr(1)); }
        s.push_str(&self.returning());
        s
    }
    pub fn delete(&mut self) -> String {
        let mut s = format!("DELETE FROM {}", self.table());
        if self.ch(1, 10) { s.push_str(&format!(" USING {}", self.table())); }
        if self.ch(3, 4) { s.push_str(" WHERE "); s.push_str(&self.expr(1)); }
        s.push_str(&self.returning());
        s
    }
    fn coldef(&mut self, i: u64) -> String {
        let mut s = format!("{} {}", if self.ch(1, 8) { self.pick(COLS) } else { format!("c{i}") }, self.ty());
        for _ in 0..self.rng.below(3) {
            s.push(' ');
            let c = match self.rng.below(11) {
                0 => "PRIMARY KEY".to_string(),
                1 => "NOT NULL".into(),
                2 => "NULL".into(),
                3 => "UNIQUE".into(),
                4 => format!("DEFAULT {}", self.lit()),
                5 => format!("DEFAULT ({})", self.expr(2)),
                6 => format!("CHECK ({})", self.expr(2)),
                7 => format!("REFERENCES {}({}){}", self.table(), self.pick(COLS), self.pick(&["", " ON DELETE CASCADE", " ON DELETE SET NULL", " ON UPDATE RESTRICT", " ON DELETE SET DEFAULT ON UPDATE NO ACTION"])),
                8 => "AUTO_INCREMENT".into(),
                9 => "GENERATED ALWAYS AS (a + 1) STORED".into(),
                _ => "COLLATE nocase".into(),
            };
            s.push_str(&c);
        }
        s
    }
    pub fn ddl(&mut self) -> String {
        let newt = format!("{}", self.pick(&["n1", "n2", "n3", "t1", "root.n4", "nosuch.n5", "\"we ird\"", "select"]));
        match self.rng.below(22) {
            0..=4 => {
                let n = *self.rng.pick(&[0u64, 1, 2, 3, 5, 8]);
                let mut defs: Vec<String> = (0..n).map(|i| self.coldef(i)).collect();
                if self.ch(1, 4) {
                    defs.push(match self.rng.below(5) {
                        0 => "PRIMARY KEY (c0, c1)".into(),
                        1 => "UNIQUE (c0)".to_string(),
                        2 => format!("CHECK ({})", self.expr(2)),
                        3 => "FOREIGN KEY (c0) REFERENCES t1(id) ON DELETE CASCADE".into(),
                        _ => "CONSTRAINT cn UNIQUE (c1, c0)".into(),
                    });
                }
                format!("CREATE {}TABLE {}{newt} ({})", self.pick(&["", "", "TEMP ", "TEMPORARY "]), self.pick(&["", "", "IF NOT EXISTS "]), defs.join(", "))
            }
            5..=7 => {
                let n = 1 + self.rng.below(3);
                let cols: Vec<String> = (0..n).map(|_| if self.ch(1, 6) { format!("({})", self.expr(2)) } else { format!("{}{}", self.pick(COLS), self.pick(&["", "", " ASC", " DESC"])) }).collect();
                let mut s = format!("CREATE {}INDEX {}ix{} ON {}{} ({})", self.pick(&["", "UNIQUE "]), self.pick(&["", "IF NOT EXISTS "]), self.rng.below(4), self.table(), self.pick(&["", "", " USING btree", " USING hnsw", " USING hash", " USING nosuch"]), cols.join(", "));
                if self.ch(1, 6) { s.push_str(&format!(" WITH (m = {}, ef_construction = {})", self.lit(), self.lit())); }
                if self.ch(1, 6) { s.push_str(&format!(" WHERE {}", self.expr(2))); }
                s
            }
            8 => format!("CREATE SCHEMA {}{}", self.pick(&["", "IF NOT EXISTS "]), self.pick(&["s1", "root", "nosuch"])),
            9 => format!("CREATE {}VIEW {} AS {}", self.pick(&["", "OR REPLACE ", "MATERIALIZED "]), self.pick(&["v1", "v2", "t1"]), self.select(1)),
            10 => format!("DROP {} {}{}{}", self.pick(&["TABLE", "TABLE", "INDEX", "VIEW", "SCHEMA", "FUNCTION", "TRIGGER", "TYPE"]), self.pick(&["", "IF EXISTS "]), self.pick(&["t1", "t2", "t3", "n1", "ix0", "t1_a", "v1", "s1", "root", "nosuch"]), self.pick(&["", " CASCADE", " RESTRICT"])),
            11 => format!("TRUNCATE {}{}{}", self.pick(&["", "TABLE "]), self.table(), self.pick(&["", " CASCADE", " RESTART IDENTITY"])),
            12..=15 => {
                let t = self.table();
                let act = match self.rng.below(10) {
                    0 => format!("ADD COLUMN {}", self.coldef(9)),
                    1 => format!("ADD {}", self.coldef(8)),
                    2 => format!("DROP COLUMN {}{}", self.pick(&["", "IF EXISTS "]), self.pick(COLS)),
                    3 => format!("RENAME COLUMN {} TO {}", self.pick(COLS), self.pick(COLS)),
                    4 => format!("RENAME TO {}", self.pick(&["n9", "t2", "t1"])),
                    5 => format!("ALTER COLUMN {} SET DEFAULT {}", self.pick(COLS), self.lit()),
                    6 => format!("ALTER COLUMN {} DROP DEFAULT", self.pick(COLS)),
                    7 => format!("ALTER COLUMN {} {} NOT NULL", self.pick(COLS), self.pick(&["SET", "DROP"])),
                    8 => format!("ALTER COLUMN {} TYPE {}", self.pick(COLS), self.ty()),
                    _ => format!("ADD CONSTRAINT cx {}", self.pick(&["UNIQUE (a)", "CHECK (a > 0)", "PRIMARY KEY (a)", "FOREIGN KEY (a) REFERENCES t2(id)"])),
                };
                format!("ALTER TABLE {t} {act}")
            }
            16 => format!("CREATE {}FUNCTION f1({}) RETURNS {} {} AS $$ SELECT 1 $$", self.pick(&["", "OR REPLACE "]), self.pick(&["", "a INT", "a INT, b TEXT DEFAULT 'x'"]), self.ty(), self.pick(&["LANGUAGE sql", "", "LANGUAGE plpgsql IMMUTABLE"])),
            17 => format!("CREATE PROCEDURE p1({}) {} AS $$ BEGIN END $$", self.pick(&["", "IN a INT", "INOUT a INT, OUT b TEXT"]), self.pick(&["LANGUAGE sql", ""])),
            18 => format!("CREATE {}TRIGGER tr1 {} {} ON {} {} EXECUTE {} f1()", self.pick(&["", "OR REPLACE "]), self.pick(&["BEFORE", "AFTER", "INSTEAD OF"]), self.pick(&["INSERT", "UPDATE", "DELETE", "INSERT OR UPDATE", "UPDATE OF a"]), self.table(), self.pick(&["", "FOR EACH ROW", "FOR EACH STATEMENT", "FOR EACH ROW WHEN (a > 1)"]), self.pick(&["FUNCTION", "PROCEDURE"])),
            19 => format!("CREATE TYPE ty1 AS {}", self.pick(&["ENUM ('a', 'b')", "ENUM ()", "(x INT, y TEXT)", "ENUM ('a', 'a')"])),
            20 => format!("CREATE DOMAIN d1 AS {} {}", self.ty(), self.pick(&["", "NOT NULL", "CHECK (VALUE > 0)", "DEFAULT 1"])),
            _ => format!("CALL {}({})", self.pick(&["p1", "nosuch"]), self.lit()),
        }
    }
    pub fn txn(&mut self) -> String {
        match self.rng.below(14) {
            0..=2 => format!("BEGIN{}{}", self.pick(&["", " TRANSACTION", " WORK"]), self.pick(&["", "", " ISOLATION LEVEL SERIALIZABLE", " ISOLATION LEVEL READ COMMITTED", " READ ONLY", " READ WRITE", " ISOLATION LEVEL REPEATABLE READ READ ONLY", " DEFERRABLE"])),
            3..=4 => "COMMIT".into(),
            5..=6 => "ROLLBACK".into(),
            7..=8 => format!("SAVEPOINT {}", self.pick(&["sp1", "sp2", "sp1", "\"\"", "select"])),
            9 => format!("ROLLBACK TO {}{}", self.pick(&["", "SAVEPOINT "]), self.pick(&["sp1", "sp2", "nosuch"])),
            10 => format!("RELEASE {}{}", self.pick(&["", "SAVEPOINT "]), self.pick(&["sp1", "sp2", "nosuch"])),
            11 => "START TRANSACTION".into(),
            12 => "END".into(),
            _ => "ABORT".into(),
        }
    }
    pub fn misc(&mut self) -> String {
        match self.rng.below(16) {
            0..=3 => {
                let p = self.pick(PRAGMAS);
                match self.rng.below(5) {
                    0 => format!("PRAGMA {p}"),
                    1 => format!("PRAGMA {p} = {}", self.pick(PRAGMA_VALS)),
                    2 => format!("PRAGMA {p}({})", self.pick(PRAGMA_VALS)),
                    3 => format!("PRAGMA {p} {}", self.pick(PRAGMA_VALS)),
                    _ => format!("PRAGMA {p} = {}", self.lit()),
                }
            }
            4..=6 => {
                let inner = match self.rng.below(5) { 0 => self.insert(), 1 => self.update(), 2 => self.delete(), 3 => self.ddl(), _ => self.select(0) };
                format!("EXPLAIN {}{inner}", self.pick(&["", "", "ANALYZE ", "VERBOSE ", "ANALYZE VERBOSE ", "(FORMAT JSON) ", "(ANALYZE, FORMAT TEXT) ", "QUERY PLAN "]))
            }
            7..=8 => format!("SET {}{} {} {}", self.pick(&["", "", "SESSION ", "LOCAL "]), self.pick(&["foreign_keys", "FOREIGN_KEYS", "search_path", "x", "timezone"]), self.pick(&["=", "TO"]), self.pick(&["ON", "OFF", "1", "0", "'on'", "TRUE", "DEFAULT", "9223372036854775808", "a, b", "-1", "1.5", "NULL"])),
            9 => format!("SHOW {}", self.pick(&["TABLES", "foreign_keys", "ALL", "search_path", "DATABASES", "COLUMNS FROM t1"])),
            10 => format!("RESET {}", self.pick(&["foreign_keys", "ALL", "x"])),
            11 => format!("GRANT {} ON {}{} TO {}{}", self.pick(&["SELECT", "ALL", "ALL PRIVILEGES", "INSERT, UPDATE", "nosuch"]), self.pick(&["", "TABLE ", "SCHEMA ", "ALL TABLES IN SCHEMA "]), self.table(), self.pick(&["u1", "PUBLIC", "u1, u2"]), self.pick(&["", " WITH GRANT OPTION"])),
            12 => format!("REVOKE {}{} ON {} FROM {}{}", self.pick(&["", "GRANT OPTION FOR "]), self.pick(&["SELECT", "ALL"]), self.table(), self.pick(&["u1", "PUBLIC"]), self.pick(&["", " CASCADE"])),
            13..=14 => {
                let t = self.table();
                let mut s = format!("MERGE INTO {t} AS tgt USING {} AS src ON {}", self.table(), self.expr(2));
                for _ in 0..1 + self.rng.below(3) {
                    s.push_str(&match self.rng.below(4) {
                        0 => format!(" WHEN MATCHED THEN UPDATE SET a = {}", self.expr(2)),
                        1 => " WHEN MATCHED THEN DELETE".to_string(),
                        2 => format!(" WHEN NOT MATCHED THEN INSERT (id, a) VALUES ({}, {})", self.lit(), self.lit()),
                        _ => format!(" WHEN MATCHED AND {} THEN DO NOTHING", self.expr(2)),
                    });
                }
                s
            }
            _ => format!("SELECT {}", self.expr(0)),
        }
    }
    /// one statement of any kind; returns (kind, sql)
    pub fn statement(&mut self) -> (&'static str, String) {
        match self.rng.below(20) {
            0..=7 => ("select", self.select(0)),
            8..=9 => ("insert", self.insert()),
            10..=11 => ("update", self.update()),
            12 => ("delete", self.delete()),
            13..=15 => ("ddl", self.ddl()),
            16 => ("txn", self.txn()),
            17..=18 => ("misc", self.misc()),
            _ => ("selexpr", format!("SELECT {}", self.expr(0))),
        }
    }
}

/// split into "tokens" good enough for token-level mutation (words, numbers, quoted strings, single symbols)
pub fn rough_tokens(s: &str) -> Vec<String> {
    let cs: Vec<char> = s.chars().collect();
    let mut out = vec![];
    let mut i = 0;
    while i < cs.len() {
        let c = cs[i];
        if c.is_whitespace() { i += 1; continue; }
        let st = i;
        if c.is_alphanumeric() || c == '_' {
            while i < cs.len() && (cs[i].is_alphanumeric() || cs[i] == '_' || cs[i] == '.') { i += 1; }
        } else if c == '\'' || c == '"' {
            i += 1;
            while i < cs.len() && cs[i] != c { i += 1; }
            i = (i + 1).min(cs.len());
        } else {
            i += 1;
        }
        out.push(cs[st..i].iter().collect());
    }
    out
}

const SPLICE: &[&str] = &[
    "(", ")", ",", ";", "'", "\"", "`", "--", "/*", "*/", "$$", "$", "?", ":", "::", ".", "..", "NULL", "SELECT", "FROM", "WHERE", "AND", "NOT", "(SELECT", "VALUES",
    "9223372036854775807", "-", "- -", "+", "*", "||", "<-", "<#", "!", "@", "#", "\\", "[", "]", "{", "}", "0x", "1e", "x'", "é", "\u{0}", "\u{feff}", "\u{2028}", "😀",
    "ORDER BY", "GROUP BY", "LIMIT", "OVER (", "CASE", "END", "JOIN", "ON", "UNION", "AS", "IN (", "BETWEEN", "LIKE", "IS", "SET", "INTO", "RETURNING", "DEFAULT", "PRIMARY KEY",
];

/// token-level / byte-level mutation of a statement (always returns valid UTF-8)
pub fn mutate(rng: &mut Rng, s: &str) -> (&'static str, String) {
    match rng.below(12) {
        0..=6 => {
            let mut t = rough_tokens(s);
            if t.is_empty() { return ("tok-empty", String::new()); }
            let n = 1 + rng.below(3);
            let mut kind = "tok";
            for _ in 0..n {
                if t.is_empty() { break; }
                let i = rng.below(t.len() as u64) as usize;
                match rng.below(7) {
                    0 => { t.remove(i); kind = "tok-del"; }
                    1 => { let x = t[i].clone(); t.insert(i, x); kind = "tok-dup"; }
                    2 => { let j = rng.below(t.len() as u64) as usize; t.swap(i, j); kind = "tok-swap"; }
                    3 => { t[i] = rng.pick(SPLICE).to_string(); kind = "tok-repl"; }
                    4 => { t.insert(i, rng.pick(SPLICE).to_string()); kind = "tok-ins"; }
                    5 => { t.truncate(i); kind = "tok-trunc"; }
                    _ => { t[i] = rng.pick(INT_LITS).to_string(); kind = "tok-lit"; }
                }
            }
            (kind, t.join(" "))
        }
        7..=9 => {
            let mut b = s.as_bytes().to_vec();
            if b.is_empty() { return ("byte-empty", String::new()); }
            let n = 1 + rng.below(4);
            for _ in 0..n {
                if b.is_empty() { break; }
                let i = rng.below(b.len() as u64) as usize;
                match rng.below(5) {
                    0 => { b[i] ^= 1 << rng.below(8); }
                    1 => { b[i] = rng.next() as u8; }
                    2 => { b.remove(i); }
                    3 => { let x = rng.next() as u8; b.insert(i, x); }
                    _ => { let x = *rng.pick(&[b'\'', b'"', b'(', b')', b'-', b'/', b'*', b'$', b'\\', 0u8, 0xc3, 0xe2, 0xf0, 0x80, b'<', b'.', b':']); b.insert(i, x); }
                }
            }
            ("byte", String::from_utf8_lossy(&b).into_owned())
        }
        10 => {
            // truncate at a char boundary
            let cs: Vec<char> = s.chars().collect();
            let k = rng.below(cs.len() as u64 + 1) as usize;
            ("trunc", cs[..k].iter().collect())
        }
        _ => {
            // splice two statements' halves happens in the caller; here: duplicate a random span
            let cs: Vec<char> = s.chars().collect();
            if cs.is_empty() { return ("span-empty", String::new()); }
            let a = rng.below(cs.len() as u64) as usize;
            let b = a + rng.below((cs.len() - a) as u64 + 1) as usize;
            let mut o: String = cs[..b].iter().collect();
            o.extend(cs[a..].iter());
            ("span-dup", o)
        }
    }
}

/// parameter value in the case syntax (see robust.rs `parse_param`)
pub fn gen_param(rng: &mut Rng) -> String {
    match rng.below(24) {
        0..=4 => format!("i{}", *rng.pick(&[0i64, 1, -1, 7, 100, 127, 128, 32767, 32768, 2147483647, 2147483648, -2147483649, i64::MAX, i64::MIN, i64::MAX - 1, i64::MIN + 1])),
        5..=6 => format!("f{:x}", rng.pick(&[0.0f64, -0.0, 1.5, -1.5, f64::NAN, f64::INFINITY, f64::NEG_INFINITY, f64::MAX, f64::MIN_POSITIVE, 5e-324, 9.3e18, -9.3e18, 1e19]).to_bits()),
        7..=10 => {
            let s: String = match rng.below(8) {
                0 => String::new(),
                1 => "x".repeat(*rng.pick(&[1usize, 15, 16, 17, 255, 256, 4000, 70000])),
                2 => "é日本😀".into(),
                3 => "a\u{0}b".into(),
                4 => rng.pick(STR_LITS).trim_matches('\'').to_string(),
                5 => "9223372036854775808".into(),
                6 => "2024-02-29".into(),
                _ => "abc".into(),
            };
            format!("t{}", hex(s.as_bytes()))
        }
        11..=12 => { let n = *rng.pick(&[0usize, 1, 3, 16, 255, 5000]); format!("b{}", hex(&rng.bytes(n))) }
        13 => "n".into(),
        14 => format!("B{}", rng.below(2)),
        15 => {
            let n = *rng.pick(&[0usize, 1, 3, 3, 3, 4, 128]);
            let v: Vec<String> = (0..n).map(|_| format!("{:x}", rng.pick(&[0.0f32, 1.0, -1.0, f32::NAN, f32::INFINITY, f32::MAX, 1e-40, 0.5]).to_bits())).collect();
            format!("v{}", if v.is_empty() { "-".to_string() } else { v.join("_") })
        }
        16 => format!("d{}", *rng.pick(&[0i32, 1, -1, 19782, i32::MAX, i32::MIN, 2932896, 2932897, -719528, -719529, -719163])),
        17 => format!("T{}", *rng.pick(&[0i64, 86_399_999_999, 86_400_000_000, -1, i64::MAX, i64::MIN])),
        18 => format!("s{}", *rng.pick(&[0i64, 1, -1, 1709251199000000, i64::MAX, i64::MIN, 253402300799999999, 253402300800000000, -62135596800000000, -62135596800000001])),
        19 => format!("z{}_{}", *rng.pick(&[0i64, i64::MAX, i64::MIN, -1]), *rng.pick(&[0i32, 3600, -3600, i32::MAX, i32::MIN, 86400])),
        20 => format!("u{}", hex(&rng.bytes(16))),
        21 => { let n = *rng.pick(&[0usize, 1, 2, 4, 8, 9, 64]); format!("j{}", hex(&rng.bytes(n))) }
        22 => format!("D{}_{}", *rng.pick(&[0i128, 1, -1, i128::MAX, i128::MIN, 12345]), *rng.pick(&[0i16, 2, -2, i16::MAX, i16::MIN, 38, 39])),
        _ => match rng.below(4) {
            0 => format!("e{}_{}", rng.below(65536), rng.below(65536)),
            1 => { let n = *rng.pick(&[0usize, 1, 8, 16, 24, 40]); format!("p{}", hex(&rng.bytes(n))) }
            2 => format!("I{}_{}_{}", *rng.pick(&[0i64, i64::MAX, i64::MIN]), *rng.pick(&[0i32, i32::MAX, i32::MIN]), *rng.pick(&[0i32, i32::MAX, i32::MIN])),
            _ => format!("P{:x}_{:x}", f64::NAN.to_bits(), rng.pick(&[0.0f64, f64::INFINITY, 1.0]).to_bits()),
        },
    }
}

/// statements with placeholders for the parameter layer
pub fn param_statement(rng: &mut Rng) -> String {
    let ph = |rng: &mut Rng, i: u64| -> String {
        match rng.below(8) { 0 => format!("${}", i + 1), 1 => format!("${}", i + 2), 2 => ":p".into(), 3 => format!("${}", rng.pick(&[0u64, 1, 1, 2, 3, 100, 4294967295])), _ => "?".into() }
    };
    match rng.below(14) {
        0 => format!("SELECT {}", ph(rng, 0)),
        1 => format!("SELECT id, a FROM t1 WHERE id = {}", ph(rng, 0)),
        2 => format!("SELECT id FROM t1 WHERE a > {} AND s LIKE {}", ph(rng, 0), ph(rng, 1)),
        3 => format!("INSERT INTO t1 VALUES ({}, {}, {}, {}, {}, {})", ph(rng, 0), ph(rng, 1), ph(rng, 2), ph(rng, 3), ph(rng, 4), ph(rng, 5)),
        4 => format!("INSERT INTO t1 (id, a) VALUES ({}, {})", ph(rng, 0), ph(rng, 1)),
        5 => format!("INSERT INTO t3 VALUES ({}, {}, {}, {}, {})", ph(rng, 0), ph(rng, 1), ph(rng, 2), ph(rng, 3), ph(rng, 4)),
        6 => format!("UPDATE t1 SET a = {} WHERE id = {}", ph(rng, 0), ph(rng, 1)),
        7 => format!("UPDATE t1 SET a = a + {}, s = {} WHERE id < {}", ph(rng, 0), ph(rng, 1), ph(rng, 2)),
        8 => format!("DELETE FROM t2 WHERE n = {} OR v = {}", ph(rng, 0), ph(rng, 1)),
        9 => format!("SELECT id FROM t1 ORDER BY id LIMIT {} OFFSET {}", ph(rng, 0), ph(rng, 1)),
        10 => format!("SELECT {} + {}, {} || {}, -{}", ph(rng, 0), ph(rng, 1), ph(rng, 2), ph(rng, 3), ph(rng, 4)),
        11 => format!("INSERT INTO t2 VALUES ({}, {}, {}, {}) ON CONFLICT (id) DO UPDATE SET n = {}", ph(rng, 0), ph(rng, 1), ph(rng, 2), ph(rng, 3), ph(rng, 4)),
        12 => format!("SELECT id FROM t1 WHERE a IN ({}, {}, {}) OR a BETWEEN {} AND {}", ph(rng, 0), ph(rng, 1), ph(rng, 2), ph(rng, 3), ph(rng, 4)),
        _ => format!("SELECT id FROM t3 WHERE j = {} OR bl = {} OR d = {} OR ts = {}", ph(rng, 0), ph(rng, 1), ph(rng, 2), ph(rng, 3)),
    }
}
