//! Helpers shared by the C15/C16 engines (`sql_order`, `sql_agg`): self-contained one-line cases
//! (tables + SQL text + model s-expression + oracle metadata), the specification comparator on
//! result cells (the property's own oracle, evaluated in Rust independently of the Lean model),
//! bag/sub-bag helpers, table loading.
#![allow(dead_code)]
use crate::common::*;
use crate::sqlgen::*;
use std::cmp::Ordering;

// ---------------------------------------------------------------- cells

/// model-cell syntax of a generated value (`I5`, `F3/4`, `T6162`, `B1`, `N`)
pub fn v_cell(v: &V) -> String {
    match v {
        V::Null => "N".into(),
        V::Bool(b) => format!("B{}", *b as u8),
        V::Int(i) => format!("I{i}"),
        V::Flt(n, d) => format!("F{n}/{d}"),
        V::Text(s) => format!("T{}", hex(s.as_bytes())),
    }
}

pub fn parse_cell(c: &str) -> Option<V> {
    match c.as_bytes().first()? {
        b'N' => Some(V::Null),
        b'B' => Some(V::Bool(c == "B1")),
        b'I' => c[1..].parse().ok().map(V::Int),
        b'F' => { let (n, d) = c[1..].split_once('/')?; Some(V::Flt(n.parse().ok()?, d.parse().ok()?)) }
        b'T' => String::from_utf8(unhex(&c[1..])).ok().map(V::Text),
        _ => None,
    }
}

#[derive(Clone, Debug, PartialEq)]
pub enum CV { Null, Bool(bool), Num(f64), Text(Vec<u8>), Other(String) }

/// parse an engine cell (`F1.5`) or a model cell (`F3/2`)
pub fn cv(c: &str) -> CV {
    match c.as_bytes().first() {
        Some(b'N') if c == "N" => CV::Null,
        Some(b'B') => CV::Bool(c == "B1"),
        Some(b'I') => c[1..].parse::<f64>().map(CV::Num).unwrap_or(CV::Other(c.into())),
        Some(b'F') => {
            if let Some((n, d)) = c[1..].split_once('/') {
                match (n.parse::<f64>(), d.parse::<f64>()) { (Ok(a), Ok(b)) => CV::Num(a / b), _ => CV::Other(c.into()) }
            } else { c[1..].parse::<f64>().map(CV::Num).unwrap_or(CV::Other(c.into())) }
        }
        Some(b'T') => CV::Text(unhex(&c[1..])),
        _ => CV::Other(c.into()),
    }
}

fn rank(v: &CV) -> u8 { match v { CV::Null => 0, CV::Bool(_) => 1, CV::Num(_) => 2, CV::Text(_) => 3, CV::Other(_) => 4 } }

/// the specification's ascending order on one key: NULL lowest, then by type rank, numbers by
/// value, text by code points (= UTF-8 bytes), FALSE < TRUE
pub fn cell_cmp(a: &str, b: &str) -> Ordering {
    let (x, y) = (cv(a), cv(b));
    match (&x, &y) {
        (CV::Null, CV::Null) => Ordering::Equal,
        (CV::Bool(p), CV::Bool(q)) => p.cmp(q),
        (CV::Num(p), CV::Num(q)) => p.partial_cmp(q).unwrap_or(Ordering::Equal),
        (CV::Text(p), CV::Text(q)) => p.cmp(q),
        (CV::Other(p), CV::Other(q)) => p.cmp(q),
        _ => rank(&x).cmp(&rank(&y)),
    }
}

/// lexicographic comparison of key tuples, `dirs[i]` = true for DESC
pub fn keys_cmp(a: &[String], b: &[String], dirs: &[bool]) -> Ordering {
    for i in 0..dirs.len().min(a.len()).min(b.len()) {
        let c = cell_cmp(&a[i], &b[i]);
        if c != Ordering::Equal { return if dirs[i] { c.reverse() } else { c }; }
    }
    Ordering::Equal
}

/// "not distinct" on cells: NULL same as NULL, numbers by value (engine booleans may be 0/1)
pub fn cells_same(a: &str, b: &str) -> bool { cells_agree(a, b) || cells_agree(b, a) }
pub fn rows_same(a: &[String], b: &[String]) -> bool { a.len() == b.len() && a.iter().zip(b).all(|(x, y)| cells_same(x, y)) }

/// is `small` a sub-multiset of `big` (rows compared with `rows_same`)?
pub fn sub_bag(small: &[Vec<String>], big: &[Vec<String>]) -> bool {
    let mut used = vec![false; big.len()];
    'o: for a in small {
        for (j, b) in big.iter().enumerate() { if !used[j] && rows_same(a, b) { used[j] = true; continue 'o; } }
        return false;
    }
    true
}

pub fn distinct_rows(rows: &[Vec<String>]) -> Vec<Vec<String>> {
    let mut out: Vec<Vec<String>> = vec![];
    for r in rows { if !out.iter().any(|o| rows_same(o, r)) { out.push(r.clone()); } }
    out
}

pub fn kind_of(c: &str) -> &'static str {
    match cv(c) { CV::Null => "null", CV::Bool(_) => "bool", CV::Num(_) => if c.starts_with('I') { "int" } else { "float" }, CV::Text(_) => "text", CV::Other(_) => "other" }
}

pub fn ty_kind(t: Ty) -> &'static str { match t { Ty::Int => "int", Ty::Flt => "float", Ty::Text => "text", Ty::Bool => "bool" } }
fn ty_code(t: Ty) -> &'static str { match t { Ty::Int => "I", Ty::Flt => "F", Ty::Text => "T", Ty::Bool => "B" } }

// ---------------------------------------------------------------- tables <-> one-line text

pub fn tables_spec(ts: &[TableSpec]) -> String {
    ts.iter().map(|t| format!("{}({})={}", t.name,
        t.cols.iter().map(|(n, ty)| format!("{n}:{}", ty_code(*ty))).collect::<Vec<_>>().join(" "),
        if t.rows.is_empty() { "-".to_string() } else { t.rows.iter().map(|r| r.iter().map(v_cell).collect::<Vec<_>>().join(",")).collect::<Vec<_>>().join(";") }
    )).collect::<Vec<_>>().join(" | ")
}

pub fn parse_tables(s: &str) -> Option<Vec<TableSpec>> {
    let mut out = vec![];
    for part in s.split(" | ") {
        let (head, rows) = part.split_once('=')?;
        let (name, cols) = head.split_once('(')?;
        let cols = cols.strip_suffix(')')?;
        let mut cs = vec![];
        for c in cols.split(' ') {
            let (n, t) = c.split_once(':')?;
            cs.push((n.to_string(), match t { "I" => Ty::Int, "F" => Ty::Flt, "T" => Ty::Text, "B" => Ty::Bool, _ => return None }));
        }
        let mut rs = vec![];
        if rows != "-" {
            for r in rows.split(';') {
                let row: Option<Vec<V>> = r.split(',').map(parse_cell).collect();
                rs.push(row?);
            }
        }
        out.push(TableSpec { name: name.trim().to_string(), cols: cs, rows: rs });
    }
    Some(out)
}

pub struct World {
    pub dbh: Dbh,
    pub spec: String,
    pub tables: Vec<TableSpec>,
}

/// create the tables in a fresh database and in the model
pub fn load_world(ctx: &Ctx, tag: &str, model: &mut Model, tables: &[TableSpec]) -> World {
    let dbh = Dbh::create(ctx, tag);
    model.ask("reset");
    for t in tables {
        dbh.must(&t.create_sql());
        for s in t.insert_sqls() { dbh.must(&s); }
        for l in t.model_lines() { let r = model.ask(&l); assert!(r == "ok", "model rejected {l}: {r}"); }
    }
    World { dbh, spec: tables_spec(tables), tables: tables.to_vec() }
}

/// engine result or a short error class
pub fn run_engine(dbh: &Dbh, sql: &str) -> Result<Vec<Vec<String>>, String> {
    match dbh.exec(sql) {
        Out::Rows(r) => Ok(r),
        Out::Err(e) => Err(format!("err-{}", error_class(&e))),
        Out::Panic(p) => Err(format!("panic-{}", panic_class(&p))),
        o => Err(format!("unexpected-{}", format!("{o:?}").chars().take(20).collect::<String>())),
    }
}

pub fn panic_class(p: &str) -> &'static str {
    let m = p.to_lowercase();
    if m.contains("index out of bounds") { "index-out-of-bounds" }
    else if m.contains("overflow") { "overflow" }
    else if m.contains("unwrap") { "unwrap" }
    else if m.contains("divide by zero") || m.contains("division by zero") { "divzero" }
    else { "other" }
}

pub fn run_model(model: &mut Model, sx: &str) -> Result<Vec<Vec<String>>, String> {
    parse_model_rows(&model.ask(&format!("query {sx}")))
}

/// SELECT text of `sel` with the ORDER BY items replaced by `order_items` (e.g. ordinals) when given
pub fn sel_sql_with_order(sel: &Sel, order_items: Option<&[String]>) -> String {
    match order_items {
        None => sel.sql(),
        Some(items) => {
            let mut s0 = sel.clone();
            s0.order = vec![]; s0.limit = None; s0.offset = 0;
            let mut s = s0.sql();
            if !items.is_empty() { s.push_str(&format!(" ORDER BY {}", items.join(", "))); }
            if let Some(l) = sel.limit { s.push_str(&format!(" LIMIT {l}")); }
            if sel.offset > 0 { s.push_str(&format!(" OFFSET {}", sel.offset)); }
            s
        }
    }
}

pub fn col(i: usize) -> E { E::Col(i) }
pub fn lit_i(i: i64) -> E { E::Lit(V::Int(i)) }
pub fn bin(op: Op, a: E, b: E) -> E { E::Bin(op, Box::new(a), Box::new(b)) }
/// `id > 0`: a predicate that is TRUE on every generated row
pub fn where_true() -> E { bin(Op::Gt, col(0), lit_i(0)) }

/// make sure every non-id column of `t` contains at least one NULL and one non-NULL value
pub fn force_nulls(t: &mut TableSpec) {
    let n = t.rows.len();
    if n < 2 { return; }
    for c in 1..t.cols.len() {
        if !t.rows.iter().any(|r| r[c] == V::Null) { let k = (c * 3) % n; t.rows[k][c] = V::Null; }
    }
}
