//! C26 helper: boundary-heavy generators for key values, neighbours and composite keys.
use super::keyenc_val::KV;
use crate::common::Rng;

pub const I64_EDGES: [i64; 26] = [
    i64::MIN, i64::MIN + 1, i64::MIN + 255, i64::MIN + 256, -(1 << 56), -(1 << 32) - 1, -(1 << 32), -(1 << 32) + 1,
    -65536, -257, -256, -255, -2, -1, 0, 1, 2, 255, 256, 257, 65535, (1 << 32) - 1, 1 << 32, 1 << 56,
    i64::MAX - 1, i64::MAX,
];
pub const I32_EDGES: [i32; 15] = [
    i32::MIN, i32::MIN + 1, -65536, -256, -255, -2, -1, 0, 1, 2, 255, 256, 65536, i32::MAX - 1, i32::MAX,
];
pub const I16_EDGES: [i16; 11] = [i16::MIN, i16::MIN + 1, -256, -255, -1, 0, 1, 255, 256, i16::MAX - 1, i16::MAX];
pub const U32_EDGES: [u32; 10] = [0, 1, 2, 255, 256, 65535, 65536, 0x7FFF_FFFF, 0x8000_0000, u32::MAX];

pub const F64_EDGES: [u64; 30] = [
    0x0000_0000_0000_0000, 0x8000_0000_0000_0000, // +0 -0
    0x0000_0000_0000_0001, 0x8000_0000_0000_0001, // min subnormal
    0x000F_FFFF_FFFF_FFFF, 0x800F_FFFF_FFFF_FFFF, // max subnormal
    0x0010_0000_0000_0000, 0x8010_0000_0000_0000, // min normal
    0x3FF0_0000_0000_0000, 0xBFF0_0000_0000_0000, // 1 -1
    0x3FF0_0000_0000_0001, 0xBFF0_0000_0000_0001, 0x3FEF_FFFF_FFFF_FFFF, 0xBFEF_FFFF_FFFF_FFFF,
    0x4004_0000_0000_0000, 0xC059_0000_0000_0000, // 2.5 -100
    0x7FEF_FFFF_FFFF_FFFF, 0xFFEF_FFFF_FFFF_FFFF, // max finite
    0x7FF0_0000_0000_0000, 0xFFF0_0000_0000_0000, // inf
    0x7FF8_0000_0000_0000, 0xFFF8_0000_0000_0000, 0x7FF0_0000_0000_0001, 0xFFF0_0000_0000_0001, // NaNs
    0x7FFF_FFFF_FFFF_FFFF, 0xFFFF_FFFF_FFFF_FFFF, 0x7FF4_0000_0000_00FF, 0xFFF4_0000_0000_FF00,
    0x00FF_00FF_00FF_00FF, 0xFF00_FF00_FF00_FF00 & 0xFFEF_FFFF_FFFF_FFFF,
];
pub const F32_EDGES: [u32; 20] = [
    0x0000_0000, 0x8000_0000, 0x0000_0001, 0x8000_0001, 0x007F_FFFF, 0x807F_FFFF, 0x0080_0000, 0x8080_0000,
    0x3F80_0000, 0xBF80_0000, 0x7F7F_FFFF, 0xFF7F_FFFF, 0x7F80_0000, 0xFF80_0000, 0x7FC0_0000, 0xFFC0_0000,
    0x7F80_0001, 0xFF80_0001, 0x7FFF_FFFF, 0xFFFF_FFFF,
];

pub fn gen_i64(r: &mut Rng) -> i64 {
    match r.below(4) {
        0 => *r.pick(&I64_EDGES),
        1 => r.pick(&I64_EDGES).wrapping_add(r.range(-3, 3)),
        2 => {
            let w = r.below(64) + 1;
            let v = (r.next() >> (64 - w)) as i64;
            if r.chance(1, 2) { v } else { v.wrapping_neg() }
        }
        _ => r.next() as i64,
    }
}
pub fn gen_i32(r: &mut Rng) -> i32 {
    match r.below(3) {
        0 => *r.pick(&I32_EDGES),
        1 => r.pick(&I32_EDGES).wrapping_add(r.range(-3, 3) as i32),
        _ => r.next() as i32,
    }
}
pub fn gen_i16(r: &mut Rng) -> i16 {
    if r.chance(1, 2) { *r.pick(&I16_EDGES) } else { r.next() as i16 }
}
pub fn gen_u32(r: &mut Rng) -> u32 {
    match r.below(3) {
        0 => *r.pick(&U32_EDGES),
        1 => r.pick(&U32_EDGES).wrapping_add(r.range(-2, 2) as u32),
        _ => r.next() as u32,
    }
}
pub fn gen_f64(r: &mut Rng) -> u64 {
    match r.below(5) {
        0 => *r.pick(&F64_EDGES),
        1 => r.pick(&F64_EDGES).wrapping_add(r.range(-2, 2) as u64),
        2 => ((r.below(2000) as f64 - 1000.0) / 8.0).to_bits(),
        3 => {
            // bytes of the pattern drawn from 00/01/FE/FF/random
            let mut v = 0u64;
            for _ in 0..8 {
                v = (v << 8) | gen_byte(r) as u64;
            }
            v
        }
        _ => r.next(),
    }
}
pub fn gen_f32(r: &mut Rng) -> u32 {
    match r.below(4) {
        0 => *r.pick(&F32_EDGES),
        1 => r.pick(&F32_EDGES).wrapping_add(r.range(-2, 2) as u32),
        2 => ((r.below(200) as f32 - 100.0) / 4.0).to_bits(),
        _ => r.next() as u32,
    }
}
pub fn gen_byte(r: &mut Rng) -> u8 {
    match r.below(8) {
        0 | 1 => 0x00,
        2 | 3 => 0xFF,
        4 => 0x01,
        5 => 0xFE,
        _ => r.next() as u8,
    }
}
pub fn gen_bytes(r: &mut Rng, max: usize) -> Vec<u8> {
    let n = if r.chance(1, 6) { 0 } else { r.below(max as u64 + 1) as usize };
    (0..n).map(|_| gen_byte(r)).collect()
}
const CHARS: [char; 14] = [
    '\0', '\u{1}', 'a', 'b', '\u{7f}', '\u{80}', '\u{ff}', '\u{7ff}', '\u{800}', '\u{d7ff}', '\u{e000}', '\u{ffff}',
    '\u{10000}', '\u{10ffff}',
];
pub fn gen_text(r: &mut Rng, max: usize) -> Vec<u8> {
    let n = if r.chance(1, 6) { 0 } else { r.below(max as u64 + 1) as usize };
    let mut s = String::new();
    for _ in 0..n {
        if r.chance(1, 8) {
            if let Some(c) = char::from_u32(r.below(0x110000) as u32) {
                s.push(c);
                continue;
            }
        }
        s.push(*r.pick(&CHARS));
    }
    s.into_bytes()
}
fn arr<const N: usize>(r: &mut Rng) -> [u8; N] {
    let mut a = [0u8; N];
    for x in a.iter_mut() {
        *x = gen_byte(r);
    }
    a
}

pub const KINDS: usize = 20;

/// one value of kind `k` (0..KINDS); containers recurse with `depth` levels left
pub fn gen_kind(r: &mut Rng, k: usize, depth: u32) -> KV {
    match k {
        0 => KV::Null,
        1 => KV::Bool(r.chance(1, 2)),
        2 => KV::Int(gen_i64(r)),
        3 => KV::Float(gen_f64(r)),
        4 => KV::Text(gen_text(r, 6)),
        5 => KV::Blob(gen_bytes(r, 8)),
        6 => KV::Date(gen_i32(r)),
        7 => KV::Time(gen_i64(r)),
        8 => KV::Timestamp(gen_i64(r)),
        9 => KV::TimestampTz(gen_i64(r), gen_i16(r)),
        10 => KV::Interval(gen_i32(r), gen_i32(r), gen_i64(r)),
        11 => KV::Uuid(arr::<16>(r)),
        12 => {
            let v6 = r.chance(1, 2);
            KV::Inet(v6, gen_byte(r), if v6 { arr::<16>(r).to_vec() } else { arr::<4>(r).to_vec() })
        }
        13 => KV::MacAddr(arr::<6>(r)),
        14 => KV::Enum(gen_u32(r), gen_u32(r)),
        15 => {
            let n = r.below(5) as usize;
            KV::Vector((0..n).map(|_| gen_f32(r)).collect())
        }
        16 => KV::Array(gen_list(r, depth)),
        17 => KV::Tuple(gen_list(r, depth)),
        18 => KV::Composite(gen_u32(r), gen_list(r, depth)),
        _ => KV::Domain(gen_u32(r), Box::new(gen_any(r, depth.saturating_sub(1)))),
    }
}

fn gen_list(r: &mut Rng, depth: u32) -> Vec<KV> {
    let n = r.below(4) as usize;
    if r.chance(1, 2) {
        // homogeneous
        let k = pick_kind(r, depth.saturating_sub(1));
        (0..n).map(|_| if r.chance(1, 6) { KV::Null } else { gen_kind(r, k, depth.saturating_sub(1)) }).collect()
    } else {
        (0..n).map(|_| gen_any(r, depth.saturating_sub(1))).collect()
    }
}

pub fn pick_kind(r: &mut Rng, depth: u32) -> usize {
    if depth == 0 {
        r.below(16) as usize
    } else {
        r.below(KINDS as u64) as usize
    }
}

pub fn gen_any(r: &mut Rng, depth: u32) -> KV {
    let k = pick_kind(r, depth);
    gen_kind(r, k, depth)
}

fn tweak_bytes(r: &mut Rng, b: &[u8]) -> Vec<u8> {
    let mut v = b.to_vec();
    match r.below(6) {
        0 => v.push(gen_byte(r)),
        1 => {
            v.pop();
        }
        2 if !v.is_empty() => {
            let i = r.below(v.len() as u64) as usize;
            v[i] = gen_byte(r);
        }
        3 if !v.is_empty() => {
            let i = r.below(v.len() as u64) as usize;
            v[i] = v[i].wrapping_add(if r.chance(1, 2) { 1 } else { 255 });
        }
        4 => {
            let i = r.below(v.len() as u64 + 1) as usize;
            v.insert(i, gen_byte(r));
        }
        _ => {
            let i = r.below(v.len() as u64 + 1) as usize;
            v.truncate(i);
            v.extend(gen_bytes(r, 3));
        }
    }
    v
}

fn tweak_text(r: &mut Rng, b: &[u8]) -> Vec<u8> {
    let s = std::str::from_utf8(b).unwrap();
    let mut cs: Vec<char> = s.chars().collect();
    match r.below(4) {
        0 => cs.push(*r.pick(&CHARS)),
        1 => {
            cs.pop();
        }
        2 if !cs.is_empty() => {
            let i = r.below(cs.len() as u64) as usize;
            cs[i] = *r.pick(&CHARS);
        }
        _ => {
            let i = r.below(cs.len() as u64 + 1) as usize;
            cs.truncate(i);
            cs.push(*r.pick(&CHARS));
        }
    }
    cs.into_iter().collect::<String>().into_bytes()
}

fn tweak_arr<const N: usize>(r: &mut Rng, a: &[u8; N]) -> [u8; N] {
    let mut b = *a;
    let i = r.below(N as u64) as usize;
    b[i] = if r.chance(1, 2) { b[i].wrapping_add(1) } else { gen_byte(r) };
    b
}

/// a neighbour of `v`: same kind, small change (shared prefixes, ±1, last field changed …)
pub fn tweak(r: &mut Rng, v: &KV, depth: u32) -> KV {
    let d = r.range(-2, 2);
    match v {
        KV::Null => KV::Null,
        KV::Bool(b) => KV::Bool(!b),
        KV::Int(n) => KV::Int(n.wrapping_add(d)),
        KV::Float(b) => KV::Float(if r.chance(1, 4) { b ^ (1 << 63) } else { b.wrapping_add(d as u64) }),
        KV::Text(b) => KV::Text(tweak_text(r, b)),
        KV::Blob(b) => KV::Blob(tweak_bytes(r, b)),
        KV::Date(n) => KV::Date(n.wrapping_add(d as i32)),
        KV::Time(n) => KV::Time(n.wrapping_add(d)),
        KV::Timestamp(n) => KV::Timestamp(n.wrapping_add(d)),
        KV::TimestampTz(a, z) => {
            if r.chance(1, 2) { KV::TimestampTz(*a, z.wrapping_add(d as i16)) } else { KV::TimestampTz(a.wrapping_add(d), *z) }
        }
        KV::Interval(a, b, c) => match r.below(3) {
            0 => KV::Interval(a.wrapping_add(d as i32), *b, *c),
            1 => KV::Interval(*a, b.wrapping_add(d as i32), *c),
            _ => KV::Interval(*a, *b, c.wrapping_add(d)),
        },
        KV::Uuid(a) => KV::Uuid(tweak_arr(r, a)),
        KV::Inet(f, p, a) => match r.below(3) {
            0 => KV::Inet(*f, p.wrapping_add(d as u8), a.clone()),
            1 => {
                let mut b = a.clone();
                let i = r.below(b.len() as u64) as usize;
                b[i] = gen_byte(r);
                KV::Inet(*f, *p, b)
            }
            _ => gen_kind(r, 12, 0),
        },
        KV::MacAddr(a) => KV::MacAddr(tweak_arr(r, a)),
        KV::Enum(a, b) => {
            if r.chance(1, 2) { KV::Enum(*a, b.wrapping_add(d as u32)) } else { KV::Enum(a.wrapping_add(d as u32), *b) }
        }
        KV::Vector(ds) => {
            let mut v = ds.clone();
            match r.below(4) {
                0 => v.push(gen_f32(r)),
                1 => {
                    v.pop();
                }
                2 if !v.is_empty() => {
                    let i = r.below(v.len() as u64) as usize;
                    v[i] = v[i].wrapping_add(d as u32);
                }
                _ if !v.is_empty() => {
                    let i = r.below(v.len() as u64) as usize;
                    v[i] = gen_f32(r);
                }
                _ => v.push(gen_f32(r)),
            }
            KV::Vector(v)
        }
        KV::Array(vs) => KV::Array(tweak_list(r, vs, depth)),
        KV::Tuple(vs) => KV::Tuple(tweak_list(r, vs, depth)),
        KV::Composite(t, vs) => {
            if r.chance(1, 4) { KV::Composite(t.wrapping_add(d as u32), vs.clone()) } else { KV::Composite(*t, tweak_list(r, vs, depth)) }
        }
        KV::Domain(t, x) => {
            if r.chance(1, 4) { KV::Domain(t.wrapping_add(d as u32), x.clone()) } else { KV::Domain(*t, Box::new(tweak(r, x, depth.saturating_sub(1)))) }
        }
        KV::Outside(_) => v.clone(),
    }
}

pub fn tweak_list(r: &mut Rng, vs: &[KV], depth: u32) -> Vec<KV> {
    let mut v = vs.to_vec();
    let dd = depth.saturating_sub(1);
    match r.below(5) {
        0 => v.push(gen_any(r, dd)),
        1 => {
            v.pop();
        }
        2 if !v.is_empty() => {
            let i = r.below(v.len() as u64) as usize;
            v[i] = tweak(r, &v[i].clone(), dd);
        }
        3 if !v.is_empty() => {
            let i = r.below(v.len() as u64) as usize;
            v[i] = if r.chance(1, 3) { KV::Null } else { gen_any(r, dd) };
        }
        _ => {
            let i = r.below(v.len() as u64 + 1) as usize;
            v.insert(i, if r.chance(1, 3) { KV::Null } else { gen_any(r, dd) });
        }
    }
    v
}

/// a pair of values: independent same kind / neighbour / identical / different kinds
pub fn gen_pair(r: &mut Rng) -> (KV, KV, &'static str) {
    let depth = r.below(3) as u32;
    let k = pick_kind(r, depth + 1);
    let a = gen_kind(r, k, depth);
    match r.below(20) {
        0..=7 => {
            let b = gen_kind(r, k, depth);
            (a, b, "same-kind")
        }
        8..=14 => {
            let b = tweak(r, &a, depth);
            (a, b, "neighbour")
        }
        15 => (a.clone(), a, "identical"),
        16 | 17 => {
            // numeric family mixes
            let a = if r.chance(1, 2) { KV::Int(gen_i64(r)) } else { KV::Float(gen_f64(r)) };
            let b = if r.chance(1, 2) { KV::Int(gen_i64(r)) } else { KV::Float(gen_f64(r)) };
            (a, b, "numeric-mix")
        }
        _ => {
            let b = gen_any(r, depth);
            (a, b, "any-kinds")
        }
    }
}

/// a pair of composite keys (column lists)
pub fn gen_cols_pair(r: &mut Rng) -> (Vec<KV>, Vec<KV>, &'static str) {
    let n = 1 + r.below(4) as usize;
    let kinds: Vec<usize> = (0..n).map(|_| pick_kind(r, 1)).collect();
    let a: Vec<KV> = kinds.iter().map(|k| if r.chance(1, 10) { KV::Null } else { gen_kind(r, *k, 1) }).collect();
    match r.below(10) {
        0..=3 => {
            // shared prefix of columns, then a neighbour / fresh value of the same column type
            let p = r.below(n as u64) as usize;
            let mut b = a.clone();
            for i in p..n {
                b[i] = if i == p && r.chance(2, 3) { tweak(r, &a[i], 1) } else if r.chance(1, 10) { KV::Null } else { gen_kind(r, kinds[i], 1) };
            }
            (a, b, "shared-prefix")
        }
        4 | 5 => {
            let b: Vec<KV> = kinds.iter().map(|k| gen_kind(r, *k, 1)).collect();
            (a, b, "same-schema")
        }
        6 => {
            // one key is a column-prefix of the other
            let p = r.below(n as u64 + 1) as usize;
            let b = a[..p].to_vec();
            (a, b, "column-prefix")
        }
        7 => (a.clone(), a, "identical"),
        8 => {
            // move a byte across a column boundary: (x ++ [c], y) vs (x, [c] ++ y) for text/blob columns
            let x = gen_bytes(r, 4);
            let y = gen_bytes(r, 4);
            let c = gen_byte(r);
            let mut xc = x.clone();
            xc.push(c);
            let mut cy = vec![c];
            cy.extend(&y);
            (vec![KV::Blob(xc), KV::Blob(y)], vec![KV::Blob(x), KV::Blob(cy)], "boundary-shift")
        }
        _ => {
            let b = tweak_list(r, &a, 1);
            (a, b, "list-tweak")
        }
    }
}
