//! C25: `turdb::hnsw::PersistentHnswIndex` (insert / delete / vacuum / sync+reopen / search) vs the
//! Lean M-code model `TurVerif.Hnsw` (graph compared after every operation, search results compared
//! hit by hit) and the property's own oracle: brute force over the live vectors with exact distances.
//!
//! All vectors lie on the quarter grid (coordinates k/4, |k| <= 8·4), so every squared distance is an
//! integer multiple of 1/16 that f32 computes without rounding (scalar and AVX2/FMA alike): the
//! model's rational distances and the code's f32 distances coincide exactly, ties included.
//!
//! Case syntax (one history per line):  `h DIM M EFC op op ...`
//!   `i<row>:<level>:<blind 0|1>:<c1,c2,..>`  insert (coordinates in quarter units; level = the level
//!                                             `select_level` is made to return via the random value)
//!   `d<row>`  delete_by_row_id     `v<n>`  vacuum_batch(n)     `s` sync     `r` drop + open
//!   `q<k>:<ef>:<c1,c2,..>`  search
use crate::common::*;
use std::collections::{BTreeMap, HashMap};
use turdb::hnsw::operations::{calculate_ml, select_level};
use turdb::hnsw::search::HnswSearchContext;
use turdb::hnsw::{DistanceFunction, NodeId, PersistentHnswIndex, QuantizationType};

#[derive(Clone, Debug)]
enum Op {
    Ins { row: u64, level: u8, blind: bool, v: Vec<i32> },
    Del(u64),
    Vac(usize),
    Sync,
    Reopen,
    Search { k: usize, ef: usize, q: Vec<i32> },
}

#[derive(Clone, Debug)]
struct Hist {
    dim: usize,
    m: u16,
    efc: u16,
    ops: Vec<Op>,
}

fn coords(v: &[i32]) -> String {
    v.iter().map(|x| x.to_string()).collect::<Vec<_>>().join(",")
}

impl Hist {
    fn line(&self) -> String {
        let mut s = format!("h {} {} {}", self.dim, self.m, self.efc);
        for op in &self.ops {
            s.push(' ');
            match op {
                Op::Ins { row, level, blind, v } => s.push_str(&format!("i{row}:{level}:{}:{}", *blind as u8, coords(v))),
                Op::Del(r) => s.push_str(&format!("d{r}")),
                Op::Vac(n) => s.push_str(&format!("v{n}")),
                Op::Sync => s.push('s'),
                Op::Reopen => s.push('r'),
                Op::Search { k, ef, q } => s.push_str(&format!("q{k}:{ef}:{}", coords(q))),
            }
        }
        s
    }
    fn parse(line: &str) -> Option<Hist> {
        let p: Vec<&str> = line.split_whitespace().collect();
        if p.len() < 4 || p[0] != "h" {
            return None;
        }
        let dim: usize = p[1].parse().ok()?;
        let m: u16 = p[2].parse().ok()?;
        let efc: u16 = p[3].parse().ok()?;
        let cv = |s: &str| -> Option<Vec<i32>> {
            let v: Option<Vec<i32>> = s.split(',').map(|x| x.parse::<i32>().ok()).collect();
            v.filter(|v| v.len() == dim && v.iter().all(|c| c.abs() <= 64))
        };
        let mut ops = vec![];
        for t in &p[4..] {
            let (c, rest) = t.split_at(1);
            match c {
                "i" => {
                    let f: Vec<&str> = rest.split(':').collect();
                    if f.len() != 4 {
                        return None;
                    }
                    ops.push(Op::Ins { row: f[0].parse().ok()?, level: f[1].parse::<u8>().ok()?.min(15), blind: f[2] == "1", v: cv(f[3])? });
                }
                "d" => ops.push(Op::Del(rest.parse().ok()?)),
                "v" => ops.push(Op::Vac(rest.parse().ok()?)),
                "s" => ops.push(Op::Sync),
                "r" => ops.push(Op::Reopen),
                "q" => {
                    let f: Vec<&str> = rest.split(':').collect();
                    if f.len() != 3 {
                        return None;
                    }
                    ops.push(Op::Search { k: f[0].parse().ok()?, ef: f[1].parse().ok()?, q: cv(f[2])? });
                }
                _ => return None,
            }
        }
        if dim == 0 || dim > 16 || m < 2 || efc == 0 {
            return None;
        }
        Some(Hist { dim, m, efc, ops })
    }
}

fn to_f32(v: &[i32]) -> Vec<f32> {
    v.iter().map(|x| *x as f32 / 4.0).collect()
}

/// exact squared distance in units of 1/16
fn d16(a: &[i32], b: &[i32]) -> u64 {
    a.iter().zip(b.iter()).map(|(x, y)| ((x - y) as i64 * (x - y) as i64) as u64).sum()
}

/// a random value that makes `select_level(random, ml)` return `level`
fn random_for_level(level: u8, m: u16) -> f64 {
    let ml = calculate_ml(m);
    let r = (-((level as f64) + 0.5) / ml).exp();
    debug_assert_eq!(select_level(r, ml), level);
    r
}

fn dist_str(x: f32) -> String {
    if x == f32::INFINITY {
        "inf".into()
    } else if x.is_finite() && x >= 0.0 && (x * 16.0).fract() == 0.0 {
        format!("{}", (x * 16.0) as u64)
    } else {
        format!("f32:{:08x}", x.to_bits())
    }
}

struct Live {
    idx: Option<PersistentHnswIndex>,
    path: std::path::PathBuf,
    ids: Vec<NodeId>,
    id_of: HashMap<(u32, u16), usize>,
    table: BTreeMap<u64, Vec<i32>>, // rows the caller's table holds = live rows
    limbo: Vec<u64>,                // rows whose insert returned an error
}

impl Live {
    fn ix(&self) -> &PersistentHnswIndex {
        self.idx.as_ref().unwrap()
    }
    fn ixm(&mut self) -> &mut PersistentHnswIndex {
        self.idx.as_mut().unwrap()
    }
    fn node_ix(&self, n: NodeId) -> String {
        if n.is_none() {
            return "none".into();
        }
        match self.id_of.get(&(n.page_no(), n.slot_index())) {
            Some(i) => i.to_string(),
            None => format!("?{}.{}", n.page_no(), n.slot_index()),
        }
    }
    fn node_ix_num(&self, n: NodeId) -> String {
        if n.is_none() {
            return "4294967295".into();
        }
        self.node_ix(n)
    }
    fn register(&mut self, n: NodeId) -> usize {
        let i = self.ids.len();
        self.ids.push(n);
        self.id_of.insert((n.page_no(), n.slot_index()), i);
        i
    }
    fn dump(&self) -> String {
        let ix = self.ix().index();
        let e = match ix.entry_point() {
            None => "unset".to_string(),
            Some(n) => self.node_ix(n),
        };
        let mut parts = vec![format!("E={e} ML={} NC={} Q={}", ix.max_level(), ix.node_count(), self.ix().vacuum_queue().len())];
        for n in &self.ids {
            match self.ix().read_node(*n) {
                Err(_) => parts.push("D".into()),
                Ok(nd) => {
                    let lv: Vec<String> = (0..=nd.max_level())
                        .map(|l| nd.neighbors_at_level(l).iter().map(|x| self.node_ix_num(*x)).collect::<Vec<_>>().join(";"))
                        .collect();
                    parts.push(format!("A{},{},{}", nd.row_id(), nd.max_level(), lv.join("/")));
                }
            }
        }
        parts.join(" | ")
    }
    fn dists(&self, q: &[i32]) -> String {
        if self.table.is_empty() {
            return "-".into();
        }
        self.table.iter().map(|(r, v)| format!("{r}:{}", d16(q, v))).collect::<Vec<_>>().join(",")
    }
    fn search(&self, k: usize, ef: usize, q: &[i32]) -> Result<Vec<(String, u64, f32)>, String> {
        let qf = to_f32(q);
        let table = &self.table;
        let idx = self.ix();
        let r = guarded(std::panic::AssertUnwindSafe(move || {
            let mut ctx = HnswSearchContext::new(ef, 1000);
            idx.search(&qf, k, &mut ctx, |row| table.get(&row).map(|v| to_f32(v))).map_err(|e| e.to_string())
        }));
        match r {
            Err(p) => Err(format!("panic {p}")),
            Ok(Err(e)) => Err(format!("error {e}")),
            Ok(Ok(hits)) => Ok(hits.iter().map(|h| (self.node_ix_num(h.node_id), h.row_id, h.distance)).collect()),
        }
    }
}

fn hits_str(h: &[(String, u64, f32)]) -> String {
    if h.is_empty() {
        "-".into()
    } else {
        h.iter().map(|(n, r, d)| format!("{n}:{r}:{}", dist_str(*d))).collect::<Vec<_>>().join(" ")
    }
}

#[derive(Default, Clone)]
struct Class {
    cb: bool,
    blind: bool,
    del: bool,
    vac: bool,
    reopen: bool,
    failed: bool,
}
impl Class {
    fn name(&self) -> String {
        let mut s = match (self.cb, self.blind) {
            (_, false) => "ins".to_string(),
            (false, true) => "blind".to_string(),
            (true, true) => "mixed".to_string(),
        };
        if self.del {
            s.push_str("+del");
        }
        if self.vac {
            s.push_str("+vac");
        }
        if self.reopen {
            s.push_str("+reopen");
        }
        s
    }
}

/// the property's own oracle on one search result
#[allow(clippy::too_many_arguments)]
fn oracle(rep: &mut Report, case: &str, cls: &Class, live: &Live, q: &[i32], k: usize, ef: usize, hits: &[(String, u64, f32)], nodes_total: usize) {
    let c = cls.name();
    let mut fail = |what: &str, detail: String| {
        rep.oracle_fail(case.to_string(), format!("search k={k} ef={ef} q=[{}]: {detail}; hits={}", coords(q), hits_str(hits)), format!("hnsw:{c}:{what}"));
    };
    if hits.len() > k {
        fail("too-many", format!("{} results for k={k}", hits.len()));
    }
    let mut seen: Vec<u64> = vec![];
    let mut dup = false;
    let mut dead = vec![];
    let mut phantom = vec![];
    let mut live_hits: Vec<(u64, u64, f32)> = vec![]; // (row, true d16, reported)
    for (node, row, d) in hits {
        // a hit whose node cannot be read (slot marked deleted) carries the bogus row id 0
        let readable = node.parse::<usize>().ok().and_then(|i| live.ids.get(i)).map(|n| live.ix().read_node(*n).is_ok()).unwrap_or(false);
        if !readable {
            phantom.push(node.clone());
            continue;
        }
        if live.limbo.contains(row) {
            continue; // row of an insert that returned an error: neither required nor forbidden
        }
        if seen.contains(row) {
            dup = true;
        }
        seen.push(*row);
        match live.table.get(row) {
            Some(v) => live_hits.push((*row, d16(q, v), *d)),
            None => dead.push(*row),
        }
    }
    if !phantom.is_empty() {
        dead.push(0);
    }
    if dup {
        fail("duplicate", "a row id is returned twice".into());
    }
    if !dead.is_empty() {
        fail("deleted-returned", format!("row ids {dead:?} are returned but are not live; hits on unreadable (deleted) nodes {phantom:?} carry the bogus row id 0 and distance inf"));
    }
    if !live.table.is_empty() && live_hits.is_empty() && k >= 1 && ef >= 1 {
        fail("empty-with-live", format!("{} live vectors exist, no live row is returned", live.table.len()));
    }
    // ordered by TRUE distance, and the reported distance is the true one
    for w in live_hits.windows(2) {
        if w[0].1 > w[1].1 {
            fail("misordered", format!("row {} (d16={}) before row {} (d16={})", w[0].0, w[0].1, w[1].0, w[1].1));
            break;
        }
    }
    for (row, t, d) in &live_hits {
        if dist_str(*d) != t.to_string() {
            fail("misordered", format!("row {row}: reported distance {} but the true squared distance is {t}/16", dist_str(*d)));
            break;
        }
    }
    // complete when the search width covers the whole index
    if ef >= nodes_total && k >= live.table.len() {
        let missing: Vec<u64> = live.table.keys().filter(|r| !seen.contains(r)).cloned().collect();
        if !missing.is_empty() {
            fail("missing-when-covered", format!("ef={ef} >= {nodes_total} nodes and k={k} >= {} live rows, but live rows {missing:?} are not returned", live.table.len()));
        }
    }
}

fn gen_vec(rng: &mut Rng, dim: usize, existing: &[Vec<i32>]) -> Vec<i32> {
    if !existing.is_empty() && rng.chance(1, 8) {
        return rng.pick(existing).clone(); // duplicate vector: distance ties
    }
    let span = *rng.pick(&[1i64, 2, 4, 8]);
    (0..dim).map(|_| rng.range(-span, span) as i32).collect()
}

fn gen_history(rng: &mut Rng, big: bool) -> Hist {
    let dim = rng.range(2, 8) as usize;
    let m: u16 = if big { 16 } else { *rng.pick(&[2u16, 2, 3, 4, 8, 16]) };
    let efc: u16 = if big { 100 } else { *rng.pick(&[3u16, 10, 100]) };
    let kind = rng.below(10); // 0-2 insert only, 3 blind only, 4-9 with deletes
    let n_ins = if big { rng.range(33, 41) as usize } else { rng.range(2, 14) as usize };
    let first_row = rng.below(2);
    let mut ops = vec![];
    let mut livev: BTreeMap<u64, Vec<i32>> = BTreeMap::new();
    let mut deleted: Vec<u64> = vec![];
    let mut next_row = first_row;
    let mut inserted = 0usize;
    let mut queries: Vec<Vec<i32>> = vec![];
    while inserted < n_ins {
        let existing: Vec<Vec<i32>> = livev.values().cloned().collect();
        let blind = kind == 3 || (kind >= 8 && rng.chance(1, 4));
        let level = if rng.chance(1, 5) { rng.range(1, 3) as u8 } else { select_level(((rng.next() >> 11) as f64 + 1.0) / (1u64 << 53) as f64, calculate_ml(m)) };
        let row = if !deleted.is_empty() && rng.chance(1, 3) { deleted.remove(0) } else { next_row += 1; next_row - 1 };
        let v = gen_vec(rng, dim, &existing);
        ops.push(Op::Ins { row, level, blind, v: v.clone() });
        livev.insert(row, v);
        inserted += 1;
        if kind >= 4 && !livev.is_empty() && rng.chance(1, 3) {
            let keys: Vec<u64> = livev.keys().cloned().collect();
            // bias: the first inserted row (the entry point) and the most recent one
            let r = match rng.below(4) {
                0 => keys[0],
                1 => *keys.last().unwrap(),
                _ => *rng.pick(&keys),
            };
            ops.push(Op::Del(r));
            livev.remove(&r);
            deleted.push(r);
            if rng.chance(1, 3) {
                ops.push(Op::Vac(rng.range(1, 4) as usize));
            }
        }
        if kind >= 6 && rng.chance(1, 6) {
            ops.push(Op::Sync);
            ops.push(Op::Reopen);
        }
        if rng.chance(1, 3) {
            let q = gen_vec(rng, dim, &existing);
            let nl = livev.len().max(1);
            let k = *rng.pick(&[1usize, 2, 3, nl, nl + 3]);
            let ef = *rng.pick(&[1usize, 2, k.max(1), nl, 64]);
            ops.push(Op::Search { k, ef, q });
        }
    }
    if kind >= 4 && rng.chance(1, 2) {
        ops.push(Op::Vac(100));
    }
    if rng.chance(1, 3) {
        ops.push(Op::Sync);
        ops.push(Op::Reopen);
    }
    // final query grid: every point of {-1,0,1}^dim (in units of 1, i.e. 4 quarter units) for
    // dim <= 3, otherwise the origin, the unit points and random grid points
    if dim <= 3 {
        let total = 3usize.pow(dim as u32);
        for t in 0..total {
            let mut q = vec![];
            let mut x = t;
            for _ in 0..dim {
                q.push(((x % 3) as i32 - 1) * 4);
                x /= 3;
            }
            queries.push(q);
        }
    } else {
        queries.push(vec![0; dim]);
        for i in 0..dim {
            let mut q = vec![0; dim];
            q[i] = 4;
            queries.push(q.clone());
            q[i] = -4;
            queries.push(q);
        }
        for _ in 0..10 {
            queries.push(gen_vec(rng, dim, &[]));
        }
    }
    let nl = livev.len().max(1);
    for (i, q) in queries.into_iter().enumerate() {
        let (k, ef) = match i % 4 {
            0 => (nl + 2, 100),
            1 => (1, 1),
            2 => (3, 3),
            _ => (2, 16),
        };
        ops.push(Op::Search { k, ef, q });
    }
    Hist { dim, m, efc, ops }
}


/// does the history put a node at a page offset that no longer fits the 13-bit offset field of a
/// slot entry?  (page size 16384; node data grows down from the page end; `SlotEntry::encode`
/// keeps `offset & 0x1FFF`.)  All nodes of these histories live in the first node page.
fn page_overflow(h: &Hist) -> bool {
    let mut bytes = 0usize;
    let mut count = 0usize;
    for op in &h.ops {
        if let Op::Ins { level, .. } = op {
            bytes += 10 + 32 * 6 + (*level as usize) * (1 + 16 * 6);
            count += 1;
            // stored offset = (16384 - bytes) mod 8192 must stay above the slot array
            if bytes + 64 + 4 * count + 8 > 8192 {
                return true;
            }
        }
    }
    false
}

/// pure check of the slot-entry codec used by every node read and write
fn slot_codec_oracle(rep: &mut Report) {
    use turdb::hnsw::storage::{SlotEntry, SlotStatus};
    for off in [64u16, 4096, 8191, 8192, 12000, 16182, 16383] {
        let e = SlotEntry::new(off, 202, SlotStatus::Active);
        let d = SlotEntry::decode(&e.encode());
        rep.case(Some(&format!("slot {off}")));
        if d.offset != off || d.size != 202 || d.status != SlotStatus::Active {
            rep.oracle_fail(
                format!("slot {off}"),
                format!("SlotEntry::decode(encode(offset={off})) gives offset {} (13-bit field, page size 16384): node data of the first ~40 nodes of a page is written to offset-8192, over the page header, the slot array and later over other nodes", d.offset),
                "hnsw:storage:slot-offset-truncated".into(),
            );
        }
    }
}

/// run one history in a child process (the code under test may abort the process, e.g. by a
/// multi-terabyte allocation after reading a corrupted neighbour id)
fn run_in_child(ctx: &Ctx, rep: &mut Report, h: &Hist, hno: usize) {
    let case = h.line();
    let rfile = format!("{}/hnsw-child-{}-{hno}.case", ctx.scratch, std::process::id());
    let ofile = format!("{}/hnsw-child-{}-{hno}.json", ctx.scratch, std::process::id());
    let _ = std::fs::write(&rfile, format!("{case}\n"));
    let _ = std::fs::remove_file(&ofile);
    let exe = std::env::current_exe().unwrap();
    let child = std::process::Command::new(exe)
        .args(["hnsw", "--seed", &ctx.seed.to_string(), "--tier", "quick", "--model", &ctx.model_bin, "--scratch", &ctx.scratch, "--out", &ofile, "--corpus", "/nonexistent", "--replay", &rfile])
        .env("VERIF_HNSW_CHILD", "1")
        .stdout(std::process::Stdio::null())
        .stderr(std::process::Stdio::piped())
        .spawn();
    let mut child = match child {
        Ok(c) => c,
        Err(e) => {
            rep.notes.push(format!("cannot spawn child: {e}"));
            return;
        }
    };
    // watchdog: 15 s
    let t0 = std::time::Instant::now();
    let status = loop {
        match child.try_wait() {
            Ok(Some(st)) => break Some(st),
            Ok(None) => {
                if t0.elapsed().as_secs() > 15 {
                    let _ = child.kill();
                    let _ = child.wait();
                    break None;
                }
                std::thread::sleep(std::time::Duration::from_millis(20));
            }
            Err(_) => break None,
        }
    };
    let mut err = String::new();
    if let Some(mut e) = child.stderr.take() {
        use std::io::Read;
        let _ = e.read_to_string(&mut err);
    }
    let report = std::fs::read_to_string(&ofile).unwrap_or_default();
    let _ = std::fs::remove_file(&rfile);
    let _ = std::fs::remove_file(&ofile);
    rep.case(Some(&case));
    rep.count("history_page_overflow(child process)");
    if report.is_empty() {
        let first = err.lines().next().unwrap_or("").to_string();
        let what = if status.is_none() { "hang" } else { "abort" };
        rep.oracle_fail(case, format!("the process running this history died ({status:?}): {first}"), format!("hnsw:page-overflow:{what}"));
        return;
    }
    // crude extraction of the child's findings
    let (dis, orc) = match report.find("\"oracle_failures\":[") {
        Some(i) => (&report[..i], &report[i..]),
        None => (&report[..], ""),
    };
    let sigs = |part: &str| -> Vec<String> {
        let mut v = vec![];
        let key = "\"signature\":\"";
        let mut rest = part;
        while let Some(i) = rest.find(key) {
            rest = &rest[i + key.len()..];
            if let Some(j) = rest.find('"') {
                v.push(rest[..j].to_string());
                rest = &rest[j..];
            }
        }
        v.sort();
        v.dedup();
        v
    };
    let dsig = if dis.contains("\"disagreements\":[{") { sigs(&dis[dis.find("\"disagreements\":[").unwrap()..]) } else { vec![] };
    for s in sigs(orc) {
        let what = s.rsplit(':').next().unwrap_or("").to_string();
        rep.oracle_fail(case.clone(), format!("(in child process) {s}"), format!("hnsw:page-overflow:{what}"));
    }
    if !dsig.is_empty() {
        rep.oracle_fail(case.clone(), format!("(in child process) the graph / results read from the index differ from the reference execution: {dsig:?}"), "hnsw:page-overflow:graph-corrupt".into());
    }
}

fn find_hnsw_files(dir: &std::path::Path, out: &mut Vec<std::path::PathBuf>) {
    if let Ok(rd) = std::fs::read_dir(dir) {
        for e in rd.flatten() {
            let p = e.path();
            if p.is_dir() {
                find_hnsw_files(&p, out);
            } else if p.extension().map(|x| x == "hnsw").unwrap_or(false) {
                out.push(p);
            }
        }
    }
}

/// the index as the SQL layer builds it (CREATE INDEX .. USING HNSW + INSERT), then the database is
/// closed and the index file is opened: "reopening the index file does not change search results"
fn sql_built(ctx: &Ctx, rep: &mut Report) {
    use turdb::Database;
    let dir = format!("{}/hnsw-sql-{}", ctx.scratch, std::process::id());
    let _ = std::fs::remove_dir_all(&dir);
    let rows: Vec<(u64, Vec<i32>)> = vec![(1, vec![0, 0]), (2, vec![4, 0]), (3, vec![0, 4]), (4, vec![4, 4]), (5, vec![-4, 8])];
    let case = "sql-built: CREATE TABLE e(id BIGINT PRIMARY KEY, vec VECTOR(2)); CREATE INDEX ix ON e USING HNSW (vec); 5 INSERTs; close; open the .hnsw file; search".to_string();
    let d2 = dir.clone();
    let rows2 = rows.clone();
    let built = guarded(move || -> Result<(), String> {
        let db = Database::create(&d2).map_err(|e| e.to_string())?;
        db.execute("CREATE TABLE e (id BIGINT PRIMARY KEY, vec VECTOR(2))").map_err(|e| e.to_string())?;
        db.execute("CREATE INDEX ix ON e USING HNSW (vec)").map_err(|e| e.to_string())?;
        for (id, v) in &rows2 {
            let f = to_f32(v);
            db.execute(&format!("INSERT INTO e (id, vec) VALUES ({id}, '[{},{}]')", f[0], f[1])).map_err(|e| e.to_string())?;
        }
        drop(db);
        Ok(())
    });
    rep.case(Some(&case));
    rep.count("sql_built_history");
    match built {
        Ok(Ok(())) => {}
        other => {
            rep.oracle_fail(case, format!("building the index through SQL failed: {other:?}"), "hnsw:sql-built:insert-error".into());
            let _ = std::fs::remove_dir_all(&dir);
            return;
        }
    }
    let mut files = vec![];
    find_hnsw_files(std::path::Path::new(&dir), &mut files);
    if files.is_empty() {
        rep.oracle_fail(case, "no .hnsw file was created".into(), "hnsw:sql-built:no-index-file".into());
        let _ = std::fs::remove_dir_all(&dir);
        return;
    }
    let path = files[0].clone();
    let table: BTreeMap<u64, Vec<i32>> = rows.iter().cloned().collect();
    let t2 = table.clone();
    let r = guarded(move || -> Result<(String, usize, u64), String> {
        let idx = PersistentHnswIndex::open(&path).map_err(|e| e.to_string())?;
        let mut ctxs = HnswSearchContext::new(64, 1000);
        let hits = idx.search(&[0.0, 0.0], 5, &mut ctxs, |row| t2.get(&row).map(|v| to_f32(v))).map_err(|e| e.to_string())?;
        let s = hits.iter().map(|h| format!("{}:{}", h.row_id, dist_str(h.distance))).collect::<Vec<_>>().join(" ");
        let live = hits.iter().filter(|h| t2.contains_key(&h.row_id)).count();
        Ok((format!("entry={:?} node_count={} hits=[{s}]", idx.index().entry_point().map(|n| (n.page_no(), n.slot_index())), idx.index().node_count()), live, idx.index().node_count()))
    });
    match r {
        Ok(Ok((desc, live, _))) => {
            rep.sample(format!("sql-built index after close: {desc}"));
            if live == 0 {
                rep.oracle_fail(case.clone(), format!("5 rows were inserted through SQL; after closing the database the index file gives {desc}: no live row is found (the SQL layer never calls PersistentHnswIndex::sync, so entry point / max level / node count never reach the file header)"), "hnsw:sql-built+reopen:empty-with-live".into());
            } else if live < table.len() {
                rep.oracle_fail(case.clone(), format!("{desc}: only {live} of 5 live rows found with ef=64"), "hnsw:sql-built+reopen:missing-when-covered".into());
            }
        }
        other => rep.oracle_fail(case, format!("open/search failed: {other:?}"), "hnsw:sql-built+reopen:panic".into()),
    }
    let _ = std::fs::remove_dir_all(&dir);
}

struct Expect {
    req: String,
    got: String,
    what: String,
}

fn run_history(ctx: &Ctx, rep: &mut Report, h: &Hist, hno: usize, out: &mut Vec<Expect>) {
    let case = h.line();
    let path = std::path::PathBuf::from(format!("{}/hnsw-{}-{hno}.hnsw", ctx.scratch, std::process::id()));
    let _ = std::fs::remove_file(&path);
    let (dim, m, efc) = (h.dim as u16, h.m, h.efc);
    let p2 = path.clone();
    let idx = match guarded(std::panic::AssertUnwindSafe(move || {
        PersistentHnswIndex::create(&p2, 1, 1, dim, m, efc, 32, DistanceFunction::L2, QuantizationType::None).map_err(|e| e.to_string())
    })) {
        Ok(Ok(i)) => i,
        other => {
            rep.oracle_fail(case.clone(), format!("create failed: {:?}", other.err()), "hnsw:create:panic".into());
            return;
        }
    };
    let mut live = Live { idx: Some(idx), path, ids: vec![], id_of: HashMap::new(), table: BTreeMap::new(), limbo: vec![] };
    let mut cls = Class::default();
    out.push(Expect { req: format!("new {} {} {}", h.m, h.m * 2, h.efc), got: "ok".into(), what: "new".into() });
    let mut nsearch = 0;
    let mut features: Vec<&str> = vec![];
    for (opno, op) in h.ops.iter().enumerate() {
        let mut mutating = true;
        match op {
            Op::Ins { row, level, blind, v } => {
                let random = random_for_level(*level, h.m);
                let vf = to_f32(v);
                let dists = if *blind { "-".to_string() } else { live.dists(v) };
                if *blind { cls.blind = true } else { cls.cb = true }
                let r = {
                    let table = &live.table;
                    let idx = live.idx.as_mut().unwrap();
                    let (row, blind) = (*row, *blind);
                    guarded(std::panic::AssertUnwindSafe(move || {
                        if blind {
                            idx.insert(row, &vf, random).map_err(|e| e.to_string())
                        } else {
                            idx.insert_with_callback(row, &vf, random, |r| table.get(&r).map(|x| to_f32(x))).map_err(|e| e.to_string())
                        }
                    }))
                };
                let got = match r {
                    Ok(Ok(nid)) => {
                        let i = live.register(nid);
                        live.table.insert(*row, v.clone());
                        live.limbo.retain(|r| r != row);
                        format!("ok {i}")
                    }
                    Ok(Err(e)) => {
                        // the node has been allocated and mapped before the failure
                        if let Some(nid) = live.ix().find_node_by_row_id(*row) {
                            if !live.id_of.contains_key(&(nid.page_no(), nid.slot_index())) {
                                live.register(nid);
                            }
                        }
                        live.table.remove(row);
                        live.limbo.push(*row);
                        cls.failed = true;
                        rep.count("insert_error");
                        rep.oracle_fail(case.clone(), format!("op {opno}: insert of row {row} failed: {e}"), format!("hnsw:{}:insert-error", cls.name()));
                        "err".to_string()
                    }
                    Err(p) => {
                        rep.oracle_fail(case.clone(), format!("op {opno}: insert of row {row} panicked: {p}"), format!("hnsw:{}:panic", cls.name()));
                        return;
                    }
                };
                out.push(Expect { req: format!("ins {row} {level} {dists}"), got, what: format!("{case} @op{opno}") });
                rep.count(if *level > 0 { "ins_level>0" } else { "ins_level0" });
            }
            Op::Del(row) => {
                cls.del = true;
                let known = live.ix().find_node_by_row_id(*row).is_some();
                let r = {
                    let idx = live.idx.as_mut().unwrap();
                    let row = *row;
                    guarded(std::panic::AssertUnwindSafe(move || idx.delete_by_row_id(row).map_err(|e| e.to_string())))
                };
                live.table.remove(row);
                let got = match r {
                    Ok(Ok(())) => if known { "ok" } else { "norow" }.to_string(),
                    Ok(Err(_)) => "err".to_string(),
                    Err(p) => {
                        rep.oracle_fail(case.clone(), format!("op {opno}: delete panicked: {p}"), format!("hnsw:{}:panic", cls.name()));
                        return;
                    }
                };
                out.push(Expect { req: format!("del {row}"), got, what: format!("{case} @op{opno}") });
                rep.count("op_delete");
            }
            Op::Vac(n) => {
                cls.vac = true;
                let r = {
                    let idx = live.idx.as_mut().unwrap();
                    let n = *n;
                    guarded(std::panic::AssertUnwindSafe(move || idx.vacuum_batch(n).map_err(|e| e.to_string())))
                };
                let got = match r {
                    Ok(Ok(c)) => c.to_string(),
                    Ok(Err(e)) => format!("err {e}"),
                    Err(p) => {
                        rep.oracle_fail(case.clone(), format!("op {opno}: vacuum panicked: {p}"), format!("hnsw:{}:panic", cls.name()));
                        return;
                    }
                };
                out.push(Expect { req: format!("vac {n}"), got, what: format!("{case} @op{opno}") });
                rep.count("op_vacuum");
            }
            Op::Sync => {
                let r = {
                    let idx = live.idx.as_mut().unwrap();
                    guarded(std::panic::AssertUnwindSafe(move || idx.sync().map_err(|e| e.to_string())))
                };
                let got = match r {
                    Ok(Ok(())) => "ok".to_string(),
                    other => format!("err {other:?}"),
                };
                out.push(Expect { req: "sync".into(), got, what: format!("{case} @op{opno}") });
            }
            Op::Reopen => {
                cls.reopen = true;
                // searches before / after: reopening must not change results
                let probes: Vec<Vec<i32>> = (0..3).map(|i| (0..h.dim).map(|j| if j == i % h.dim { 4 } else { 0 }).collect()).collect();
                let before: Vec<String> = probes.iter().map(|q| live.search(5, 64, q).map(|x| hits_str(&x)).unwrap_or_else(|e| e)).collect();
                let path = live.path.clone();
                // drop the old handle first, then open the file again
                drop(live.idx.take());
                match guarded(std::panic::AssertUnwindSafe(|| PersistentHnswIndex::open(&path).map_err(|e| e.to_string()))) {
                    Ok(Ok(i)) => live.idx = Some(i),
                    other => {
                        rep.oracle_fail(case.clone(), format!("op {opno}: open failed: {:?}", other.err()), format!("hnsw:{}:panic", cls.name()));
                        return;
                    }
                }
                let after: Vec<String> = probes.iter().map(|q| live.search(5, 64, q).map(|x| hits_str(&x)).unwrap_or_else(|e| e)).collect();
                let synced = opno > 0 && matches!(h.ops[opno - 1], Op::Sync);
                if synced && before != after {
                    rep.oracle_fail(case.clone(), format!("op {opno}: search results before sync+reopen {before:?} differ from those after {after:?}"), format!("hnsw:{}:changed-after-reopen", cls.name()));
                }
                out.push(Expect { req: "reopen".into(), got: "ok".into(), what: format!("{case} @op{opno}") });
                rep.count("op_reopen");
            }
            Op::Search { k, ef, q } => {
                mutating = false;
                nsearch += 1;
                let dists = live.dists(q);
                match live.search(*k, *ef, q) {
                    Err(e) => {
                        rep.oracle_fail(case.clone(), format!("op {opno}: search {e}"), format!("hnsw:{}:panic", cls.name()));
                        out.push(Expect { req: format!("search {k} {ef} {dists}"), got: e, what: format!("{case} @op{opno}") });
                    }
                    Ok(hits) => {
                        oracle(rep, &case, &cls, &live, q, *k, *ef, &hits, live.ids.len());
                        out.push(Expect { req: format!("search {k} {ef} {dists}"), got: hits_str(&hits), what: format!("{case} @op{opno}") });
                    }
                }
            }
        }
        if mutating {
            out.push(Expect { req: "dump".into(), got: live.dump(), what: format!("{case} @op{opno} (graph after the op)") });
        }
    }
    if cls.del { features.push("del") }
    rep.count(&format!("history_class_{}", cls.name()));
    rep.count_n("searches", nsearch);
    rep.count(&format!("history_nodes_{}", if live.ids.len() > 33 { ">33" } else if live.ids.len() > 8 { "9-33" } else { "<=8" }));
    let nontrivial = live.ids.len() >= 2 && nsearch > 0;
    rep.case(if nontrivial { Some(&case) } else { None });
    let p = live.path.clone();
    drop(live);
    let _ = std::fs::remove_file(&p);
}

/// deterministic histories that reach every known signature on every run
fn systematic() -> Vec<Hist> {
    let lines = [
        // delete the entry point, then search: the unreadable entry is returned with row id 0
        "h 2 2 10 i1:0:0:0,0 i2:0:0:4,0 i3:0:0:0,4 d1 q3:10:0,0 q1:1:4,0",
        // delete a non-entry node: it stays linked, comes back with row id 0 and distance inf
        "h 2 2 10 i1:0:0:0,0 i2:0:0:4,0 i3:0:0:0,4 d2 q3:10:0,0 v10 q3:10:0,0",
        // insert after a delete fails when the deleted node is met (entry or neighbour)
        "h 2 2 10 i1:0:0:0,0 i2:0:0:4,0 d1 i3:0:0:0,4 q3:10:0,0",
        "h 2 2 10 i1:0:0:0,0 i2:0:0:4,0 i3:0:0:0,4 d2 i4:0:0:4,4 q4:10:0,0 s r q4:10:0,0",
        // update pattern: delete + insert of the same row id
        "h 2 2 10 i0:0:0:0,0 i1:0:0:4,0 i2:1:0:0,4 d1 i1:0:0:8,8 q3:10:0,0 v5 s r q3:10:0,0",
        // blind inserts (the SQL DML path passes no vector callback)
        "h 2 2 10 i1:0:1:0,0 i2:0:1:4,0 i3:1:1:0,4 i4:0:1:4,4 q4:10:0,0 q1:1:4,4",
    ];
    let mut v: Vec<Hist> = lines.iter().filter_map(|l| Hist::parse(l)).collect();
    // 45 nodes in one page: the 40th node's data lands on the slot array (13-bit slot offsets)
    let mut big = String::from("h 2 16 100");
    for i in 0..45 {
        big.push_str(&format!(" i{}:0:0:{},{}", i + 1, (i % 9) as i32 - 4, (i / 9) as i32 - 2));
    }
    big.push_str(" q50:100:0,0 q1:1:4,4");
    v.extend(Hist::parse(&big));
    v
}

pub fn run(ctx: &Ctx) -> Report {
    let mut rep = Report::new(
        "hnsw",
        "histories of insert (with vector callback / blind as in the SQL DML path) / delete_by_row_id / vacuum_batch / \
         sync+reopen / search on PersistentHnswIndex, dims 2..8, m in {2,3,4,8,16}, ef_construction in {3,10,100}, levels \
         0..3, 2..14 inserts (one history in eight: 34..48 inserts to exceed the 32-neighbour cap), duplicates and re-used \
         row ids, row ids starting at 0 or 1; searches with k in {1,2,3,n,n+3}, ef in {1,2,k,n,64,100} during the history and \
         over a final grid of query points ({-1,0,1}^dim for dim<=3). After every mutating op the graph decoded from the index \
         is compared with the model; every search is compared hit by hit and judged by the brute-force oracle. \
         non-trivial = history with >= 2 nodes and >= 1 search",
    );
    let mut rng = Rng::new(ctx.seed ^ 0xC25);
    let mut hists: Vec<Hist> = vec![];
    for c in ctx.corpus_cases("C25") {
        if let Some(h) = Hist::parse(&c) {
            hists.push(h);
        }
    }
    let is_child = std::env::var("VERIF_HNSW_CHILD").is_ok();
    if !is_child {
        slot_codec_oracle(&mut rep);
        sql_built(ctx, &mut rep);
        hists.extend(systematic());
        let n = if ctx.thorough { 2500 } else { 260 };
        for i in 0..n {
            hists.push(gen_history(&mut rng, i % 8 == 7));
        }
    }
    let mut exp: Vec<Expect> = vec![];
    let mut n_child = 0;
    for (i, h) in hists.iter().enumerate() {
        if !is_child && page_overflow(h) {
            // at most a few per run: each costs a process start
            n_child += 1;
            if n_child <= (if ctx.thorough { 40 } else { 4 }) {
                run_in_child(ctx, &mut rep, h, i);
            }
            continue;
        }
        run_history(ctx, &mut rep, h, i, &mut exp);
        if i % 61 == 0 {
            rep.sample(h.line().chars().take(240).collect());
        }
    }
    let reqs: Vec<String> = exp.iter().map(|e| e.req.clone()).collect();
    let resp = model_batch(&ctx.model_bin, "hnsw", &reqs);
    let mut bad_hist: Option<String> = None;
    for (e, m) in exp.iter().zip(resp.iter()) {
        if e.req.starts_with("new ") {
            bad_hist = None;
        }
        if bad_hist.is_some() {
            continue; // report the first divergence of a history only
        }
        let mnorm = if m.starts_with("err ") { "err".to_string() } else { m.clone() };
        if m.starts_with("err ") {
            rep.count(&format!("model_insert_{}", m.replace(' ', "_")));
        }
        if mnorm != e.got {
            let kind = e.req.split(' ').next().unwrap_or("").to_string();
            rep.disagree(e.what.clone(), format!("request `{}`: implementation -> {} ; model -> {}", e.req.chars().take(120).collect::<String>(), e.got.chars().take(400).collect::<String>(), m.chars().take(400).collect::<String>()), format!("hnsw-{kind}-differs"));
            bad_hist = Some(e.what.clone());
        }
    }
    rep.count_n("model_requests", reqs.len() as u64);
    rep
}
