//! C38: concurrent COMMITs of cloned handles with the WAL on: after the commits return, a copy of
//! the database directory (what a process kill leaves behind) is reopened — WAL replay must give
//! every page the image of its most recent committed version.  Interleavings are forced at the
//! hook yield point between page-image capture and group-commit submit (`commit.captured`).
//! The Lean model `TurVerif.CommitOrder` abstracts a page image to its version; the engine
//! compares the order of images in the model's WAL with what recovery shows.
use crate::common::*;
use crate::sched::*;
use crate::sqlgen::*;
use std::time::Duration;
use turdb::Database;

fn copy_dir(src: &std::path::Path, dst: &std::path::Path) -> std::io::Result<()> {
    std::fs::create_dir_all(dst)?;
    for e in std::fs::read_dir(src)? {
        let e = e?;
        let p = e.path();
        let d = dst.join(e.file_name());
        if p.is_dir() { copy_dir(&p, &d)?; } else { std::fs::copy(&p, &d)?; }
    }
    Ok(())
}

/// run thread `tid` until it parks at `site`, finishes, or blocks; returns the last result
fn run_until(sched: &Sched, tid: usize, site: Option<&str>, max: usize) -> StepResult {
    let mut last = StepResult::NotRunnable;
    for _ in 0..max {
        last = sched.step(tid, Duration::from_secs(15));
        match &last {
            StepResult::Parked(s) => { if Some(*s) == site { return last; } }
            _ => return last,
        }
    }
    last
}

struct CaseResult { recovered: Vec<Option<i64>>, live: Vec<Option<i64>>, note: String }

/// `order`: plan of (tid, pause_at_captured?) segments
fn run_case(ctx: &Ctx, tag: &str, nhandles: usize, same_page: bool, plan: &[(usize, bool)]) -> Result<CaseResult, String> {
    let dbh = Dbh::create(ctx, tag);
    let db = dbh.db.as_ref().unwrap();
    let exec = |sql: &str| -> Result<(), String> { match dbh.exec(sql) { Out::Err(e) => Err(format!("{sql}: {e}")), Out::Panic(p) => Err(format!("{sql}: panic {p}")), _ => Ok(()) } };
    exec("PRAGMA wal=ON")?;
    exec("PRAGMA synchronous=FULL")?;
    exec("CREATE TABLE t (id INT PRIMARY KEY, v INT, pad TEXT)")?;
    // same_page: small rows, all on one leaf. otherwise rows padded so that ids land on different leaves
    let pad = if same_page { "x".to_string() } else { "x".repeat(6000) };
    for i in 0..nhandles.max(4) { exec(&format!("INSERT INTO t VALUES ({}, 0, '{}')", i + 1, pad))?; }
    let sched = Sched::new(nhandles);
    let mut handles = vec![];
    for tid in 0..nhandles {
        let h: Database = db.clone();
        handles.push(sched.spawn(tid, move || {
            let _ = h.execute("BEGIN");
            let _ = h.execute(&format!("UPDATE t SET v = {} WHERE id = {}", 100 + tid, tid + 1));
            let _ = h.execute("COMMIT");
        }));
    }
    sched.settle(Duration::from_secs(10));
    let mut note = String::new();
    for (tid, pause) in plan {
        let r = run_until(&sched, *tid, if *pause { Some("commit.captured") } else { None }, 4000);
        note.push_str(&format!("[{tid}:{}:{:?}]", if *pause { "to-captured" } else { "to-end" }, r));
        if r == StepResult::Blocked { sched.shutdown(); for h in handles { let _ = h.join(); } return Err(format!("thread {tid} blocked: {note}")); }
    }
    // finish everybody
    for tid in 0..nhandles { let _ = run_until(&sched, tid, None, 4000); }
    let finished = sched.all_finished();
    sched.shutdown();
    for h in handles { let _ = h.join(); }
    if !finished { return Err(format!("not all committers finished: {note}")); }
    let read = |d: &Database| -> Vec<Option<i64>> {
        (0..nhandles).map(|i| match d.query(&format!("SELECT id, v FROM t WHERE id = {}", i + 1)) {
            Ok(rows) => rows.get(0).and_then(|r| r.get_int(1).ok()),
            Err(_) => None,
        }).collect()
    };
    let live = read(db);
    // what a process kill would leave: copy the directory while the database is still open
    let crash_dir = format!("{}-crash", dbh.dir);
    let _ = std::fs::remove_dir_all(&crash_dir);
    copy_dir(std::path::Path::new(&dbh.dir), std::path::Path::new(&crash_dir)).map_err(|e| e.to_string())?;
    let cd = crash_dir.clone();
    let recovered = match guarded(move || Database::open(&cd)) {
        Ok(Ok(d2)) => { let r = read(&d2); drop(d2); r }
        Ok(Err(e)) => { let _ = std::fs::remove_dir_all(&crash_dir); return Err(format!("reopen failed: {e:#}")); }
        Err(p) => { let _ = std::fs::remove_dir_all(&crash_dir); return Err(format!("reopen panicked: {p}")); }
    };
    let _ = std::fs::remove_dir_all(&crash_dir);
    Ok(CaseResult { recovered, live, note })
}

// ---------------------------------------------------------------------------------------------
// second clause of C38: every page a committed unit modified is covered by the log when the
// COMMIT (or autocommit statement) returns.  The I/O trace of the real engine (page_mut hand-outs,
// `wal_mark_dirty` of the WAL-wrapped storages, `wal_frame` writes) is replayed through the Lean
// M-code model `TurVerif.CommitCover` (correspondence: the pages each commit logs), and the
// oracle compares file contents with the frames in the WAL (content level, independent of the model).

use std::collections::{BTreeMap, BTreeSet, HashMap, HashSet};
use std::sync::Mutex;

static TRACE: Mutex<Option<Vec<(String, String, u64, u64)>>> = Mutex::new(None);

fn trace_hook(kind: &'static str, name: &str, a: u64, b: u64) {
    if let Ok(mut g) = TRACE.lock() {
        if let Some(v) = g.as_mut() { v.push((kind.to_string(), name.to_string(), a, b)); }
    }
}

const PAGE: usize = crate::engines::crash::PAGE;
const FRAME: usize = 32 + PAGE;

fn data_files(dir: &std::path::Path, rel: &str, out: &mut Vec<(String, std::path::PathBuf)>) {
    let mut ents: Vec<_> = match std::fs::read_dir(dir) { Ok(r) => r.filter_map(|e| e.ok()).collect(), Err(_) => return };
    ents.sort_by_key(|e| e.file_name());
    for e in ents {
        let name = e.file_name().to_string_lossy().to_string();
        let r = if rel.is_empty() { name.clone() } else { format!("{rel}/{name}") };
        let p = e.path();
        if p.is_dir() { if name != "wal" { data_files(&p, &r, out); } }
        else if name.ends_with(".tbd") || name.ends_with(".idx") { out.push((r, p)); }
    }
}

fn page_hashes(dir: &str) -> BTreeMap<(String, u64), u64> {
    let mut files = vec![];
    data_files(std::path::Path::new(dir), "", &mut files);
    let mut m = BTreeMap::new();
    for (rel, p) in files {
        if let Ok(b) = std::fs::read(&p) {
            for (i, c) in b.chunks(PAGE).enumerate() { if c.len() == PAGE { m.insert((rel.clone(), i as u64), crate::engines::crash::hash_bytes(c)); } }
        }
    }
    m
}

/// (number of frame slots, hashes of the page data of every frame slot) over all WAL segments
fn wal_images(dir: &str) -> (usize, HashSet<u64>) {
    let mut n = 0;
    let mut set = HashSet::new();
    let wal = std::path::Path::new(dir).join("wal");
    let mut segs: Vec<_> = std::fs::read_dir(&wal).map(|r| r.filter_map(|e| e.ok()).map(|e| e.path()).collect()).unwrap_or_default();
    segs.sort();
    for p in segs {
        if let Ok(b) = std::fs::read(&p) {
            let mut o = 0;
            while o + FRAME <= b.len() {
                let fid = u64::from_le_bytes(b[o..o + 8].try_into().unwrap());
                if fid >> 56 == 0 { set.insert(crate::engines::crash::hash_bytes(&b[o + 32..o + FRAME])); }
                n += 1;
                o += FRAME;
            }
        }
    }
    (n, set)
}

fn rel_of(dir: &str, path: &str) -> String {
    path.strip_prefix(dir).map(|r| r.trim_start_matches('/').to_string()).unwrap_or_else(|| path.to_string())
}

fn file_class(rel: &str) -> &'static str {
    let toast = rel.contains("toast");
    if rel.ends_with(".idx") { "idx" } else if toast { "toast-tbd" } else { "tbd" }
}

struct Unit { name: &'static str, stmts: Vec<String> }

fn cover_units(rng: &mut Rng, thorough: bool) -> Vec<Unit> {
    let txt = |n: usize, seed: u8| -> String { (0..n).map(|i| (b'a' + ((i as u8).wrapping_add(seed)) % 26) as char).collect() };
    let mut v = vec![
        Unit { name: "insert", stmts: vec!["INSERT INTO t VALUES (10, 1, 'x')".into()] },
        Unit { name: "update-plain-by-pk", stmts: vec!["UPDATE t SET b = 'yy' WHERE id = 2".into()] },
        Unit { name: "update-indexed-by-scan", stmts: vec!["UPDATE t SET a = 7 WHERE b = 'r3'".into()] },
        Unit { name: "delete-by-pk", stmts: vec!["DELETE FROM t WHERE id = 4".into()] },
        Unit { name: "insert-toast", stmts: vec![format!("INSERT INTO t VALUES (11, 2, '{}')", txt(3000, 1))] },
        Unit { name: "update-toast", stmts: vec![format!("UPDATE t SET b = '{}' WHERE id = 11", txt(6000, 2))] },
        Unit { name: "txn-small", stmts: vec!["BEGIN".into(), "INSERT INTO t VALUES (12, 3, 'p')".into(), "INSERT INTO t VALUES (13, 3, 'q')".into(), "UPDATE t SET a = 9 WHERE id = 12".into(), "DELETE FROM t WHERE id = 1".into(), "COMMIT".into()] },
        Unit { name: "txn-split", stmts: { let mut s = vec!["BEGIN".to_string()]; for k in 0..40 { s.push(format!("INSERT INTO t VALUES ({}, {}, '{}')", 100 + k, k % 5, txt(900, k as u8))); } s.push("COMMIT".into()); s } },
        Unit { name: "txn-chunked", stmts: { let mut s = vec!["BEGIN".to_string()]; for k in 0..12 { let rows: Vec<String> = (0..32).map(|j| format!("({}, {}, '{}')", 1000 + k * 32 + j, j % 7, txt(900, (k * 32 + j) as u8))).collect(); s.push(format!("INSERT INTO t VALUES {}", rows.join(", "))); } s.push("COMMIT".into()); s } },
        Unit { name: "update-many", stmts: vec!["UPDATE t SET a = a + 1 WHERE id >= 100".into()] },
        Unit { name: "delete-many", stmts: vec!["DELETE FROM t WHERE id >= 1100".into()] },
    ];
    let nrand = if thorough { 60 } else { 6 };
    for k in 0..nrand {
        let mut s = vec![];
        let txn = rng.chance(1, 2);
        if txn { s.push("BEGIN".to_string()); }
        for j in 0..(1 + rng.below(4)) {
            let id = 2000 + k * 10 + j;
            s.push(match rng.below(4) {
                0 => format!("INSERT INTO t VALUES ({id}, {}, '{}')", rng.below(9), txt(1 + rng.below(1500) as usize, id as u8)),
                1 => format!("UPDATE t SET a = {} WHERE id = {}", rng.below(9), 100 + rng.below(40)),
                2 => format!("UPDATE t SET b = '{}' WHERE id = {}", txt(1 + rng.below(2500) as usize, j as u8), 100 + rng.below(40)),
                _ => format!("DELETE FROM t WHERE id = {}", 100 + rng.below(40)),
            });
        }
        if txn { s.push("COMMIT".to_string()); }
        v.push(Unit { name: "random", stmts: s });
    }
    v
}

fn run_cover(ctx: &Ctx, rep: &mut Report, indexed: bool, rng: &mut Rng) {
    let dbh = Dbh::create(ctx, if indexed { "c38cov-ix" } else { "c38cov" });
    let mut setup = vec!["PRAGMA wal=ON".to_string(), "PRAGMA synchronous=FULL".into()];
    setup.push(if indexed { "CREATE TABLE t (id INT PRIMARY KEY, a INT, b TEXT)".into() } else { "CREATE TABLE t (id INT, a INT, b TEXT)".into() });
    if indexed { setup.push("CREATE INDEX t_a ON t (a)".into()); }
    for k in 1..=5 { setup.push(format!("INSERT INTO t VALUES ({k}, {}, 'r{k}')", k % 3)); }
    for s in &setup { if let Out::Err(e) = dbh.exec(s) { rep.notes.push(format!("cover setup failed: {s}: {e}")); return; } }
    let mut model = Model::spawn(&ctx.model_bin, "commitcover");
    turdb::verif_hooks::set_io_hook(Some(trace_hook));
    let mut fidx: HashMap<String, usize> = HashMap::new();
    let mut tid_to_file: HashMap<u64, usize> = HashMap::new();
    // the setup ran without the trace: start the model from a drained tracker
    for u in cover_units(rng, ctx.thorough) {
        let case = format!("cover {} {}: {}", if indexed { "pk+index" } else { "noindex" }, u.name, u.stmts.iter().map(|s| s.chars().take(60).collect::<String>()).collect::<Vec<_>>().join(" ; ").chars().take(400).collect::<String>());
        let pre = page_hashes(&dbh.dir);
        let (n0, _) = wal_images(&dbh.dir);
        *TRACE.lock().unwrap() = Some(vec![]);
        let mut failed = None;
        for s in &u.stmts { match dbh.exec(s) { Out::Err(e) => { failed = Some(format!("{s}: {e}")); break; } Out::Panic(p) => { failed = Some(format!("{s}: panic {p}")); break; } _ => {} } }
        // the page writes and dirty marks of a failed unit (and of its ROLLBACK) still happened: the model sees them
        // too; only the content oracle is skipped for such a unit
        let unit_failed = failed.is_some();
        if unit_failed { rep.count("cover:unit-statement-failed"); let _ = dbh.exec("ROLLBACK"); }
        let evs = TRACE.lock().unwrap().take().unwrap_or_default();
        rep.case(Some(&case));
        rep.count(&format!("cover:unit:{}", u.name));
        let post = page_hashes(&dbh.dir);
        let (n1, imgs) = wal_images(&dbh.dir);
        if n1 < n0 { rep.count("cover:wal-shrank(skipped)"); continue; }
        // ---- trace -> model ops (writes, drains, clears) + the frames the unit logged
        let mut ops: Vec<String> = vec![];
        let mut written: BTreeMap<(String, u64), bool> = BTreeMap::new(); // page -> some write was wrapped
        let mut frames: Vec<(u64, u64)> = vec![];
        let mut pending: Option<(u64, u64)> = None;
        for (kind, name, a, b) in &evs {
            match kind.as_str() {
                "wal_mark_dirty" => { pending = Some((*a, *b)); }
                "page_mut" => {
                    let rel = rel_of(&dbh.dir, name);
                    let n = fidx.len();
                    let fi = *fidx.entry(rel.clone()).or_insert(n);
                    let wrapped = matches!(pending, Some((_, p)) if p == *a);
                    if let (true, Some((tid, _))) = (wrapped, pending) { tid_to_file.insert(tid, fi); }
                    pending = None;
                    ops.push(format!("w:{fi}:{a}:{}", wrapped as u8));
                    let e = written.entry((rel, *a)).or_insert(false);
                    *e = *e || wrapped;
                }
                "dirty_drain" => { if let Some(fi) = tid_to_file.get(a) { ops.push(format!("d:{fi}")); } }
                "dirty_clear" => { if let Some(fi) = tid_to_file.get(a) { ops.push(format!("x:{fi}")); } }
                "wal_frame" => { if *a >> 56 == 0 { frames.push((*a, *b)); } }
                _ => {}
            }
        }
        rep.count_n("cover:page_mut-events", ops.iter().filter(|o| o.starts_with('w')).count() as u64);
        rep.count_n("cover:drain-events", ops.iter().filter(|o| o.starts_with('d')).count() as u64);
        rep.count_n("cover:wal-frames", frames.len() as u64);
        let m = model.ask(&format!("ops {}", ops.join(" ")));
        // ---- correspondence: the pages the unit logs (each drain logs its table's dirty pages)
        let mut real: Vec<String> = frames.iter().map(|(tid, p)| match tid_to_file.get(tid) { Some(fi) => format!("{fi}.{p}"), None => format!("?{tid}.{p}") }).collect();
        real.sort();
        let mut modelled: Vec<String> = m.strip_prefix("drains ").and_then(|r| r.split(" pending ").next()).map(|g| g.split(|c| c == '|' || c == ',').filter(|x| *x != "-" && !x.is_empty()).map(|x| x.to_string()).collect()).unwrap_or_default();
        modelled.sort();
        if real != modelled {
            rep.disagree(case.clone(), format!("pages logged by the unit: engine {:?}, M-code model {:?} (files {:?}; model answer {m})", real, modelled, fidx), "commit-cover".into());
        } else { rep.count("cover:logged-sets-agree"); }
        if unit_failed { continue; }
        // ---- oracle: every page whose content changed must have its current image in the WAL
        let mut uncovered_real: BTreeSet<(String, u64)> = BTreeSet::new();
        let mut keys: BTreeSet<(String, u64)> = pre.keys().cloned().collect();
        keys.extend(post.keys().cloned());
        for k in keys {
            let (a, b) = (pre.get(&k), post.get(&k));
            if a == b { continue; }
            let Some(h) = b else { continue };
            rep.count(&format!("cover:changed-page:{}", file_class(&k.0)));
            if imgs.contains(h) { continue; }
            uncovered_real.insert(k.clone());
            let via = match written.get(&k) { Some(true) => "wrapped", Some(false) => "unwrapped", None => "no-page_mut-seen" };
            rep.oracle_fail(case.clone(), format!("after the unit returned, page {} of {} differs from its content before the unit and no WAL frame holds its current image (written through: {via})", k.1, k.0),
                format!("commit:uncovered:{}:{}:{via}", file_class(&k.0), if k.1 == 0 { "page0" } else { "other" }));
        }
    }
    turdb::verif_hooks::set_io_hook(None);
}

/// One group-commit BATCH that carries the same page twice: handle A (table u) becomes flush leader
/// and is held before `take_pending`; B and C each insert a row into table t (same leaf page) and
/// COMMIT - both enqueue behind the running flush and wait on the condition variable; A is released
/// and writes the whole batch.  After all three COMMITs returned the directory is copied (kill
/// model) and reopened: both rows must be there (the later image of the page must be the one replay
/// ends with).
fn run_batch_case(ctx: &Ctx, rep: &mut Report, model: &mut Model, k: usize) {
    let case = "group-commit batch: A(u) leader held at take_pending; B(t row 1) and C(t row 2) commit into the same batch; A flushes".to_string();
    rep.case(Some(&case));
    rep.count("batch_same_page");
    let dbh = Dbh::create(ctx, &format!("c38-batch-{k}"));
    let db = dbh.db.as_ref().unwrap();
    for s in ["PRAGMA wal=ON", "PRAGMA synchronous=FULL", "CREATE TABLE t (id INT PRIMARY KEY, v INT)", "CREATE TABLE u (id INT PRIMARY KEY, v INT)", "INSERT INTO t VALUES (0, 0)", "INSERT INTO u VALUES (0, 0)"] {
        if let Out::Err(e) = dbh.exec(s) { rep.notes.push(format!("batch case setup failed: {s}: {e}")); return; }
    }
    let sched = Sched::new(3);
    let mut handles = vec![];
    let results: std::sync::Arc<std::sync::Mutex<Vec<Option<bool>>>> = std::sync::Arc::new(std::sync::Mutex::new(vec![None; 3]));
    for tid in 0..3usize {
        let h: Database = db.clone();
        let results = results.clone();
        handles.push(sched.spawn(tid, move || {
            let _ = h.execute("BEGIN");
            let _ = if tid == 0 { h.execute("INSERT INTO u VALUES (1, 1)") } else { h.execute(&format!("INSERT INTO t VALUES ({tid}, {tid})")) };
            let ok = h.execute("COMMIT").is_ok();
            results.lock().unwrap()[tid] = Some(ok);
        }));
    }
    sched.settle(Duration::from_secs(10));
    let mut note = String::new();
    let r0 = run_until(&sched, 0, Some("gc.take_pending"), 200);
    note.push_str(&format!("[A -> {r0:?}]"));
    for tid in [1usize, 2] {
        let r = run_until(&sched, tid, Some("gc.wait.cond"), 200);
        // one more step: into the condition-variable wait (releases the queue mutex)
        let r2 = if r == StepResult::Parked("gc.wait.cond") { sched.step(tid, Duration::from_millis(400)) } else { StepResult::NotRunnable };
        note.push_str(&format!("[{} -> {r:?} -> {r2:?}]", if tid == 1 { "B" } else { "C" }));
    }
    let set_up = r0 == StepResult::Parked("gc.take_pending");
    let ra = run_until(&sched, 0, None, 400);
    note.push_str(&format!("[A flush -> {ra:?}]"));
    for tid in [1usize, 2] {
        let _ = sched.wait_landed(tid, Duration::from_secs(10));
        let r = run_until(&sched, tid, None, 400);
        note.push_str(&format!("[{tid} end -> {r:?}]"));
    }
    let finished = sched.all_finished();
    sched.shutdown();
    for h in handles { let _ = h.join(); }
    let res = results.lock().unwrap().clone();
    if !set_up { rep.count("batch_scenario_not_set_up"); rep.notes.push(format!("batch scenario could not be set up: {note}")); return; }
    if !finished || res.iter().any(|r| *r != Some(true)) {
        rep.oracle_fail(case.clone(), format!("not every COMMIT returned Ok: {res:?} {note}"), "commit:batch:commit-failed".into());
        return;
    }
    let read = |d: &Database| -> Vec<i64> { match d.query("SELECT id FROM t") { Ok(rows) => { let mut v: Vec<i64> = rows.iter().filter_map(|r| r.get_int(0).ok()).collect(); v.sort(); v } Err(_) => vec![-1] } };
    let live = read(db);
    let crash_dir = format!("{}-crash", dbh.dir);
    let _ = std::fs::remove_dir_all(&crash_dir);
    if copy_dir(std::path::Path::new(&dbh.dir), std::path::Path::new(&crash_dir)).is_err() { return; }
    let cd = crash_dir.clone();
    let recovered = match guarded(move || Database::open(&cd)) { Ok(Ok(d2)) => { let r = read(&d2); drop(d2); r } Ok(Err(e)) => { rep.oracle_fail(case.clone(), format!("reopen failed: {e:#}"), "commit:batch:reopen-error".into()); let _ = std::fs::remove_dir_all(&crash_dir); return; } Err(p) => { rep.oracle_fail(case.clone(), format!("reopen panicked: {p}"), "commit:reopen-panic".into()); let _ = std::fs::remove_dir_all(&crash_dir); return; } };
    let _ = std::fs::remove_dir_all(&crash_dir);
    // model: B and C modify/capture/submit one after the other, then one flush of the queue
    let m = model.ask("run 0 2 0 0 0 1 1 1 0");
    let model_stale = m.contains("stale=1");
    let expected = vec![0i64, 1, 2];
    rep.sample(format!("{case} -> live {live:?} recovered {recovered:?} model {m} {note}"));
    if live != expected {
        rep.oracle_fail(case.clone(), format!("live table after the commits: {live:?}, expected {expected:?} {note}"), "commit:live-state-wrong".into());
    } else if recovered != expected {
        rep.oracle_fail(case.clone(), format!("after WAL recovery t holds {recovered:?}, expected {expected:?}: a committed row of the batch is lost ({note}; model {m})"), "commit:stale-image-after-recovery:same-page:one-batch".into());
    }
    if model_stale != (live == expected && recovered != expected) {
        rep.disagree(case.clone(), format!("model says stale={model_stale} ({m}); real recovery gives {recovered:?}"), "commit-order-batch".into());
    }
}

pub fn run(ctx: &Ctx) -> Report {
    let mut rep = Report::new(
        "commitorder",
        "2-3 cloned Database handles, WAL on, synchronous=FULL; each handle runs BEGIN; UPDATE one row; COMMIT; rows on the same \
         leaf page or on different pages; the interleaving is forced at the yield point between page-image capture and group-commit \
         submit (every subset/order of 'pause at captured' then 'run to the end'); after all COMMITs returned Ok the directory is copied \
         (kill model) and reopened; every committed update must be visible after WAL recovery. The Lean model's WAL order for the same \
         plan predicts which version the replay ends with. non-trivial = plan in which some committer is overtaken between capture and submit. Coverage clause: single-handle units (autocommit INSERT/UPDATE/DELETE, TOAST-sized values, small / page-splitting / chunked transactions, random units) on a table with and without PRIMARY KEY + secondary index; the I/O trace (page_mut hand-outs, wal_mark_dirty, wal_frame) is replayed through the Lean commitcover model (pages logged per commit must agree) and every page whose content changed must have its current image in some WAL frame when the unit returns",
    );
    let mut model = Model::spawn(&ctx.model_bin, "commitorder");
    let mut plans: Vec<(usize, bool, Vec<(usize, bool)>)> = vec![];
    for same_page in [true, false] {
        // sequential
        plans.push((2, same_page, vec![(0, false), (1, false)]));
        // A captured, B complete, A complete   (the Lean counterexample)
        plans.push((2, same_page, vec![(0, true), (1, false), (0, false)]));
        plans.push((2, same_page, vec![(1, true), (0, false), (1, false)]));
        // both captured, then either order
        plans.push((2, same_page, vec![(0, true), (1, true), (0, false), (1, false)]));
        plans.push((2, same_page, vec![(0, true), (1, true), (1, false), (0, false)]));
        // three handles
        plans.push((3, same_page, vec![(0, true), (1, true), (2, false), (1, false), (0, false)]));
        plans.push((3, same_page, vec![(0, true), (1, false), (2, false), (0, false)]));
    }
    if ctx.thorough {
        let mut rng = Rng::new(ctx.seed);
        for _ in 0..40 {
            let n = 2 + rng.below(2) as usize;
            let mut plan = vec![];
            let mut order: Vec<usize> = (0..n).collect();
            for i in (1..n).rev() { order.swap(i, rng.below(i as u64 + 1) as usize); }
            for t in &order { if rng.chance(1, 2) { plan.push((*t, true)); } }
            for i in (1..n).rev() { order.swap(i, rng.below(i as u64 + 1) as usize); }
            for t in &order { plan.push((*t, false)); }
            plans.push((n, rng.chance(2, 3), plan));
        }
    }
    {
        let mut rng = Rng::new(ctx.seed ^ 0xC38);
        for indexed in [false, true] { run_cover(ctx, &mut rep, indexed, &mut rng); }
    }
    for k in 0..(if ctx.thorough { 6 } else { 2 }) { run_batch_case(ctx, &mut rep, &mut model, k); }
    for (k, (n, same_page, plan)) in plans.iter().enumerate() {
        let case = format!("handles={n} same_page={same_page} plan={plan:?}");
        let has_pause = plan.iter().any(|(_, p)| *p);
        rep.case(if has_pause { Some(&case) } else { None });
        rep.count(if *same_page { "same_page" } else { "different_pages" });
        // model: thread does modify at its first segment, capture at 'captured', submit+flush at 'to-end'
        let mut msched: Vec<usize> = vec![];
        let mut started = vec![false; *n];
        let mut captured = vec![false; *n];
        for (t, pause) in plan {
            if !started[*t] { msched.push(*t); started[*t] = true; }          // modify
            if !captured[*t] { msched.push(*t); captured[*t] = true; }         // capture
            if !*pause { msched.push(*t); msched.push(*t); }                   // submit, flush
        }
        let m = model.ask(&format!("run 0 {} {}", n, msched.iter().map(|x| x.to_string()).collect::<Vec<_>>().join(" ")));
        let overtaken = m.contains("stale=1");
        match run_case(ctx, &format!("c38-{k}"), *n, *same_page, plan) {
            Err(e) => {
                rep.notes.push(format!("{case}: {e}"));
                rep.oracle_fail(case.clone(), e.clone(), if e.contains("blocked") { "commit:blocked".into() } else if e.contains("panick") { "commit:reopen-panic".into() } else { "commit:run-error".into() });
            }
            Ok(r) => {
                if k % 3 == 0 { rep.sample(format!("{case} -> live {:?} recovered {:?} model {m}", r.live, r.recovered)); }
                let expected: Vec<Option<i64>> = (0..*n).map(|i| Some(100 + i as i64)).collect();
                if r.live != expected {
                    rep.oracle_fail(case.clone(), format!("live database after the commits: {:?}, expected {:?} ({})", r.live, expected, r.note), "commit:live-state-wrong".into());
                } else if r.recovered != expected {
                    let lost: Vec<usize> = (0..*n).filter(|i| r.recovered[*i] != expected[*i]).collect();
                    let sig = format!("commit:stale-image-after-recovery:{}:{}", if *same_page { "same-page" } else { "different-pages" }, if overtaken { "overtaken-between-capture-and-submit" } else { "not-overtaken" });
                    rep.oracle_fail(case.clone(), format!("after WAL recovery committed updates of handles {lost:?} are lost: recovered {:?}, expected {:?}; model: {m}", r.recovered, expected), sig);
                }
                // correspondence with the model (same-page plans only: one page version counter)
                if *same_page {
                    let model_stale = m.contains("stale=1");
                    let real_stale = r.live == expected && r.recovered != expected;
                    if model_stale != real_stale {
                        rep.disagree(case.clone(), format!("model says stale={model_stale} ({m}); real recovery stale={real_stale} (recovered {:?})", r.recovered), "commit-order".into());
                    }
                }
            }
        }
    }
    rep
}
