//! C38: concurrent COMMITs of cloned handles with the WAL on: after the commits return, a copy of
//! the database directory (what a process kill leaves behind) is reopened — WAL replay must give
//! every page the image of its most recent committed version.  Interleavings are forced at the
//! hook yield point between page-image capture and group-commit submit (`commit.captured`).
//! The Lean model `TurVerif.CommitOrder` abstracts a page image to its version; the engine
//! compares the order of images in the model's WAL with what recovery shows.
use crate::common::*;
use crate::sched::*;
use crate::sqlgen::*;
use std::time::Duration;
use turdb::Database;

fn copy_dir(src: &std::path::Path, dst: &std::path::Path) -> std::io::Result<()> {
    std::fs::create_dir_all(dst)?;
    for e in std::fs::read_dir(src)? {
        let e = e?;
        let p = e.path();
        let d = dst.join(e.file_name());
        if p.is_dir() { copy_dir(&p, &d)?; } else { std::fs::copy(&p, &d)?; }
    }
    Ok(())
}

/// run thread `tid` until it parks at `site`, finishes, or blocks; returns the last result
fn run_until(sched: &Sched, tid: usize, site: Option<&str>, max: usize) -> StepResult {
    let mut last = StepResult::NotRunnable;
    for _ in 0..max {
        last = sched.step(tid, Duration::from_secs(15));
        match &last {
            StepResult::Parked(s) => { if Some(*s) == site { return last; } }
            _ => return last,
        }
    }
    last
}

struct CaseResult { recovered: Vec<Option<i64>>, live: Vec<Option<i64>>, note: String }

/// `order`: plan of (tid, pause_at_captured?) segments
fn run_case(ctx: &Ctx, tag: &str, nhandles: usize, same_page: bool, plan: &[(usize, bool)]) -> Result<CaseResult, String> {
    let dbh = Dbh::create(ctx, tag);
    let db = dbh.db.as_ref().unwrap();
    let exec = |sql: &str| -> Result<(), String> { match dbh.exec(sql) { Out::Err(e) => Err(format!("{sql}: {e}")), Out::Panic(p) => Err(format!("{sql}: panic {p}")), _ => Ok(()) } };
    exec("PRAGMA wal=ON")?;
    exec("PRAGMA synchronous=FULL")?;
    exec("CREATE TABLE t (id INT PRIMARY KEY, v INT, pad TEXT)")?;
    // same_page: small rows, all on one leaf. otherwise rows padded so that ids land on different leaves
    let pad = if same_page { "x".to_string() } else { "x".repeat(6000) };
    for i in 0..nhandles.max(4) { exec(&format!("INSERT INTO t VALUES ({}, 0, '{}')", i + 1, pad))?; }
    let sched = Sched::new(nhandles);
    let mut handles = vec![];
    for tid in 0..nhandles {
        let h: Database = db.clone();
        handles.push(sched.spawn(tid, move || {
            let _ = h.execute("BEGIN");
            let _ = h.execute(&format!("UPDATE t SET v = {} WHERE id = {}", 100 + tid, tid + 1));
            let _ = h.execute("COMMIT");
        }));
    }
    sched.settle(Duration::from_secs(10));
    let mut note = String::new();
    for (tid, pause) in plan {
        let r = run_until(&sched, *tid, if *pause { Some("commit.captured") } else { None }, 4000);
        note.push_str(&format!("[{tid}:{}:{:?}]", if *pause { "to-captured" } else { "to-end" }, r));
        if r == StepResult::Blocked { sched.shutdown(); for h in handles { let _ = h.join(); } return Err(format!("thread {tid} blocked: {note}")); }
    }
    // finish everybody
    for tid in 0..nhandles { let _ = run_until(&sched, tid, None, 4000); }
    let finished = sched.all_finished();
    sched.shutdown();
    for h in handles { let _ = h.join(); }
    if !finished { return Err(format!("not all committers finished: {note}")); }
    let read = |d: &Database| -> Vec<Option<i64>> {
        (0..nhandles).map(|i| match d.query(&format!("SELECT id, v FROM t WHERE id = {}", i + 1)) {
            Ok(rows) => rows.get(0).and_then(|r| r.get_int(1).ok()),
            Err(_) => None,
        }).collect()
    };
    let live = read(db);
    // what a process kill would leave: copy the directory while the database is still open
    let crash_dir = format!("{}-crash", dbh.dir);
    let _ = std::fs::remove_dir_all(&crash_dir);
    copy_dir(std::path::Path::new(&dbh.dir), std::path::Path::new(&crash_dir)).map_err(|e| e.to_string())?;
    let cd = crash_dir.clone();
    let recovered = match guarded(move || Database::open(&cd)) {
        Ok(Ok(d2)) => { let r = read(&d2); drop(d2); r }
        Ok(Err(e)) => { let _ = std::fs::remove_dir_all(&crash_dir); return Err(format!("reopen failed: {e:#}")); }
        Err(p) => { let _ = std::fs::remove_dir_all(&crash_dir); return Err(format!("reopen panicked: {p}")); }
    };
    let _ = std::fs::remove_dir_all(&crash_dir);
    Ok(CaseResult { recovered, live, note })
}

pub fn run(ctx: &Ctx) -> Report {
    let mut rep = Report::new(
        "commitorder",
        "2-3 cloned Database handles, WAL on, synchronous=FULL; each handle runs BEGIN; UPDATE one row; COMMIT; rows on the same \
         leaf page or on different pages; the interleaving is forced at the yield point between page-image capture and group-commit \
         submit (every subset/order of 'pause at captured' then 'run to the end'); after all COMMITs returned Ok the directory is copied \
         (kill model) and reopened; every committed update must be visible after WAL recovery. The Lean model's WAL order for the same \
         plan predicts which version the replay ends with. non-trivial = plan in which some committer is overtaken between capture and submit",
    );
    let mut model = Model::spawn(&ctx.model_bin, "commitorder");
    let mut plans: Vec<(usize, bool, Vec<(usize, bool)>)> = vec![];
    for same_page in [true, false] {
        // sequential
        plans.push((2, same_page, vec![(0, false), (1, false)]));
        // A captured, B complete, A complete   (the Lean counterexample)
        plans.push((2, same_page, vec![(0, true), (1, false), (0, false)]));
        plans.push((2, same_page, vec![(1, true), (0, false), (1, false)]));
        // both captured, then either order
        plans.push((2, same_page, vec![(0, true), (1, true), (0, false), (1, false)]));
        plans.push((2, same_page, vec![(0, true), (1, true), (1, false), (0, false)]));
        // three handles
        plans.push((3, same_page, vec![(0, true), (1, true), (2, false), (1, false), (0, false)]));
        plans.push((3, same_page, vec![(0, true), (1, false), (2, false), (0, false)]));
    }
    if ctx.thorough {
        let mut rng = Rng::new(ctx.seed);
        for _ in 0..40 {
            let n = 2 + rng.below(2) as usize;
            let mut plan = vec![];
            let mut order: Vec<usize> = (0..n).collect();
            for i in (1..n).rev() { order.swap(i, rng.below(i as u64 + 1) as usize); }
            for t in &order { if rng.chance(1, 2) { plan.push((*t, true)); } }
            for i in (1..n).rev() { order.swap(i, rng.below(i as u64 + 1) as usize); }
            for t in &order { plan.push((*t, false)); }
            plans.push((n, rng.chance(2, 3), plan));
        }
    }
    for (k, (n, same_page, plan)) in plans.iter().enumerate() {
        let case = format!("handles={n} same_page={same_page} plan={plan:?}");
        let has_pause = plan.iter().any(|(_, p)| *p);
        rep.case(if has_pause { Some(&case) } else { None });
        rep.count(if *same_page { "same_page" } else { "different_pages" });
        // model: thread does modify at its first segment, capture at 'captured', submit+flush at 'to-end'
        let mut msched: Vec<usize> = vec![];
        let mut started = vec![false; *n];
        let mut captured = vec![false; *n];
        for (t, pause) in plan {
            if !started[*t] { msched.push(*t); started[*t] = true; }          // modify
            if !captured[*t] { msched.push(*t); captured[*t] = true; }         // capture
            if !*pause { msched.push(*t); msched.push(*t); }                   // submit, flush
        }
        let m = model.ask(&format!("run 0 {} {}", n, msched.iter().map(|x| x.to_string()).collect::<Vec<_>>().join(" ")));
        let overtaken = m.contains("stale=1");
        match run_case(ctx, &format!("c38-{k}"), *n, *same_page, plan) {
            Err(e) => {
                rep.notes.push(format!("{case}: {e}"));
                rep.oracle_fail(case.clone(), e.clone(), if e.contains("blocked") { "commit:blocked".into() } else if e.contains("panick") { "commit:reopen-panic".into() } else { "commit:run-error".into() });
            }
            Ok(r) => {
                if k % 3 == 0 { rep.sample(format!("{case} -> live {:?} recovered {:?} model {m}", r.live, r.recovered)); }
                let expected: Vec<Option<i64>> = (0..*n).map(|i| Some(100 + i as i64)).collect();
                if r.live != expected {
                    rep.oracle_fail(case.clone(), format!("live database after the commits: {:?}, expected {:?} ({})", r.live, expected, r.note), "commit:live-state-wrong".into());
                } else if r.recovered != expected {
                    let lost: Vec<usize> = (0..*n).filter(|i| r.recovered[*i] != expected[*i]).collect();
                    let sig = format!("commit:stale-image-after-recovery:{}:{}", if *same_page { "same-page" } else { "different-pages" }, if overtaken { "overtaken-between-capture-and-submit" } else { "not-overtaken" });
                    rep.oracle_fail(case.clone(), format!("after WAL recovery committed updates of handles {lost:?} are lost: recovered {:?}, expected {:?}; model: {m}", r.recovered, expected), sig);
                }
                // correspondence with the model (same-page plans only: one page version counter)
                if *same_page {
                    let model_stale = m.contains("stale=1");
                    let real_stale = r.live == expected && r.recovered != expected;
                    if model_stale != real_stale {
                        rep.disagree(case.clone(), format!("model says stale={model_stale} ({m}); real recovery stale={real_stale} (recovered {:?})", r.recovered), "commit-order".into());
                    }
                }
            }
        }
    }
    rep
}
