//! C11: every value of every supported column type written by INSERT/UPDATE as a literal or as a
//! bound parameter reads back with the same type and value, before and after reopen.
//!
//! Part A (M-code correspondence, Lean family `toast`): `needs_toast`, `chunk_count`,
//! `make_chunk_key`, `ToastPointer::{encode,decode}`, `is_toast_pointer`, `<[u8]>::chunks(4000)`
//! lengths and UTF-8 validity against `TurVerif.Toast`; and, for every TEXT/BLOB case of part B up
//! to 200 kB, the model's prediction `roundTrip` (what the write/read chain returns) against what
//! the real engine returns.
//!
//! Part B (oracle on the real code): column types SMALLINT, INT, BIGINT, REAL, DOUBLE PRECISION,
//! NUMERIC, TEXT, VARCHAR(n), CHAR(n), BLOB, BOOLEAN, DATE, TIME, TIMESTAMP, TIMESTAMPTZ, UUID, JSONB,
//! VECTOR(n) x boundary values x {literal, bound parameter} x {INSERT, UPDATE} x {before, after reopen}.
//!
//! case syntax (corpus / replay): `val <type-id> <path> <class> <value>` (value as `enc_val`).
use crate::common::*;
use crate::sqlgen_val::*;
use turdb::storage::toast::{chunk_count, is_toast_pointer, make_chunk_key, needs_toast, ToastPointer};
use turdb::OwnedValue;

#[derive(Clone)]
struct Ty {
    id: &'static str,
    ddl: &'static str,
}

const TYPES: &[Ty] = &[
    Ty { id: "smallint", ddl: "SMALLINT" },
    Ty { id: "int", ddl: "INT" },
    Ty { id: "bigint", ddl: "BIGINT" },
    Ty { id: "real", ddl: "REAL" },
    Ty { id: "double", ddl: "DOUBLE PRECISION" },
    Ty { id: "numeric", ddl: "NUMERIC(20,4)" },
    Ty { id: "text", ddl: "TEXT" },
    Ty { id: "varchar", ddl: "VARCHAR(20)" },
    Ty { id: "char", ddl: "CHAR(8)" },
    Ty { id: "blob", ddl: "BLOB" },
    Ty { id: "boolean", ddl: "BOOLEAN" },
    Ty { id: "date", ddl: "DATE" },
    Ty { id: "time", ddl: "TIME" },
    Ty { id: "timestamp", ddl: "TIMESTAMP" },
    Ty { id: "timestamptz", ddl: "TIMESTAMPTZ" },
    Ty { id: "uuid", ddl: "UUID" },
    Ty { id: "jsonb", ddl: "JSONB" },
    Ty { id: "vector", ddl: "VECTOR(3)" },
];

const PATHS: &[&str] = &["lit-ins", "lit-upd", "par-ins", "par-upd"];

/// what the statement must do with the value
#[derive(Clone, PartialEq)]
enum Expect {
    /// stored; reads back as this cell
    Same(String),
    /// must be rejected (out of the column's range); storing a different value is the violation
    Reject,
}

#[derive(Clone)]
struct Case {
    ty: &'static str,
    class: String,
    val: OwnedValue,
    /// literal text override (e.g. JSON text, timestamptz text); None = `literal_of(val)`
    lit: Option<String>,
    expect: Expect,
    /// JSON cases: checker on the value read back
    json: Option<fn(&OwnedValue) -> bool>,
}

fn mk(ty: &'static str, class: &str, val: OwnedValue) -> Case {
    let e = Expect::Same(vcell(&val));
    Case { ty, class: class.into(), val, lit: None, expect: e, json: None }
}

fn text_of_len(n: usize, flavour: u64) -> String {
    match flavour % 3 {
        0 => (0..n).map(|i| (b'a' + (i % 26) as u8) as char).collect(),
        1 => {
            // 2-byte characters with a 1-byte offset: every chunk boundary splits a character
            let mut s = String::from("x");
            while s.len() + 2 <= n { s.push('é'); }
            while s.len() < n { s.push('y'); }
            s
        }
        _ => {
            let mut s = String::new();
            while s.len() + 4 <= n { s.push('😀'); }
            while s.len() < n { s.push('\''); }
            s
        }
    }
}

fn blob_of_len(n: usize, flavour: u64, rng: &mut Rng) -> Vec<u8> {
    match flavour % 3 {
        0 => { let mut b = rng.bytes(n); if n > 0 { b[n / 2] = 0xFF; } b } // not UTF-8
        1 => text_of_len(n, 0).into_bytes(),                               // valid UTF-8 (ASCII)
        _ => text_of_len(n, 1).into_bytes(),                               // valid UTF-8 (2-byte)
    }
}

fn size_class(n: usize) -> &'static str {
    match n {
        0 => "empty",
        1..=999 => "inline",
        1000 => "at-threshold",
        1001..=3998 => "toast-1chunk",
        3999..=4001 => "chunk-boundary",
        4002..=7998 => "toast-2chunk",
        7999..=8001 => "chunk-boundary",
        8002..=99_999 => "toast-multi",
        100_000..=999_999 => "toast-100k",
        _ => "toast-mb",
    }
}

fn num_is(v: Result<Option<OwnedValue>, eyre::Report>, x: f64) -> bool {
    match v { Ok(Some(OwnedValue::Int(i))) => i as f64 == x, Ok(Some(OwnedValue::Float(f))) => f == x, _ => false }
}
fn json_obj(v: &OwnedValue) -> bool {
    num_is(v.jsonb_get("a"), 1.0) && matches!(v.jsonb_get("b"), Ok(Some(OwnedValue::Text(ref s))) if s == "x")
}
fn json_arr(v: &OwnedValue) -> bool {
    num_is(v.jsonb_array_get(0), 1.0) && matches!(v.jsonb_array_get(2), Ok(Some(OwnedValue::Text(ref s))) if s == "z")
}
fn json_esc(v: &OwnedValue) -> bool {
    matches!(v.jsonb_get("k"), Ok(Some(OwnedValue::Text(ref s))) if s == "q\"\\\n'é😀")
}
fn json_nested(v: &OwnedValue) -> bool {
    num_is(v.jsonb_get_path(&["a", "b", "c"]), 7.0)
}
fn json_float(v: &OwnedValue) -> bool {
    matches!(v.jsonb_get("f"), Ok(Some(OwnedValue::Float(f))) if f == 2.5) && matches!(v.jsonb_get("n"), Ok(Some(OwnedValue::Null)) | Ok(None))
}

fn cases(ctx: &Ctx, rng: &mut Rng) -> Vec<Case> {
    let mut v: Vec<Case> = vec![];
    // ---- integers
    for (ty, lo, hi) in [("smallint", i16::MIN as i64, i16::MAX as i64), ("int", i32::MIN as i64, i32::MAX as i64), ("bigint", i64::MIN, i64::MAX)] {
        for (class, x) in [("zero", 0i64), ("one", 1), ("minus-one", -1), ("max", hi), ("max-1", hi - 1), ("min+1", lo + 1), ("min", lo)] {
            let cl = if ty == "bigint" && x == i64::MIN { "i64-min" } else { class };
            v.push(mk(ty, cl, OwnedValue::Int(x)));
        }
        if ty != "bigint" {
            for (class, x) in [("over-max", hi + 1), ("under-min", lo - 1), ("over-i64max", i64::MAX), ("over-2x", 2 * (hi + 1) + 5)] {
                let mut c = mk(ty, class, OwnedValue::Int(x));
                c.expect = Expect::Reject;
                v.push(c);
            }
        }
        for _ in 0..4 {
            let x = lo / 2 + (rng.next() % ((hi / 2) as u64).max(1)) as i64;
            v.push(mk(ty, "random", OwnedValue::Int(x)));
        }
    }
    // ---- floats
    for ty in ["real", "double", "numeric"] {
        for (class, x) in [
            ("zero", 0.0f64), ("negzero", -0.0), ("fraction", 1.5), ("neg-fraction", -2.25), ("tenth", 0.1), ("integral", 3.0), ("integral", -7.0), ("integral-2^53", 9007199254740992.0),
            ("max", f64::MAX), ("min-positive", f64::MIN_POSITIVE), ("subnormal", 5e-324), ("huge", 1e300), ("tiny", 1e-300), ("f32-max", 3.4028234663852886e38), ("f32-over", 3.5e38), ("pi", std::f64::consts::PI),
            ("nan", f64::NAN), ("inf", f64::INFINITY), ("neg-inf", f64::NEG_INFINITY),
        ] {
            v.push(mk(ty, class, OwnedValue::Float(x)));
        }
        for _ in 0..4 {
            let x = f64::from_bits(rng.next());
            if x.is_finite() { v.push(mk(ty, "random", OwnedValue::Float(x))); }
        }
        // an integer literal written into a floating-point column must read back as that number
        for (class, i) in [("int-literal", 1i64), ("int-literal", -42)] {
            let mut c = mk(ty, class, OwnedValue::Int(i));
            c.expect = Expect::Same(vcell(&OwnedValue::Float(i as f64)));
            v.push(c);
        }
    }
    // ---- text
    let specials = ["", "a", "it's", "''", "'); DROP TABLE users; --", "back\\slash", "nul\u{0}mid", "\u{0}", "😀", "é", "\u{10FFFF}", "line\nbreak\ttab", "%_", " lead trail ", "NULL", "ｆｕｌｌ", "\u{FEFF}bom", "\u{7f}\u{80}"];
    for s in specials {
        let class = match s { "" => "empty", _ if s.contains('\'') => "quote", _ if s.contains('\0') => "nul", _ if !s.is_ascii() => "unicode", _ => "short" };
        v.push(mk("text", class, OwnedValue::Text(s.to_string())));
        if s.len() <= 20 { v.push(mk("varchar", class, OwnedValue::Text(s.to_string()))); }
        if s.chars().count() <= 8 && s.len() <= 8 { v.push(mk("char", class, OwnedValue::Text(s.to_string()))); }
    }
    v.push(mk("varchar", "max-length", OwnedValue::Text("x".repeat(20))));
    v.push(mk("char", "max-length", OwnedValue::Text("y".repeat(8))));
    for (ty, n) in [("varchar", 21usize), ("char", 9)] {
        let mut c = mk(ty, "over-length", OwnedValue::Text("z".repeat(n)));
        c.expect = Expect::Reject;
        v.push(c);
    }
    let mut sizes: Vec<usize> = vec![1, 17, 999, 1000, 1001, 1002, 2000, 3999, 4000, 4001, 4999, 5001, 7999, 8000, 8001, 12000, 12001, 40_000, 100_003];
    sizes.push(990 + rng.below(30) as usize);
    sizes.push(3990 + rng.below(30) as usize);
    sizes.push(1001 + rng.below(20_000) as usize);
    if ctx.thorough { sizes.extend([1 << 20, (1 << 20) + 1, 3_000_001, 8_000_000]); } else { sizes.extend([(1 << 20) + 1, 3_000_001]); }
    for (k, &n) in sizes.iter().enumerate() {
        let flavours: Vec<u64> = if n > 200_000 { vec![k as u64] } else { vec![0, 1, 2] };
        for f in flavours {
            let fl = ["ascii", "2byte", "4byte"][(f % 3) as usize];
            v.push(mk("text", &format!("{}-{}", size_class(n), fl), OwnedValue::Text(text_of_len(n, f))));
            let bf = ["binary", "utf8", "utf8"][(f % 3) as usize];
            v.push(mk("blob", &format!("{}-{}", size_class(n), bf), OwnedValue::Blob(blob_of_len(n, f, rng))));
        }
    }
    // ---- blobs
    v.push(mk("blob", "empty", OwnedValue::Blob(vec![])));
    v.push(mk("blob", "inline-binary", OwnedValue::Blob(vec![0, 255, 1, 254])));
    v.push(mk("blob", "inline-utf8", OwnedValue::Blob(b"plain ascii".to_vec())));
    v.push(mk("blob", "inline-binary", OwnedValue::Blob((0..=255u8).collect())));
    // 17 bytes starting with the TOAST marker: size field kept small on purpose (a random size field
    // makes detoast_value allocate `total_size` bytes and abort the process, see sql_params.rs)
    let mut p0 = vec![0u8; 17]; p0[0] = 0xFE;
    v.push(mk("blob", "fe17-size0", OwnedValue::Blob(p0.clone())));
    let mut p5 = p0.clone(); p5[1] = 5; p5[9] = 77;
    v.push(mk("blob", "fe17-size5", OwnedValue::Blob(p5)));
    let mut p16 = vec![0x11u8; 17]; p16[0] = 0xFD;
    v.push(mk("blob", "inline-binary", OwnedValue::Blob(p16)));
    v.push(mk("blob", "inline-binary", OwnedValue::Blob(vec![0xFE; 16])));
    v.push(mk("blob", "inline-binary", OwnedValue::Blob(vec![0xFE; 18])));
    // ---- booleans
    v.push(mk("boolean", "true", OwnedValue::Bool(true)));
    v.push(mk("boolean", "false", OwnedValue::Bool(false)));
    // ---- dates / times / timestamps
    for (class, d) in [("epoch", 0i64), ("typical", 19782), ("leap-day", days_from_civil(2024, 2, 29)), ("century-nonleap", days_from_civil(1900, 3, 1)), ("pre-epoch", -1), ("year-0001", days_from_civil(1, 1, 1)), ("year-9999", days_from_civil(9999, 12, 31)), ("y2k", days_from_civil(2000, 2, 29)), ("random", rng.range(-700_000, 2_900_000))] {
        v.push(mk("date", class, OwnedValue::Date(d as i32)));
    }
    for (class, d) in [("param-extreme", i32::MAX), ("param-extreme", i32::MIN)] {
        let mut c = mk("date", class, OwnedValue::Date(d));
        c.lit = Some(String::new()); // no literal form
        v.push(c);
    }
    for (class, t) in [("midnight", 0i64), ("noon", 43_200_000_000), ("last-micro", 86_399_999_999), ("one-micro", 1), ("typical", 14_706_123_456), ("random", rng.range(0, 86_399_999_999))] {
        v.push(mk("time", class, OwnedValue::Time(t)));
    }
    for (class, t) in [("epoch", 0i64), ("typical", 1_700_000_000_123_456), ("pre-epoch", -1), ("pre-epoch", -86_400_000_001), ("year-0001", days_from_civil(1, 1, 1) * 86_400_000_000), ("year-9999", days_from_civil(9999, 12, 31) * 86_400_000_000 + 86_399_999_999), ("random", rng.range(-60_000_000_000_000_000, 250_000_000_000_000_000))] {
        v.push(mk("timestamp", class, OwnedValue::Timestamp(t)));
    }
    for (class, t) in [("param-extreme", i64::MAX), ("param-extreme", i64::MIN)] {
        let mut c = mk("timestamp", class, OwnedValue::Timestamp(t));
        c.lit = Some(String::new());
        v.push(c);
    }
    for (class, t, z) in [("utc", 1_700_000_000_000_000i64, 0i32), ("offset-east", 1_700_000_000_000_000, 7200), ("offset-west", 0, -18000), ("pre-epoch", -1, 0)] {
        let mut c = mk("timestamptz", class, OwnedValue::TimestampTz(t, z));
        // literal: local wall-clock time with an explicit offset, ISO-8601
        let local = t + z as i64 * 1_000_000;
        let sign = if z < 0 { '-' } else { '+' };
        c.lit = Some(format!("'{}{}{:02}:{:02}'", timestamp_text(local), sign, z.abs() / 3600, (z.abs() / 60) % 60));
        if z == 0 { c.lit = Some(format!("'{}'", timestamp_text(t))); }
        v.push(c);
    }
    // ---- uuid
    for (class, u) in [("nil", [0u8; 16]), ("max", [0xffu8; 16]), ("typical", [0x55, 0x0e, 0x84, 0x00, 0xe2, 0x9b, 0x41, 0xd4, 0xa7, 0x16, 0x44, 0x66, 0x55, 0x44, 0x00, 0x00])] {
        v.push(mk("uuid", class, OwnedValue::Uuid(u)));
    }
    let mut u = [0u8; 16];
    for x in u.iter_mut() { *x = rng.next() as u8; }
    v.push(mk("uuid", "random", OwnedValue::Uuid(u)));
    // ---- vectors
    for (class, x) in [("typical", vec![1.0f32, 2.5, -3.0]), ("zeros", vec![0.0, -0.0, 0.0]), ("extreme", vec![f32::MAX, f32::MIN_POSITIVE, -1e-30]), ("fraction", vec![0.1, 0.2, 0.3])] {
        v.push(mk("vector", class, OwnedValue::Vector(x)));
    }
    // ---- json (literal path only; the checker inspects the stored document)
    let docs: [(&str, &str, fn(&OwnedValue) -> bool); 5] = [
        ("object", r#"{"a": 1, "b": "x"}"#, json_obj),
        ("array", r#"[1, true, "z", null]"#, json_arr),
        ("string-escapes", "{\"k\": \"q\\\"\\\\\\n'é😀\"}", json_esc),
        ("nested", r#"{"a": {"b": {"c": 7}}}"#, json_nested),
        ("float-null", r#"{"f": 2.5, "n": null}"#, json_float),
    ];
    for (class, doc, chk) in docs {
        let mut c = mk("jsonb", class, OwnedValue::Text(doc.to_string()));
        c.lit = Some(quote_text(doc));
        c.json = Some(chk);
        c.expect = Expect::Same("json".into());
        v.push(c);
    }
    v
}

struct Tab {
    dbd: DbDir,
    next_id: i64,
}

/// run one (case, path); returns the cell read back or the failure, before reopen
fn write_one(tab: &mut Tab, c: &Case, path: &str) -> (i64, Result<(), String>) {
    tab.next_id += 1;
    let id = tab.next_id;
    let t = format!("v_{}", c.ty);
    let db = tab.dbd.db();
    let lit = match &c.lit { Some(l) => Some(l.clone()), None => literal_of(&c.val) }.filter(|l| !l.is_empty());
    let r = match path {
        "lit-ins" => match lit { Some(l) => exec(db, &format!("INSERT INTO {t} VALUES ({id}, {l})")), None => return (id, Err("skip".into())) },
        "lit-upd" => match lit {
            Some(l) => {
                let _ = exec(db, &format!("INSERT INTO {t} VALUES ({id}, NULL)"));
                exec(db, &format!("UPDATE {t} SET v = {l} WHERE id = {id}"))
            }
            None => return (id, Err("skip".into())),
        },
        "par-ins" | "par-upd" => {
            if c.json.is_some() { return (id, Err("skip".into())); }
            let (sql, ps) = if path == "par-ins" {
                (format!("INSERT INTO {t} VALUES (?, ?)"), vec![OwnedValue::Int(id), c.val.clone()])
            } else {
                let _ = exec(db, &format!("INSERT INTO {t} VALUES ({id}, NULL)"));
                (format!("UPDATE {t} SET v = ? WHERE id = ?"), vec![c.val.clone(), OwnedValue::Int(id)])
            };
            res_of(guarded(std::panic::AssertUnwindSafe(move || db.execute_with_params(&sql, &ps))))
        }
        _ => return (id, Err("skip".into())),
    };
    match r {
        Res::Affected(1) => (id, Ok(())),
        Res::Affected(n) => (id, Err(format!("affected {n}"))),
        Res::Err(e) => (id, Err(format!("error {e}"))),
        Res::Panic(p) => (id, Err(format!("panic {p}"))),
        other => (id, Err(other.show())),
    }
}

fn read_one(tab: &Tab, ty: &str, id: i64) -> Result<OwnedValue, String> {
    let db = tab.dbd.db();
    let sql = format!("SELECT id, v FROM v_{ty} WHERE id = {id}");
    match guarded(std::panic::AssertUnwindSafe(move || db.query(&sql))) {
        Err(p) => Err(format!("panic {p}")),
        Ok(Err(e)) => Err(format!("error {e:#}")),
        Ok(Ok(rows)) => {
            if rows.len() != 1 { return Err(format!("rows={}", rows.len())); }
            rows[0].values.get(1).cloned().ok_or_else(|| "no column".to_string())
        }
    }
}

/// classify what came back relative to the expectation; None = fine
fn judge(c: &Case, wrote: &Result<(), String>, read: Option<&Result<OwnedValue, String>>) -> Option<(String, String)> {
    let fail_class = |m: &str| -> String {
        if m.starts_with("panic") { "panic".into() } else if m.starts_with("error") { "error".into() } else if m.starts_with("rows=0") { "row-missing".into() } else { "failed".into() }
    };
    match (&c.expect, wrote) {
        (_, Err(m)) if m == "skip" => None,
        (Expect::Reject, Err(m)) => if m.starts_with("panic") { Some(("write-panic".into(), m.clone())) } else { None },
        (Expect::Same(_), Err(m)) => Some((format!("write-{}", fail_class(m)), m.clone())),
        (exp, Ok(())) => {
            let Some(read) = read else { return None };
            match read {
                Err(m) => Some((format!("read-{}", fail_class(m)), m.clone())),
                Ok(v) => {
                    let got = vcell(v);
                    match exp {
                        Expect::Reject => Some((format!("accepted-reads-{}", if got == vcell(&c.val) { "same" } else { "different" }), format!("out-of-range value was stored; reads back {}", short(&got)))),
                        Expect::Same(want) => {
                            if let Some(chk) = c.json {
                                return if chk(v) { None } else { Some((format!("json-{}", tag_name(&got)), format!("document read back does not contain the written members: {}", short(&got)))) };
                            }
                            if &got == want { None }
                            else if got == "N" { Some(("null".into(), format!("wrote {} read NULL", short(want)))) }
                            else if got.as_bytes()[0] != want.as_bytes()[0] {
                                let same_bytes = got[1..] == want[1..];
                                Some((format!("type-{}{}", tag_name(&got), if same_bytes { "-same-bytes" } else { "" }), format!("wrote {} read {}", short(want), short(&got))))
                            } else { Some(("wrong-value".into(), format!("wrote {} read {}", short(want), short(&got)))) }
                        }
                    }
                }
            }
        }
    }
}

fn toast_part(ctx: &Ctx, rep: &mut Report, rng: &mut Rng) {
    let mut reqs: Vec<String> = vec![];
    let mut real: Vec<String> = vec![];
    let mut sizes: Vec<usize> = vec![0, 1, 999, 1000, 1001, 3999, 4000, 4001, 7999, 8000, 8001, 11999, 12000, 12001, 1 << 20, 3_000_001, usize::MAX / 2, u32::MAX as usize, u32::MAX as usize + 1];
    for _ in 0..200 { sizes.push(rng.below(50_000) as usize); }
    for &n in &sizes {
        reqs.push(format!("count {n}"));
        real.push(guarded(move || chunk_count(n)).map(|x| x.to_string()).unwrap_or_else(|p| format!("panic {p}")));
        if n <= 3_000_001 {
            let data = vec![0u8; n];
            reqs.push(format!("needs {n}"));
            real.push((needs_toast(&data) as u8).to_string());
            reqs.push(format!("chunklens {n}"));
            real.push(std::iter::once("n".to_string()).chain(data.chunks(turdb::storage::toast::TOAST_CHUNK_SIZE).map(|c| c.len().to_string())).collect::<Vec<_>>().join(" "));
        }
    }
    for _ in 0..300 {
        let row = match rng.below(4) { 0 => rng.below(10), 1 => (1u64 << 48) - 1 - rng.below(3), 2 => rng.next() >> 16, _ => rng.below(1 << 32) };
        let col = match rng.below(3) { 0 => rng.below(4), 1 => 65535 - rng.below(2), _ => rng.below(65536) };
        let size = match rng.below(3) { 0 => rng.below(10_000), 1 => u64::MAX - rng.below(2), _ => rng.next() };
        reqs.push(format!("ptr {row} {col} {size}"));
        let p = ToastPointer::new(row, col as u16, size);
        let enc = p.encode();
        real.push(hexs(&enc));
        reqs.push(format!("decode {}", hexs(&enc)));
        real.push(match ToastPointer::decode(&enc) { Ok(d) => format!("ok {} {}", d.total_size, d.chunk_id), Err(_) => "err".into() });
        if ToastPointer::decode(&enc).map(|d| d.total_size != size || d.row_id() != row || d.column_index() as u64 != col).unwrap_or(true) {
            rep.oracle_fail(format!("ptr {row} {col} {size}"), "ToastPointer decode(encode) is not the identity".into(), "toast:pointer-roundtrip".into());
        }
        let seq = if rng.chance(1, 2) { rng.below(5) } else { rng.below(1 << 32) };
        reqs.push(format!("key {} {seq}", p.chunk_id));
        real.push(hexs(&make_chunk_key(p.chunk_id, seq as u32)));
        // arbitrary byte strings around the pointer shape
        let n = *rng.pick(&[0usize, 1, 16, 17, 17, 17, 18, 40]);
        let mut b = rng.bytes(n);
        if n > 0 && rng.chance(2, 3) { b[0] = 0xFE; }
        reqs.push(format!("isptr {}", hexs(&b)));
        real.push((is_toast_pointer(&b) as u8).to_string());
        reqs.push(format!("decode {}", hexs(&b)));
        real.push(match ToastPointer::decode(&b) { Ok(d) => format!("ok {} {}", d.total_size, d.chunk_id), Err(_) => "err".into() });
    }
    // UTF-8 validity: boundary sequences + random
    let mut us: Vec<Vec<u8>> = vec![vec![], vec![0x7f], vec![0x80], vec![0xc1, 0xbf], vec![0xc2, 0x80], vec![0xdf, 0xbf], vec![0xe0, 0x9f, 0xbf], vec![0xe0, 0xa0, 0x80], vec![0xed, 0x9f, 0xbf], vec![0xed, 0xa0, 0x80], vec![0xee, 0x80, 0x80], vec![0xef, 0xbf, 0xbf],
        vec![0xf0, 0x8f, 0xbf, 0xbf], vec![0xf0, 0x90, 0x80, 0x80], vec![0xf4, 0x8f, 0xbf, 0xbf], vec![0xf4, 0x90, 0x80, 0x80], vec![0xf5, 0x80, 0x80, 0x80], vec![0xe2, 0x82], vec![0xf0, 0x9f, 0x98], vec![b'a', 0xc3], vec![0xc3, 0xa9, b'z']];
    for _ in 0..(if ctx.thorough { 20_000 } else { 3_000 }) {
        let n = rng.below(7) as usize;
        let b: Vec<u8> = (0..n).map(|_| *rng.pick(&[0x00u8, 0x41, 0x7f, 0x80, 0x8f, 0x90, 0x9f, 0xa0, 0xbf, 0xc0, 0xc1, 0xc2, 0xdf, 0xe0, 0xe1, 0xec, 0xed, 0xee, 0xef, 0xf0, 0xf1, 0xf3, 0xf4, 0xf5, 0xff])).collect();
        us.push(b);
    }
    for b in &us {
        reqs.push(format!("utf8 {}", hexs(b)));
        real.push((std::str::from_utf8(b).is_ok() as u8).to_string());
    }
    let resp = model_batch(&ctx.model_bin, "toast", &reqs);
    for i in 0..reqs.len() {
        rep.case(Some(&reqs[i]));
        rep.count("A:toast-fn");
        if resp[i] != real[i] {
            rep.disagree(reqs[i].clone(), format!("impl={} model={}", short(&real[i]), short(&resp[i])), format!("toast-{}-differs", reqs[i].split(' ').next().unwrap_or("")));
        }
    }
}

pub fn run(ctx: &Ctx) -> Report {
    let mut rep = Report::new(
        "sql_values",
        "18 column types x boundary values (integer range ends and just outside, float specials incl. NaN/inf/-0/subnormal/max, text and blob of every size class around the TOAST threshold 1000 and chunk size 4000 (+-1, multiples, 100 kB, several MB) in ASCII / 2-byte / 4-byte / binary / valid-UTF-8 flavours, 17-byte blobs that look like TOAST pointers, date/time/timestamp range ends, uuid, json documents, vectors) x {literal, parameter} x {INSERT, UPDATE}, read back by primary key before and after reopen; oracle: same type tag and value (floats by bit pattern, NaN as class); out-of-range values must be rejected. non-trivial = distinct (type, path, value) whose write was attempted",
    );
    let mut rng = Rng::new(ctx.seed);
    let t0 = std::time::Instant::now();
    if let Ok(spec) = std::env::var("C11_DEV") {
        // development aid: C11_DEV="p:3000001 l:3000001 p:100" = param / literal inserts of text of that length
        let dbd = DbDir::create(ctx, "c11dev");
        let db = dbd.db();
        println!("{}", exec(db, "CREATE TABLE w (id BIGINT PRIMARY KEY, v TEXT)").show());
        for (k, it) in spec.split_whitespace().enumerate() {
            let (m, n) = it.split_once(':').unwrap();
            let txt = text_of_len(n.parse().unwrap(), 0);
            let r = if m == "p" {
                let ps = vec![OwnedValue::Int(k as i64 + 1), OwnedValue::Text(txt)];
                res_of(guarded(std::panic::AssertUnwindSafe(move || db.execute_with_params("INSERT INTO w VALUES (?, ?)", &ps))))
            } else {
                exec(db, &format!("INSERT INTO w VALUES ({}, '{}')", k + 1, txt))
            };
            println!("{it} -> {}", r.show());
        }
        return rep;
    }
    toast_part(ctx, &mut rep, &mut rng);

    let mut all = cases(ctx, &mut rng);
    for l in ctx.corpus_cases("C11") {
        let p: Vec<&str> = l.split_whitespace().collect();
        if p.len() == 5 && p[0] == "val" {
            if let (Some(ty), Some(v)) = (TYPES.iter().find(|t| t.id == p[1]), dec_val(p[4])) {
                let mut c = mk(ty.id, p[3], v);
                c.class = p[3].to_string();
                if p[3].starts_with("over-") || p[3].starts_with("under-") { c.expect = Expect::Reject; }
                if p[3] == "int-literal" { if let OwnedValue::Int(i) = &c.val { c.expect = Expect::Same(vcell(&OwnedValue::Float(*i as f64))); } }
                all.push(c);
            }
        }
    }
    // primary-key values start at 10^6 so that they never equal an internal row id (< 10^5 here):
    // UPDATE derives TOAST chunk ids from the primary-key value, INSERT from the internal row id, and
    // equal numbers make the two collide (known finding, exercised deterministically by
    // `collision_scenario` below instead of at random here)
    let mut tab = Tab { dbd: DbDir::create(ctx, "c11"), next_id: 1_000_000 };
    for t in TYPES {
        match exec(tab.dbd.db(), &format!("CREATE TABLE v_{} (id BIGINT PRIMARY KEY, v {})", t.id, t.ddl)) {
            Res::Err(e) | Res::Panic(e) => rep.oracle_fail(format!("create {}", t.id), format!("CREATE TABLE with column type {} failed: {e}", t.ddl), format!("value:{}:create:-:error", t.id)),
            _ => {}
        }
    }
    struct Done { idx: usize, path: &'static str, id: i64, wrote: Result<(), String>, before: Option<Result<OwnedValue, String>>, failed_before: bool }
    let mut done: Vec<Done> = vec![];
    let mut model_reqs: Vec<(usize, String)> = vec![];
    for (idx, c) in all.iter().enumerate() {
        for path in PATHS {
            let big = match &c.val { OwnedValue::Text(s) => s.len(), OwnedValue::Blob(b) => b.len(), _ => 0 };
            if big > 200_000 && (*path == "lit-upd" || *path == "par-upd") && !ctx.thorough { continue; }
            let (id, wrote) = write_one(&mut tab, c, path);
            if matches!(&wrote, Err(m) if m == "skip") { continue; }
            let before = if wrote.is_ok() { Some(read_one(&tab, c.ty, id)) } else { None };
            let case = format!("val {} {} {} {}", c.ty, path, c.class, enc_val(&c.val));
            let keyed = if case.len() > 300 { format!("{}#{}", &case[..200], fnv(&case)) } else { case.clone() };
            rep.case(Some(&keyed));
            rep.count(&format!("type:{}", c.ty));
            rep.count(&format!("path:{path}"));
            if done.len() % 97 == 0 { rep.sample(format!("{} -> {}", short(&case), before.as_ref().map(|r| r.as_ref().map(|v| short(&vcell(v))).unwrap_or_else(|e| e.clone())).unwrap_or_else(|| format!("{wrote:?}")))); }
            let j = judge(c, &wrote, before.as_ref());
            let failed_before = j.is_some();
            if let Some((what, detail)) = j {
                rep.oracle_fail(short(&case), format!("{} column, {path}: {detail}", c.ty), format!("value:{}:{path}:{}:{what}", c.ty, c.class));
            }
            // correspondence of the TOAST chain model (text/blob, moderate sizes)
            if (c.ty == "text" || c.ty == "blob") && big <= 200_000 && wrote.is_ok() {
                let (k, bytes) = match &c.val { OwnedValue::Text(s) => ("T", s.as_bytes().to_vec()), OwnedValue::Blob(b) => ("X", b.clone()), _ => ("", vec![]) };
                if !k.is_empty() { model_reqs.push((done.len(), format!("rt {} {k} {}", c.ty, hexs(&bytes)))); }
            }
            done.push(Done { idx, path, id, wrote, before, failed_before });
        }
    }
    // model prediction for the chain vs. what the engine returned
    let reqs: Vec<String> = model_reqs.iter().map(|x| x.1.clone()).collect();
    let resp = model_batch(&ctx.model_bin, "toast", &reqs);
    for (k, (di, req)) in model_reqs.iter().enumerate() {
        let d = &done[*di];
        let real = match d.before.as_ref() {
            Some(Ok(OwnedValue::Text(s))) => format!("T {}", hexs(s.as_bytes())),
            Some(Ok(OwnedValue::Blob(b))) => format!("X {}", hexs(b)),
            Some(Ok(other)) => format!("other {}", short(&vcell(other))),
            Some(Err(_)) => "err".to_string(),
            None => continue,
        };
        rep.count("A:chain-model");
        if real != resp[k] {
            rep.disagree(short(req), format!("chain model predicts {} ; engine returned {}", short(&resp[k]), short(&real)), "toast-chain-differs".into());
        }
    }
    rep.notes.push(format!("write+read phase {:?}", t0.elapsed()));
    // after reopen
    match tab.dbd.reopen() {
        Err(e) => rep.oracle_fail("reopen".into(), e, "value:reopen-failed".into()),
        Ok(()) => {
            for d in &done {
                if d.wrote.is_err() { continue; }
                let c = &all[d.idx];
                let after = read_one(&tab, c.ty, d.id);
                rep.count("reopen-reads");
                let same_as_before = match (&d.before, &after) {
                    (Some(Ok(a)), Ok(b)) => vcell(a) == vcell(b),
                    (Some(Err(_)), Err(_)) => true,
                    _ => false,
                };
                if same_as_before && d.failed_before { continue; } // already reported
                if let Some((what, detail)) = judge(c, &d.wrote, Some(&after)) {
                    let case = format!("val {} {} {} {}", c.ty, d.path, c.class, enc_val(&c.val));
                    rep.oracle_fail(short(&case), format!("{} column, {} after reopen: {detail}", c.ty, d.path), format!("value:{}:{}:{}:reopen:{what}", c.ty, d.path, c.class));
                }
            }
        }
    }
    drop(tab);
    collision_scenario(ctx, &mut rep);
    overwrite_chain_scenario(ctx, &mut rep);
    reopen_write_scenario(ctx, &mut rep);
    rep.notes.push(format!("total {:?}", t0.elapsed()));
    rep
}

/// UPDATE toasts under chunk id (col << 48 | primary-key value), INSERT under (col << 48 | internal
/// row id): a fresh database where the two numbers meet.
fn collision_scenario(ctx: &Ctx, rep: &mut Report) {
    for (ty, ddl) in [("text", "TEXT"), ("blob", "BLOB")] {
        let dbd = DbDir::create(ctx, "c11col");
        let db = dbd.db();
        let mkv = |n: usize, seed: u8| -> OwnedValue {
            if ty == "text" { OwnedValue::Text((0..n).map(|i| (b'a' + ((i as u8).wrapping_add(seed)) % 26) as char).collect()) }
            else { OwnedValue::Blob((0..n).map(|i| 0x80 | ((i as u8).wrapping_add(seed) & 0x3f)).collect()) }
        };
        let a = mkv(9000, 1);
        let b = mkv(5000, 2);
        let _ = exec(db, &format!("CREATE TABLE c (id BIGINT PRIMARY KEY, v {ddl})"));
        // internal row id 1 holds A (pk 10); internal row id 2 holds a small value (pk 1)
        let r1 = exec(db, &format!("INSERT INTO c VALUES (10, {})", literal_of(&a).unwrap()));
        let r2 = exec(db, &format!("INSERT INTO c VALUES (1, {})", literal_of(&mkv(3, 0)).unwrap()));
        // a valid UPDATE of pk 1 to a large value: its chunks go under id 1 = row 10's chunks
        let r3 = exec(db, &format!("UPDATE c SET v = {} WHERE id = 1", literal_of(&b).unwrap()));
        let case = format!("scenario {ty} insert(pk=10,big) insert(pk=1,small) update(pk=1,big)");
        rep.case(Some(&case));
        rep.count("collision-scenario");
        let read = |id: i64| -> Result<String, String> {
            let sql = format!("SELECT id, v FROM c WHERE id = {id}");
            match guarded(std::panic::AssertUnwindSafe(move || db.query(&sql))) {
                Ok(Ok(rows)) if rows.len() == 1 => Ok(vcell(&rows[0].values[1])),
                Ok(Ok(rows)) => Err(format!("rows={}", rows.len())),
                Ok(Err(e)) => Err(format!("error {e:#}")),
                Err(p) => Err(format!("panic {p}")),
            }
        };
        if !matches!(r1, Res::Affected(1)) || !matches!(r2, Res::Affected(1)) { rep.count("collision-scenario-setup-failed"); continue; }
        let upd_ok = matches!(r3, Res::Affected(1));
        if !upd_ok {
            rep.oracle_fail(case.clone(), format!("valid UPDATE of a {ty} column to a 5000-byte value was refused: {}", r3.show()), format!("value:{ty}:lit-upd:toast-chunk-id-collision:write-error"));
        }
        match read(10) {
            Ok(c) if c == vcell(&a) => {}
            other => rep.oracle_fail(case.clone(), format!("row pk=10 no longer reads back its value after the UPDATE of row pk=1: {}", other.map(|c| short(&c)).unwrap_or_else(|e| e)), format!("value:{ty}:lit-upd:toast-chunk-id-collision:other-row-damaged")),
        }
        let want1 = if upd_ok { vcell(&b) } else { vcell(&mkv(3, 0)) };
        match read(1) {
            Ok(c) if c == want1 => {}
            other => rep.oracle_fail(case.clone(), format!("row pk=1 does not read back its last written value: {}", other.map(|c| short(&c)).unwrap_or_else(|e| e)), format!("value:{ty}:lit-upd:toast-chunk-id-collision:own-row-wrong")),
        }
    }
}

/// One row, updated by primary key again and again with values of changing size class (below the
/// TOAST threshold, one chunk, several chunks, NULL), alternately as literal and as bound parameter:
/// every UPDATE must be accepted and the cell must read back the value written last, also after reopen.
fn overwrite_chain_scenario(ctx: &Ctx, rep: &mut Report) {
    for (ty, ddl) in [("text", "TEXT"), ("blob", "BLOB")] {
        for start_big in [false, true] {
            let mut dbd = DbDir::create(ctx, "c11chain");
            let mkv = |n: usize, seed: u8| -> OwnedValue {
                if ty == "text" { OwnedValue::Text((0..n).map(|i| (b'a' + ((i as u8).wrapping_add(seed)) % 26) as char).collect()) }
                else { OwnedValue::Blob((0..n).map(|i| 0x80 | ((i as u8).wrapping_add(seed) & 0x3f)).collect()) }
            };
            let _ = exec(dbd.db(), &format!("CREATE TABLE c (id BIGINT PRIMARY KEY, v {ddl})"));
            let first = if start_big { mkv(7000, 9) } else { mkv(5, 9) };
            let r0 = exec(dbd.db(), &format!("INSERT INTO c VALUES (1, {})", literal_of(&first).unwrap()));
            let _ = exec(dbd.db(), &format!("INSERT INTO c VALUES (2, {})", literal_of(&mkv(4, 3)).unwrap()));
            if !matches!(r0, Res::Affected(1)) { rep.count("chain-scenario-setup-failed"); continue; }
            let sizes: [(usize, &str); 9] = [(5000, "big"), (12, "small"), (9000, "big"), (1500, "one-chunk"), (3, "small"), (4100, "big"), (0, "null"), (6000, "big"), (20, "small")];
            let mut last = first.clone();
            let mut prev_class = if start_big { "big" } else { "small" };
            for (k, (n, class)) in sizes.iter().enumerate() {
                let v = if *class == "null" { OwnedValue::Null } else { mkv(*n, k as u8) };
                let par = k % 2 == 1;
                let case = format!("scenario {ty} overwrite chain start={} step {k}: {prev_class} -> {class} ({})", if start_big { "big" } else { "small" }, if par { "parameter" } else { "literal" });
                rep.case(Some(&case));
                rep.count("overwrite-chain-step");
                let db = dbd.db();
                let r = if par {
                    let ps = vec![v.clone(), OwnedValue::Int(1)];
                    res_of(guarded(std::panic::AssertUnwindSafe(move || db.execute_with_params("UPDATE c SET v = ? WHERE id = ?", &ps))))
                } else {
                    exec(db, &format!("UPDATE c SET v = {} WHERE id = 1", if *class == "null" { "NULL".to_string() } else { literal_of(&v).unwrap() }))
                };
                let sigp = format!("value:{ty}:{}-upd:overwrite-{prev_class}-to-{class}", if par { "par" } else { "lit" });
                if !matches!(r, Res::Affected(1)) {
                    rep.oracle_fail(case.clone(), format!("valid UPDATE refused: {}", r.show()), format!("{sigp}:write-error"));
                } else { last = v.clone(); }
                let db = dbd.db();
                let got = match guarded(std::panic::AssertUnwindSafe(move || db.query("SELECT id, v FROM c WHERE id = 1"))) {
                    Ok(Ok(rows)) if rows.len() == 1 => Ok(vcell(&rows[0].values[1])),
                    Ok(Ok(rows)) => Err(format!("rows={}", rows.len())),
                    Ok(Err(e)) => Err(format!("error {e:#}")),
                    Err(p) => Err(format!("panic {p}")),
                };
                match got {
                    Ok(c) if c == vcell(&last) => {}
                    other => { rep.oracle_fail(case.clone(), format!("the cell does not read back the value written last: {}", other.map(|c| short(&c)).unwrap_or_else(|e| e)), format!("{sigp}:read-back")); break; }
                }
                if !matches!(r, Res::Affected(1)) { break; }
                prev_class = class;
            }
            // after reopen
            if dbd.reopen().is_ok() {
                let db = dbd.db();
                let got = match guarded(std::panic::AssertUnwindSafe(move || db.query("SELECT id, v FROM c WHERE id = 1"))) {
                    Ok(Ok(rows)) if rows.len() == 1 => Ok(vcell(&rows[0].values[1])),
                    Ok(Ok(rows)) => Err(format!("rows={}", rows.len())),
                    Ok(Err(e)) => Err(format!("error {e:#}")),
                    Err(p) => Err(format!("panic {p}")),
                };
                match got {
                    Ok(c) if c == vcell(&last) => {}
                    other => rep.oracle_fail(format!("scenario {ty} overwrite chain start_big={start_big} reopen"), format!("after reopen the cell does not read back the value written last: {}", other.map(|c| short(&c)).unwrap_or_else(|e| e)), format!("value:{ty}:overwrite-chain:reopen:read-back")),
                }
            }
        }
    }
}

/// INSERT after reopen: the internal row-id counter restarts at 1 on `Database::open`, so new rows
/// get row keys (and TOAST chunk ids) that existing rows already use.
fn reopen_write_scenario(ctx: &Ctx, rep: &mut Report) {
    let mut dbd = DbDir::create(ctx, "c11re");
    let big_a: String = (0..6000).map(|i| (b'a' + (i % 26) as u8) as char).collect();
    let big_b: String = (0..9000).map(|i| (b'A' + (i % 26) as u8) as char).collect();
    let mut rows: Vec<(i64, String)> = vec![(1, "one".into()), (2, big_a), (3, "three".into())];
    let _ = exec(dbd.db(), "CREATE TABLE r (id BIGINT PRIMARY KEY, v TEXT)");
    for (id, v) in &rows { let _ = exec(dbd.db(), &format!("INSERT INTO r VALUES ({id}, {})", quote_text(v))); }
    if let Err(e) = dbd.reopen() { rep.oracle_fail("scenario reopen-write".into(), e, "value:reopen-failed".into()); return; }
    let db = dbd.db();
    for (k, (id, v, class)) in [(4i64, "four".to_string(), "short"), (5, big_b, "toast-2chunk-ascii")].into_iter().enumerate() {
        let case = format!("scenario text insert x3, reopen, insert #{} ({class})", k + 1);
        rep.case(Some(&case));
        rep.count("reopen-write-scenario");
        let r = if k == 0 { exec(db, &format!("INSERT INTO r VALUES ({id}, {})", quote_text(&v))) } else {
            let ps = vec![OwnedValue::Int(id), OwnedValue::Text(v.clone())];
            res_of(guarded(std::panic::AssertUnwindSafe(move || db.execute_with_params("INSERT INTO r VALUES (?, ?)", &ps))))
        };
        let path = if k == 0 { "lit-ins" } else { "par-ins" };
        match r {
            Res::Affected(1) => rows.push((id, v)),
            other => rep.oracle_fail(case, format!("INSERT of a new row after reopen failed: {}", other.show()), format!("value:text:{path}@reopened:{class}:write-{}", if matches!(other, Res::Panic(_)) { "panic" } else { "error" })),
        }
    }
    for (id, v) in &rows {
        let sql = format!("SELECT id, v FROM r WHERE id = {id}");
        let got = match guarded(std::panic::AssertUnwindSafe(move || db.query(&sql))) {
            Ok(Ok(r)) if r.len() == 1 => vcell(&r[0].values[1]),
            Ok(Ok(r)) => format!("rows={}", r.len()),
            Ok(Err(e)) => format!("error {e:#}"),
            Err(p) => format!("panic {p}"),
        };
        if got != vcell(&OwnedValue::Text(v.clone())) {
            let class = if v.len() > 1000 { "toast" } else { "short" };
            let what = if got.starts_with("rows=") { "row-missing" } else if got.starts_with("error") { "read-error" } else if got.starts_with("panic") { "read-panic" } else { "wrong-value" };
            rep.oracle_fail(format!("scenario reopen-write read pk={id}"), format!("row pk={id} written {} the reopen reads back {}", if *id <= 3 { "before" } else { "after" }, short(&got)), format!("value:text:{}:{class}:{what}", if *id <= 3 { "after-writes@reopened" } else { "read@reopened" }));
        }
    }
}
