//! C10: indexes never change query results.  Twin-database metamorphic run.
//!
//! Every generated history runs on database A (PRIMARY KEY, UNIQUE column, secondary / composite /
//! unique indexes, with CREATE INDEX and DROP INDEX at random points) and on database B (same
//! columns, no constraint, no index).  At checkpoints the two full dumps and a battery of point /
//! range / prefix / IN / conjunctive / ORDER BY queries on the indexed columns (present, absent,
//! gap, below-min, above-max and NULL probes) must return the same bag on A and B (the C10 oracle).
//! B's dump is loaded into the Lean model (`sqlidx`), whose index scan (`idxscan`: derive + seek +
//! takeWhile + fetch) and filter (`query`) answers are compared with each other and with B.
//!
//! Case syntax (corpus / replay):
//!   `hist <seed> <profile> <rows>`           re-generate one random history
//!   `focus <mutation> <fresh|bf> <nulls|nonulls>`   one systematic mini-history
//!   `script <item> ;; <item> ;; ...`         items `A: sql` / `B: sql` / `AB: sql` /
//!                                            `Q <kind> <keytype> <probe>: select`
use crate::common::*;
use crate::sqlgen::*;
use crate::sqlgen_idx::*;

const NCOLS: usize = 6;
const COLS: [(&str, CTy); NCOLS] = [("id", CTy::Big), ("n", CTy::Big), ("d", CTy::Dbl), ("s", CTy::Text), ("u", CTy::Big), ("k", CTy::Text)];

struct IdxSpec { name: &'static str, cols: &'static [usize], unique: bool }
const POOL: &[IdxSpec] = &[
    IdxSpec { name: "ix_n", cols: &[1], unique: false },
    IdxSpec { name: "ix_d", cols: &[2], unique: false },
    IdxSpec { name: "ix_s", cols: &[3], unique: false },
    IdxSpec { name: "ix_ns", cols: &[1, 3], unique: false },
    IdxSpec { name: "ix_sn", cols: &[3, 1], unique: false },
    IdxSpec { name: "ix_dn", cols: &[2, 1], unique: false },
    IdxSpec { name: "ux_k", cols: &[5], unique: true },
    IdxSpec { name: "ux_kn", cols: &[5, 1], unique: true },
];

fn base_path(index_name: &str) -> &'static str {
    if index_name.is_empty() { return "scan"; }
    if index_name.ends_with("_pkey") { return "pkey"; }
    if index_name.ends_with("_key") { return "unique"; }
    match POOL.iter().find(|p| p.name == index_name) {
        Some(p) => match (p.unique, p.cols.len() > 1) {
            (false, false) => "secondary",
            (false, true) => "composite",
            (true, false) => "uniqueidx",
            (true, true) => "uniquecomposite",
        },
        None => "other",
    }
}

const PREFIX36: &str = "shared-prefix-shared-prefix-shared--";

#[derive(Clone, Copy, PartialEq, Debug)]
enum Prof { Dups, Asc, Desc, Prefix }

impl Prof {
    fn name(&self) -> &'static str { match self { Prof::Dups => "dups", Prof::Asc => "asc", Prof::Desc => "desc", Prof::Prefix => "prefix" } }
    fn parse(s: &str) -> Option<Prof> { match s { "dups" => Some(Prof::Dups), "asc" => Some(Prof::Asc), "desc" => Some(Prof::Desc), "prefix" => Some(Prof::Prefix), _ => None } }
}

struct Probe {
    kind: &'static str,
    class: &'static str,
    col: usize,
    pred: Option<E>,
    order: Option<bool>,
    /// bounds on `col` for the model's index scan: (lo, hi) as s-expressions
    bounds: Option<(String, String)>,
}

struct Twin<'a> {
    ctx: &'a Ctx,
    a: Dbh,
    b: Dbh,
    /// (pool index, created over a non-empty table)
    live: Vec<(usize, bool)>,
    case: String,
    in_txn_seen: bool,
    next_id: i64,
    next_u: i64,
    free_ids: Vec<i64>,
    dead: bool,
    /// first statement kind of this history that belongs to a class with a listed index-maintenance defect
    /// (DELETE / UPDATE / rolled-back transaction): from then on the indexes may already hold stale entries
    /// that only a later lookup notices; such late detections are attributed to that statement kind
    tainted_by: Option<String>,
}

fn scope() -> Scope { COLS.iter().map(|(n, _)| n.to_string()).collect() }

fn col_e(c: usize) -> Box<E> { Box::new(E::Col(c)) }
fn lit(v: &V) -> Box<E> { Box::new(E::Lit(v.clone())) }
fn cmp(op: Op, c: usize, v: &V) -> E { E::Bin(op, col_e(c), lit(v)) }
fn and(a: E, b: E) -> E { E::Bin(Op::And, Box::new(a), Box::new(b)) }
fn or(a: E, b: E) -> E { E::Bin(Op::Or, Box::new(a), Box::new(b)) }

fn v_key(v: &V) -> (u8, f64, String) {
    match v {
        V::Null => (0, 0.0, String::new()),
        V::Bool(b) => (1, *b as u8 as f64, String::new()),
        V::Int(_) | V::Flt(..) => (2, v.f64().unwrap(), String::new()),
        V::Text(s) => (3, 0.0, s.clone()),
    }
}

fn v_lt(a: &V, b: &V) -> bool {
    let (x, y) = (v_key(a), v_key(b));
    x.0 < y.0 || (x.0 == y.0 && (x.1 < y.1 || (x.1 == y.1 && x.2 < y.2)))
}

fn v_eq(a: &V, b: &V) -> bool { !v_lt(a, b) && !v_lt(b, a) }

impl<'a> Twin<'a> {
    fn new(ctx: &'a Ctx, tag: &str, case: String) -> Twin<'a> {
        let a = Dbh::create(ctx, &format!("c10a-{tag}"));
        let b = Dbh::create(ctx, &format!("c10b-{tag}"));
        a.must("CREATE TABLE t (id BIGINT PRIMARY KEY, n BIGINT, d DOUBLE, s TEXT, u BIGINT UNIQUE, k TEXT)");
        b.must("CREATE TABLE t (id BIGINT, n BIGINT, d DOUBLE, s TEXT, u BIGINT, k TEXT)");
        Twin { ctx, a, b, live: vec![], case, in_txn_seen: false, next_id: 1, next_u: 1000, free_ids: vec![], dead: false, tainted_by: None }
    }

    /// run a data statement on both databases; the outcomes must agree, and so must the point
    /// lookups of every touched key value right after the statement
    fn both(&mut self, sql: &str, kind: &str, touch: &[(usize, V)], rep: &mut Report) {
        let oa = self.a.exec(sql);
        let ob = self.b.exec(sql);
        let (ca, cb) = (dml_class(&oa), dml_class(&ob));
        rep.count(&format!("stmt_{kind}"));
        if ca != cb {
            let what = |c: &str| -> String { if c.starts_with("ok") { "ok".into() } else { c.to_string() } };
            let sig = if what(&ca) == "ok" && what(&cb) == "ok" { format!("index:dml:{kind}:affected-differs") } else { format!("index:dml:{kind}:a={}:b={}", what(&ca), what(&cb)) };
            rep.oracle_fail(format!("{} ;; {}", self.case, short(sql, 400)), format!("{}: with indexes {ca}, without {cb}; A: {:?}", short(sql, 300), match &oa { Out::Err(e) => short(e, 200), Out::Panic(p) => short(p, 200), _ => String::new() }), sig);
        }
        self.after(sql, kind, touch, rep);
    }

    /// point lookups of the touched values on both databases; on a mismatch the statement kind is
    /// blamed and the history stops (later differences would only be consequences)
    fn after(&mut self, sql: &str, kind: &str, touch: &[(usize, V)], rep: &mut Report) {
        let k = self.blame(kind);
        if k != kind { rep.count("late_attribution_checks"); }
        if !self.verify(sql, &k, touch, Some(rep)) { self.dead = true; rep.count("histories_stopped_at_first_stale_lookup"); }
        if self.tainted_by.is_none() && (kind.starts_with("delete_") || kind.starts_with("update_") || kind == "rolled_back_txn") { self.tainted_by = Some(kind.to_string()); }
    }

    /// statement kind a stale lookup found right after a statement of kind `kind` is attributed to
    fn blame(&self, kind: &str) -> String {
        match (&self.tainted_by, kind) {
            (Some(t), "insert" | "insert_multi" | "insert_dupkey" | "create_index" | "drop_index") => format!("{t}:late"),
            _ => kind.to_string(),
        }
    }

    fn verify(&mut self, stmt: &str, kind: &str, touch: &[(usize, V)], mut rep: Option<&mut Report>) -> bool {
        let sc = scope();
        let mut ok = true;
        for (c, v) in touch {
            if *v == V::Null { continue; }
            let sql = format!("SELECT * FROM t WHERE {}", cmp(Op::Eq, *c, v).sql(&sc));
            let (ra, rb) = (q(&self.a, &sql), q(&self.b, &sql));
            let what = match (&ra, &rb) {
                (Ok(x), Ok(y)) => {
                    if same_bag(x, y) { continue; }
                    let (miss, extra) = (bag_minus(y, x, same_cell), bag_minus(x, y, same_cell));
                    match (miss.is_empty(), extra.is_empty()) { (false, true) => "missing".to_string(), (true, false) => "extra".to_string(), _ => "both".to_string() }
                }
                (Err(e), Ok(_)) => e.clone(),
                _ => continue,
            };
            ok = false;
            if let Some(rep) = rep.as_deref_mut() {
                let (path, _) = self.path(&sql);
                rep.oracle_fail(format!("{} ;; {} ;; {}", self.case, short(stmt, 300), sql),
                    format!("right after `{}`: {sql} [plan {path}] with indexes {:?} vs without {:?}", short(stmt, 200), ra.as_ref().map(|r| show_some(r, 2)), rb.as_ref().map(|r| show_some(r, 2))),
                    format!("index:stale-after:{kind}:{path}:{}:{what}", COLS[*c].1.kind()));
            }
        }
        ok
    }

    /// statement that must be rejected by A's PRIMARY KEY / UNIQUE constraint: not run on B
    fn a_rejects(&mut self, sql: &str, kind: &str, rep: &mut Report) {
        let oa = self.a.exec(sql);
        rep.count(&format!("stmt_{kind}_dupkey"));
        match oa {
            Out::Err(e) if error_class(&e) == "constraint" => {}
            Out::Affected(..) => {
                // accepted a duplicate key: keep the twin in step (the uniqueness defect belongs to C05)
                let _ = self.b.exec(sql);
                rep.count("dupkey_accepted_by_A");
            }
            _ => { rep.count("dupkey_other_outcome"); }
        }
    }

    fn create_index(&mut self, pi: usize, rep: &mut Report) {
        let p = &POOL[pi];
        if self.live.iter().any(|(x, _)| *x == pi) { return; }
        let bf = self.nonempty();
        let sql = format!("CREATE {}INDEX {} ON t ({})", if p.unique { "UNIQUE " } else { "" }, p.name, p.cols.iter().map(|c| COLS[*c].0).collect::<Vec<_>>().join(", "));
        rep.count(if bf { "stmt_create_index_backfill" } else { "stmt_create_index_empty" });
        match self.a.exec(&sql) {
            Out::Other(_) => self.live.push((pi, bf)),
            o => { rep.oracle_fail(format!("{} ;; {sql}", self.case), format!("{sql}: {}", short(&format!("{o:?}"), 300)), format!("index:ddl:create-{}:{}", base_path(p.name), dml_class(&o).split(':').next().unwrap_or("?"))); return; }
        }
        if bf {
            // the new index must answer like the table: ORDER BY its first column and a few point lookups
            let c = p.cols[0];
            let mut touch: Vec<(usize, V)> = vec![];
            if let Ok(rows) = q(&self.b, "SELECT * FROM t") {
                for r in rows.iter().take(40) { if let Some(v) = cell_to_v(&r[c]) { touch.push((c, v)); } }
            }
            let sqlo = format!("SELECT * FROM t ORDER BY {}", COLS[c].0);
            if let (Ok(x), Ok(y)) = (q(&self.a, &sqlo), q(&self.b, &sqlo)) {
                if !same_bag(&x, &y) {
                    let (miss, extra) = (bag_minus(&y, &x, same_cell), bag_minus(&x, &y, same_cell));
                    let what = match (miss.is_empty(), extra.is_empty()) { (false, true) => "missing", (true, false) => "extra", _ => "both" };
                    let (path, ixu) = self.path(&sqlo);
                    if ixu == p.name {
                    rep.oracle_fail(format!("{} ;; {sql} ;; {sqlo}", self.case), format!("right after `{sql}`: {sqlo} [plan {path}]: without indexes {} rows, with {} rows; missing: {} | extra: {}", y.len(), x.len(), show_some(&miss, 2), show_some(&extra, 2)),
                        format!("index:stale-after:{}:{path}:{}:orderby-{what}", self.blame("create_index"), COLS[c].1.kind()));
                    self.dead = true;
                    }
                }
            }
            self.after(&sql, "create_index", &touch, rep);
        }
    }

    fn drop_index(&mut self, rng: &mut Rng, rep: &mut Report) {
        if self.live.is_empty() { return; }
        let j = rng.below(self.live.len() as u64) as usize;
        let (pi, _) = self.live.remove(j);
        let sql = format!("DROP INDEX {}", POOL[pi].name);
        rep.count("stmt_drop_index");
        match self.a.exec(&sql) {
            Out::Other(_) => {}
            o => rep.oracle_fail(self.case.clone(), format!("{sql}: {}", short(&format!("{o:?}"), 300)), format!("index:ddl:drop-{}:{}", base_path(POOL[pi].name), dml_class(&o).split(':').next().unwrap_or("?"))),
        }
    }

    /// plan path of a query on A: kind of index used, `+bf` when that index was built by CREATE INDEX
    /// over existing rows
    fn path(&self, sql: &str) -> (String, String) {
        let ix = explain_index(&self.a, sql);
        let base = base_path(&ix);
        let bf = self.live.iter().any(|(pi, bf)| *bf && POOL[*pi].name == ix);
        (format!("{base}{}", if bf { "+bf" } else { "" }), ix)
    }

    fn nonempty(&self) -> bool { q(&self.b, "SELECT id FROM t").map(|r| !r.is_empty()).unwrap_or(false) }

    fn dump(&self, db: &Dbh) -> Result<Vec<Vec<String>>, String> { q(db, "SELECT * FROM t") }

    /// compare the dumps, load B's into the model, run the probe battery
    fn checkpoint(&mut self, rng: &mut Rng, model: &mut Model, rep: &mut Report, stage: &str, heavy: bool) {
        rep.count("checkpoints");
        let (da, db) = (self.dump(&self.a), self.dump(&self.b));
        let rows = match (&da, &db) {
            (Ok(x), Ok(y)) => {
                if !same_bag(x, y) {
                    let miss = bag_minus(y, x, same_cell);
                    let extra = bag_minus(x, y, same_cell);
                    rep.oracle_fail(self.case.clone(), format!("[{stage}] SELECT * FROM t differs: only without indexes: {} | only with indexes: {}", show_some(&miss, 3), show_some(&extra, 3)),
                        format!("index:dump:{}", if self.in_txn_seen { "after-rollback" } else { "plain" }));
                }
                y.clone()
            }
            _ => {
                rep.oracle_fail(self.case.clone(), format!("[{stage}] dump failed: A={:?} B={:?}", da.as_ref().map(|r| r.len()), db.as_ref().map(|r| r.len())), "index:dump:error".into());
                return;
            }
        };
        rep.count_n("rows_at_checkpoints", rows.len() as u64);
        // model
        let vrows: Vec<Vec<V>> = match rows.iter().map(|r| row_to_vs(r)).collect::<Option<Vec<_>>>() {
            Some(v) => v,
            None => { rep.count("dump_not_convertible"); return; }
        };
        model.ask(&format!("load t {NCOLS}"));
        for r in &vrows { model.ask(&format!("row t {}", vs_sx(r))); }
        let probes = gen_probes(rng, &vrows, heavy);
        let sc = scope();
        for p in &probes {
            let sql = match (&p.pred, p.order) {
                (Some(e), _) => format!("SELECT * FROM t WHERE {}", e.sql(&sc)),
                (None, Some(desc)) => format!("SELECT * FROM t ORDER BY {}{}", COLS[p.col].0, if desc { " DESC" } else { "" }),
                _ => continue,
            };
            let (path, ix) = self.path(&sql);
            let path = path.as_str();
            let kt = COLS[p.col].1.kind();
            rep.count(&format!("path_{path}"));
            rep.count(&format!("kind_{}", p.kind));
            rep.count(&format!("probe_{}", p.class));
            let (ra, rb) = (q(&self.a, &sql), q(&self.b, &sql));
            let nontrivial = path != "scan" && rb.as_ref().map(|r| !r.is_empty()).unwrap_or(false);
            let nkey = format!("{sql}|{path}|{}", rows.len());
            rep.case(if nontrivial { Some(&nkey) } else { None });
            if rep.evaluations % 397 == 0 { rep.sample(format!("[{} rows, plan {path}{}] {}", rows.len(), if ix.is_empty() { String::new() } else { format!(" {ix}") }, short(&sql, 160))); }
            let rb_rows = match (&ra, &rb) {
                (Ok(x), Ok(y)) => {
                    if !same_bag(x, y) {
                        let miss = bag_minus(y, x, same_cell);
                        let extra = bag_minus(x, y, same_cell);
                        let what = match (miss.is_empty(), extra.is_empty()) { (false, true) => "missing", (true, false) => "extra", _ => "both" };
                        rep.oracle_fail(format!("{} ;; {}", self.case, sql),
                            format!("[{stage}, {} rows, plan {path} {ix}] {}: without indexes {} rows, with indexes {} rows; missing: {} | extra: {}", rows.len(), short(&sql, 200), y.len(), x.len(), show_some(&miss, 2), show_some(&extra, 2)),
                            format!("index:{path}:{}:{kt}:{}:{what}", p.kind, p.class));
                    }
                    y.clone()
                }
                (Err(ea), Ok(y)) => {
                    rep.oracle_fail(format!("{} ;; {}", self.case, sql), format!("[{stage}] {}: with indexes {ea}, without {} rows", short(&sql, 200), y.len()), format!("index:{path}:{}:{kt}:{}:{ea}", p.kind, p.class));
                    y.clone()
                }
                (Ok(x), Err(eb)) => {
                    rep.oracle_fail(format!("{} ;; {}", self.case, sql), format!("[{stage}] {}: with indexes {} rows, without {eb}", short(&sql, 200), x.len()), format!("index:{path}:{}:{kt}:{}:b-{eb}", p.kind, p.class));
                    continue;
                }
                (Err(ea), Err(eb)) => { if ea != eb { rep.count("both_error_differently"); } else { rep.count("both_error_same"); } continue; }
            };
            // reference: filter over the loaded rows, and the model's own index scan
            if let Some(e) = &p.pred {
                let items = (0..NCOLS).map(|i| format!("(col {i})")).collect::<Vec<_>>().join(" ");
                let mq = model.ask(&format!("query (select (t t) {} 0 () () (none) ({items}) 0 () 0 (none) 0)", e.sx()));
                match parse_model_rows(&mq) {
                    Ok(mr) => {
                        if !rows_agree_bag(&mr, &rb_rows) { rep.count(&format!("reference_differs_from_both:{}:{}", p.kind, p.class)); }
                        if let Some((lo, hi)) = &p.bounds {
                            let mi = model.ask(&format!("idxscan t ({}) {lo} {hi}", p.col));
                            match parse_model_rows(&mi) {
                                Ok(ir) => if !same_bag(&ir, &mr) {
                                    rep.disagree(format!("{} ;; {}", self.case, sql), format!("model index scan {} rows vs model filter {} rows", ir.len(), mr.len()), "model-idx-vs-filter".into());
                                },
                                Err(x) => rep.disagree(format!("{} ;; {}", self.case, sql), format!("model idxscan: {x}"), "model-idxscan-error".into()),
                            }
                        }
                    }
                    Err(_) => { rep.count("reference_error"); }
                }
            }
        }
    }
}

fn bound_sx(kind: &str, v: &V) -> String { format!("({kind} {})", v.sx()) }

/// text strictly greater than every string starting with `p` and ≤ everything else above: p with its
/// last char incremented (ASCII only)
fn succ_prefix(p: &str) -> Option<String> {
    let mut b = p.as_bytes().to_vec();
    let last = *b.last()?;
    if last >= 0x7e { return None; }
    *b.last_mut().unwrap() = last + 1;
    String::from_utf8(b).ok()
}

fn gen_probes(rng: &mut Rng, rows: &[Vec<V>], heavy: bool) -> Vec<Probe> {
    let mut out = vec![];
    for c in 0..NCOLS {
        let ty = COLS[c].1;
        let mut vals: Vec<V> = rows.iter().map(|r| r[c].clone()).filter(|v| *v != V::Null).collect();
        vals.sort_by(|a, b| if v_lt(a, b) { std::cmp::Ordering::Less } else if v_lt(b, a) { std::cmp::Ordering::Greater } else { std::cmp::Ordering::Equal });
        vals.dedup_by(|a, b| v_eq(a, b));
        let present = |v: &V| vals.iter().any(|x| v_eq(x, v));
        // (class, value)
        let mut pv: Vec<(&'static str, V)> = vec![];
        if !vals.is_empty() {
            let np = if heavy { 5 } else { 2 };
            for _ in 0..np { pv.push(("present", rng.pick(&vals).clone())); }
            pv.push(("present", vals[0].clone()));
            pv.push(("present", vals[vals.len() - 1].clone()));
            // gap right after a present value
            for _ in 0..2 {
                let base = rng.pick(&vals).clone();
                let g = match &base {
                    V::Int(i) => V::Int(i + 1),
                    V::Flt(n, d) => V::Flt(n * 8 + 1, d * 8),
                    V::Text(s) => V::Text(format!("{s}!")),
                    o => o.clone(),
                };
                if !present(&g) { pv.push(("gap", g)); }
            }
        }
        let (lo, hi) = match ty {
            CTy::Big => (V::Int(vals.first().and_then(|v| v.f64()).unwrap_or(0.0) as i64 - 7), V::Int(vals.last().and_then(|v| v.f64()).unwrap_or(0.0) as i64 + 9)),
            CTy::Dbl => (V::Flt((vals.first().and_then(|v| v.f64()).unwrap_or(0.0) as i64 - 7) * 4 - 1, 4), V::Flt((vals.last().and_then(|v| v.f64()).unwrap_or(0.0) as i64 + 9) * 4 + 1, 4)),
            _ => (V::Text(" ".into()), V::Text("~~~~".into())),
        };
        if !present(&lo) { pv.push(("min", lo)); }
        if !present(&hi) { pv.push(("max", hi.clone())); }
        let absent = hi;
        pv.push(("null", V::Null));
        for (class, v) in &pv {
            let class: &'static str = class;
            let isnull = *v == V::Null;
            let w = if vals.is_empty() { absent.clone() } else { rng.pick(&vals).clone() };
            let (blo, bhi) = if v_lt(v, &w) { (v.clone(), w.clone()) } else { (w.clone(), v.clone()) };
            let nn = |kind: &str, x: &V| if isnull { None } else { Some(bound_sx(kind, x)) };
            let mk = |kind: &'static str, pred: E, bounds: Option<(String, String)>| Probe { kind, class, col: c, pred: Some(pred), order: None, bounds };
            out.push(mk("point", cmp(Op::Eq, c, v), nn("incl", v).map(|b| (b.clone(), b))));
            out.push(mk("lt", cmp(Op::Lt, c, v), nn("excl", v).map(|b| ("(unb)".to_string(), b))));
            out.push(mk("le", cmp(Op::Le, c, v), nn("incl", v).map(|b| ("(unb)".to_string(), b))));
            out.push(mk("gt", cmp(Op::Gt, c, v), nn("excl", v).map(|b| (b, "(unb)".to_string()))));
            out.push(mk("ge", cmp(Op::Ge, c, v), nn("incl", v).map(|b| (b, "(unb)".to_string()))));
            if isnull {
                out.push(mk("between", E::Between(col_e(c), lit(v), lit(&w), false), None));
                out.push(mk("in", E::In(col_e(c), vec![E::Lit(V::Null), E::Lit(w.clone())], false), None));
                continue;
            }
            out.push(mk("between", E::Between(col_e(c), lit(&blo), lit(&bhi), false), Some((bound_sx("incl", &blo), bound_sx("incl", &bhi)))));
            out.push(mk("in", E::In(col_e(c), vec![E::Lit(v.clone()), E::Lit(absent.clone()), E::Lit(w.clone())], false), None));
            out.push(mk("point-and-lt", and(cmp(Op::Eq, c, v), cmp(Op::Lt, c, v)), None));
            out.push(mk("point-and-ge", and(cmp(Op::Eq, c, v), cmp(Op::Ge, c, v)), None));
            if !v_eq(v, &w) { out.push(mk("point-and-point", and(cmp(Op::Eq, c, v), cmp(Op::Eq, c, &w)), None)); }
            out.push(mk("point-or-point", or(cmp(Op::Eq, c, v), cmp(Op::Eq, c, &w)), None));
            let oc = if c == 0 { 1 } else { 0 };
            let ov = rows.get(rng.below(rows.len().max(1) as u64) as usize).map(|r| r[oc].clone()).unwrap_or(V::Int(0));
            if ov != V::Null { out.push(mk("point-and-other", and(cmp(Op::Eq, c, v), cmp(Op::Ge, oc, &ov)), None)); }
            out.push(mk("literal-first", E::Bin(Op::Eq, lit(v), col_e(c)), None));
            match (ty, v) {
                (CTy::Big, V::Int(i)) if i.abs() < (1 << 40) => out.push(mk("point-crosstype", cmp(Op::Eq, c, &V::Flt(*i, 1)), None)),
                (CTy::Dbl, V::Flt(n, d)) if n % (*d as i64) == 0 => out.push(mk("point-crosstype", cmp(Op::Eq, c, &V::Int(n / *d as i64)), None)),
                (CTy::Text, V::Text(s)) => {
                    let k = 1 + rng.below(s.chars().count().max(1) as u64) as usize;
                    let pre: String = s.chars().take(k).collect();
                    if !pre.is_empty() && pre.is_ascii() && !pre.contains(['%', '_', '\'']) {
                        let b = succ_prefix(&pre).map(|h| (bound_sx("incl", &V::Text(pre.clone())), bound_sx("excl", &V::Text(h))));
                        out.push(mk("like", E::Like(col_e(c), lit(&V::Text(format!("{pre}%"))), false), b));
                    }
                }
                _ => {}
            }
        }
        out.push(Probe { kind: "orderby", class: "all", col: c, pred: None, order: Some(false), bounds: None });
        out.push(Probe { kind: "orderby-desc", class: "all", col: c, pred: None, order: Some(true), bounds: None });
    }
    // composite: both columns of (n, s) / (s, n) / (d, n) / (k, n)
    for (c1, c2) in [(1usize, 3usize), (3, 1), (2, 1), (5, 1)] {
        for _ in 0..3 {
            if rows.is_empty() { break; }
            let r = rng.pick(rows);
            if r[c1] == V::Null || r[c2] == V::Null { continue; }
            out.push(Probe { kind: "point2", class: "present", col: c1, pred: Some(and(cmp(Op::Eq, c1, &r[c1]), cmp(Op::Eq, c2, &r[c2]))), order: None, bounds: None });
            let r2 = rng.pick(rows);
            if r2[c2] != V::Null && !v_eq(&r2[c2], &r[c2]) {
                out.push(Probe { kind: "point2", class: "absent", col: c1, pred: Some(and(cmp(Op::Eq, c1, &r[c1]), cmp(Op::Lt, c2, &r2[c2]))), order: None, bounds: None });
            }
        }
    }
    out
}

// ------------------------------------------------------------------ row generation
struct Gen { prof: Prof, i: i64, nulls: bool }

impl Gen {
    fn row(&mut self, rng: &mut Rng, tw: &mut Twin, n_total: i64) -> Vec<V> {
        self.i += 1;
        let i = self.i;
        let id = match self.prof {
            Prof::Asc => { tw.next_id += 1; tw.next_id }
            Prof::Desc => 1_000_000 - i,
            _ => {
                // random order over a sparse id space; never reuse
                loop {
                    let c = 1 + rng.below((n_total as u64 + 10) * 6) as i64;
                    if !tw.free_ids.contains(&c) { tw.free_ids.push(c); break c; }
                }
            }
        };
        tw.next_u += 1;
        let nulls = self.nulls;
        let null = |rng: &mut Rng, pct: u64| nulls && rng.chance(pct, 100);
        let (n, d, s, u, k);
        match self.prof {
            Prof::Dups => {
                n = if null(rng, 12) { V::Null } else { V::Int(*rng.pick(&[-3i64, -1, 0, 0, 1, 2, 3, 5, 10, 10, 20, 100])) };
                d = if null(rng, 12) { V::Null } else { V::Flt(*rng.pick(&[-6i64, -4, 0, 0, 1, 2, 4, 4, 6, 8, 10, 40]), 4) };
                s = if null(rng, 12) { V::Null } else { V::Text(rng.pick(&["", "a", "ab", "abc", "abd", "b", "ba", "Ab", "zz", "a b", "ab0", "abcd"]).to_string()) };
                u = if null(rng, 25) { V::Null } else { V::Int(if rng.chance(1, 2) { tw.next_u } else { -tw.next_u }) };
                k = if null(rng, 25) { V::Null } else { V::Text(format!("{}{}", rng.pick(&["k", "ka", "kb", "", "z"]), tw.next_u)) };
            }
            Prof::Asc | Prof::Desc => {
                let x = if self.prof == Prof::Asc { i } else { 100_000 - i };
                n = V::Int(x * 2);
                d = V::Flt(x * 2, 4);
                s = V::Text(format!("{:07}", x * 2));
                u = V::Int(5000 + x * 2);
                k = V::Text(format!("k{:07}", x * 2));
            }
            Prof::Prefix => {
                let x = rng.below(4000) as i64;
                n = if null(rng, 5) { V::Null } else { V::Int((1i64 << 40) + x * 3) };
                d = if null(rng, 5) { V::Null } else { V::Flt((1i64 << 22) + x, 4) };
                s = if null(rng, 5) { V::Null } else { V::Text(format!("{PREFIX36}{:04}", x)) };
                u = if null(rng, 10) { V::Null } else { let m = (1i64 << 41) + tw.next_u * 7919; V::Int(if tw.next_u % 2 == 0 { -m } else { m }) };
                k = if null(rng, 10) { V::Null } else { V::Text(format!("{PREFIX36}{:05}", (tw.next_u * 7919) % 100_003)) };
            }
        }
        vec![V::Int(id), n, d, s, u, k]
    }
}

fn touch_row(r: &[V]) -> Vec<(usize, V)> { r.iter().cloned().enumerate().collect() }

fn insert_sql(rows: &[Vec<V>]) -> String {
    format!("INSERT INTO t VALUES {}", rows.iter().map(|r| format!("({})", r.iter().map(|v| v.sql()).collect::<Vec<_>>().join(", "))).collect::<Vec<_>>().join(", "))
}

const MUTATIONS: &[&str] = &["insert", "insert_dupkey", "delete_by_pk", "delete_by_key", "delete_range", "update_key_by_pk", "update_key_by_key",
    "update_other_by_key", "update_unique_by_pk", "create_index", "drop_index", "rolled_back_txn"];

/// one mutation of the given kind on both databases (with the point-lookup check right after it)
fn mutate(tw: &mut Twin, g: &mut Gen, rng: &mut Rng, inserted: &mut Vec<Vec<V>>, kind: &str, nrows: usize, big: bool, rep: &mut Report) {
    let r = inserted.get(rng.below(inserted.len().max(1) as u64) as usize).cloned().unwrap_or(vec![V::Int(0); NCOLS]);
    let sc = scope();
    match kind {
        "insert" => {
            let row = g.row(rng, tw, nrows as i64);
            tw.both(&insert_sql(&[row.clone()]), "insert", &touch_row(&row), rep);
            inserted.push(row);
        }
        "insert_dupkey" => {
            // duplicate primary key / unique value
            let mut row = g.row(rng, tw, nrows as i64);
            if rng.chance(1, 2) || r[4] == V::Null { row[0] = r[0].clone(); } else { row[4] = r[4].clone(); }
            // only if the victim row still exists
            let exists = q(&tw.b, &format!("SELECT id FROM t WHERE id = {}", r[0].sql())).map(|x| !x.is_empty()).unwrap_or(false);
            if exists && (row[0] == r[0] || q(&tw.b, &format!("SELECT id FROM t WHERE u = {}", r[4].sql())).map(|x| !x.is_empty()).unwrap_or(false)) {
                tw.a_rejects(&insert_sql(&[row]), "insert", rep);
            }
        }
        "delete_by_pk" => tw.both(&format!("DELETE FROM t WHERE id = {}", r[0].sql()), "delete_by_pk", &touch_row(&r), rep),
        "delete_by_key" => {
            let c = *rng.pick(&[1usize, 2, 3]);
            if r[c] != V::Null { tw.both(&format!("DELETE FROM t WHERE {}", cmp(Op::Eq, c, &r[c]).sql(&sc)), "delete_by_key", &touch_row(&r), rep); }
        }
        "delete_range" => {
            // contiguous range of ids / keys: empties leaves in big histories
            let c = *rng.pick(&[0usize, 0, 1, 3]);
            let r2 = rng.pick(inserted).clone();
            if r[c] != V::Null && r2[c] != V::Null {
                let (lo, hi) = if v_lt(&r[c], &r2[c]) { (r[c].clone(), r2[c].clone()) } else { (r2[c].clone(), r[c].clone()) };
                tw.both(&format!("DELETE FROM t WHERE {}", E::Between(col_e(c), lit(&lo), lit(&hi), false).sql(&sc)), "delete_range", &{ let mut t = touch_row(&r); t.extend(touch_row(&r2)); t }, rep);
            }
        }
        "update_key_by_pk" => {
            // update an indexed column of one row (by primary key)
            let c = *rng.pick(&[1usize, 2, 3]);
            let fresh = g.row(rng, tw, nrows as i64);
            tw.both(&format!("UPDATE t SET {} = {} WHERE id = {}", COLS[c].0, fresh[c].sql(), r[0].sql()), "update_key_by_pk", &{ let mut t = touch_row(&r); t.push((c, fresh[c].clone())); t }, rep);
        }
        "update_key_by_key" => {
            // update rows found through an indexed predicate; the indexed column itself changes
            let c = *rng.pick(&[1usize, 2, 3]);
            let fresh = g.row(rng, tw, nrows as i64);
            if r[c] != V::Null { tw.both(&format!("UPDATE t SET {} = {} WHERE {}", COLS[c].0, fresh[c].sql(), cmp(Op::Eq, c, &r[c]).sql(&sc)), "update_key_by_key", &{ let mut t = touch_row(&r); t.push((c, fresh[c].clone())); t }, rep); }
        }
        "update_other_by_key" => {
            // update another column of rows found through an indexed predicate
            let c = *rng.pick(&[1usize, 3]);
            let oc = if c == 1 { 3 } else { 1 };
            let fresh = g.row(rng, tw, nrows as i64);
            if r[c] != V::Null { tw.both(&format!("UPDATE t SET {} = {} WHERE {}", COLS[oc].0, fresh[oc].sql(), cmp(Op::Eq, c, &r[c]).sql(&sc)), "update_other_by_key", &{ let mut t = touch_row(&r); t.push((oc, fresh[oc].clone())); t }, rep); }
        }
        "update_unique_by_pk" => {
            // unique columns: move to a fresh value / to NULL
            let fresh = g.row(rng, tw, nrows as i64);
            let c = *rng.pick(&[4usize, 5]);
            let v = if g.nulls && rng.chance(1, 4) { V::Null } else { fresh[c].clone() };
            tw.both(&format!("UPDATE t SET {} = {} WHERE id = {}", COLS[c].0, v.sql(), r[0].sql()), "update_unique_by_pk", &{ let mut t = touch_row(&r); t.push((c, v.clone())); t }, rep);
        }
        "create_index" => { let pi = rng.below(POOL.len() as u64) as usize; tw.create_index(pi, rep); }
        "drop_index" => tw.drop_index(rng, rep),
        "rolled_back_txn" => {
            // a rolled-back transaction must leave both databases (and the indexes) unchanged
            let row = g.row(rng, tw, nrows as i64);
            tw.in_txn_seen = true;
            rep.count("stmt_rolled_back_txn");
            for db in [&tw.a, &tw.b] {
                let _ = db.exec("BEGIN");
                let _ = db.exec(&insert_sql(&[row.clone()]));
                if r[1] != V::Null { let _ = db.exec(&format!("DELETE FROM t WHERE {}", cmp(Op::Eq, 1, &r[1]).sql(&sc))); }
                let _ = db.exec("ROLLBACK");
            }
            let mut t = touch_row(&row); t.extend(touch_row(&r));
            tw.after("BEGIN; INSERT; DELETE by n; ROLLBACK", "rolled_back_txn", &t, rep);
        }
        _ => {}
    }
    let _ = big;
}

fn run_history(ctx: &Ctx, model: &mut Model, rep: &mut Report, seed: u64, prof: Prof, nrows: usize, uniq: bool) {
    let mut rng = Rng::new(seed);
    let case = format!("hist {seed} {} {nrows}{}", prof.name(), if uniq { " uniq" } else { "" });
    let mut tw = Twin::new(ctx, &format!("{seed}"), case);
    let mut g = Gen { prof, i: 0, nulls: true };
    let big = nrows > 120;
    rep.count(&format!("history_{}{}{}", prof.name(), if big { "_big" } else { "" }, if uniq { "_uniqueonly" } else { "" }));
    // indexes created before any data (`uniq`: only the unique index on k next to PRIMARY KEY and UNIQUE u;
    // those are the index kinds DELETE maintains, so that multi-leaf deletes can be exercised)
    for pi in 0..POOL.len() { if (uniq && POOL[pi].name == "ux_k") || (!uniq && rng.chance(1, 2)) { tw.create_index(pi, rep); } }
    let mut inserted: Vec<Vec<V>> = vec![];
    // ---- load phase
    let mut left = nrows;
    while left > 0 {
        let m = if big { (5 + rng.below(16) as usize).min(left) } else { 1 };
        let rows: Vec<Vec<V>> = (0..m).map(|_| g.row(&mut rng, &mut tw, nrows as i64)).collect();
        let mut touch = touch_row(&rows[0]); touch.extend(touch_row(&rows[rows.len() - 1]));
        tw.both(&insert_sql(&rows), if m > 1 { "insert_multi" } else { "insert" }, &touch, rep);
        if tw.dead { return; }
        inserted.extend(rows);
        left -= m;
    }
    tw.checkpoint(&mut rng, model, rep, "loaded", big);
    // ---- mutation phase
    let nmut = if big { 30 } else { 18 };
    for step in 0..nmut {
        let kind = *rng.pick(&["insert", "insert", "insert_dupkey", "delete_by_pk", "delete_by_key", "delete_range", "update_key_by_pk", "update_key_by_pk",
            "update_key_by_key", "update_other_by_key", "update_unique_by_pk", "create_index", "drop_index", "rolled_back_txn"]);
        if kind == "rolled_back_txn" && !rng.chance(1, 3) { continue; }
        if uniq && !["insert", "insert_dupkey", "delete_by_pk", "delete_by_key", "delete_range"].contains(&kind) { continue; }
        if kind == "delete_range" && !big && !rng.chance(1, 3) { continue; }
        mutate(&mut tw, &mut g, &mut rng, &mut inserted, kind, nrows, big, rep);
        if tw.dead { return; }
        if (step + 1) % (if big { 10 } else { 6 }) == 0 { tw.checkpoint(&mut rng, model, rep, "mutating", false); }
    }
    tw.checkpoint(&mut rng, model, rep, "final", big);
}

/// systematic layer: ten rows, every pool index either created before the rows (`fresh`) or over
/// them (`bf`), then one mutation kind a few times; independent of VERIF_SEED
fn run_focus(ctx: &Ctx, model: &mut Model, rep: &mut Report, kind: &str, bf: bool, nulls: bool) {
    let seed = fnv(&format!("focus-{kind}-{bf}-{nulls}"));
    let mut rng = Rng::new(seed);
    let case = format!("focus {kind} {} {}", if bf { "bf" } else { "fresh" }, if nulls { "nulls" } else { "nonulls" });
    let mut tw = Twin::new(ctx, &format!("f{seed}"), case);
    let mut g = Gen { prof: Prof::Dups, i: 0, nulls };
    rep.count("history_focus");
    if !bf { for pi in 0..POOL.len() { tw.create_index(pi, rep); } }
    let mut inserted: Vec<Vec<V>> = vec![];
    for _ in 0..10 {
        let row = g.row(&mut rng, &mut tw, 10);
        tw.both(&insert_sql(&[row.clone()]), "insert", &touch_row(&row), rep);
        if tw.dead { return; }
        inserted.push(row);
    }
    if bf { for pi in 0..POOL.len() { tw.create_index(pi, rep); if tw.dead { return; } } }
    for _ in 0..4 {
        mutate(&mut tw, &mut g, &mut rng, &mut inserted, kind, 10, false, rep);
        if tw.dead { return; }
    }
    tw.checkpoint(&mut rng, model, rep, "focus-final", false);
}

fn run_script(ctx: &Ctx, model: &mut Model, rep: &mut Report, script: &str, n: usize) {
    let _ = model;
    let a = Dbh::create(ctx, &format!("c10sa-{n}"));
    let b = Dbh::create(ctx, &format!("c10sb-{n}"));
    rep.count("scripts");
    for item in script.split(";;") {
        let item = item.trim();
        if item.is_empty() { continue; }
        let (head, sql) = match item.split_once(':') { Some(x) => x, None => continue };
        let sql = sql.trim();
        let head = head.trim();
        if head == "A" { let _ = a.exec(sql); }
        else if head == "B" { let _ = b.exec(sql); }
        else if head == "AB" { let _ = a.exec(sql); let _ = b.exec(sql); }
        else if let Some(rest) = head.strip_prefix("Q") {
            let f: Vec<&str> = rest.split_whitespace().collect();
            let (kind, kt, class) = (f.first().copied().unwrap_or("?"), f.get(1).copied().unwrap_or("?"), f.get(2).copied().unwrap_or("?"));
            let path = base_path(&explain_index(&a, sql));
            let (ra, rb) = (q(&a, sql), q(&b, sql));
            rep.case(Some(&format!("script|{sql}|{path}")));
            rep.count(&format!("path_{path}"));
            match (&ra, &rb) {
                (Ok(x), Ok(y)) => if !same_bag(x, y) {
                    let miss = bag_minus(y, x, same_cell);
                    let extra = bag_minus(x, y, same_cell);
                    let what = match (miss.is_empty(), extra.is_empty()) { (false, true) => "missing", (true, false) => "extra", _ => "both" };
                    rep.oracle_fail(format!("script {script}"), format!("[plan {path}] {sql}: without indexes {} rows, with indexes {} rows; missing: {} | extra: {}", y.len(), x.len(), show_some(&miss, 2), show_some(&extra, 2)),
                        match kind.strip_prefix("after-") { Some(k) => format!("index:stale-after:{k}:{path}:{kt}:{what}"), None => format!("index:{path}:{kind}:{kt}:{class}:{what}") });
                },
                (Err(ea), Ok(_)) => rep.oracle_fail(format!("script {script}"), format!("{sql}: with indexes {ea}"), format!("index:{path}:{kind}:{kt}:{class}:{ea}")),
                _ => { rep.count("script_query_error_on_B"); }
            }
        }
    }
}

/// systematic layer: one minimal script per mechanism, every run
const SCRIPTS: &[&str] = &[
    // float column probed with an integer literal / integer column with a float literal
    "A: CREATE TABLE t (id BIGINT PRIMARY KEY, n BIGINT, d DOUBLE) ;; B: CREATE TABLE t (id BIGINT, n BIGINT, d DOUBLE) ;; A: CREATE INDEX ix_d ON t (d) ;; A: CREATE INDEX ix_n ON t (n) ;; AB: INSERT INTO t VALUES (1, 10, 1.0) ;; AB: INSERT INTO t VALUES (2, 20, 2.5) ;; Q point-crosstype float present: SELECT * FROM t WHERE d = 1 ;; Q point-crosstype int present: SELECT * FROM t WHERE n = 10.0 ;; Q point float present: SELECT * FROM t WHERE d = 1.0 ;; Q point int present: SELECT * FROM t WHERE n = 10 ;; Q point-crosstype int present: SELECT * FROM t WHERE id = 1.0",
    // residual predicates on the indexed column
    "A: CREATE TABLE t (id BIGINT PRIMARY KEY, n BIGINT, s TEXT) ;; B: CREATE TABLE t (id BIGINT, n BIGINT, s TEXT) ;; A: CREATE INDEX ix_n ON t (n) ;; A: CREATE INDEX ix_s ON t (s) ;; AB: INSERT INTO t VALUES (1, 10, 'ab') ;; AB: INSERT INTO t VALUES (2, 20, 'b') ;; Q point-and-lt int present: SELECT * FROM t WHERE n = 10 AND n < 10 ;; Q point-and-point int present: SELECT * FROM t WHERE n = 10 AND n = 20 ;; Q point-and-lt text present: SELECT * FROM t WHERE s = 'ab' AND s < 'ab' ;; Q point-and-point int present: SELECT * FROM t WHERE id = 1 AND id = 2 ;; Q point-and-ge int present: SELECT * FROM t WHERE n = 10 AND n >= 10 ;; Q point-and-other int present: SELECT * FROM t WHERE n = 10 AND id >= 2",
    // ORDER BY through a unique index that holds no NULL keys
    // UPDATE through the general path (WHERE is not `pk = literal`) that assigns only ONE column of a two-column UNIQUE index, then the other one, then both
    "A: CREATE TABLE t (id BIGINT PRIMARY KEY, a BIGINT, b BIGINT, g TEXT) ;; B: CREATE TABLE t (id BIGINT, a BIGINT, b BIGINT, g TEXT) ;; A: CREATE UNIQUE INDEX ux_ab ON t (a, b) ;; AB: INSERT INTO t VALUES (1, 10, 1, 'x') ;; AB: INSERT INTO t VALUES (2, 20, 1, 'y') ;; AB: INSERT INTO t VALUES (3, 30, 2, 'z') ;; AB: INSERT INTO t VALUES (4, 20, 2, 'w') ;; AB: UPDATE t SET a = 40 WHERE g = 'y' ;; Q after-partialkey_first_col int present: SELECT * FROM t WHERE a = 40 ;; Q after-partialkey_first_col int absent: SELECT * FROM t WHERE a = 20 ;; Q after-partialkey_first_col int present: SELECT * FROM t WHERE a = 40 AND b = 1 ;; AB: UPDATE t SET b = 7 WHERE g = 'z' ;; Q after-partialkey_second_col int present: SELECT * FROM t WHERE a = 30 ;; Q after-partialkey_second_col int present: SELECT * FROM t WHERE a = 30 AND b = 7 ;; Q after-partialkey_second_col int absent: SELECT * FROM t WHERE a = 30 AND b = 2 ;; AB: UPDATE t SET a = 50, b = 5 WHERE g = 'w' ;; Q after-fullkey_general int present: SELECT * FROM t WHERE a = 50 ;; Q after-fullkey_general int absent: SELECT * FROM t WHERE a = 20 ;; Q after-fullkey_general int all: SELECT * FROM t WHERE a >= 0",
    "A: CREATE TABLE t (id BIGINT PRIMARY KEY, u BIGINT UNIQUE, k TEXT) ;; B: CREATE TABLE t (id BIGINT, u BIGINT, k TEXT) ;; A: CREATE UNIQUE INDEX ux_k ON t (k) ;; AB: INSERT INTO t VALUES (1, 100, 'a') ;; AB: INSERT INTO t VALUES (2, NULL, NULL) ;; AB: INSERT INTO t VALUES (3, 300, 'c') ;; Q orderby int all: SELECT * FROM t ORDER BY u ;; Q orderby-desc int all: SELECT * FROM t ORDER BY u DESC ;; Q orderby text all: SELECT * FROM t ORDER BY k ;; Q orderby int all: SELECT * FROM t ORDER BY id",
];

pub fn run(ctx: &Ctx) -> Report {
    let mut rep = Report::new(
        "sql_index",
        "twin databases: A = PRIMARY KEY + UNIQUE column + secondary/composite/unique indexes created and dropped at random points, \
         B = same columns, no constraint, no index; histories of INSERT (single, multi-row), UPDATE (by key, of indexed and unique columns, through \
         indexed predicates), DELETE (point, by key, ranges that empty leaves), rolled-back transactions; key profiles: heavy duplicates, ascending, \
         descending, 40-byte keys with a shared 36-byte prefix; small (20-40 rows) and multi-leaf (300-700 rows) tables; at each checkpoint the full \
         dumps and a battery of point / < / <= / > / >= / BETWEEN / IN / LIKE-prefix / conjunctions / ORDER BY queries per column with present, gap, \
         below-min, above-max and NULL probes must agree between A and B (signature: plan path from EXPLAIN x query kind x key type x probe class x \
         missing|extra). non-trivial = distinct (query, table size) answered through an index with a non-empty reference answer. \
         Queries use SELECT * with a WHERE or ORDER BY (dodges the known projection defect of other properties); a reference answer that differs \
         from BOTH databases (two-valued logic, C14) is counted in the histogram, not reported here",
    );
    let mut model = Model::spawn(&ctx.model_bin, "sqlidx");
    let mut n = 0usize;
    for line in ctx.corpus_cases("C10") {
        n += 1;
        if let Some(rest) = line.strip_prefix("script ") { run_script(ctx, &mut model, &mut rep, rest, n); }
        else if let Some(rest) = line.strip_prefix("focus ") {
            let rest = rest.split(";;").next().unwrap_or("").trim();
            let f: Vec<&str> = rest.split_whitespace().collect();
            if f.len() >= 3 { if let Some(k) = MUTATIONS.iter().find(|k| **k == f[0]) { run_focus(ctx, &mut model, &mut rep, k, f[1] == "bf", f[2] == "nulls"); } }
        }
        else if let Some(rest) = line.strip_prefix("hist ") {
            // a failing query may follow after ` ;; `
            let rest = rest.split(";;").next().unwrap_or("").trim();
            let f: Vec<&str> = rest.split_whitespace().collect();
            if let (Some(seed), Some(prof), Some(rows)) = (f.first().and_then(|x| x.parse().ok()), f.get(1).and_then(|x| Prof::parse(x)), f.get(2).and_then(|x| x.parse().ok())) {
                run_history(ctx, &mut model, &mut rep, seed, prof, rows, f.get(3) == Some(&"uniq"));
            }
        }
    }
    for s in SCRIPTS { n += 1; run_script(ctx, &mut model, &mut rep, s, n); }
    for kind in MUTATIONS { for bf in [false, true] { for nulls in [false, true] { run_focus(ctx, &mut model, &mut rep, kind, bf, nulls); } } }
    let mut rng = Rng::new(ctx.seed);
    let (nsmall, nbig) = if ctx.thorough { (200, 32) } else { (24, 8) };
    let profs = [Prof::Dups, Prof::Asc, Prof::Desc, Prof::Prefix, Prof::Dups, Prof::Prefix];
    for i in 0..nsmall {
        let seed = rng.next();
        let rows = 12 + rng.below(30) as usize;
        run_history(ctx, &mut model, &mut rep, seed, profs[i % profs.len()], rows, i % 6 == 5);
    }
    for i in 0..nbig {
        let seed = rng.next();
        let rows = 300 + rng.below(400) as usize;
        run_history(ctx, &mut model, &mut rep, seed, [Prof::Prefix, Prof::Dups, Prof::Asc, Prof::Desc][i % 4], rows, i % 2 == 1);
    }
    rep.notes.push(format!("model requests: {}", model.requests));
    rep
}
