//! C04 (`sql_reopen`): close / reopen and checkpoint (explicit through the API, `PRAGMA
//! wal_checkpoint`, automatic through a threshold of 1) change no query result.
//!
//! Metamorphic, engine against itself: every history of CREATE TABLE / CREATE INDEX / INSERT /
//! UPDATE / DELETE / transactions / savepoints / ALTER / DROP / TRUNCATE is executed on a
//! *baseline* database (defaults, no maintenance) and, in lock-step, on a *variant* database (WAL
//! on or off) in which maintenance operations are inserted: `@close` (Database::close + open),
//! `@drop` (handle dropped without close + open), `@checkpoint` (Database::checkpoint),
//! `@ckptwal` (Database::checkpoint_wal), `@pragma-checkpoint` (PRAGMA wal_checkpoint), and
//! automatic checkpoints (PRAGMA wal_checkpoint_threshold = 1: every COMMIT checkpoints).
//! After EVERY item both databases are observed: result of the statement itself, columns and full
//! dump of every table, COUNT(*), a lookup through every index (primary key, UNIQUE column,
//! CREATE INDEX) for every present value and an absent one; at the end the next AUTO_INCREMENT
//! value (one more generated row).  On `TurVerif.SqlDb` (the relational reference model) the
//! maintenance operations are the identity by definition (`TurVerif.SqlMaint`), so "variant =
//! baseline" IS the property's oracle; no statement-level model is needed and none of the known
//! DML/WHERE defects of the engine can leak in (both runs share them).
//!
//! The page-level mechanism is modelled in Model/PageLog.lean (theorems in Props/C04.lean) and run
//! against the real page store / WAL / replay routines in lock-step by `pagelog.rs` (first phase
//! of this engine; `rep.disagree` on any difference).  Its counterexamples (replaying checkpoint
//! inside a transaction / after an unlogged in-place write) are exactly the known findings this
//! engine reproduces at SQL level.
//! After a reopen the engine restarts its global row-id counter at 1 (known finding `rowid`);
//! `@rowid-restore` items (variant only) set it back through the hook `verif_set_next_row_id` so
//! that a history can continue past that defect with the baseline's row ids.
//!
//! Signature: `reopen:<op>:<wal on|off>:<what>[:in-txn]`, op = the last maintenance operation
//! before the difference (close | drop | checkpoint | api-checkpoint-wal | pragma-checkpoint |
//! auto-checkpoint | none), what = rows | count | index | schema | autoinc | result | open-error |
//! error, optional qualifiers `:rowid` / `:after-truncate` / `:recreated` (root-cause markers, see sqlgen_cfg.rs).
//! Case line (corpus / replay): `<variant configuration> ;; item ;; item …`.
use crate::common::*;
#[path = "../sqlgen_cfg.rs"]
pub mod sqlgen_cfg;
use sqlgen_cfg::*;

pub fn signature(cv: &Cfg, d: &Diff) -> String {
    format!("reopen:{}:{}:{}{}{}", d.last_op.unwrap_or("none"), if cv.wal { "on" } else { "off" }, d.what, d.quals(), if d.op_in_txn { ":in-txn" } else { "" })
}

struct Eng<'a> { ctx: &'a Ctx, rep: Report, stats: PairStats, n: u64, probe_cap: usize }

impl<'a> Eng<'a> {
    fn run_case(&mut self, cv: &Cfg, items: &[Item], layer: &str) {
        self.n += 1;
        let line = case_line(&cv.text(), items);
        let nm = items.iter().filter(|i| matches!(i, Item::Maint(_))).count();
        self.rep.case(if nm > 0 || cv.wal { Some(&line) } else { None });
        self.rep.count(&format!("layer_{layer}"));
        self.rep.count(if cv.wal { "variant_wal_on" } else { "variant_wal_off" });
        if cv.thr1 { self.rep.count("variant_threshold_1"); }
        for it in items { if let Item::Maint(m) = it { self.rep.count(&format!("op_{}", m.sig())); } }
        let before = self.stats.steps;
        match run_pair(self.ctx, &format!("r{}", self.n), &Cfg::base(), cv, items, self.probe_cap, &mut self.stats) {
            Err(e) => { self.rep.notes.push(format!("case could not run: {e}: {}", clip(&line))); self.rep.count("case_setup_error"); }
            Ok(None) => { self.rep.count("case_agree"); }
            Ok(Some(d)) => {
                self.rep.count("case_differs");
                self.rep.oracle_fail(line.clone(), d.detail.clone(), signature(cv, &d));
            }
        }
        self.rep.count_n("observation_points", self.stats.steps - before);
        if self.n % 97 == 1 { self.rep.sample(clip(&line)); }
    }
}

/// the scripted history of the systematic layer: every statement kind, two tables, an index created
/// mid-way, a committed and a rolled-back transaction, explicit and generated keys
pub fn script() -> Vec<&'static str> {
    vec![
        "CREATE TABLE a (id INT PRIMARY KEY AUTO_INCREMENT, x INT, s TEXT)",
        "CREATE TABLE b (k INT, y INT, s TEXT)",
        "INSERT INTO a (x, s) VALUES (1, 'one'), (2, 'two')",
        "INSERT INTO b VALUES (10, 1, 'p'), (11, 2, 'q')",
        "CREATE INDEX ia ON a (x)",
        "INSERT INTO a VALUES (7, 3, 'seven')",
        "UPDATE a SET x = x + 10 WHERE id = 1",
        "BEGIN",
        "INSERT INTO b VALUES (12, 3, 'r')",
        "UPDATE b SET y = 9 WHERE k = 10",
        "COMMIT",
        "DELETE FROM a WHERE id = 2",
        "INSERT INTO a (x, s) VALUES (4, 'gen')",
        "BEGIN",
        "INSERT INTO a (x, s) VALUES (5, 'gone')",
        "DELETE FROM b WHERE k = 11",
        "ROLLBACK",
        "CREATE UNIQUE INDEX ub ON b (k)",
        "INSERT INTO b VALUES (13, 4, 's')",
        "INSERT INTO b VALUES (13, 5, 'dup')",
        "INSERT INTO a VALUES (7, 9, 'dup')",
        "ALTER TABLE b ADD COLUMN z INT",
        "UPDATE b SET y = y + 1 WHERE k >= 12",
        "INSERT INTO a (x, s) VALUES (6, 'last')",
    ]
}

pub const OPS: [Maint; 5] = [Maint::Close, Maint::Drop, Maint::Checkpoint, Maint::CkptWal, Maint::PragmaCkpt];

pub fn run(ctx: &Ctx) -> Report {
    let rep = Report::new(
        "sql_reopen",
        "a case = (history, variant configuration, maintenance operations and their positions); baseline and variant \
         run in lock-step and are compared after every item (statement result, columns, SELECT *, COUNT(*), a lookup \
         through every index for every present value and an absent one; next AUTO_INCREMENT at the end). Layers: corpus; \
         systematic = one scripted 24-statement history (incl. two statements that must fail on a UNIQUE index / the PRIMARY KEY) x {close, drop, checkpoint, checkpoint_wal, PRAGMA wal_checkpoint} \
         x {WAL on, off} x 3 positions (+ the operation after every statement, + after TRUNCATE, + after DROP TABLE/CREATE TABLE of the same name), plus threshold-1 automatic checkpoints; random = generated histories (12-45 \
         statements, bulk loads over several pages, long texts) with 1-8 maintenance operations at random positions. \
         close/drop are never placed inside an open transaction (closing rolls it back by design); histories never UPDATE an \
         indexed column, have no ROLLBACK once a table spans several pages (undo after a root split is broken, C07), and the random layer has no TRUNCATE (index maintenance defects of other properties); most reopen \
         operations are followed by @rowid-restore (hook) because Database::open restarts the row-id counter (known \
         finding, exercised unrestored by the systematic layer). non-trivial = variant has WAL on or at least one \
         maintenance operation. Page-level correspondence (pagelog_* keys): Model/PageLog.lean vs real MmapStorage + Wal + \
         WalStoragePerTable + dirty tracker + the replay/recovery routines, 120+ op sequences (quick) compared after every op, \
         safe and unsafe situations alike.",
    );
    let mut e = Eng { ctx, rep, stats: PairStats { steps: 0, maint: 0, reopen: 0 }, n: 0, probe_cap: 6 };
    let mut rng = Rng::new(ctx.seed ^ 0xC04);

    // ---- corpus / replay
    for c in ctx.corpus_cases("C04") {
        if c.starts_with("pagelog ") { continue; }
        if let Some((head, items)) = parse_case(&c) {
            if let Some(cv) = Cfg::parse(&head) { e.run_case(&cv, &items, "corpus"); continue; }
        }
        e.rep.notes.push(format!("unparsable corpus line: {}", clip(&c)));
    }

    // development aid: VERIF_LAYERS=corpus[,pagelog][,systematic][,random] restricts the layers
    let layers = std::env::var("VERIF_LAYERS").unwrap_or_else(|_| "corpus,pagelog,systematic,random".into());
    let t0 = std::time::Instant::now();
    // ---- page-level correspondence of Model/PageLog.lean (see pagelog.rs)
    if layers.contains("pagelog") { let mut prng = Rng::new(ctx.seed ^ 0x9A6E); super::pagelog::run_corr(ctx, &mut e.rep, &mut prng); }
    e.rep.notes.push(format!("page-level correspondence done at {:.1}s", t0.elapsed().as_secs_f64()));
    if !layers.contains("systematic") { return finish(e, layers.contains("random"), &mut rng, t0); }
    // ---- systematic layer
    let sc = script();
    let opens = {
        let items: Vec<Item> = sc.iter().map(|s| Item::Sql(s.to_string())).collect();
        txn_open_after(&items)
    };
    // single operation at one position: after the first inserts (3), inside the first transaction
    // (8: after an insert, checkpoints only), after ROLLBACK (16)
    for wal in [false, true] {
        let cv = Cfg { wal, ..Cfg::base() };
        for op in OPS {
            for pos in [3usize, 8, 16] {
                if op.reopens() && opens[pos] { continue; }
                for burn in [false, true] {
                    if burn && !op.reopens() { continue; }
                    let mut items: Vec<Item> = vec![];
                    for (i, s) in sc.iter().enumerate() {
                        items.push(Item::Sql(s.to_string()));
                        if i == pos { items.push(Item::Maint(op)); if burn { items.push(Item::Burn); } }
                    }
                    e.run_case(&cv, &items, "systematic");
                }
            }
        }
        // the same operation after every statement outside transactions (reopen with row-id burn)
        for op in OPS {
            let mut items: Vec<Item> = vec![];
            for (i, s) in sc.iter().enumerate() {
                items.push(Item::Sql(s.to_string()));
                if !opens[i] { items.push(Item::Maint(op)); if op.reopens() { items.push(Item::Burn); } }
            }
            e.run_case(&cv, &items, "systematic");
        }
    }
    // TRUNCATE followed by each operation
    for wal in [false, true] {
        let cv = Cfg { wal, ..Cfg::base() };
        for op in OPS {
            let mut items: Vec<Item> = ["CREATE TABLE b (k INT, y INT, s TEXT)", "INSERT INTO b VALUES (1, 1, 'p'), (2, 2, 'q')", "TRUNCATE TABLE b"].iter().map(|s| Item::Sql(s.to_string())).collect();
            items.push(Item::Maint(op));
            if op.reopens() { items.push(Item::Burn); }
            items.push(Item::Sql("INSERT INTO b VALUES (3, 3, 'r')".into()));
            e.run_case(&cv, &items, "systematic");
        }
    }
    // DROP TABLE + CREATE TABLE of the same name followed by each operation
    for wal in [false, true] {
        let cv = Cfg { wal, ..Cfg::base() };
        for op in OPS {
            let mut items: Vec<Item> = ["CREATE TABLE c (id INT PRIMARY KEY, t TEXT UNIQUE, n INT)", "INSERT INTO c VALUES (1, 't1', 1)", "DROP TABLE c",
                "CREATE TABLE c (id INT PRIMARY KEY, t TEXT UNIQUE, n INT)", "INSERT INTO c VALUES (2, 't2', 2)"].iter().map(|s| Item::Sql(s.to_string())).collect();
            items.push(Item::Maint(op));
            if op.reopens() { items.push(Item::Burn); }
            items.push(Item::Sql("INSERT INTO c VALUES (3, 't3', 3)".into()));
            e.run_case(&cv, &items, "systematic");
        }
    }
    // automatic checkpoints: threshold 1, WAL on
    {
        let cv = Cfg { wal: true, thr1: true, ..Cfg::base() };
        let items: Vec<Item> = sc.iter().map(|s| Item::Sql(s.to_string())).collect();
        e.run_case(&cv, &items, "systematic");
    }

    e.rep.notes.push(format!("systematic layer done at {:.1}s", t0.elapsed().as_secs_f64()));
    let do_random = layers.contains("random");
    finish(e, do_random, &mut rng, t0)
}

fn finish(mut e: Eng, do_random: bool, rng: &mut Rng, t0: std::time::Instant) -> Report {
    let ctx = e.ctx;
    if do_random { random_layer(&mut e, ctx, rng); }
    let (steps, maint, reopen) = (e.stats.steps, e.stats.maint, e.stats.reopen);
    e.rep.count_n("maintenance_ops_executed", maint);
    e.rep.count_n("reopens_executed", reopen);
    e.rep.notes.push(format!("{} lock-step pairs, {} observation points, {} maintenance operations ({} reopen cycles), {:.1}s", e.n, steps, maint, reopen, t0.elapsed().as_secs_f64()));
    e.rep
}

fn random_layer(e: &mut Eng, ctx: &Ctx, rng: &mut Rng) {
    // ---- random layer
    let nhist = if ctx.thorough { 300 } else { 16 };
    for _ in 0..nhist {
        let len = 10 + rng.below(24) as usize;
        let hist = HistGen::history(rng, len);
        let nvar = if ctx.thorough { 6 } else { 3 };
        for v in 0..nvar {
            let wal = (v + e.n as usize) % 2 == 0;
            let cv = Cfg { wal, thr1: wal && rng.chance(1, 3), ..Cfg::base() };
            let density = *rng.pick(&[3u64, 6, 12]);
            let mut items: Vec<Item> = vec![];
            for st in &hist {
                items.push(st.item());
                if rng.chance(1, density) {
                    let op = *rng.pick(&OPS);
                    if op.reopens() && st.in_txn { continue; }
                    // replaying checkpoints inside a transaction with WAL on lose the transaction's
                    // writes (known finding, systematic layer): keep the random layer for the rest
                    if st.in_txn && wal && matches!(op, Maint::CkptWal | Maint::PragmaCkpt) && !rng.chance(1, 10) { continue; }
                    items.push(Item::Maint(op));
                    if op.reopens() && !rng.chance(1, 5) { items.push(Item::Burn); }
                }
            }
            e.run_case(&cv, &items, "random");
        }
    }
}
