//! C43: bulk-load APIs equal row-at-a-time INSERT.  Twin databases with the SAME schema:
//! A receives the batch through one of the bulk APIs (`insert_batch`, `insert_batch_into_schema`,
//! prepared statement + `execute_with_cached_plan` → `insert_cached`, `bulk_insert`), B receives the
//! same rows as single-row INSERT statements (stopping at the first rejected row); the Lean model
//! (`sqlidx loadseq`) predicts B.  Compared in this order, first difference reported:
//! Ok/Err outcome and row count, full dump, COUNT(*), point lookups through every index for rows
//! of the batch, next generated id, outcome and dump after later ordinary DML, dump after reopen.
//!
//! Case syntax: `bulk <api> <table kind> <batch class> <seed>`
use crate::common::*;
use crate::sqlgen::*;
use crate::sqlgen_idx::*;
use turdb::OwnedValue;

const APIS: &[&str] = &["insert_batch", "insert_batch_into_schema", "insert_cached", "bulk_insert"];
const TABLES: &[&str] = &["plain", "pk", "pk-idx-unique", "autoinc", "notnull"];
const CLASSES: &[&str] = &["empty", "asc", "random", "dup-inside", "dup-existing", "null-key", "autoinc-null", "asc-after-delete", "big"];

fn table_def(kind: &str) -> TDef {
    let c = ColSpec::new;
    let cols = match kind {
        "plain" => vec![c("a", CTy::Big), c("b", CTy::Text), c("c", CTy::Dbl)],
        "pk" => vec![c("a", CTy::Big).pk(), c("b", CTy::Text), c("c", CTy::Dbl)],
        "pk-idx-unique" => vec![c("a", CTy::Big).pk(), c("b", CTy::Text), c("c", CTy::Big).unique()],
        "autoinc" => vec![c("a", CTy::Big).pk().autoinc(), c("b", CTy::Text), c("c", CTy::Dbl)],
        _ => vec![c("a", CTy::Big).notnull(), c("b", CTy::Text), c("c", CTy::Dbl)],
    };
    TDef { name: "t".into(), cols }
}

fn to_owned(v: &V) -> OwnedValue {
    match v {
        V::Null => OwnedValue::Null,
        V::Bool(b) => OwnedValue::Bool(*b),
        V::Int(i) => OwnedValue::Int(*i),
        V::Flt(n, d) => OwnedValue::Float(*n as f64 / *d as f64),
        V::Text(s) => OwnedValue::Text(s.clone()),
    }
}

fn insert_sql(row: &[V]) -> String { format!("INSERT INTO t VALUES ({})", row.iter().map(|v| v.sql()).collect::<Vec<_>>().join(", ")) }

/// (pre-existing rows, batch)
fn gen_case(rng: &mut Rng, kind: &str, class: &str, thorough: bool) -> (Vec<Vec<V>>, Vec<Vec<V>>) {
    let third = |rng: &mut Rng, i: i64| -> V { if kind == "pk-idx-unique" { V::Int(7000 + i) } else if rng.chance(1, 8) { V::Null } else { V::Flt(rng.range(-8, 40), 4) } };
    let text = |rng: &mut Rng| -> V { if rng.chance(1, 8) { V::Null } else { V::Text(rng.pick(&["", "a", "ab", "abc", "b", "zz", "shared-prefix-shared-prefix-x", "shared-prefix-shared-prefix-y"]).to_string()) } };
    let npre = rng.below(6) as i64 + if class == "dup-existing" || class == "asc-after-delete" { 2 } else { 0 };
    let pre: Vec<Vec<V>> = (0..npre).map(|i| vec![V::Int(10 * (i + 1)), text(rng), third(rng, i)]).collect();
    let n = match class { "empty" => 0, "big" => if thorough { 3000 } else { 600 + rng.below(900) as usize }, _ => 1 + rng.below(40) as usize };
    let mut ids: Vec<i64> = vec![];
    let mut cur = 100i64;
    for _ in 0..n { ids.push(cur); cur += 1 + rng.below(3) as i64; }
    if class == "random" {
        for i in (1..ids.len()).rev() { let j = rng.below(i as u64 + 1) as usize; ids.swap(i, j); }
        if ids.len() > 1 && ids.windows(2).all(|w| w[0] < w[1]) { ids.swap(0, 1); }
    }
    let mut batch: Vec<Vec<V>> = ids.iter().enumerate().map(|(i, id)| vec![V::Int(*id), text(rng), third(rng, 100 + i as i64)]).collect();
    match class {
        "dup-inside" => {
            if batch.len() < 2 { batch.push(vec![V::Int(9999), text(rng), third(rng, 900)]); }
            let i = rng.below(batch.len() as u64 - 1) as usize;
            let j = i + 1 + rng.below((batch.len() - i - 1) as u64) as usize;
            if kind == "pk-idx-unique" && rng.chance(1, 2) { batch[j][2] = batch[i][2].clone(); } else { batch[j][0] = batch[i][0].clone(); }
        }
        "dup-existing" => {
            let j = rng.below(batch.len() as u64) as usize;
            let p = rng.pick(&pre).clone();
            if kind == "pk-idx-unique" && rng.chance(1, 2) { batch[j][2] = p[2].clone(); } else { batch[j][0] = p[0].clone(); }
        }
        "null-key" => { let j = rng.below(batch.len() as u64) as usize; batch[j][0] = V::Null; }
        "autoinc-null" => { for (i, r) in batch.iter_mut().enumerate() { if i % 3 != 1 || rng.chance(1, 2) { r[0] = V::Null; } } }
        _ => {}
    }
    (pre, batch)
}

struct Side { db: Dbh }

fn run_api(db: &Dbh, api: &str, rows: &[Vec<V>]) -> Result<usize, String> {
    let d = db.db.as_ref().unwrap();
    let owned: Vec<Vec<OwnedValue>> = rows.iter().map(|r| r.iter().map(to_owned).collect()).collect();
    let api = api.to_string();
    let r = guarded(std::panic::AssertUnwindSafe(move || -> Result<usize, String> {
        match api.as_str() {
            "insert_batch" => d.insert_batch("t", &owned).map_err(|e| format!("{e:#}")),
            "insert_batch_into_schema" => d.insert_batch_into_schema("root", "t", &owned).map_err(|e| format!("{e:#}")),
            "bulk_insert" => d.bulk_insert("t", owned).map(|n| n as usize).map_err(|e| format!("{e:#}")),
            _ => {
                let ncols = owned.first().map(|r| r.len()).unwrap_or(3);
                let ps = d.prepare(&format!("INSERT INTO t VALUES ({})", vec!["?"; ncols].join(", "))).map_err(|e| format!("{e:#}"))?;
                let mut n = 0;
                for r in &owned {
                    d.execute_with_cached_plan(&ps, r).map_err(|e| format!("after {n} rows: {e:#}"))?;
                    n += 1;
                }
                Ok(n)
            }
        }
    }));
    match r { Ok(x) => x, Err(p) => Err(format!("PANIC {p}")) }
}

fn outcome_class(r: &Result<usize, String>) -> String {
    match r { Ok(_) => "ok".into(), Err(e) if e.starts_with("PANIC") => "panic".into(), Err(e) => format!("err-{}", error_class(e)) }
}

fn run_case(ctx: &Ctx, model: &mut Model, rep: &mut Report, api: &str, kind: &str, class: &str, seed: u64) {
    if (class == "autoinc-null") != (kind == "autoinc") && class == "autoinc-null" { return; }
    if kind == "plain" && (class == "null-key") { return; }
    let mut rng = Rng::new(seed);
    let case = format!("bulk {api} {kind} {class} {seed}");
    let td = table_def(kind);
    let (pre, batch) = gen_case(&mut rng, kind, class, ctx.thorough);
    let a = Side { db: Dbh::create(ctx, &format!("c43a-{seed}")) };
    let b = Side { db: Dbh::create(ctx, &format!("c43b-{seed}")) };
    model.ask("reset");
    model.ask(&td.model_create(true));
    for s in [&a, &b] {
        s.db.must(&td.create_sql(true));
        if kind == "pk-idx-unique" { s.db.must("CREATE INDEX ix_b ON t (b)"); }
    }
    for r in &pre {
        for s in [&a, &b] { s.db.must(&insert_sql(r)); }
        model.ask(&format!("stmt (insert t (0 1 2) ({}))", vs_sx(r)));
    }
    if class == "asc-after-delete" {
        // the header row count drops below the largest row id handed out so far
        let sql = format!("DELETE FROM t WHERE a = {}", pre[0][0].sql());
        for s in [&a, &b] { let _ = s.db.exec(&sql); }
        model.ask(&format!("stmt (delete t (bin eq (col 0) {}))", pre[0][0].sx()));
    }
    rep.count(&format!("api_{api}"));
    rep.count(&format!("table_{kind}"));
    rep.count(&format!("class_{class}"));
    rep.count_n("batch_rows", batch.len() as u64);
    // ---- B: row at a time, stop at the first rejected row
    let mut b_ok = 0usize;
    let mut b_err: Option<String> = None;
    for r in &batch {
        match b.db.exec(&insert_sql(r)) {
            Out::Affected(..) => b_ok += 1,
            Out::Err(e) => { b_err = Some(format!("err-{}", error_class(&e))); break; }
            Out::Panic(p) => { b_err = Some(format!("panic {}", short(&p, 60))); break; }
            _ => { b_err = Some("unexpected".into()); break; }
        }
    }
    // ---- model: predicts B
    // (the reference re-validates the whole table per row: skipped for the big batches)
    let m_expect0 = format!("loaded {b_ok} {}", match &b_err { None => "none".to_string(), Some(e) => e.strip_prefix("err-").unwrap_or(e).to_string() });
    let mresp = if batch.len() > 120 { m_expect0.clone() } else { model.ask(&format!("loadseq t (0 1 2) ({})", batch.iter().map(|r| vs_sx(r)).collect::<Vec<_>>().join(" "))) };
    let m_expect = format!("loaded {b_ok} {}", match &b_err { None => "none".to_string(), Some(e) => e.strip_prefix("err-").unwrap_or(e).to_string() });
    let model_agrees_b = mresp == m_expect;
    if !model_agrees_b { rep.count(&format!("reference_predicts_other_outcome_for_row_at_a_time:{kind}:{class}")); }
    // ---- A: the bulk API
    let ra = run_api(&a.db, api, &batch);
    let valid = b_err.is_none();
    rep.case(Some(&format!("{api}|{kind}|{class}|{}|{}", batch.len(), fnv(&format!("{batch:?}")))));
    if rep.evaluations % 37 == 0 { rep.sample(format!("{case}: {} pre-existing rows, batch of {} rows, row-at-a-time: {b_ok} ok{}", pre.len(), batch.len(), b_err.as_ref().map(|e| format!(" then {e}")).unwrap_or_default())); }
    let fail = |rep: &mut Report, what: &str, detail: String| {
        rep.oracle_fail(case.clone(), detail, format!("bulk:{api}:{kind}:{class}:{what}"));
    };
    let desc = format!("{} pre-existing rows, batch of {} rows (first: {})", pre.len(), batch.len(), batch.first().map(|r| insert_sql(r)).unwrap_or_default());
    // 1. outcome
    match (&ra, valid) {
        (Ok(n), true) => if *n != batch.len() { fail(rep, "outcome-count", format!("{desc}: API returned Ok({n}), {} rows expected", batch.len())); return; },
        (Ok(n), false) => { fail(rep, "outcome-ok-vs-err", format!("{desc}: API returned Ok({n}); row-at-a-time INSERT rejects row {} with {}", b_ok + 1, b_err.clone().unwrap())); return; }
        (Err(e), true) => { fail(rep, &format!("outcome-{}-vs-ok", outcome_class(&ra)), format!("{desc}: API failed: {}; every row is accepted by INSERT", short(e, 300))); return; }
        (Err(_), false) => {}
    }
    // 2. dump, 3. count
    let dump = |s: &Side| q(&s.db, "SELECT * FROM t");
    let cmp_dump = |rep: &mut Report, what: &str, stage: &str| -> bool {
        match (dump(&a), dump(&b)) {
            (Ok(x), Ok(y)) => {
                if same_bag(&x, &y) { true } else {
                    let (miss, extra) = (bag_minus(&y, &x, same_cell), bag_minus(&x, &y, same_cell));
                    fail(rep, what, format!("{desc}: {stage}: SELECT * FROM t: {} rows via API vs {} via INSERT; only via INSERT: {} | only via API: {}", x.len(), y.len(), show_some(&miss, 3), show_some(&extra, 3)));
                    false
                }
            }
            (Err(e), Ok(_)) => {
                let raw = match a.db.exec("SELECT * FROM t") { Out::Err(m) => short(&m, 300), Out::Panic(m) => format!("panic {}", short(&m, 300)), _ => String::new() };
                fail(rep, &format!("{what}-{e}"), format!("{desc}: {stage}: SELECT * FROM t fails on the API side: {raw}"));
                false
            }
            _ => { rep.count("dump_failed_on_B"); false }
        }
    };
    if !cmp_dump(rep, "dump", "after the load") { return; }
    match (q(&a.db, "SELECT COUNT(*) FROM t"), q(&b.db, "SELECT COUNT(*) FROM t")) {
        (Ok(x), Ok(y)) => if x != y { fail(rep, "count", format!("{desc}: COUNT(*) {} via API vs {} via INSERT", show_some(&x, 1), show_some(&y, 1))); return; },
        (Err(e), Ok(_)) => { fail(rep, &format!("count-{e}"), format!("{desc}: COUNT(*) fails: {e}")); return; }
        _ => {}
    }
    // 4. point lookups through the indexes (and plain columns) for rows of the batch
    let sc = td.scope();
    let mut probes: Vec<&Vec<V>> = batch.iter().take(6).collect();
    probes.extend(batch.iter().rev().take(6));
    for _ in 0..8 { if !batch.is_empty() { probes.push(rng.pick(&batch)); } }
    for r in probes {
        for c in 0..3 {
            if r[c] == V::Null { continue; }
            let sql = format!("SELECT * FROM t WHERE {}", E::Bin(Op::Eq, Box::new(E::Col(c)), Box::new(E::Lit(r[c].clone()))).sql(&sc));
            let ix = explain_index(&a.db, &sql);
            let kindix = if ix.is_empty() { "scan" } else if ix.ends_with("_pkey") { "pk" } else if ix.ends_with("_key") { "unique" } else { "secondary" };
            match (q(&a.db, &sql), q(&b.db, &sql)) {
                (Ok(x), Ok(y)) => if !same_bag(&x, &y) {
                    fail(rep, &format!("lookup-{kindix}"), format!("{desc}: {sql} [plan {kindix} {ix}]: {} rows via API ({}) vs {} via INSERT ({})", x.len(), show_some(&x, 2), y.len(), show_some(&y, 2)));
                    return;
                },
                (Err(e), Ok(_)) => { fail(rep, &format!("lookup-{kindix}-{e}"), format!("{desc}: {sql}: {e}")); return; }
                _ => {}
            }
        }
    }
    // 5. next generated id
    if kind == "autoinc" {
        let sql = "INSERT INTO t (b, c) VALUES ('next', 0.5)";
        let (oa, ob) = (dml_class(&a.db.exec(sql)), dml_class(&b.db.exec(sql)));
        if oa != ob { fail(rep, "nextid-outcome", format!("{desc}: {sql}: {oa} via API vs {ob} via INSERT")); return; }
        if !cmp_dump(rep, "nextid", "after INSERT with a generated id") { return; }
    }
    // 6. later ordinary DML
    let fresh = vec![V::Int(50_000), V::Text("later".into()), if kind == "pk-idx-unique" { V::Int(99_000) } else { V::Flt(3, 4) }];
    let mut later = vec![insert_sql(&fresh)];
    if let Some(r) = batch.iter().find(|r| r[0] != V::Null) {
        later.push(format!("UPDATE t SET b = 'upd' WHERE a = {}", r[0].sql()));
        later.push(format!("DELETE FROM t WHERE a = {}", r[0].sql()));
        // a duplicate of a loaded key must be rejected the same way
        later.push(insert_sql(&[r[0].clone(), V::Text("dup".into()), if kind == "pk-idx-unique" { V::Int(99_001) } else { V::Null }]));
    }
    for sql in &later {
        let (oa, ob) = (dml_class(&a.db.exec(sql)), dml_class(&b.db.exec(sql)));
        if oa != ob { fail(rep, "later-dml-outcome", format!("{desc}: then `{}`: {oa} via API vs {ob} via INSERT", short(sql, 120))); return; }
    }
    if !cmp_dump(rep, "later-dml-dump", "after later INSERT/UPDATE/DELETE") { return; }
    // 7. reopen
    let (mut a, mut b) = (a, b);
    if a.db.reopen().is_err() { fail(rep, "reopen-error", format!("{desc}: reopen of the API-loaded database failed")); return; }
    let _ = b.db.reopen();
    match (dump(&a), dump(&b)) {
        (Ok(x), Ok(y)) => if !same_bag(&x, &y) { fail(rep, "reopen-dump", format!("{desc}: after reopen {} rows via API vs {} via INSERT", x.len(), y.len())); },
        (Err(e), Ok(_)) => fail(rep, &format!("reopen-dump-{e}"), format!("{desc}: SELECT after reopen: {e}")),
        _ => {}
    }
}

/// ONE prepared INSERT executed row after row through `execute_with_cached_plan` on A (plain single-row
/// INSERTs on B), with ordinary DML executed on both databases BETWEEN the cached executions; COUNT(*) and
/// the full dump are compared after every step.
fn run_cached_interleaved(ctx: &Ctx, rep: &mut Report, kind: &str, seed: u64) {
    let mut rng = Rng::new(seed);
    let case = format!("bulk insert_cached {kind} interleaved {seed}");
    let td = table_def(kind);
    let a = Dbh::create(ctx, &format!("c43ia-{seed}"));
    let b = Dbh::create(ctx, &format!("c43ib-{seed}"));
    for d in [&a, &b] { d.must(&td.create_sql(true)); }
    rep.case(Some(&case));
    rep.count("cached_interleaved_histories");
    let da = a.db.as_ref().unwrap();
    let ps = match guarded(std::panic::AssertUnwindSafe(|| da.prepare("INSERT INTO t VALUES (?, ?, ?)"))) { Ok(Ok(p)) => p, _ => { rep.count("cached_interleaved_prepare_failed"); return; } };
    let fail = |rep: &mut Report, what: &str, detail: String| rep.oracle_fail(case.clone(), detail, format!("bulk:insert_cached:{kind}:interleaved:{what}"));
    let n = 8 + rng.below(8) as i64;
    let mut loaded: Vec<i64> = vec![];
    for i in 0..n {
        let id = 100 + i * 10;
        let row = vec![V::Int(id), V::Text(format!("r{i}")), V::Flt(i, 4)];
        let owned: Vec<OwnedValue> = row.iter().map(to_owned).collect();
        let ra = match guarded(std::panic::AssertUnwindSafe(|| da.execute_with_cached_plan(&ps, &owned))) { Ok(Ok(_)) => "ok".to_string(), Ok(Err(e)) => format!("err-{}", error_class(&format!("{e:#}"))), Err(_) => "panic".into() };
        let rb = dml_class(&b.exec(&insert_sql(&row)));
        if (ra == "ok") != rb.starts_with("ok") { fail(rep, "outcome", format!("cached execution #{i} of INSERT (id {id}): {ra} via the cached plan, {rb} via INSERT")); return; }
        loaded.push(id);
        // ordinary DML between the cached executions
        if i >= 1 && rng.chance(1, 2) {
            let sql = match rng.below(3) {
                0 => format!("INSERT INTO t VALUES ({}, 'plain', 0.5)", -(i + 1)),
                1 => { let v = loaded.remove(rng.below(loaded.len() as u64) as usize); format!("DELETE FROM t WHERE a = {v}") }
                _ => format!("INSERT INTO t VALUES ({}, 'plain2', 0.25), ({}, 'plain3', 0.75)", -(100 + i), -(200 + i)),
            };
            let (oa, ob) = (dml_class(&a.exec(&sql)), dml_class(&b.exec(&sql)));
            rep.count("cached_interleaved_dml");
            if oa != ob { fail(rep, "dml-outcome", format!("`{sql}` between cached executions: {oa} on the cached-plan database, {ob} on the INSERT database")); return; }
        }
        match (q(&a, "SELECT COUNT(*) FROM t"), q(&b, "SELECT COUNT(*) FROM t")) {
            (Ok(x), Ok(y)) => if x != y { fail(rep, "count", format!("after cached execution #{i}: COUNT(*) {} on the cached-plan database vs {} on the INSERT database", show_some(&x, 1), show_some(&y, 1))); return; },
            (Err(e), Ok(_)) => { fail(rep, "count-error", format!("COUNT(*) fails: {e}")); return; }
            _ => {}
        }
        match (q(&a, "SELECT * FROM t"), q(&b, "SELECT * FROM t")) {
            (Ok(x), Ok(y)) => if !same_bag(&x, &y) { fail(rep, "dump", format!("after cached execution #{i}: {} rows on the cached-plan database vs {} on the INSERT database", x.len(), y.len())); return; },
            (Err(e), Ok(_)) => { fail(rep, "dump-error", format!("SELECT * fails: {e}")); return; }
            _ => {}
        }
    }
}

pub fn run(ctx: &Ctx) -> Report {
    let mut rep = Report::new(
        "sql_bulk",
        "twin databases with identical schema (plain / PRIMARY KEY / PRIMARY KEY + secondary index + UNIQUE column / AUTO_INCREMENT / NOT NULL), \
         0-8 pre-existing rows; one batch per case through insert_batch, insert_batch_into_schema, prepared INSERT + execute_with_cached_plan \
         (insert_cached), bulk_insert on A and as single-row INSERT statements on B (stop at first rejected row; predicted by the Lean model's loadSeq); \
         batch classes: empty, ascending keys, non-ascending keys, duplicate key inside the batch, duplicate of an existing key, NULL in a key / NOT NULL \
         column, NULL ids for AUTO_INCREMENT, load after a DELETE, big (600-3000 rows); compared in order (first difference reported): Ok/Err and row \
         count, full dump, COUNT(*), point lookups through every index, next generated id, outcome + dump after later INSERT/UPDATE/DELETE, dump after \
         reopen. Interleaved layer: one prepared INSERT executed row by row through the cached plan with ordinary INSERT / DELETE statements between the executions, COUNT(*) and dump compared after every step. non-trivial = distinct (api, table, class, batch)",
    );
    let mut model = Model::spawn(&ctx.model_bin, "sqlidx");
    for line in ctx.corpus_cases("C43") {
        let f: Vec<&str> = line.split_whitespace().collect();
        if f.len() >= 5 && f[0] == "bulk" {
            if let (Some(api), Some(kind), Some(class), Ok(seed)) = (APIS.iter().find(|x| **x == f[1]), TABLES.iter().find(|x| **x == f[2]), CLASSES.iter().find(|x| **x == f[3]), f[4].parse::<u64>()) {
                run_case(ctx, &mut model, &mut rep, api, kind, class, seed);
            }
        }
    }
    if ctx.replay.is_none() {
        let nint = if ctx.thorough { 40 } else { 6 };
        for k in 0..nint { for kind in ["plain", "pk"] { run_cached_interleaved(ctx, &mut rep, kind, 0xC43_0000 + k); } }
    }
    let mut rng = Rng::new(ctx.seed);
    let reps = if ctx.thorough { 12 } else { 1 };
    for api in APIS { for kind in TABLES { for class in CLASSES {
        let n = if *class == "big" { 1 } else { reps };
        if *class == "big" && !ctx.thorough && !(*kind == "pk-idx-unique" || *kind == "plain") { continue; }
        for _ in 0..n { let seed = rng.next() >> 1; run_case(ctx, &mut model, &mut rep, api, kind, class, seed); }
    } } }
    rep.notes.push(format!("model requests: {}", model.requests));
    rep
}
