//! C18: subqueries (IN / NOT IN / EXISTS / NOT EXISTS / scalar; correlated or not; in WHERE, in the
//! select list, derived tables in FROM; nesting depth <= 2) and set operations (UNION / UNION ALL /
//! INTERSECT / EXCEPT) vs the reference semantics `TurVerif.SqlSub` (family `sqlsub`) and
//! `TurVerif.Sql.runQuery` (family `sql`).
//!
//! Tables: t(id,k,a) outer; u(id,k,b) with NULL keys and duplicates; v(id,k,b) without NULL keys;
//! e(id,k,b) empty.  Every form is generated for every inner table, correlated and uncorrelated,
//! as a WHERE predicate (`SELECT t.id FROM t WHERE p`) and as a select-list item
//! (`SELECT t.id, p FROM t`) — the systematic layer, on a fixed and on per-seed random data —
//! plus random combinations (AND/OR/NOT with plain predicates, depth-2 nesting).
//!
//! Signatures (finite alphabet):
//!   `subq:<where|select>:<form>:<corr|uncorr>:inner=<empty|hasnull|nonull|na>:lhs=<null|val|na> exp=<..> got=<..>`
//!   `subq:<pos>:<form>:<corr|uncorr>:<err-class|panic|card-not-detected|rowcount>`
//!   `setop:<op>:<dups|nodups>:<nulls|nonulls>:<missing|extra|both|dupcount|err-..>`
use crate::common::*;
use crate::sqlgen::*;
use crate::sqlgen_sub::*;

const TW: usize = 3; // every table has 3 columns: id, k, payload

fn b(e: E) -> SE { SE::Base(e) }
fn colx(i: usize) -> E { E::Col(i) }
fn cmp(op: Op, a: E, c: E) -> E { E::Bin(op, Box::new(a), Box::new(c)) }
fn lit(i: i64) -> E { E::Lit(V::Int(i)) }
fn and(a: SE, c: SE) -> SE { SE::Bin(Op::And, Box::new(a), Box::new(c)) }

fn table(name: &str, p: &str, rows: Vec<(i64, Option<i64>, Option<i64>)>) -> TableSpec {
    TableSpec { name: name.into(), cols: vec![("id".into(), Ty::Int), ("k".into(), Ty::Int), (p.into(), Ty::Int)],
        rows: rows.into_iter().map(|(i, k, a)| vec![V::Int(i), k.map(V::Int).unwrap_or(V::Null), a.map(V::Int).unwrap_or(V::Null)]).collect() }
}

fn fixed_tables() -> Vec<TableSpec> {
    vec![
        table("t", "a", vec![(1, Some(1), Some(10)), (2, Some(2), Some(20)), (3, None, Some(30)), (4, Some(7), Some(40)), (5, Some(2), None), (6, Some(5), Some(25))]),
        table("u", "b", vec![(1, Some(1), Some(15)), (2, Some(2), Some(20)), (3, Some(2), Some(35)), (4, None, Some(40)), (5, Some(9), None), (6, Some(5), Some(5))]),
        table("v", "b", vec![(1, Some(1), Some(12)), (2, Some(2), Some(22)), (3, Some(3), Some(32)), (4, Some(2), Some(8))]),
        table("e", "b", vec![]),
    ]
}

fn random_tables(rng: &mut Rng) -> Vec<TableSpec> {
    fn gen(rng: &mut Rng, name: &str, p: &str, n: usize, null_pct: u64) -> TableSpec {
        let rows = (0..n).map(|i| {
            let k = if rng.chance(null_pct, 100) { None } else { Some(*rng.pick(&[1i64, 2, 2, 3, 5, 7])) };
            let a = if rng.chance(null_pct / 2, 100) { None } else { Some(*rng.pick(&[5i64, 10, 20, 30, 40])) };
            (i as i64 + 1, k, a)
        }).collect();
        table(name, p, rows)
    }
    let nt = 4 + rng.below(5) as usize;
    let nu = 3 + rng.below(6) as usize;
    let nv = 2 + rng.below(5) as usize;
    vec![gen(rng, "t", "a", nt, 25), gen(rng, "u", "b", nu, 30), gen(rng, "v", "b", nv, 0), table("e", "b", vec![])]
}

#[derive(Clone)]
struct SCase {
    form: String,
    corr: bool,
    /// the predicate / value expression over the outer row of t
    expr: SE,
    /// outermost single subquery and its lhs (for signature refinement), if the expression is one
    probe: Option<(Option<SE>, SQ)>,
}

/// subquery over table `x`: SELECT <item col> FROM x WHERE <whr>; `off` = width of inner row
fn sq(x: &str, whr: SE, item: SItem) -> SQ { SQ { table: x.into(), whr, item } }

/// the basic forms over inner table `x`
fn basic_forms(x: &str, c: i64) -> Vec<SCase> {
    let mut v = vec![];
    let tk = || b(colx(1));
    let ta = || b(colx(2));
    // inside the subquery: inner cols 0..2, outer t cols 3..5
    let corr_eq = || b(cmp(Op::Eq, colx(1), colx(TW + 1))); // x.k = t.k
    let corr_gt = || b(cmp(Op::Gt, colx(2), colx(TW + 2))); // x.b > t.a
    let plain = || b(cmp(Op::Gt, colx(2), lit(c))); // x.b > c
    for neg in [false, true] {
        let nm = if neg { "notin" } else { "in" };
        for (corr, whr) in [(false, SE::tt()), (false, plain()), (true, corr_gt())] {
            let q = sq(x, whr, SItem::Expr(b(colx(1))));
            v.push(SCase { form: nm.into(), corr, expr: SE::InSub(Box::new(tk()), Box::new(q.clone()), neg), probe: Some((Some(tk()), q)) });
        }
        let nm = if neg { "notexists" } else { "exists" };
        for (corr, whr) in [(false, SE::tt()), (false, plain()), (true, corr_eq()), (true, and(corr_eq(), plain()))] {
            let q = sq(x, whr, SItem::Expr(b(colx(0))));
            v.push(SCase { form: nm.into(), corr, expr: SE::Exists(Box::new(q.clone()), neg), probe: Some((None, q)) });
        }
    }
    // scalar subqueries compared with an outer column
    for (f, corr, whr, item) in [
        ("scalar-max", false, SE::tt(), SItem::Agg("max", b(colx(2)))),
        ("scalar-min", false, plain(), SItem::Agg("min", b(colx(2)))),
        ("scalar-count", false, plain(), SItem::CountStar),
        ("scalar-sum", false, SE::tt(), SItem::Agg("sum", b(colx(2)))),
        ("scalar-max", true, corr_eq(), SItem::Agg("max", b(colx(2)))),
        ("scalar-count", true, corr_eq(), SItem::CountStar),
        ("scalar-col-1row", false, b(cmp(Op::Eq, colx(0), lit(2))), SItem::Expr(b(colx(2)))),
        ("scalar-col-0row", false, b(cmp(Op::Eq, colx(0), lit(99))), SItem::Expr(b(colx(2)))),
        ("scalar-col-nrows", false, SE::tt(), SItem::Expr(b(colx(2)))),
        ("scalar-col-corr", true, corr_eq(), SItem::Expr(b(colx(2)))),
    ] {
        let q = sq(x, whr, item);
        let e = SE::Bin(Op::Lt, Box::new(ta()), Box::new(SE::Scalar(Box::new(q.clone()))));
        v.push(SCase { form: format!("{f}-cmp"), corr, expr: e, probe: Some((Some(ta()), q.clone())) });
        v.push(SCase { form: f.to_string(), corr, expr: SE::Scalar(Box::new(q.clone())), probe: Some((None, q)) });
    }
    v
}

/// depth-2 and boolean combinations
fn combo_forms(c: i64) -> Vec<SCase> {
    let mut v = vec![];
    let tk = || b(colx(1));
    // t.k IN (SELECT k FROM u WHERE u.b IN (SELECT b FROM v WHERE v.b > c))
    let inner = sq("v", b(cmp(Op::Gt, colx(2), lit(c))), SItem::Expr(b(colx(2))));
    let mid = sq("u", SE::InSub(Box::new(b(colx(2))), Box::new(inner), false), SItem::Expr(b(colx(1))));
    v.push(SCase { form: "nested-in(in)".into(), corr: false, expr: SE::InSub(Box::new(tk()), Box::new(mid), false), probe: None });
    // EXISTS (SELECT id FROM u WHERE u.k = t.k AND NOT EXISTS (SELECT id FROM v WHERE v.k = u.k))
    let inner = sq("v", b(cmp(Op::Eq, colx(1), colx(TW + 1))), SItem::Expr(b(colx(0))));
    let mid = sq("u", and(b(cmp(Op::Eq, colx(1), colx(TW + 1))), SE::Exists(Box::new(inner), true)), SItem::Expr(b(colx(0))));
    v.push(SCase { form: "nested-exists(notexists)".into(), corr: true, expr: SE::Exists(Box::new(mid), false), probe: None });
    // t.k IN (SELECT k FROM u WHERE EXISTS (SELECT id FROM v WHERE v.k = t.k))   (depth 2 refers to the outermost row)
    let inner = sq("v", b(cmp(Op::Eq, colx(1), colx(2 * TW + 1))), SItem::Expr(b(colx(0))));
    let mid = sq("u", SE::Exists(Box::new(inner), false), SItem::Expr(b(colx(1))));
    v.push(SCase { form: "nested-in(exists-outer2)".into(), corr: true, expr: SE::InSub(Box::new(tk()), Box::new(mid), false), probe: None });
    // t.a > (SELECT MIN(b) FROM u WHERE u.k IN (SELECT k FROM v))
    let inner = sq("v", SE::tt(), SItem::Expr(b(colx(1))));
    let mid = sq("u", SE::InSub(Box::new(b(colx(1))), Box::new(inner), false), SItem::Agg("min", b(colx(2))));
    v.push(SCase { form: "nested-scalar(in)".into(), corr: false, expr: SE::Bin(Op::Gt, Box::new(b(colx(2))), Box::new(SE::Scalar(Box::new(mid)))), probe: None });
    // boolean combinations with plain predicates
    for x in ["u", "v", "e"] {
        let q_in = sq(x, SE::tt(), SItem::Expr(b(colx(1))));
        let q_ex = sq(x, b(cmp(Op::Eq, colx(1), colx(TW + 1))), SItem::Expr(b(colx(0))));
        let plain = || b(cmp(Op::Gt, colx(2), lit(c)));
        let isub = |neg| SE::InSub(Box::new(tk()), Box::new(q_in.clone()), neg);
        let esub = |neg| SE::Exists(Box::new(q_ex.clone()), neg);
        v.push(SCase { form: "and(in,plain)".into(), corr: false, expr: and(isub(false), plain()), probe: None });
        v.push(SCase { form: "or(in,plain)".into(), corr: false, expr: SE::Bin(Op::Or, Box::new(isub(false)), Box::new(plain())), probe: None });
        v.push(SCase { form: "or(notin,plain)".into(), corr: false, expr: SE::Bin(Op::Or, Box::new(isub(true)), Box::new(plain())), probe: None });
        v.push(SCase { form: "not(in)".into(), corr: false, expr: SE::Not(Box::new(isub(false))), probe: None });
        v.push(SCase { form: "isnull(in)".into(), corr: false, expr: SE::IsNull(Box::new(isub(false)), false), probe: None });
        v.push(SCase { form: "and(exists,plain)".into(), corr: true, expr: and(esub(false), plain()), probe: None });
        v.push(SCase { form: "or(notexists,plain)".into(), corr: true, expr: SE::Bin(Op::Or, Box::new(esub(true)), Box::new(plain())), probe: None });
        v.push(SCase { form: "not(exists)".into(), corr: true, expr: SE::Not(Box::new(esub(false))), probe: None });
        v.push(SCase { form: "and(in,notexists)".into(), corr: true, expr: and(isub(false), esub(true)), probe: None });
    }
    v
}

fn kind_of_cell(c: &str) -> &'static str {
    match c.as_bytes()[0] { b'N' => "null", b'B' => if c == "B1" { "true" } else { "false" }, b'I' => "int", b'F' => "float", b'T' => "text", _ => "other" }
}

struct Env<'a> {
    dbh: &'a Dbh,
    model: &'a mut Model,
    tables: &'a [TableSpec],
    setup: Vec<String>,
    model_setup: Vec<String>,
}

impl<'a> Env<'a> {
    fn case_of(&self, meta: &str, top: &STopQ) -> SqlCase {
        let p = Pctx { tables: self.tables };
        SqlCase { meta: meta.into(), setup: self.setup.clone(), model_setup: self.model_setup.clone(), family: "sqlsub".into(), request: format!("top {}", top.sx()), sql: top.sql(&p), probe: vec![] }
    }
    /// probe requests (with `{ID}` for the outer row id) for the outermost subquery `q` / its lhs
    fn probes(lhs: &Option<SE>, q: &SQ) -> Vec<String> {
        let sel_row = "(base (bin eq (col 0) (int {ID})))";
        let inner = match &q.item {
            SItem::Expr(item) => {
                let cnt = |whr: SE| SE::Scalar(Box::new(SQ { table: q.table.clone(), whr, item: SItem::CountStar }));
                format!("top (top (t t) {sel_row} ({} {}))", cnt(q.whr.clone()).sx(), cnt(and(q.whr.clone(), SE::IsNull(Box::new(item.clone()), false))).sx())
            }
            _ => "-".to_string(),
        };
        let l = match lhs { Some(l) => format!("top (top (t t) {sel_row} ({}))", l.sx()), None => "-".to_string() };
        vec![inner, l]
    }
    /// class of the outermost subquery's value list under outer row `ri`: empty / hasnull / nonull
    fn inner_class(&mut self, probe: &[String], ri: usize) -> &'static str {
        let Some(req) = probe.first() else { return "na" };
        if req == "-" { return "na"; }
        let r = self.model.ask(&req.replace("{ID}", &(ri + 1).to_string()));
        match parse_model_rows(&r) {
            Ok(rows) if rows.len() == 1 && rows[0].len() == 2 => {
                if rows[0][0] == "I0" { "empty" } else if rows[0][1] != "I0" { "hasnull" } else { "nonull" }
            }
            _ => "na",
        }
    }
    fn lhs_class(&mut self, probe: &[String], ri: usize) -> &'static str {
        let Some(req) = probe.get(1) else { return "na" };
        if req == "-" { return "na"; }
        let r = self.model.ask(&req.replace("{ID}", &(ri + 1).to_string()));
        match parse_model_rows(&r) { Ok(rows) if rows.len() == 1 => if rows[0][0] == "N" { "null" } else { "val" }, _ => "na" }
    }
}

fn engine_out(dbh: &Dbh, sql: &str) -> Result<Vec<Vec<String>>, String> {
    match dbh.exec(sql) {
        Out::Rows(r) => Ok(r),
        Out::Err(e) => Err(format!("err-{}", error_class(&e))),
        Out::Panic(p) => Err(format!("panic:{}", p.chars().take(80).collect::<String>())),
        o => Err(format!("unexpected:{o:?}")),
    }
}

fn run_scase(rep: &mut Report, env: &mut Env, c: &SCase, pos: &str) {
    let nrows = env.tables[0].rows.len();
    let top = if pos == "where" {
        STopQ { from: SFromQ::Table("t".into()), whr: c.expr.clone(), items: vec![b(colx(0))] }
    } else {
        STopQ { from: SFromQ::Table("t".into()), whr: SE::tt(), items: vec![b(colx(0)), c.expr.clone()] }
    };
    let meta = format!("subq:{pos}:{}:{}", c.form, if c.corr { "corr" } else { "uncorr" });
    let mut case = env.case_of(&meta, &top);
    if let Some((lhs, q)) = &c.probe { case.probe = Env::probes(lhs, q); }
    run_sub_case(rep, env, &case, nrows);
}

/// run a (generated or replayed) sqlsub case; `case.probe` carries the requests for signature refinement
fn run_sub_case(rep: &mut Report, env: &mut Env, case: &SqlCase, nrows: usize) {
    let pos = case.meta.split(':').nth(1).unwrap_or("where").to_string();
    let resp = env.model.ask(&case.request);
    if resp == "bad-op" { rep.disagree(case.to_line(), format!("model rejected request {}", case.request), "model-bad-op".into()); return; }
    let got = engine_out(env.dbh, &case.sql);
    rep.count(&format!("pos_{pos}"));
    rep.count(&format!("form_{}", case.meta.split(':').nth(2).unwrap_or("?")));
    if rep.evaluations % 67 == 0 { rep.sample(format!("{}  -- reference: {}", case.sql, resp.chars().take(80).collect::<String>())); }
    let expected = match parse_model_rows(&resp) {
        Ok(r) => r,
        Err(e) => {
            // the reference semantics raises an error (scalar subquery with more than one row)
            rep.case(Some(&format!("{}#{}", case.sql, fnv(&case.setup.join(";")))));
            rep.count(&format!("reference_{}", e.replace(' ', "-")));
            if e == "err card" {
                if let Ok(rows) = &got {
                    rep.oracle_fail(case.to_line(), format!("{}: scalar subquery yields more than one row (reference: cardinality error), engine returned {} rows: {}", case.sql, rows.len(), show_rows(rows).chars().take(200).collect::<String>()),
                        format!("{}:card-not-detected", case.meta));
                }
            } else {
                rep.count("skipped_model_error");
            }
            return;
        }
    };
    let nontrivial = if pos == "where" { !expected.is_empty() && expected.len() < nrows } else { expected.iter().any(|r| r.last() != expected[0].last()) };
    let key = format!("{}#{}", case.sql, fnv(&case.setup.join(";")));
    rep.case(if nontrivial { Some(&key) } else { None });
    let rows = match got {
        Ok(r) => r,
        Err(e) => {
            let cls = if e.starts_with("panic") { "panic".to_string() } else { e.clone() };
            rep.oracle_fail(case.to_line(), format!("{}: engine {e}; reference returns {} rows", case.sql, expected.len()), format!("{}:{}", case.meta, cls));
            return;
        }
    };
    if rows_agree_bag(&expected, &rows) { return; }
    // localise to the first outer row that differs
    let id_of = |r: &Vec<String>| r.first().and_then(|c| c.strip_prefix('I')).and_then(|x| x.parse::<usize>().ok());
    let mut sig = format!("{}:rowcount", case.meta);
    let mut detail = format!("reference {} engine {}", show_rows(&expected), show_rows(&rows));
    for ri in 0..nrows {
        let e: Vec<&Vec<String>> = expected.iter().filter(|r| id_of(r) == Some(ri + 1)).collect();
        let g: Vec<&Vec<String>> = rows.iter().filter(|r| id_of(r) == Some(ri + 1)).collect();
        let same = e.len() == g.len() && e.iter().zip(g.iter()).all(|(a, b2)| a.len() == b2.len() && a.iter().zip(b2.iter()).all(|(x, y)| cells_agree(x, y)));
        if same { continue; }
        let (ic, lc) = (env.inner_class(&case.probe, ri), env.lhs_class(&case.probe, ri));
        let (ex, gt) = if pos == "where" {
            (if e.is_empty() { "out" } else { "in" }.to_string(), if g.is_empty() { "out".to_string() } else if g.len() > 1 { "dup".to_string() } else { "in".to_string() })
        } else {
            (e.first().and_then(|r| r.get(1)).map(|c| kind_of_cell(c)).unwrap_or("missing").to_string(), g.first().and_then(|r| r.get(1)).map(|c| kind_of_cell(c)).unwrap_or("missing").to_string())
        };
        sig = format!("{}:inner={ic}:lhs={lc} exp={ex} got={gt}", case.meta);
        detail = format!("outer row id={}: reference {:?} engine {:?}", ri + 1, e, g);
        break;
    }
    rep.oracle_fail(case.to_line(), format!("{}: {detail}", case.sql), sig);
}

// ---------------------------------------------------------------- set operations

fn branch(t: &TableSpec, cols: &[usize], whr: Option<E>) -> Sel {
    let mut s = Sel::simple(&t.name, t.bare_scope());
    s.items = cols.iter().map(|c| E::Col(*c)).collect();
    s.whr = whr;
    s
}

#[derive(Clone)]
enum SetQ { Leaf(Sel), Op(&'static str, Box<SetQ>, Box<SetQ>) }

impl SetQ {
    fn sql(&self) -> String {
        match self {
            SetQ::Leaf(s) => s.sql(),
            SetQ::Op(op, a, b2) => format!("{} {} {}", a.sql(), match *op { "union" => "UNION", "unionall" => "UNION ALL", "intersect" => "INTERSECT", _ => "EXCEPT" }, b2.sql()),
        }
    }
    fn sx(&self) -> String {
        match self {
            SetQ::Leaf(s) => s.sx(),
            SetQ::Op(op, a, b2) => format!("(setop {} {} {})", op, a.sx(), b2.sx()),
        }
    }
    fn leaves(&self, out: &mut Vec<Sel>) {
        match self { SetQ::Leaf(s) => out.push(s.clone()), SetQ::Op(_, a, b2) => { a.leaves(out); b2.leaves(out); } }
    }
    fn opname(&self) -> String {
        match self { SetQ::Leaf(_) => "leaf".into(), SetQ::Op(op, a, _) => match &**a { SetQ::Op(..) => format!("{}>{}", a.opname(), op), _ => op.to_string() } }
    }
}

fn run_setop(rep: &mut Report, env: &mut Env, q: &SetQ) {
    let mut leaves = vec![];
    q.leaves(&mut leaves);
    let mut dups = false;
    let mut nulls = false;
    for l in &leaves {
        if let Ok(rows) = parse_model_rows(&env.model.ask(&format!("query {}", l.sx()))) {
            let mut seen = std::collections::HashSet::new();
            for r in &rows { if !seen.insert(r.join(",")) { dups = true; } if r.iter().any(|c| c == "N") { nulls = true; } }
        }
    }
    let meta = format!("setop:{}:{}:{}", q.opname(), if dups { "dups" } else { "nodups" }, if nulls { "nulls" } else { "nonulls" });
    let case = SqlCase { meta: meta.clone(), setup: env.setup.clone(), model_setup: env.model_setup.clone(), family: "sql".into(), request: format!("query {}", q.sx()), sql: q.sql(), probe: vec![] };
    run_setop_case(rep, env, &case);
}

fn run_setop_case(rep: &mut Report, env: &mut Env, case: &SqlCase) {
    let resp = env.model.ask(&case.request);
    let expected = match parse_model_rows(&resp) {
        Ok(r) => r,
        Err(e) => { if e == "bad-op" { rep.disagree(case.to_line(), format!("model rejected {}", case.request), "model-bad-op".into()); } rep.count("skipped_model_error"); return; }
    };
    let key = format!("{}#{}", case.sql, fnv(&case.setup.join(";")));
    rep.case(if !expected.is_empty() { Some(&key) } else { None });
    rep.count(&format!("setop_{}", case.meta.split(':').nth(1).unwrap_or("?")));
    rep.count(&format!("setop_flags_{}", case.meta.split(':').skip(2).collect::<Vec<_>>().join("_")));
    if rep.evaluations % 67 == 0 { rep.sample(format!("{}  -- reference {} rows", case.sql, expected.len())); }
    match engine_out(env.dbh, &case.sql) {
        Ok(rows) => {
            if rows_agree_bag(&expected, &rows) { return; }
            let (missing, extra) = bag_diff(&expected, &rows);
            let distinct = |rs: &[Vec<String>]| { let mut s: Vec<String> = rs.iter().map(|r| r.join(",")).collect(); s.sort(); s.dedup(); s };
            let d = if distinct(&expected) == distinct(&rows) { "dupcount" } else { match (missing.is_empty(), extra.is_empty()) { (false, true) => "missing", (true, false) => "extra", _ => "both" } };
            rep.oracle_fail(case.to_line(), format!("{}: reference [{}], engine [{}]", case.sql, show_rows(&expected), show_rows(&rows)), format!("{}:{}", case.meta, d));
        }
        Err(e) => {
            let cls = if e.starts_with("panic") { "panic".to_string() } else { e.clone() };
            rep.oracle_fail(case.to_line(), format!("{}: engine {e}", case.sql), format!("{}:{}", case.meta, cls));
        }
    }
}

fn setop_queries(rng: &mut Rng, ts: &[TableSpec], c: i64, nrandom: usize) -> Vec<SetQ> {
    let (t, u, v, e) = (&ts[0], &ts[1], &ts[2], &ts[3]);
    let mut out = vec![];
    let ops = ["union", "unionall", "intersect", "except"];
    let leaf = |t: &TableSpec, cols: &[usize], w: Option<E>| SetQ::Leaf(branch(t, cols, w));
    for op in ops {
        for (a, b2) in [(t, u), (u, t), (u, v), (v, u), (t, e), (e, t), (u, u)] {
            out.push(SetQ::Op(op, Box::new(leaf(a, &[1], None)), Box::new(leaf(b2, &[1], None))));
        }
        out.push(SetQ::Op(op, Box::new(leaf(t, &[1, 2], None)), Box::new(leaf(u, &[1, 2], None))));
        out.push(SetQ::Op(op, Box::new(leaf(t, &[1], Some(cmp(Op::Gt, colx(2), lit(c))))), Box::new(leaf(u, &[1], Some(cmp(Op::Le, colx(2), lit(c + 10)))))));
        out.push(SetQ::Op(op, Box::new(leaf(t, &[0, 1], None)), Box::new(leaf(v, &[0, 1], None))));
    }
    // left-associative chains (UNION / UNION ALL / EXCEPT have equal precedence; INTERSECT chains are pure)
    for (o1, o2) in [("union", "except"), ("unionall", "except"), ("except", "union"), ("union", "unionall"), ("unionall", "union"), ("intersect", "intersect"), ("except", "except")] {
        out.push(SetQ::Op(o2, Box::new(SetQ::Op(o1, Box::new(leaf(t, &[1], None)), Box::new(leaf(u, &[1], None)))), Box::new(leaf(v, &[1], None))));
    }
    for _ in 0..nrandom {
        let op = *rng.pick(&ops);
        let tabs = [t, u, v, e];
        let a = *rng.pick(&tabs);
        let b2 = *rng.pick(&tabs);
        let cols: &[usize] = *rng.pick(&[&[1usize][..], &[2], &[1, 2], &[0, 1]]);
        let w = |rng: &mut Rng| if rng.chance(1, 2) { None } else { Some(cmp(*rng.pick(&[Op::Gt, Op::Le, Op::Eq]), colx(*rng.pick(&[1usize, 2])), lit(*rng.pick(&[2i64, 10, 20])))) };
        let wa = w(rng);
        let wb = w(rng);
        out.push(SetQ::Op(op, Box::new(leaf(a, cols, wa)), Box::new(leaf(b2, cols, wb))));
    }
    out
}

fn derived_cases(c: i64) -> Vec<(String, STopQ)> {
    let mut v = vec![];
    let d = |w: Option<E>| SFromQ::Derived("t".into(), w, vec![colx(0), colx(1), colx(2)]);
    v.push(("derived-plain".to_string(), STopQ { from: d(Some(cmp(Op::Gt, colx(2), lit(c)))), whr: SE::tt(), items: vec![b(colx(0)), b(colx(1))] }));
    v.push(("derived-outer-where".to_string(), STopQ { from: d(Some(cmp(Op::Gt, colx(2), lit(c)))), whr: SE::IsNull(Box::new(b(colx(1))), true), items: vec![b(colx(0)), b(colx(1))] }));
    v.push(("derived-nofilter".to_string(), STopQ { from: d(None), whr: b(cmp(Op::Le, colx(2), lit(c + 10))), items: vec![b(colx(0)), b(colx(2))] }));
    let q = sq("u", SE::tt(), SItem::Expr(b(colx(1))));
    v.push(("derived-in".to_string(), STopQ { from: d(None), whr: SE::InSub(Box::new(b(colx(1))), Box::new(q), false), items: vec![b(colx(0))] }));
    v
}

pub fn run(ctx: &Ctx) -> Report {
    let mut rep = Report::new(
        "sql_subq",
        "tables t(id,k,a), u(id,k,b) with NULL and duplicate keys, v(id,k,b) without NULL keys, e empty; \
         systematic layer: [NOT] IN / [NOT] EXISTS / scalar (MAX, MIN, SUM, COUNT(*), plain column with 0 / 1 / >1 rows) x inner table in {u,v,e} \
         x uncorrelated / correlated x position (WHERE predicate, select-list item), depth-2 nesting, AND/OR/NOT/IS NULL combinations, derived tables; \
         set operations UNION / UNION ALL / INTERSECT / EXCEPT over 1-2 column branches with NULLs and duplicates, empty sides, self, 3-branch chains; \
         on a fixed data set and per-seed random data sets, plus random set-operation queries. \
         non-trivial (subquery) = WHERE case keeping some but not all outer rows, or select-list case with differing values; (set op) = non-empty reference result",
    );
    let mut rng = Rng::new(ctx.seed);
    let mut msub = Model::spawn(&ctx.model_bin, "sqlsub");
    let mut msql = Model::spawn(&ctx.model_bin, "sql");

    // ---- corpus / replay
    for (i, line) in ctx.corpus_cases("C18").iter().enumerate() {
        let Some(case) = SqlCase::from_line(line) else { rep.notes.push(format!("unparsable corpus line {i}")); continue };
        let dbh = Dbh::create(ctx, &format!("c18-corpus-{i}"));
        for s in &case.setup { dbh.must(s); }
        let nrows = case.setup.iter().filter(|s| s.starts_with("INSERT INTO t ")).count();
        let model = if case.family == "sql" { &mut msql } else { &mut msub };
        for l in &case.model_setup { model.ask(l); }
        let tables: Vec<TableSpec> = vec![];
        let mut env = Env { dbh: &dbh, model, tables: &tables, setup: case.setup.clone(), model_setup: case.model_setup.clone() };
        if case.family == "sql" { run_setop_case(&mut rep, &mut env, &case); } else { run_sub_case(&mut rep, &mut env, &case, nrows); }
        rep.count("corpus_cases");
    }

    let ndata = if ctx.thorough { 30 } else { 6 };
    for di in 0..=ndata {
        let tables = if di == 0 { fixed_tables() } else { random_tables(&mut rng) };
        let dbh = Dbh::create(ctx, &format!("c18-{di}"));
        let mut setup = vec![];
        let mut model_setup = vec!["reset".to_string()];
        for t in &tables {
            setup.push(t.create_sql());
            setup.extend(t.insert_sqls());
            model_setup.extend(t.model_lines());
        }
        for s in &setup { dbh.must(s); }
        for l in &model_setup { msub.ask(l); msql.ask(l); }
        let c = if di % 2 == 0 { 20 } else { 10 };
        // subqueries
        {
            let mut env = Env { dbh: &dbh, model: &mut msub, tables: &tables, setup: setup.clone(), model_setup: model_setup.clone() };
            let mut cases = vec![];
            for x in ["u", "v", "e"] { cases.extend(basic_forms(x, c)); }
            cases.extend(combo_forms(c));
            for sc in &cases {
                // a bare scalar subquery is not a predicate: WHERE position only for the comparison forms
                if !(sc.form.starts_with("scalar") && !sc.form.ends_with("-cmp")) { run_scase(&mut rep, &mut env, sc, "where"); }
                run_scase(&mut rep, &mut env, sc, "select");
            }
            for (name, top) in derived_cases(c) {
                let case = env.case_of(&format!("subq:from:{name}:uncorr"), &top);
                let n = tables[0].rows.len();
                run_sub_case(&mut rep, &mut env, &case, n);
            }
        }
        // set operations
        {
            let mut env = Env { dbh: &dbh, model: &mut msql, tables: &tables, setup: setup.clone(), model_setup: model_setup.clone() };
            let n = if ctx.thorough { 120 } else { 40 };
            for q in setop_queries(&mut rng, &tables, c, n) { run_setop(&mut rep, &mut env, &q); }
        }
    }
    rep.notes.push(format!("model requests: sqlsub {} sql {}", msub.requests, msql.requests));
    rep
}
