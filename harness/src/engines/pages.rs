//! C28 / C29 engine `pages`: B-tree as ordered map + structural validity of all reachable pages.
//!
//! Stage L (leaf level): `LeafNodeMut` op sequences vs the Lean model `TurVerif.Leaf`, see pages_leaf.rs.
//! Stage T (tree level): op sequences on a real `BTree<MmapStorage>` (file under ctx.scratch). After
//! EVERY op: (i) result / content / get / cursor enumerations against `std::collections::BTreeMap`,
//! (ii) every reachable page decoded from raw bytes and the C29 clauses checked (pages_dec.rs),
//! (iii) the page(s) the op touched compared with the Lean leaf model (leaf-local ops step the model;
//! a split is replayed as init + insert_cell* + set_next_leaf on both halves).
//!
//! Case syntax (one line): `L <leafop>*` or `T <treeop>*`; tree ops `i:k:v` insert, `n:k:v`
//! insert_if_not_exists, `a:k:v` insert_append, `u:k:v` update, `d:k` delete, `g:k` get,
//! `r` re-create the handle without hint, `R` with the persisted hint; bytes in compact notation.
use super::pages_dec::*;
use super::pages_leaf::*;
use crate::common::*;
use std::collections::{BTreeMap, BTreeSet};
use std::ops::Bound;
use turdb::btree::{BTree, InsertUniqueResult};
use turdb::storage::MmapStorage;

type Map = BTreeMap<Vec<u8>, Vec<u8>>;

#[derive(Clone, Debug, PartialEq)]
pub enum TOp {
    Ins(Vec<u8>, Vec<u8>),
    Inx(Vec<u8>, Vec<u8>),
    App(Vec<u8>, Vec<u8>),
    Upd(Vec<u8>, Vec<u8>),
    Del(Vec<u8>),
    Get(Vec<u8>),
    Reopen(bool),
    /// the next n operations run through a handle opened WITHOUT the hint (`BTree::new`, what UPDATE / index
    /// maintenance do) and the hint they hand back is not stored: afterwards the stored hint may be stale
    Foreign(usize),
}

impl TOp {
    fn tok(&self) -> String {
        match self {
            TOp::Ins(k, v) => format!("i:{}:{}", bn(k), bn(v)),
            TOp::Inx(k, v) => format!("n:{}:{}", bn(k), bn(v)),
            TOp::App(k, v) => format!("a:{}:{}", bn(k), bn(v)),
            TOp::Upd(k, v) => format!("u:{}:{}", bn(k), bn(v)),
            TOp::Del(k) => format!("d:{}", bn(k)),
            TOp::Get(k) => format!("g:{}", bn(k)),
            TOp::Reopen(false) => "r".into(),
            TOp::Reopen(true) => "R".into(),
            TOp::Foreign(n) => format!("F{n}"),
        }
    }
    fn name(&self) -> &'static str {
        match self {
            TOp::Ins(..) => "insert",
            TOp::Inx(..) => "insert_if_not_exists",
            TOp::App(..) => "insert_append",
            TOp::Upd(..) => "update",
            TOp::Del(..) => "delete",
            TOp::Get(..) => "get",
            TOp::Reopen(_) => "reopen",
            TOp::Foreign(_) => "foreign_handle",
        }
    }
    fn parse(t: &str) -> Option<TOp> {
        if t == "r" { return Some(TOp::Reopen(false)); }
        if t == "R" { return Some(TOp::Reopen(true)); }
        if let Some(n) = t.strip_prefix('F').and_then(|x| x.parse::<usize>().ok()) { return Some(TOp::Foreign(n)); }
        let rest = t.get(2..)?;
        let two = |rest: &str| -> Option<(Vec<u8>, Vec<u8>)> {
            for (i, ch) in rest.char_indices() {
                if ch == ':' {
                    if let (Some(a), Some(b)) = (parse_bn(&rest[..i]), parse_bn(&rest[i + 1..])) { return Some((a, b)); }
                }
            }
            None
        };
        match &t[..1] {
            "i" => two(rest).map(|(k, v)| TOp::Ins(k, v)),
            "n" => two(rest).map(|(k, v)| TOp::Inx(k, v)),
            "a" => two(rest).map(|(k, v)| TOp::App(k, v)),
            "u" => two(rest).map(|(k, v)| TOp::Upd(k, v)),
            "d" => parse_bn(rest).map(TOp::Del),
            "g" => parse_bn(rest).map(TOp::Get),
            _ => None,
        }
    }
}

fn tcase(ops: &[TOp]) -> String {
    let mut s = String::from("T");
    for o in ops { s.push(' '); s.push_str(&o.tok()); }
    s
}

fn cell_need(k: &[u8], v: &[u8]) -> usize { k.len() + varint_len(v.len()) + v.len() + 8 }

/// "not enough free space: need N, have M" raised while a split was rewriting pages: was it a leaf
/// cell (split_leaf: N = cell size + 8) or a separator (split_interior: N = key length + 12)?
fn split_error_sig(msg: &str, key: &[u8], val: Option<&Vec<u8>>, target: Option<&DLeaf>) -> &'static str {
    let need: Option<usize> = msg.split("need ").nth(1).and_then(|r| r.split(',').next()).and_then(|n| n.trim().parse().ok());
    let mut leaf_needs: Vec<usize> = vec![cell_need(key, val.map(|v| v.as_slice()).unwrap_or(&[]))];
    let mut sep_needs: Vec<usize> = vec![key.len() + 12];
    if let Some(l) = target { for c in &l.cells { leaf_needs.push(c.size + 8); sep_needs.push(c.key.len() + 12); } }
    match need {
        Some(n) if leaf_needs.contains(&n) => "btree:split:three-large-cells:error-after-reinit",
        Some(n) if sep_needs.contains(&n) => "btree:split-interior:large-separators:error-after-reinit",
        _ => "btree:split:three-large-cells:error-after-reinit",
    }
}

/// outcome of one tree case
pub struct TreeRun {
    pub failures: Vec<(usize, String, String)>, // (op index, detail, signature)
    pub disagreements: Vec<(usize, String, String)>,
    pub ops_done: usize,
    pub max_depth: usize,
    pub max_leaves: usize,
    pub splits: usize,
    pub empty_leaf_states: usize,
    pub hist: BTreeMap<String, u64>,
}

fn snapshot(st: &MmapStorage) -> Vec<Vec<u8>> {
    (0..st.page_count()).map(|p| st.page(p).map(|s| s.to_vec()).unwrap_or_default()).collect()
}

fn view_of(root: u32, snap: &[Vec<u8>]) -> TreeView {
    let f = |p: u32| snap.get(p as usize).cloned();
    walk_tree(root, &f)
}

fn errs(e: &eyre::Report) -> String {
    if std::env::var("VERIF_DEBUG").is_ok() { eprintln!("error: {:?}", e); }
    e.to_string().chars().take(120).collect()
}

/// cursor checks on the real tree; returns (detail, signature) list
fn cursor_checks(st: &mut MmapStorage, root: u32, oracle: &Map, view: &TreeView, rng: &mut Rng, hist: &mut BTreeMap<String, u64>) -> Vec<(String, String)> {
    let mut out = vec![];
    let exp: Vec<(&Vec<u8>, &Vec<u8>)> = oracle.iter().collect();
    let leaf_sizes: Vec<usize> = view.leaves.iter().map(|p| view.leaf(*p).map(|l| l.cells.len()).unwrap_or(0)).collect();
    let bt = match BTree::new(st, root) { Ok(b) => b, Err(e) => { out.push((errs(&e), "btree:open:error".into())); return out; } };
    // boundary analysis helper: after `n` items consumed from the front, is the next leaf empty?
    let stopped_before_empty = |n: usize| -> bool {
        let mut acc = 0;
        for (i, s) in leaf_sizes.iter().enumerate() {
            acc += s;
            if acc == n && *s > 0 { return leaf_sizes.get(i + 1).map(|x| *x == 0).unwrap_or(false); }
            if acc > n { return false; }
        }
        false
    };
    // ---- forward from first
    let fwd = |start: Result<turdb::btree::Cursor<'_, MmapStorage>, eyre::Report>, limit: usize| -> Result<Vec<(Vec<u8>, Vec<u8>)>, String> {
        let mut c = start.map_err(|e| errs(&e))?;
        let mut got = vec![];
        while c.valid() && got.len() <= limit {
            got.push((c.key().map_err(|e| errs(&e))?.to_vec(), c.value().map_err(|e| errs(&e))?.to_vec()));
            c.advance().map_err(|e| errs(&e))?;
        }
        Ok(got)
    };
    *hist.entry("cursor_forward_full".into()).or_insert(0) += 1;
    match fwd(bt.cursor_first(), exp.len() + 2) {
        Err(e) => out.push((format!("forward enumeration error: {e}"), "btree:cursor-forward:error".into())),
        Ok(got) => {
            let same = got.len() == exp.len() && got.iter().zip(exp.iter()).all(|(g, e)| &g.0 == e.0 && &g.1 == e.1);
            if !same {
                let is_prefix = got.len() < exp.len() && got.iter().zip(exp.iter()).all(|(g, e)| &g.0 == e.0 && &g.1 == e.1);
                let sig = if is_prefix && got.is_empty() && leaf_sizes.first() == Some(&0) { "btree:cursor-first:empty-leftmost-leaf:exhausted" }
                    else if is_prefix && stopped_before_empty(got.len()) { "btree:cursor-forward:stops-at-empty-leaf" }
                    else { "btree:cursor-forward:wrong-sequence" };
                out.push((format!("forward enumeration returned {} of {} entries; leaf sizes in key order {:?}", got.len(), exp.len(), leaf_sizes), sig.into()));
            }
        }
    }
    // ---- seek probes
    let mut probes: Vec<Vec<u8>> = vec![vec![]];
    if let Some((mx, _)) = exp.last() { let mut k = (*mx).clone(); k.push(0); probes.push(k); probes.push(vec![0xff; 9]); }
    let nk = exp.len();
    let picks: Vec<usize> = if nk <= 40 { (0..nk).collect() } else { (0..24).map(|_| rng.below(nk as u64) as usize).collect() };
    for i in picks {
        let k = exp[i].0.clone();
        probes.push(k.clone());
        let mut g = k.clone(); g.push(0); probes.push(g); // gap just above a present key
        if let Some(l) = k.last().copied() { if l > 0 { let mut b = k.clone(); *b.last_mut().unwrap() = l - 1; b.push(0xff); probes.push(b); } }
    }
    // every leaf boundary: probe just above the last key of each leaf (gap at leaf end)
    for p in &view.leaves {
        if let Some(l) = view.leaf(*p) { if let Some(c) = l.cells.last() { let mut g = c.key.clone(); g.push(0); probes.push(g); } }
    }
    for probe in probes {
        *hist.entry("cursor_seek_probe".into()).or_insert(0) += 1;
        let want = oracle.range::<Vec<u8>, _>((Bound::Included(&probe), Bound::Unbounded)).next();
        match bt.cursor_seek(&probe) {
            Err(e) => out.push((format!("seek error {}", errs(&e)), "btree:seek:error".into())),
            Ok(c) => {
                let got = if c.valid() { c.key().ok().map(|k| k.to_vec()) } else { None };
                if got.as_ref() != want.map(|w| w.0) {
                    let t = view.descend(&probe).and_then(|p| view.leaf(p));
                    let sig = match (&got, want, t) {
                        (None, Some(_), Some(l)) if l.cells.is_empty() => "btree:seek:empty-leaf:exhausted",
                        (None, Some(_), Some(l)) if l.cells.last().map(|c| c.key < probe).unwrap_or(false) => "btree:seek:gap-at-leaf-end:exhausted",
                        (None, Some(_), _) => "btree:seek:exhausted-although-larger-keys-exist",
                        _ => "btree:seek:wrong-position",
                    };
                    out.push((format!("seek({}) positioned at {:?}, expected {:?}", bn(&probe), got.map(|k| bn(&k)), want.map(|w| bn(w.0))), sig.into()));
                } else if want.is_some() && rng.chance(1, 6) {
                    // enumerate the tail from the seek position
                    let expt: Vec<_> = oracle.range::<Vec<u8>, _>((Bound::Included(&probe), Bound::Unbounded)).collect();
                    if let Ok(got) = fwd(bt.cursor_seek(&probe), expt.len() + 2) {
                        let same = got.len() == expt.len() && got.iter().zip(expt.iter()).all(|(g, e)| &g.0 == e.0 && &g.1 == e.1);
                        if !same {
                            let skipped = exp.len() - expt.len();
                            let sig = if got.len() < expt.len() && stopped_before_empty(skipped + got.len()) { "btree:cursor-forward:stops-at-empty-leaf" } else { "btree:cursor-forward-from-seek:wrong-sequence" };
                            out.push((format!("enumeration from seek({}) returned {} of {} entries", bn(&probe), got.len(), expt.len()), sig.into()));
                        }
                    }
                }
            }
        }
    }
    // ---- backward from last
    *hist.entry("cursor_backward_full".into()).or_insert(0) += 1;
    let bwd = || -> Result<Vec<(Vec<u8>, Vec<u8>)>, String> {
        let mut c = bt.cursor_last().map_err(|e| errs(&e))?;
        let mut got = vec![];
        while c.valid() && got.len() <= exp.len() + 2 {
            got.push((c.key().map_err(|e| errs(&e))?.to_vec(), c.value().map_err(|e| errs(&e))?.to_vec()));
            c.prev().map_err(|e| errs(&e))?;
        }
        Ok(got)
    };
    match bwd() {
        Err(e) => {
            let sig = if e.contains("empty non-root leaf") { "btree:cursor-backward:error-at-empty-leaf" } else { "btree:cursor-backward:error" };
            out.push((format!("backward enumeration error: {e}"), sig.into()));
        }
        Ok(got) => {
            let same = got.len() == exp.len() && got.iter().zip(exp.iter().rev()).all(|(g, e)| &g.0 == e.0 && &g.1 == e.1);
            if !same {
                let is_prefix = got.len() < exp.len() && got.iter().zip(exp.iter().rev()).all(|(g, e)| &g.0 == e.0 && &g.1 == e.1);
                let rev_sizes: Vec<usize> = leaf_sizes.iter().rev().copied().collect();
                let mut acc = 0; let mut before_empty = false;
                for (i, s) in rev_sizes.iter().enumerate() { acc += s; if acc == got.len() && *s > 0 { before_empty = rev_sizes.get(i + 1).map(|x| *x == 0).unwrap_or(false); break; } if acc > got.len() { break; } }
                let sig = if is_prefix && got.is_empty() && rev_sizes.first() == Some(&0) { "btree:cursor-last:empty-rightmost-leaf:exhausted" }
                    else if is_prefix && before_empty { "btree:cursor-backward:stops-at-empty-leaf" }
                    else { "btree:cursor-backward:wrong-sequence" };
                out.push((format!("backward enumeration returned {} of {} entries; leaf sizes in key order {:?}", got.len(), exp.len(), leaf_sizes), sig.into()));
            }
        }
    }
    out
}

/// which of the two small fixes the implementation under test contains (detected by probing the
/// real code with the minimal witnesses, so that the correspondence uses the matching model function)
#[derive(Clone, Copy, Debug, Default)]
pub struct Variants {
    /// fix_update_grow.patch: model `updateFixed` (driver op `tupd2`) instead of `update`
    pub upd_fixed: bool,
    /// fix_fastpath_empty_leaf.patch: model `fastpathInsertFixed` (`fast2`) instead of `fastpathInsert`
    pub fast_fixed: bool,
}

pub fn detect_variants(path: &str) -> Variants {
    let mut v = Variants::default();
    let _ = std::fs::remove_file(path);
    // update-grow witness: two ~5 KB and ~8 KB cells in one leaf, grow the first value by ~450 bytes
    if let Ok(mut st) = MmapStorage::create(path, 1) {
        let r = std::panic::catch_unwind(std::panic::AssertUnwindSafe(|| {
            let mut bt = BTree::create(&mut st, 0).ok()?;
            bt.insert(&[0xc0, 1], &vec![7u8; 5004]).ok()?;
            bt.insert(&vec![0x9fu8; 5002], &vec![8u8; 3002]).ok()?;
            Some(bt.update(&[0xc0, 1], &vec![9u8; 5449]).is_ok())
        }));
        if let Ok(Some(ok)) = r { v.upd_fixed = ok; }
    }
    let _ = std::fs::remove_file(path);
    // fastpath witness: leaves [01] -> [] with separator 03, insert 02 with the hint on the empty leaf
    if let Ok(mut st) = MmapStorage::create(path, 1) {
        let r = std::panic::catch_unwind(std::panic::AssertUnwindSafe(|| {
            let mut bt = BTree::create(&mut st, 0).ok()?;
            bt.insert(&[1], &vec![0xaau8; 8170]).ok()?;
            bt.insert(&[3], &vec![0xbbu8; 8170]).ok()?;
            bt.delete(&[3]).ok()?;
            bt.insert(&[2], &[]).ok()?;
            Some(bt.get(&[2]).ok()?.is_some())
        }));
        if let Ok(Some(found)) = r { v.fast_fixed = found; }
    }
    let _ = std::fs::remove_file(path);
    v
}

/// what the real call returned, canonicalised
#[derive(Debug, Clone, PartialEq)]
enum Ret { Unit, Bool(bool), Inserted, Duplicate(Option<Vec<u8>>), Val(Option<Vec<u8>>), Err(String), Panic(String) }

pub fn run_tree_case(ops: &[TOp], path: &str, mut model: Option<&mut Model>, seed: u64, stop_at_first: bool, var: Variants) -> TreeRun {
    let mut run = TreeRun { failures: vec![], disagreements: vec![], ops_done: 0, max_depth: 0, max_leaves: 0, splits: 0, empty_leaf_states: 0, hist: BTreeMap::new() };
    let mut rng = Rng::new(seed ^ 0x5151);
    let _ = std::fs::remove_file(path);
    let mut st = match MmapStorage::create(path, 1) { Ok(s) => s, Err(e) => { run.failures.push((0, errs(&e), "harness:storage-create".into())); return run; } };
    let mut root = 0u32;
    let mut hint: Option<u32> = None;
    match BTree::create(&mut st, 0) { Ok(b) => { root = b.root_page(); hint = b.rightmost_hint(); } Err(e) => { run.failures.push((0, errs(&e), "btree:create:error".into())); return run; } }
    let mut oracle: Map = BTreeMap::new();
    let mut snap = snapshot(&st);
    let mut view = view_of(root, &snap);
    let mut synced: BTreeSet<u32> = BTreeSet::new();
    if let Some(m) = model.as_deref_mut() {
        // fresh model page ids for this case: drop whatever a previous case left
        let r = m.ask("init 0");
        if let Some(l) = view.leaf(0) { if r != format!("ok {}", summary(l)) { run.disagreements.push((0, format!("create: impl {} model {r}", summary(l)), "tree-create".into())); } }
        synced.insert(0);
    }
    let mut foreign_left = 0usize;
    for (n, op) in ops.iter().enumerate() {
        run.ops_done = n + 1;
        *run.hist.entry(format!("treeop_{}", op.name())).or_insert(0) += 1;
        if let TOp::Reopen(keep) = op {
            if !*keep { hint = None; }
            continue;
        }
        if let TOp::Foreign(k) = op { foreign_left = *k; continue; }
        // generator-level preconditions
        if let TOp::App(k, _) = op {
            if oracle.keys().next_back().map(|m| m >= k).unwrap_or(false) { *run.hist.entry("append_skipped_precondition".into()).or_insert(0) += 1; continue; }
        }
        let (key, val): (&Vec<u8>, Option<&Vec<u8>>) = match op {
            TOp::Ins(k, v) | TOp::Inx(k, v) | TOp::App(k, v) | TOp::Upd(k, v) => (k, Some(v)),
            TOp::Del(k) | TOp::Get(k) => (k, None),
            TOp::Reopen(_) | TOp::Foreign(_) => unreachable!(),
        };
        if let Some(v) = val { if cell_need(key, v) > PAGE - LEAF_START { *run.hist.entry("op_skipped_cell_exceeds_page".into()).or_insert(0) += 1; continue; } }
        // operations of a foreign handle: no hint goes in, the hint that comes out is dropped
        let stored_hint = hint;
        let foreign = foreign_left > 0;
        if foreign { hint = None; foreign_left -= 1; *run.hist.entry("treeop_through_foreign_handle".into()).or_insert(0) += 1; }
        let target = view.descend(key);
        let hint_leaf_empty_nonroot = hint.and_then(|h| view.leaf(h)).map(|l| l.cells.is_empty() && l.next == 0).unwrap_or(false) && hint != Some(root);
        // ---- model prediction (leaf level)
        // pred: (expected changed page or None, expected result string, "split" flag)
        let mut pred: Option<(Option<u32>, String, bool)> = None;
        if let (Some(m), Some(t)) = (model.as_deref_mut(), target) {
            let mut ensure = |m: &mut Model, p: u32, synced: &mut BTreeSet<u32>| {
                if !synced.contains(&p) { if let Some(l) = view.leaf(p) { m.ask(&load_line(p, l)); synced.insert(p); } }
            };
            let kb = bn(key);
            let vb = val.map(|v| bn(v)).unwrap_or_default();
            let mut fast_done = false;
            if matches!(op, TOp::Ins(..) | TOp::App(..)) {
                if let Some(h) = hint {
                    if view.leaf(h).is_some() || snap.get(h as usize).map(|p| p[0] == 2).unwrap_or(false) {
                        if view.leaf(h).is_some() {
                            ensure(m, h, &mut synced);
                            let r = m.ask(&format!("{} {h} {kb} {vb}", if var.fast_fixed { "fast2" } else { "fast" }));
                            if let Some(s) = r.strip_prefix("ok ") { pred = Some((Some(h), format!("ok|{s}"), false)); fast_done = true; }
                        }
                    }
                }
            }
            if !fast_done {
                ensure(m, t, &mut synced);
                let r = match op {
                    TOp::Ins(..) => m.ask(&format!("tins {t} {kb} {vb}")),
                    TOp::Inx(..) => {
                        let f = m.ask(&format!("find {t} {kb}"));
                        if let Some(pos) = f.strip_prefix('N') {
                            let r = m.ask(&format!("insat {t} {kb} {vb} {pos}"));
                            if r == "err nospace" { "split".to_string() } else { r }
                        } else { "dup".to_string() }
                    }
                    TOp::App(..) => { let r = m.ask(&format!("insend {t} {kb} {vb}")); if r == "err nospace" { "split".to_string() } else { r } }
                    TOp::Upd(..) => m.ask(&format!("{} {t} {kb} {vb}", if var.upd_fixed { "tupd2" } else { "tupd" })),
                    TOp::Del(..) => m.ask(&format!("tdel {t} {kb}")),
                    TOp::Get(..) => m.ask(&format!("find {t} {kb}")),
                    TOp::Reopen(_) | TOp::Foreign(_) => unreachable!(),
                };
                pred = Some(if r == "split" { (Some(t), r, true) }
                    else if let Some(s) = r.strip_prefix("ok ") { (Some(t), format!("ok|{s}"), false) }
                    else if r.starts_with("true ") || r.starts_with("false ") || r.starts_with("err-") {
                        let (a, b) = r.split_once(' ').unwrap(); (Some(t), format!("{a}|{b}"), false)
                    } else { (None, r, false) });
            }
        }
        // ---- the real call
        let pages_before = st.page_count();
        let opc = op.clone();
        let (ret, nroot, nhint) = {
            let stref = &mut st;
            let r = std::panic::catch_unwind(std::panic::AssertUnwindSafe(move || {
                let mut bt = BTree::with_rightmost_hint(stref, root, hint).unwrap();
                let ret = match &opc {
                    TOp::Ins(k, v) => match bt.insert(k, v) { Ok(()) => Ret::Unit, Err(e) => Ret::Err(errs(&e)) },
                    TOp::App(k, v) => match bt.insert_append(k, v) { Ok(()) => Ret::Unit, Err(e) => Ret::Err(errs(&e)) },
                    TOp::Inx(k, v) => match bt.insert_if_not_exists(k, v) {
                        Ok(InsertUniqueResult::Inserted) => Ret::Inserted,
                        Ok(InsertUniqueResult::Duplicate(h)) => Ret::Duplicate(bt.get_value(&h).ok().map(|x| x.to_vec())),
                        Err(e) => Ret::Err(errs(&e)),
                    },
                    TOp::Upd(k, v) => match bt.update(k, v) { Ok(b) => Ret::Bool(b), Err(e) => Ret::Err(errs(&e)) },
                    TOp::Del(k) => match bt.delete(k) { Ok(b) => Ret::Bool(b), Err(e) => Ret::Err(errs(&e)) },
                    TOp::Get(k) => match bt.get(k) { Ok(v) => Ret::Val(v.map(|x| x.to_vec())), Err(e) => Ret::Err(errs(&e)) },
                    TOp::Reopen(_) | TOp::Foreign(_) => Ret::Unit,
                };
                (ret, bt.root_page(), bt.rightmost_hint())
            }));
            match r { Ok(x) => x, Err(e) => {
                let msg = e.downcast_ref::<&str>().map(|s| s.to_string()).or_else(|| e.downcast_ref::<String>().cloned()).unwrap_or_else(|| "panic".into());
                (Ret::Panic(msg.chars().take(100).collect()), root, hint) } }
        };
        root = nroot; hint = if foreign { stored_hint } else { nhint };
        let snap2 = snapshot(&st);
        let view2 = view_of(root, &snap2);
        let changed: BTreeSet<u32> = (0..snap2.len() as u32).filter(|p| snap.get(*p as usize) != Some(&snap2[*p as usize])).collect();
        let grew = st.page_count() > pages_before;
        if grew { run.splits += 1; }
        run.max_depth = run.max_depth.max(view2.depth);
        run.max_leaves = run.max_leaves.max(view2.leaves.len());
        if view2.empty_nonroot_leaves() > 0 { run.empty_leaf_states += 1; }
        let case_fail = |run: &mut TreeRun, detail: String, sig: String| { run.failures.push((n, detail, sig)); };
        let opn = op.name();
        let mut abort = false;
        // ---- (ii) C29 on every reachable page
        if !view2.violations.is_empty() {
            let first = view2.violations.iter().next().unwrap().clone();
            let sig = if hint_leaf_empty_nonroot && matches!(op, TOp::Ins(..) | TOp::App(..)) && first == "leaf-key-outside-separator-bounds" {
                format!("btree:hint-fastpath:empty-rightmost-leaf:key-below-separator:{opn}")
            } else if let (true, Ret::Err(e)) = (grew, &ret) {
                if e.contains("not enough free space") { split_error_sig(e, key, val, target.and_then(|t| view.leaf(t))).to_string() }
                else if e.contains("separator key already exists") { "btree:split:separator-already-in-parent:error-after-reinit".to_string() }
                else { format!("btree:wf:{first}:{opn}") }
            } else { format!("btree:wf:{first}:{opn}") };
            case_fail(&mut run, format!("after {opn} (returned {:?}): violated C29 clauses {:?}", ret, view2.violations), sig);
            abort = true;
        }
        // ---- (i) result and content vs BTreeMap
        let present = oracle.get(key).cloned();
        let mut expected = oracle.clone();
        let mut res_sig: Option<String> = None;
        match (op, &ret) {
            (_, Ret::Panic(m)) => res_sig = Some(format!("btree:{opn}:panic:{}", m.split(|c: char| !c.is_ascii_alphanumeric() && c != ' ').next().unwrap_or("").trim().replace(' ', "-"))),
            (TOp::Ins(k, v), Ret::Unit) | (TOp::App(k, v), Ret::Unit) => {
                if present.is_some() {
                    res_sig = Some(if hint_leaf_empty_nonroot { format!("btree:hint-fastpath:empty-rightmost-leaf:duplicate-key-accepted:{opn}") } else { format!("btree:{opn}:duplicate-key-accepted") });
                }
                expected.insert(k.clone(), v.clone());
            }
            (TOp::Ins(..), Ret::Err(e)) if e.contains("key already exists") && present.is_some() => {}
            (TOp::Ins(..), Ret::Err(e)) | (TOp::App(..), Ret::Err(e)) | (TOp::Inx(..), Ret::Err(e)) => {
                res_sig = Some(if e.contains("not enough free space") && grew { split_error_sig(e, key, val, target.and_then(|t| view.leaf(t))).into() }
                    else if e.contains("too large to split") { "btree:split:three-large-cells:clean-error".into() }
                    else if e.contains("separator key already exists") && grew { "btree:split:separator-already-in-parent:error-after-reinit".into() }
                    else { format!("btree:{opn}:absent-key:error:{}", err_kind(e)) });
            }
            (TOp::Inx(k, v), Ret::Inserted) => { if present.is_some() { res_sig = Some("btree:insert_if_not_exists:duplicate-key-accepted".into()); } expected.insert(k.clone(), v.clone()); }
            (TOp::Inx(..), Ret::Duplicate(old)) => { if present.is_none() || *old != present { res_sig = Some("btree:insert_if_not_exists:wrong-duplicate".into()); } }
            (TOp::Upd(k, v), Ret::Bool(true)) => { if present.is_none() { res_sig = Some("btree:update:absent-key:true".into()); } expected.insert(k.clone(), v.clone()); }
            (TOp::Upd(_, v), Ret::Bool(false)) => {
                // allowed: key absent, or the documented "cannot be done in place" answer for a growing value
                if let Some(old) = &present { if v.len() <= old.len() { res_sig = Some("btree:update:present-key:false-without-growth".into()); } else { *run.hist.entry("update_false_for_growing_value".into()).or_insert(0) += 1; } }
            }
            (TOp::Upd(_, v), Ret::Err(e)) => {
                res_sig = Some(if present.as_ref().map(|o| v.len() > o.len()).unwrap_or(false) && e.contains("not enough free space") { "btree:update-grow:key-lost".into() } else { format!("btree:update:error:{}", err_kind(e)) });
            }
            (TOp::Del(k), Ret::Bool(b)) => { if *b != present.is_some() { res_sig = Some(format!("btree:delete:returned-{b}-for-{}-key", if present.is_some() { "present" } else { "absent" })); } expected.remove(k); }
            (TOp::Del(..), Ret::Err(e)) => res_sig = Some(format!("btree:delete:error:{}", err_kind(e))),
            (TOp::Get(..), Ret::Val(v)) => { if *v != present { res_sig = Some(format!("btree:get:{}", if present.is_some() { "present-key-not-found-or-wrong-value" } else { "absent-key-found" })); } }
            (TOp::Get(..), Ret::Err(e)) => res_sig = Some(format!("btree:get:error:{}", err_kind(e))),
            _ => res_sig = Some(format!("btree:{opn}:unexpected-return")),
        }
        if let Some(sig) = res_sig.clone() {
            case_fail(&mut run, format!("{opn}({}) returned {:?}; key was {}", bn(key), ret, if present.is_some() { "present" } else { "absent" }), sig);
        }
        // content (abstraction of the decoded pages) vs expected map
        if !abort {
            let ents = view2.entries();
            let same = ents.len() == expected.len() && ents.iter().zip(expected.iter()).all(|(a, b)| &a.0 == b.0 && &a.1 == b.1);
            if !same {
                let actual: Map = ents.iter().cloned().collect();
                let lost = expected.keys().filter(|k| !actual.contains_key(*k)).count();
                let extra = actual.keys().filter(|k| !expected.contains_key(*k)).count();
                if res_sig.is_none() || lost + extra > 0 {
                    let sig = match &res_sig { Some(s) if s.starts_with("btree:update-grow") || s.starts_with("btree:split") => s.clone(), _ => format!("btree:content:{opn}:{}", if lost > 0 { "keys-lost" } else if extra > 0 { "extra-keys" } else { "values-differ" }) };
                    if res_sig.as_deref() != Some(sig.as_str()) { case_fail(&mut run, format!("content after {opn}: {} entries, expected {}; lost {lost}, extra {extra}", ents.len(), expected.len()), sig); }
                }
                // resynchronise the oracle with the actual tree content so that the run can continue
                oracle = actual;
            } else { oracle = expected; }
        }
        // ---- (iii) leaf-level correspondence
        if let (Some(m), Some((pp, pres, is_split))) = (model.as_deref_mut(), pred.clone()) {
            let retc = match &ret { Ret::Unit | Ret::Inserted => "ok".to_string(), Ret::Bool(b) => b.to_string(), Ret::Err(e) => format!("err-{}", err_kind(e)), Ret::Duplicate(_) => "dup".into(), Ret::Val(_) => "get".into(), Ret::Panic(_) => "panic".into() };
            if is_split {
                // expected: the target leaf and exactly one fresh leaf are rewritten as init + inserts
                let t = pp.unwrap();
                let newp = pages_before;
                let ok_ret = matches!(ret, Ret::Unit | Ret::Inserted);
                if !grew { run.disagreements.push((n, format!("model: leaf {t} has no room -> split; impl did not allocate a page (returned {:?})", ret), format!("tree-{opn}-split-expected"))); abort = true; }
                else if ok_ret {
                    if let (Some(old), Some(left), Some(right)) = (view.leaf(t), view2.leaf(t).cloned().or_else(|| snap2.get(t as usize).and_then(|p| decode_leaf(p).ok())), snap2.get(newp as usize).and_then(|p| decode_leaf(p).ok())) {
                        let mut all: Vec<(Vec<u8>, Vec<u8>)> = old.cells.iter().map(|c| (c.key.clone(), c.val.clone())).collect();
                        let pos = all.iter().position(|(k, _)| k > key).unwrap_or(all.len());
                        all.insert(pos, (key.clone(), val.cloned().unwrap_or_default()));
                        let mid = left.cells.len();
                        let mut lines = vec![format!("init {t}")];
                        for (k, v) in &all[..mid.min(all.len())] { lines.push(format!("ins {t} {} {}", bn(k), bn(v))); }
                        lines.push(format!("setnext {t} {newp}"));
                        lines.push(format!("init {newp}"));
                        for (k, v) in &all[mid.min(all.len())..] { lines.push(format!("ins {newp} {} {}", bn(k), bn(v))); }
                        lines.push(format!("setnext {newp} {}", old.next));
                        let mut last_t = String::new(); let mut last_n = String::new();
                        for l in &lines {
                            let r = m.ask(l);
                            if l.starts_with(&format!("setnext {t} ")) { last_t = r; } else if l.starts_with(&format!("setnext {newp} ")) { last_n = r; }
                        }
                        synced.insert(t); synced.insert(newp);
                        let et = format!("ok {}", summary(&left)); let en = format!("ok {}", summary(&right));
                        if last_t != et || last_n != en {
                            run.disagreements.push((n, format!("split of leaf {t} (mid={mid}, {} cells): impl left `{et}` right `{en}`; model left `{last_t}` right `{last_n}`", all.len()), format!("tree-{opn}-split-halves")));
                            abort = true;
                        } else {
                            *run.hist.entry("split_replayed_on_model".into()).or_insert(0) += 1;
                            // split policy facts (both halves non-empty)
                            if mid == 0 || mid >= all.len() { *run.hist.entry("split_with_empty_half".into()).or_insert(0) += 1; }
                        }
                    }
                } else {
                    // split failed on the real code: pages are in an intermediate state; drop model pages
                    synced.remove(&t); synced.remove(&newp);
                }
            } else {
                let (mres, msum) = pres.split_once('|').map(|(a, b)| (a.to_string(), Some(b.to_string()))).unwrap_or((pres.clone(), None));
                let agree_res = match (op, mres.as_str()) {
                    (TOp::Get(..), r) => { let f = r.starts_with('F'); matches!(&ret, Ret::Val(v) if v.is_some() == f) }
                    (TOp::Inx(..), "dup") => retc == "dup",
                    (_, "err exists") => retc == "err-exists",
                    (_, r) if r.starts_with("err ") => retc == r.replacen(' ', "-", 1),
                    (_, r) => retc == r,
                };
                if !agree_res {
                    run.disagreements.push((n, format!("{opn}({}) on leaf {:?}: impl returned `{retc}` ({:?}), model `{pres}`", bn(key), pp, ret), format!("tree-{opn}-result")));
                    abort = true;
                }
                let exp_changed: BTreeSet<u32> = match (&msum, pp) { (Some(_), Some(p)) => [p].into_iter().collect(), _ => BTreeSet::new() };
                if !changed.is_subset(&exp_changed) {
                    run.disagreements.push((n, format!("{opn}: pages changed {:?}, model expects at most {:?}", changed, exp_changed), format!("tree-{opn}-pages-touched")));
                    for p in &changed { synced.remove(p); }
                    abort = true;
                } else if let (Some(ms), Some(p)) = (msum, pp) {
                    match snap2.get(p as usize).and_then(|d| decode_leaf(d).ok()) {
                        Some(d) => {
                            if summary(&d) != ms {
                                run.disagreements.push((n, format!("{opn}({}) leaf {p}: impl `{}` model `{ms}`", bn(key), summary(&d)), format!("tree-{opn}-leaf-state")));
                                synced.remove(&p);
                                abort = true;
                            } else if rng.chance(1, 6) {
                                let c = m.ask(&format!("chk {p}"));
                                if c != content_hash(&d).to_string() { run.disagreements.push((n, format!("{opn} leaf {p}: content hash differs"), format!("tree-{opn}-leaf-content"))); abort = true; }
                            }
                        }
                        None => { abort = true; }
                    }
                }
            }
            // interior pages / new root are not tracked by the leaf model; other changed leaves get reloaded lazily
            for p in &changed { if !(pp == Some(*p)) && !is_split { synced.remove(p); } }
        }
        if abort && matches!(op, TOp::Ins(..) | TOp::App(..) | TOp::Inx(..)) && matches!(ret, Ret::Unit | Ret::Inserted) {
            // the structure is broken; still record the ordered-map symptom for the key just inserted
            if let Ok(bt) = BTree::new(&mut st, root) {
                if let Ok(None) = bt.get(key) {
                    let sig = if hint_leaf_empty_nonroot { format!("btree:hint-fastpath:empty-rightmost-leaf:inserted-key-not-found:{opn}") } else { format!("btree:get:present-key-not-found-after-{opn}") };
                    case_fail(&mut run, format!("get({}) = None right after a successful {opn}", bn(key)), sig);
                }
            }
        }
        // ---- cursors, gets
        if !abort {
            let small = oracle.len() <= 400;
            if small || n % 8 == 0 || n + 1 == ops.len() {
                for (d, s) in cursor_checks(&mut st, root, &oracle, &view2, &mut rng, &mut run.hist) { case_fail(&mut run, d, s); }
            }
            // point lookups: the op key, a random present key, a random absent key
            let mut probes = vec![key.clone()];
            if !oracle.is_empty() { probes.push(oracle.keys().nth(rng.below(oracle.len() as u64) as usize).unwrap().clone()); }
            probes.push(rng.bytes(3));
            if let Ok(bt) = BTree::new(&mut st, root) {
                for p in probes {
                    let want = oracle.get(&p);
                    match bt.get(&p) {
                        Ok(v) => if v.map(|x| x.to_vec()).as_ref() != want { case_fail(&mut run, format!("get({}) after {opn}: got {:?} bytes, expected {:?} bytes", bn(&p), v.map(|x| x.len()), want.map(|x| x.len())), format!("btree:get:{}", if want.is_some() { "present-key-not-found-or-wrong-value" } else { "absent-key-found" })); },
                        Err(e) => case_fail(&mut run, format!("get error {}", errs(&e)), "btree:get:error".into()),
                    }
                }
            }
        }
        snap = snap2;
        view = view2;
        if abort || (stop_at_first && !run.failures.is_empty()) { break; }
    }
    drop(st);
    let _ = std::fs::remove_file(path);
    run
}

// ------------------------------------------------------------------ generators

fn be(n: u64) -> Vec<u8> { n.to_be_bytes().to_vec() }

fn big_val(rng: &mut Rng, n: usize) -> Vec<u8> { let mut v = vec![rng.below(250) as u8; n]; if n > 0 { v[0] = rng.below(256) as u8; } v }

pub fn gen_tree_ops(rng: &mut Rng, profile: u64, nops: usize) -> Vec<TOp> {
    let mut keys: BTreeSet<Vec<u8>> = BTreeSet::new();
    let mut ops: Vec<TOp> = vec![];
    let pick = |rng: &mut Rng, keys: &BTreeSet<Vec<u8>>| -> Option<Vec<u8>> { if keys.is_empty() { None } else { keys.iter().nth(rng.below(keys.len() as u64) as usize).cloned() } };
    // value length profile: sizes chosen so that leaves hold few cells and split often
    let vlen = |rng: &mut Rng, profile: u64| -> usize {
        match profile {
            4 => 700 + rng.below(2500) as usize,
            5 => *rng.pick(&[3000usize, 4000, 5000, 5400, 5450, 6000, 8000, 8170, 8175, 9000, 12000, 16000, 16300]) + rng.below(8) as usize,
            7 => *rng.pick(&[0usize, 1, 100, 239, 240, 241, 500, 1000, 2287, 2288, 3000]),
            _ => match rng.below(10) { 0 => 0, 1 => 200 + rng.below(400) as usize, 2 => 1500 + rng.below(1500) as usize, _ => rng.below(80) as usize },
        }
    };
    let keyf = |rng: &mut Rng, profile: u64, i: usize| -> Vec<u8> {
        match profile {
            1 => be(i as u64 * 3),
            2 => be(1_000_000 - i as u64 * 3),
            3 => { let mut k = b"same".to_vec(); if rng.chance(1, 2) { k.extend(b"-prefix-"); } let nb = rng.below(4) as usize; k.extend(rng.bytes(nb)); k.push(rng.below(6) as u8); k }
            4 => { let mut k = vec![rng.below(3) as u8; 200 + rng.below(900) as usize]; k.extend(rng.bytes(2)); k }
            5 => { if rng.chance(1, 3) { let mut k = vec![rng.below(200) as u8; *rng.pick(&[2000usize, 5000, 5440, 5460, 8000]) ]; k.extend(rng.bytes(2)); k } else { let nb = 1 + rng.below(6) as usize; rng.bytes(nb) } }
            6 => be(i as u64),
            _ => { let f = rng.below(5); gen_key(rng, f) }
        }
    };
    if profile == 6 {
        // delete-everything-in-a-leaf: sorted fill with ~16 cells per leaf, wipe out a contiguous key range
        // spanning whole leaves, then cursor/seek/insert activity around the hole
        let n = nops / 3;
        for i in 0..n { let k = be(i as u64 * 10); keys.insert(k.clone()); let v = big_val(rng, 900); ops.push(if rng.chance(1, 2) { TOp::Ins(k, v) } else { TOp::App(k, v) }); }
        let lo = rng.below((n / 2).max(1) as u64) as usize;
        let hi = (lo + 20 + rng.below(40) as usize).min(n);
        let wipe_tail = rng.chance(1, 3);
        let (lo, hi) = if wipe_tail { (n - (hi - lo).min(n), n) } else if rng.chance(1, 4) { (0, hi - lo) } else { (lo, hi) };
        for i in lo..hi { let k = be(i as u64 * 10); keys.remove(&k); ops.push(TOp::Del(k)); }
        if rng.chance(1, 2) { ops.push(TOp::Reopen(rng.chance(1, 2))); }
        while ops.len() < nops {
            let i = lo as u64 * 10 + rng.below(((hi - lo) as u64 * 10).max(1));
            let k = if rng.chance(2, 3) { be(i) } else { be(rng.below(n as u64 * 10 + 50)) };
            let vl = *rng.pick(&[10usize, 900]); let v = big_val(rng, vl);
            match rng.below(6) {
                0 => ops.push(TOp::Get(k)),
                1 => { keys.remove(&k); ops.push(TOp::Del(k)); }
                2 => ops.push(TOp::Upd(k, v)),
                3 => { let mx = keys.iter().next_back().cloned().unwrap_or_default(); let mut k2 = mx; k2.push(1); keys.insert(k2.clone()); ops.push(TOp::App(k2, v)); }
                _ => { keys.insert(k.clone()); ops.push(if rng.chance(1, 2) { TOp::Ins(k, v) } else { TOp::Inx(k, v) }); }
            }
        }
        return ops;
    }
    let mut i = 0usize;
    while ops.len() < nops {
        let r = rng.below(100);
        let ins_share = match profile { 7 => 35, _ => 50 };
        if r < ins_share || keys.is_empty() {
            let k = if rng.chance(1, 15) { pick(rng, &keys).unwrap_or_else(|| keyf(rng, profile, i)) } else { keyf(rng, profile, i) };
            i += 1;
            let vl = vlen(rng, profile); let v = big_val(rng, vl);
            let greatest = keys.iter().next_back().map(|m| &k > m).unwrap_or(true);
            let kind = rng.below(10);
            let op = if greatest && kind < 4 { TOp::App(k.clone(), v) } else if kind < 7 { TOp::Ins(k.clone(), v) } else { TOp::Inx(k.clone(), v) };
            keys.insert(k);
            ops.push(op);
        } else if r < ins_share + 17 {
            let k = if rng.chance(1, 8) { keyf(rng, profile, i + 7) } else { pick(rng, &keys).unwrap() };
            keys.remove(&k);
            ops.push(TOp::Del(k));
        } else if r < ins_share + 37 {
            let k = if rng.chance(1, 10) { keyf(rng, profile, i + 11) } else { pick(rng, &keys).unwrap() };
            let vl = vlen(rng, profile); let v = big_val(rng, vl);
            ops.push(TOp::Upd(k, v));
        } else if r < ins_share + 44 {
            let k = if rng.chance(1, 2) { keyf(rng, profile, i + 3) } else { pick(rng, &keys).unwrap() };
            ops.push(TOp::Get(k));
        } else if r < ins_share + 47 {
            ops.push(TOp::Reopen(rng.chance(1, 2)));
        } else {
            // burst delete of a contiguous range (empties leaves)
            let start = pick(rng, &keys).unwrap();
            let cnt = 5 + rng.below(60) as usize;
            let victims: Vec<Vec<u8>> = keys.range(start..).take(cnt).cloned().collect();
            for k in victims { keys.remove(&k); ops.push(TOp::Del(k)); }
        }
    }
    ops.truncate(nops.max(1));
    ops
}

/// greedy delta debugging on an op list, keeping `sig` reproducible (real code only, no model)
fn shrink_tree(ops: &[TOp], sig: &str, path: &str, budget: usize) -> Vec<TOp> {
    let repro = |o: &[TOp]| -> bool { let r = run_tree_case(o, path, None, 1, false, Variants::default()); r.failures.iter().any(|f| f.2 == sig) };
    let mut cur = ops.to_vec();
    let mut runs = 0;
    let mut chunk = (cur.len() / 2).max(1);
    while chunk >= 1 && runs < budget {
        let mut i = 0;
        let mut progressed = false;
        while i < cur.len() && runs < budget {
            let end = (i + chunk).min(cur.len());
            let mut cand = cur[..i].to_vec();
            cand.extend_from_slice(&cur[end..]);
            runs += 1;
            if !cand.is_empty() && repro(&cand) { cur = cand; progressed = true; } else { i += chunk; }
        }
        if chunk == 1 && !progressed { break; }
        if !progressed { chunk /= 2; }
    }
    cur
}

/// which property a signature belongs to (a defect can surface under both)
fn belongs(sig: &str, prop: &str) -> bool {
    let structural = sig.starts_with("btree:wf:") || sig.contains(":key-below-separator");
    let both = (sig.starts_with("btree:split:") || sig.starts_with("btree:split-interior:")) && !sig.ends_with(":clean-error");
    if prop == "C29" { structural || both } else { !structural }
}

pub fn run(ctx: &Ctx) -> Report { run_prop(ctx, "C28") }
pub fn run_wf(ctx: &Ctx) -> Report { run_prop(ctx, "C29") }

pub fn run_prop(ctx: &Ctx, prop: &str) -> Report {
    let mut rep = Report::new(
        if prop == "C29" { "pages_wf" } else { "pages" },
        "stage L: LeafNodeMut op sequences (insert_cell / insert_cell_at / insert_at_end / delete_cell / update in place / shrink / \
         compact / set_next / find_key; key families: <4-byte keys over {00,01,ff}, 8-byte BE ints, shared 6-byte prefix, 50..1500-byte keys, \
         random; value lengths at varint and u8 boundaries, exact-fit +-1 cells) vs the Lean leaf model after every op + C29 leaf clauses + sorted-map \
         semantics on the decoded page. stage T: BTree<MmapStorage> op sequences (incl. stale-hint sequences: runs of operations through a foreign handle that neither receives nor returns the rightmost-leaf hint; profiles: random, ascending+append+hint, descending, equal-prefix, \
         1-3 KB cells, near-page-size cells, wipe-out of whole leaves, update grow/shrink) with result/content/get/cursor first-seek-last checks against \
         BTreeMap, a raw-byte structural validator over all reachable pages, and leaf-model correspondence (incl. replay of both split halves) after \
         every op. non-trivial = distinct op sequence prefix (hash of the ops so far) whose op changed a page or was answered from a tree with >= 2 leaves",
    );
    let mut rng = Rng::new(ctx.seed);
    let mut model = Model::spawn(&ctx.model_bin, "leaf");
    let t0 = std::time::Instant::now();
    // ---------------- corpus / replay cases first
    let mut corpus_l: Vec<Vec<LOp>> = vec![];
    let mut corpus_t: Vec<Vec<TOp>> = vec![];
    for prop in ["C28", "C29"] {
        for c in ctx.corpus_cases(prop) {
            let toks: Vec<&str> = c.split_whitespace().collect();
            match toks.first().copied() {
                Some("L") => { let o: Option<Vec<LOp>> = toks[1..].iter().map(|t| LOp::parse(t)).collect(); if let Some(o) = o { corpus_l.push(o); } else { rep.notes.push(format!("unparsable corpus case: {}", c.chars().take(80).collect::<String>())); } }
                Some("T") => { let o: Option<Vec<TOp>> = toks[1..].iter().map(|t| TOp::parse(t)).collect(); if let Some(o) = o { corpus_t.push(o); } else { rep.notes.push(format!("unparsable corpus case: {}", c.chars().take(80).collect::<String>())); } }
                _ => {}
            }
        }
        if ctx.replay.is_some() { break; } // replay lines are returned for every property name
    }
    // ---------------- stage L
    let nleaf = if ctx.thorough { 4000 } else { 500 };
    let mut pid = 1_000_000u32;
    let mut lcases: Vec<Vec<LOp>> = corpus_l;
    for _ in 0..nleaf { let n = 20 + rng.below(120) as usize; lcases.push(gen_leaf_ops(&mut rng, n)); }
    for ops in &lcases {
        pid += 1;
        let before = rep.evaluations;
        let _ = run_leaf_case(ops, &mut model, &mut rep, pid, 8);
        model.ask(&format!("drop {pid}"));
        // every op of the sequence counts as an evaluated case; distinct by sequence prefix hash
        let mut h = 0u64;
        for o in ops { h = fnv(&format!("{h}{}", o.tok())); rep.case(Some(&format!("L{h}"))); }
        let _ = before;
    }
    {
        // stage L reports straight into `rep`; keep only this property's oracle failures
        let before = rep.oracle_failures.len();
        rep.oracle_failures.retain(|f| belongs(&f.signature, prop));
        rep.n_oracle_failures -= (before - rep.oracle_failures.len()) as u64;
    }
    rep.notes.push(format!("stage L: {} sequences, {:.1}s", lcases.len(), t0.elapsed().as_secs_f64()));
    // ---------------- stage T
    let t1 = std::time::Instant::now();
    let nseq = if ctx.thorough { 1500 } else { 160 };
    let mut tcases: Vec<(String, Vec<TOp>)> = corpus_t.into_iter().map(|o| ("corpus".to_string(), o)).collect();
    for s in 0..nseq {
        let profile = (s % 8) as u64;
        let nops = match profile { 4 | 5 => 120, 6 => 260, _ => 200 } * if ctx.thorough && s % 5 == 0 { 5 } else { 1 };
        let mut r = rng.fork();
        tcases.push((format!("profile{profile}"), gen_tree_ops(&mut r, profile, nops)));
    }
    // stale rightmost hint: some operations run through a foreign handle (no hint in, hint out dropped), so the
    // stored hint can point at a leaf that a foreign split has turned into a left sibling
    {
        let be8 = |i: u64| i.to_be_bytes().to_vec();
        let mut ops = vec![];
        for i in 1..=14u64 { ops.push(TOp::App(be8(i), vec![0x55; 1000])); }
        ops.push(TOp::Foreign(4));
        for i in 15..=18u64 { ops.push(TOp::Ins(be8(i), vec![0x66; 1000])); }
        for i in 19..=22u64 { ops.push(TOp::App(be8(i), vec![0x77; 1000])); ops.push(TOp::Get(be8(i))); }
        tcases.push(("stale-hint-directed".to_string(), ops));
        let mut r2 = Rng::new(ctx.seed ^ 0x57A1E);
        let nstale = if ctx.thorough { 150 } else { 12 };
        for s in 0..nstale {
            let profile = [1u64, 0, 7][s % 3];
            let base = gen_tree_ops(&mut r2, profile, 200);
            let mut ops = vec![];
            for (i, o) in base.into_iter().enumerate() {
                if i % 20 == 19 && r2.chance(2, 3) { ops.push(TOp::Foreign(1 + r2.below(8) as usize)); }
                ops.push(o);
            }
            tcases.push((format!("stale-hint-profile{profile}"), ops));
        }
    }
    let path = format!("{}/bt-{}.db", ctx.scratch, std::process::id());
    let var = detect_variants(&path);
    rep.notes.push(format!("implementation variant detected by probing: BTree::update grow guard = {}, rightmost-leaf fastpath = {}",
        if var.upd_fixed { "fixed (fix_update_grow.patch; model updateFixed)" } else { "pinned (model update)" },
        if var.fast_fixed { "fixed (fix_fastpath_empty_leaf.patch; model fastpathInsertFixed)" } else { "pinned (model fastpathInsert)" }));
    let mut shrunk_sigs: BTreeSet<String> = BTreeSet::new();
    let (mut maxd, mut maxl, mut splits, mut empties) = (0, 0, 0, 0);
    for (ci, (label, ops)) in tcases.iter().enumerate() {
        // a fresh model process state per case: page ids are reused across cases, `init 0` + lazy loads overwrite
        let run = run_tree_case(ops, &path, Some(&mut model), ctx.seed ^ ci as u64, false, var);
        rep.count(&format!("treecase_{label}"));
        for (k, v) in &run.hist { rep.count_n(k, *v); }
        maxd = maxd.max(run.max_depth); maxl = maxl.max(run.max_leaves); splits += run.splits; empties += run.empty_leaf_states;
        let mut h = 0u64;
        for o in &ops[..run.ops_done.min(ops.len())] { h = fnv(&format!("{h}{}", o.tok())); rep.case(Some(&format!("T{h}"))); }
        if ci < 6 { rep.sample(format!("{label}: {} ops, depth {}, {} leaves, {} page allocations; first ops: {}", run.ops_done, run.max_depth, run.max_leaves, run.splits, tcase(&ops[..ops.len().min(3)]).chars().take(160).collect::<String>())); }
        for (n, detail, sig) in &run.disagreements {
            rep.disagree(tcase(&ops[..=*n]), detail.clone(), sig.clone());
        }
        for (n, detail, sig) in &run.failures {
            if !belongs(sig, prop) { rep.count(&format!("other_property_failure_{}", if prop == "C29" { "C28" } else { "C29" })); continue; }
            let prefix = &ops[..=(*n).min(ops.len() - 1)];
            let case_ops = if shrunk_sigs.insert(sig.clone()) && t1.elapsed().as_secs() < 100 { shrink_tree(prefix, sig, &format!("{path}.shrink"), 120) } else if rep.oracle_failures.iter().filter(|f| &f.signature == sig).count() < 3 { prefix.to_vec() } else { vec![] };
            rep.oracle_fail(tcase(&case_ops), detail.clone(), sig.clone());
        }
    }
    rep.count_n("tree_max_depth", maxd as u64);
    rep.count_n("tree_max_leaves", maxl as u64);
    rep.count_n("tree_page_allocations", splits as u64);
    rep.count_n("tree_states_with_empty_nonroot_leaf", empties as u64);
    rep.notes.push(format!("stage T: {} sequences, {:.1}s; model requests {}", tcases.len(), t1.elapsed().as_secs_f64(), model.requests));
    rep
}
