//! C14: WHERE filtering and select-list evaluation vs the 3VL reference semantics (`TurVerif.Sql`).
//!
//! For each generated predicate p over a generated table:
//!   (a) `SELECT id FROM t WHERE p`  — the set of ids must be exactly the rows where p is TRUE;
//!   (b) `SELECT id, p FROM t`       — the value of p per row must be the same TRUE/FALSE/NULL.
//! A mismatch is localised to the smallest sub-expression that already misbehaves and reported with
//! a signature `ctx:head(child value kinds) exp=.. got=..`.
use crate::common::*;
use crate::sqlgen::*;

fn tri_of_cell(c: &str) -> &'static str {
    match c { "B1" | "I1" => "true", "B0" | "I0" => "false", "N" => "null", _ => "other" }
}

fn kind_of_cell(c: &str) -> &'static str {
    match c.as_bytes()[0] { b'N' => "null", b'B' => if c == "B1" { "true" } else { "false" }, b'I' => "int", b'F' => "float", b'T' => "text", _ => "other" }
}

fn cell_to_v(c: &str) -> Option<V> {
    match c.as_bytes()[0] {
        b'N' => Some(V::Null),
        b'B' => Some(V::Bool(c == "B1")),
        b'I' => c[1..].parse().ok().map(V::Int),
        b'F' => {
            let f: f64 = c[1..].parse().ok()?;
            // exact dyadic with denominator up to 2^20 (generated data are multiples of 1/4)
            let scaled = f * 1048576.0;
            if scaled.fract() == 0.0 && scaled.abs() < 9e15 { Some(V::Flt(scaled as i64, 1048576)) } else { None }
        }
        b'T' => String::from_utf8(unhex(&c[1..])).ok().map(V::Text),
        _ => None,
    }
}

struct Env<'a> {
    db: &'a Dbh,
    model: &'a mut Model,
    t: &'a TableSpec,
}

impl<'a> Env<'a> {
    fn model_eval(&mut self, row: &[V], e: &E) -> String {
        self.model.ask(&format!("eval ({}) {}", row.iter().map(|v| v.sx()).collect::<Vec<_>>().join(" "), e.sx()))
    }
    /// model truth of e on row: "in" if TRUE else "out"; Err for model errors
    fn model_keeps(&mut self, row: &[V], e: &E) -> Result<bool, String> {
        let r = self.model_eval(row, e);
        if r == "ok B1" { Ok(true) } else if r.starts_with("ok ") { Ok(false) } else { Err(r) }
    }
    fn engine_ids(&self, p: &E) -> Result<Vec<i64>, String> {
        let sql = format!("SELECT id FROM {} WHERE {}", self.t.name, p.sql(&self.t.bare_scope()));
        match self.db.exec(&sql) {
            Out::Rows(rs) => Ok(rs.iter().filter_map(|r| r.get(0).and_then(|c| c.strip_prefix('I')).and_then(|x| x.parse().ok())).collect()),
            Out::Err(e) => Err(format!("err:{}", error_class(&e))),
            Out::Panic(p) => Err(format!("panic:{}", p.chars().take(60).collect::<String>())),
            o => Err(format!("unexpected:{o:?}")),
        }
    }
}

fn has_col(e: &E) -> bool {
    matches!(e, E::Col(_)) || e.children().iter().any(|c| has_col(c))
}

fn is_boolean(e: &E, tys: &[Ty]) -> bool {
    match e {
        E::Lit(V::Bool(_)) => true,
        E::Col(i) => tys[*i] == Ty::Bool,
        E::Not(_) | E::IsNull(..) | E::In(..) | E::Between(..) | E::Like(..) => true,
        E::Bin(op, ..) => op.is_cmp() || matches!(op, Op::And | Op::Or),
        _ => false,
    }
}

/// all sub-expressions in boolean position, post-order (children before parents)
fn bool_subexprs<'e>(e: &'e E, boolean_pos: bool, tys: &[Ty], out: &mut Vec<&'e E>) {
    match e {
        E::Not(c) => bool_subexprs(c, true, tys, out),
        E::Bin(Op::And, a, b) | E::Bin(Op::Or, a, b) => { bool_subexprs(a, true, tys, out); bool_subexprs(b, true, tys, out); }
        E::Case(ws, els) => { for (c, v) in ws { bool_subexprs(c, true, tys, out); bool_subexprs(v, false, tys, out); } bool_subexprs(els, false, tys, out); }
        _ => { for c in e.children() { bool_subexprs(c, false, tys, out); } }
    }
    if boolean_pos || is_boolean(e, tys) { out.push(e); }
}

/// first (innermost) sub-expression q in boolean position for which `WHERE q` already disagrees
/// with the reference on some row; returns (q, row index, expected_in, got_in)
fn localise_where(env: &mut Env, p: &E, tys: &[Ty]) -> Option<(E, usize, bool, bool)> {
    let mut subs = vec![];
    bool_subexprs(p, true, tys, &mut subs);
    for q in subs {
        let ids = match env.engine_ids(q) { Ok(i) => i, Err(_) => continue };
        for (ri, row) in env.t.rows.iter().enumerate() {
            let exp = match env.model_keeps(row, q) { Ok(b) => b, Err(_) => break };
            let got = ids.contains(&(ri as i64 + 1));
            if exp != got { return Some((q.clone(), ri, exp, got)); }
        }
    }
    None
}

fn nv(k: &str) -> &'static str { if k == "null" { "null" } else { "val" } }

/// signature of a node given the kinds of its children's values (finite alphabet)
fn node_sig(e: &E, kinds: &[String]) -> String {
    match e {
        E::In(_, _, n) => format!("{}(lhs={},list={})", if *n { "notin" } else { "in" }, nv(&kinds[0]),
            if kinds[1..].iter().any(|k| k == "null") { "hasnull" } else { "nonull" }),
        E::Between(_, _, _, n) => format!("{}({},{},{})", if *n { "notbetween" } else { "between" }, nv(&kinds[0]), nv(&kinds[1]), nv(&kinds[2])),
        E::Like(_, p, n) => {
            let nonascii = match &**p { E::Lit(V::Text(t)) => !t.is_ascii(), _ => false };
            format!("{}({},{}{})", if *n { "notlike" } else { "like" }, kinds[0], kinds[1], if nonascii { ",nonascii-pattern" } else { "" })
        }
        E::Coalesce(_) => format!("coalesce({})", kinds.iter().map(|k| nv(k)).collect::<Vec<_>>().join(",")),
        E::Case(..) => format!("case({})", kinds.join(",")),
        E::Lit(_) | E::Col(_) => e.head(),
        _ => format!("{}({})", e.head(), kinds.join(",")),
    }
}

fn kinds_sig(env: &mut Env, row: &[V], e: &E) -> String {
    let ks: Vec<String> = e.children().iter().map(|c| {
        let r = env.model_eval(row, c);
        match r.strip_prefix("ok ") { Some(c) => kind_of_cell(c).to_string(), None => r.replace(' ', "-") }
    }).collect();
    let mut s = node_sig(e, &ks);
    // a column-free operator sub-tree (the planner folds those before execution)
    fn has_col(e: &E) -> bool { matches!(e, E::Col(_)) || e.children().iter().any(|c| has_col(c)) }
    fn has_const_op(e: &E) -> bool { (!matches!(e, E::Lit(_) | E::Col(_)) && !has_col(e)) || e.children().iter().any(|c| has_const_op(c)) }
    if matches!(e.head().as_str(), "and" | "or") && e.children().iter().any(|c| has_const_op(c)) { s.push_str("[const-operand]"); }
    if let E::Like(x, _, _) = e {
        let r = env.model_eval(row, x);
        if let Some(c) = r.strip_prefix("ok T") { let b = unhex(c); if !b.is_ascii() { s.push_str("[nonascii-text]"); } else if b.contains(&b'%') { s.push_str("[percent-in-text]"); } }
    }
    s
}

pub fn run(ctx: &Ctx) -> Report {
    let mut rep = Report::new(
        "sql_where",
        "tables of 10-14 rows (unique id + INT/DOUBLE/TEXT/BOOLEAN columns, ~25% NULLs, small colliding domains); \
         predicates: a systematic layer (every operator x every pair of leaf kinds incl. NULL literals) and random typed \
         expressions to depth 3 (comparisons, AND/OR/NOT, IN/NOT IN lists, BETWEEN, LIKE, IS [NOT] NULL, arithmetic, \
         COALESCE, CASE); each predicate runs as WHERE filter and as select-list expression. \
         non-trivial = distinct predicate whose reference value is not the same on all rows",
    );
    let mut rng = Rng::new(ctx.seed);
    let mut model = Model::spawn(&ctx.model_bin, "sql");
    let ntables = if ctx.thorough { 40 } else { 6 };
    let npreds = if ctx.thorough { 600 } else { 350 };
    let replay = ctx.corpus_cases("C14");
    for ti in 0..ntables {
        let nrows = 10 + rng.below(5) as usize;
        let t = gen_table(&mut rng, "t", 5, nrows, 25);
        let dbh = Dbh::create(ctx, &format!("c14-{ti}"));
        dbh.must(&t.create_sql());
        for s in t.insert_sqls() { dbh.must(&s); }
        model.ask("reset");
        for l in t.model_lines() { model.ask(&l); }
        let tys: Vec<Ty> = t.cols.iter().map(|(_, ty)| *ty).collect();
        let eg = ExprGen { tys: &tys, null_pct: 15 };
        // ---- predicates
        let mut preds: Vec<E> = vec![];
        // systematic layer
        let leaves_num: Vec<E> = vec![E::Col(1), E::Col(2), E::Lit(V::Int(10)), E::Lit(V::Flt(6, 4)), E::Lit(V::Null)];
        let leaves_txt: Vec<E> = vec![E::Col(3), E::Lit(V::Text("ab".into())), E::Lit(V::Null)];
        let leaves_bool: Vec<E> = vec![E::Col(4), E::Lit(V::Bool(true)), E::Lit(V::Bool(false)), E::Lit(V::Null),
            E::Bin(Op::Eq, Box::new(E::Col(1)), Box::new(E::Lit(V::Int(10)))), E::Bin(Op::Lt, Box::new(E::Col(2)), Box::new(E::Lit(V::Int(1)))), E::IsNull(Box::new(E::Col(3)), false)];
        for op in [Op::Eq, Op::Ne, Op::Lt, Op::Le, Op::Gt, Op::Ge] {
            for a in &leaves_num { for b in &leaves_num { preds.push(E::Bin(op, Box::new(a.clone()), Box::new(b.clone()))); } }
            for a in &leaves_txt { for b in &leaves_txt { preds.push(E::Bin(op, Box::new(a.clone()), Box::new(b.clone()))); } }
        }
        for a in &leaves_bool {
            preds.push(a.clone());
            preds.push(E::Not(Box::new(a.clone())));
            preds.push(E::IsNull(Box::new(a.clone()), false));
            for b in &leaves_bool {
                preds.push(E::Bin(Op::And, Box::new(a.clone()), Box::new(b.clone())));
                preds.push(E::Bin(Op::Or, Box::new(a.clone()), Box::new(b.clone())));
                preds.push(E::Not(Box::new(E::Bin(Op::And, Box::new(a.clone()), Box::new(b.clone())))));
                preds.push(E::Not(Box::new(E::Bin(Op::Or, Box::new(a.clone()), Box::new(b.clone())))));
            }
        }
        for neg in [false, true] {
            for a in &leaves_num {
                preds.push(E::IsNull(Box::new(a.clone()), neg));
                preds.push(E::In(Box::new(a.clone()), vec![E::Lit(V::Int(10)), E::Lit(V::Int(1))], neg));
                preds.push(E::In(Box::new(a.clone()), vec![E::Lit(V::Int(10)), E::Lit(V::Null)], neg));
                preds.push(E::In(Box::new(a.clone()), vec![E::Col(1), E::Lit(V::Flt(6, 4))], neg));
                preds.push(E::Between(Box::new(a.clone()), Box::new(E::Lit(V::Int(0))), Box::new(E::Lit(V::Int(10))), neg));
                preds.push(E::Between(Box::new(a.clone()), Box::new(E::Lit(V::Null)), Box::new(E::Lit(V::Int(10))), neg));
                preds.push(E::Between(Box::new(a.clone()), Box::new(E::Col(2)), Box::new(E::Col(1)), neg));
            }
            for a in &leaves_txt {
                preds.push(E::IsNull(Box::new(a.clone()), neg));
                for pat in ["%", "a%", "%b", "_", "a_", "%a%", "ab", "", "_%", "a%c", "%_%b"] {
                    preds.push(E::Like(Box::new(a.clone()), Box::new(E::Lit(V::Text(pat.into()))), neg));
                }
                preds.push(E::Like(Box::new(a.clone()), Box::new(E::Lit(V::Null)), neg));
            }
        }
        for _ in 0..npreds { let d = 1 + rng.below(3) as usize; preds.push(eg.boolean(&mut rng, d)); }
        let _ = &replay;

        for p in &preds {
            let psql = p.sql(&t.bare_scope());
            let case = format!("{} ;; {} ;; {}", t.create_sql(), t.insert_sqls().join(" ; "), psql);
            // model values per row
            let mut mvals: Vec<String> = vec![];
            for row in &t.rows {
                mvals.push(model.ask(&format!("eval ({}) {}", row.iter().map(|v| v.sx()).collect::<Vec<_>>().join(" "), p.sx())));
            }
            if mvals.iter().any(|m| !m.starts_with("ok ")) {
                // reference semantics gives an error (overflow / division by zero / type): not a C14 case
                rep.count("skipped_model_error");
                continue;
            }
            let mtri: Vec<&str> = mvals.iter().map(|m| tri_of_cell(&m[3..])).collect();
            let nontrivial = mtri.iter().any(|x| *x != mtri[0]);
            rep.case(if nontrivial { Some(&psql) } else { None });
            rep.count(&format!("top_{}", p.head()));
            rep.count(&format!("depth_{}", p.depth()));
            for x in &mtri { rep.count(&format!("ref_{x}")); }
            if rep.evaluations % 211 == 0 { rep.sample(format!("WHERE {psql}  -- ref per row: {}", mtri.join(","))); }

            // (a) WHERE
            let exp_ids: Vec<i64> = mtri.iter().enumerate().filter(|(_, x)| **x == "true").map(|(i, _)| i as i64 + 1).collect();
            let mut env = Env { db: &dbh, model: &mut model, t: &t };
            match env.engine_ids(p) {
                Ok(mut ids) => {
                    ids.sort();
                    if ids != exp_ids {
                        let sig = match localise_where(&mut env, p, &tys) {
                            Some((q, ri, exp, got)) => {
                                let row = t.rows[ri].clone();
                                format!("where:{} exp={} got={}", kinds_sig(&mut env, &row, &q), if exp { "in" } else { "out" }, if got { "in" } else { "out" })
                            }
                            None => format!("where:nonlocal:{}", p.head()),
                        };
                        rep.oracle_fail(format!("where ;; {case}"), format!("SELECT id FROM t WHERE {psql}: expected ids {exp_ids:?}, got {ids:?}"), sig);
                    }
                }
                Err(e) => {
                    rep.oracle_fail(format!("where ;; {case}"), format!("WHERE {psql}: engine {e}, reference evaluates on every row"), format!("where:{}:{}{}", e, p.head(), if has_col(p) { "" } else { ":constant-predicate" }));
                }
            }
            // (b) select list
            let sql = format!("SELECT id, {} FROM {}", psql, t.name);
            match dbh.exec(&sql) {
                Out::Rows(rs) => {
                    let mut bad: Option<usize> = None;
                    if rs.len() != t.rows.len() {
                        rep.oracle_fail(format!("select ;; {case}"), format!("{sql}: {} rows for {} table rows", rs.len(), t.rows.len()), format!("select:rowcount:{}", p.head()));
                        continue;
                    }
                    for (ri, r) in rs.iter().enumerate() {
                        // rows come back in id order for a plain scan; match by id to be safe
                        let id: usize = r[0][1..].parse().unwrap_or(0);
                        if id == 0 || id > t.rows.len() { bad = Some(ri); break; }
                        if tri_of_cell(&r[1]) != mtri[id - 1] { bad = Some(id - 1); break; }
                    }
                    if let Some(ri) = bad {
                        // localise bottom-up on row ri using the engine's own child values
                        let sig = localise_select(&dbh, &mut model, &t, p, ri).unwrap_or(if matches!(p, E::Col(_)) { "select:projection-nonprefix-columns".to_string() } else { format!("select:nonlocal:{}", p.head()) });
                        rep.oracle_fail(format!("select ;; {case}"), format!("{sql}: row id={} reference={} engine={:?}", ri + 1, mtri[ri], rs.iter().find(|r| r[0] == format!("I{}", ri + 1)).map(|r| r[1].clone())), sig);
                    }
                }
                Out::Err(e) => rep.oracle_fail(format!("select ;; {case}"), format!("{sql}: engine error {e}"), format!("select:err:{}:{}", error_class(&e), p.head())),
                Out::Panic(m) => rep.oracle_fail(format!("select ;; {case}"), format!("{sql}: panic {m}"), format!("select:panic:{}", p.head())),
                o => rep.oracle_fail(format!("select ;; {case}"), format!("{sql}: {o:?}"), "select:unexpected".into()),
            }
        }
    }
    like_matcher_phase(ctx, &mut rng, &mut model, &mut rep);
    rep.notes.push(format!("model requests: {}", model.requests));
    rep
}

/// M-code correspondence for the LIKE matcher: engine result == `TurVerif.Like.likeImpl` on every
/// (text, pattern) pair; and the declarative `likeSpec` as the property oracle.
fn like_matcher_phase(ctx: &Ctx, rng: &mut Rng, model: &mut Model, rep: &mut Report) {
    let alphabet = ["a", "b", "%", "_", "é", "c"];
    let mut texts: Vec<String> = vec!["".into()];
    // all strings of length ≤ 3 over {a,b,%,_} plus random longer ones
    let small = ["a", "b", "%", "_"];
    for x in small { texts.push(x.into()); for y in small { texts.push(format!("{x}{y}")); for z in small { texts.push(format!("{x}{y}{z}")); } } }
    for _ in 0..60 { let n = 1 + rng.below(8) as usize; texts.push((0..n).map(|_| *rng.pick(&alphabet)).collect()); }
    let mut pats: Vec<String> = vec!["".into(), "%".into(), "_".into(), "%%".into(), "_%".into(), "%_".into(), "a%".into(), "%a".into(), "%a%".into(), "a_b".into(), "a%b".into(), "%_%".into(), "_%_".into(), "%a%b%".into(), "a%%b".into(), "%ab".into(), "_b%".into(), "é".into(), "_é".into(), "%é%".into()];
    let npat = if ctx.thorough { 400 } else { 80 };
    for _ in 0..npat { let n = 1 + rng.below(5) as usize; pats.push((0..n).map(|_| *rng.pick(&["a", "b", "%", "_", "%", "c"])).collect()); }
    let dbh = Dbh::create(ctx, "c14-like");
    dbh.must("CREATE TABLE l (id INT, s TEXT)");
    for (i, t) in texts.iter().enumerate() { dbh.must(&format!("INSERT INTO l VALUES ({}, '{}')", i + 1, t)); }
    for p in &pats {
        let sql = format!("SELECT id, s LIKE '{p}' FROM l");
        let rows = match dbh.exec(&sql) {
            Out::Rows(r) => r,
            o => { rep.oracle_fail(format!("like ;; {sql}"), format!("{o:?}"), "likefn:engine-error".into()); continue; }
        };
        for r in rows {
            let id: usize = r[0][1..].parse().unwrap_or(0);
            if id == 0 || id > texts.len() { continue; }
            let t = &texts[id - 1];
            let got = tri_of_cell(&r[1]);
            let m = model.ask(&format!("like {} {}", hex(t.as_bytes()), hex(p.as_bytes())));
            let impl_ = if m.contains("impl=1") { "true" } else if m.contains("impl=0") { "false" } else { "fuel" };
            let spec = if m.contains("spec=1") { "true" } else { "false" };
            let case = format!("like ;; text={t:?} pattern={p:?}");
            rep.case(if p.contains('%') || p.contains('_') { Some(&case) } else { None });
            rep.count(if got == "true" { "like_true" } else { "like_false" });
            if got != impl_ {
                rep.disagree(case.clone(), format!("engine {got}, M-code model likeImpl {impl_} ({m})"), "like-impl".into());
            }
            if got != spec {
                let sig = if !t.is_ascii() || !p.is_ascii() { "likefn:nonascii" } else if t.contains('%') { "likefn:percent-in-text" } else { "likefn:other" };
                rep.oracle_fail(case, format!("'{t}' LIKE '{p}': engine {got}, definition {spec}"), sig.into());
            }
        }
    }
}

/// bottom-up: first node whose engine value differs from the reference applied to the engine's
/// own child values (all observed in the select list on the same row)
fn localise_select(dbh: &Dbh, model: &mut Model, t: &TableSpec, e: &E, ri: usize) -> Option<String> {
    for c in e.children() {
        if let Some(s) = localise_select(dbh, model, t, c, ri) { return Some(s); }
    }
    let kids = e.children();
    if kids.is_empty() { return None; }
    let sc = t.bare_scope();
    let sql = format!("SELECT id, {}, {} FROM {}", kids.iter().map(|k| k.sql(&sc)).collect::<Vec<_>>().join(", "), e.sql(&sc), t.name);
    let rows = match dbh.exec(&sql) { Out::Rows(r) => r, _ => return None };
    let r = rows.iter().find(|r| r[0] == format!("I{}", ri + 1))?;
    let kid_cells: Vec<String> = r[1..1 + kids.len()].to_vec();
    let node_cell = r[1 + kids.len()].clone();
    let tys: Vec<Ty> = t.cols.iter().map(|(_, ty)| *ty).collect();
    // the engine renders some boolean results as 0/1 integers: read them as booleans where the
    // sub-expression is boolean
    let kid_cells: Vec<String> = kid_cells.iter().zip(kids.iter()).map(|(c, k)| {
        if is_boolean(k, &tys) { match c.as_str() { "I1" => "B1".to_string(), "I0" => "B0".to_string(), _ => c.clone() } } else { c.clone() }
    }).collect();
    let node_cell = if is_boolean(e, &tys) { match node_cell.as_str() { "I1" => "B1".to_string(), "I0" => "B0".to_string(), _ => node_cell } } else { node_cell };
    let kid_vals: Option<Vec<V>> = kid_cells.iter().map(|c| cell_to_v(c)).collect();
    let kid_vals = kid_vals?;
    // rebuild the node over columns 0..n of a synthetic row
    let mut idx = 0;
    let rebuilt = replace_children(e, &mut idx);
    let resp = model.ask(&format!("eval ({}) {}", kid_vals.iter().map(|v| v.sx()).collect::<Vec<_>>().join(" "), rebuilt.sx()));
    let agree = match resp.strip_prefix("ok ") { Some(m) => cells_agree(m, &node_cell), None => false };
    if agree { None } else {
        let exp = resp.strip_prefix("ok ").map(|m| kind_of_cell(m).to_string()).unwrap_or(resp.replace(' ', "-"));
        let ks: Vec<String> = kid_cells.iter().map(|c| kind_of_cell(c).to_string()).collect();
        let mut sg = node_sig(e, &ks);
        if let E::Like(..) = e { if let Some(c) = kid_cells[0].strip_prefix('T') { let b = unhex(c); if !b.is_ascii() { sg.push_str("[nonascii-text]"); } else if b.contains(&b'%') { sg.push_str("[percent-in-text]"); } } }
        Some(format!("select:{} exp={} got={}", sg, exp, kind_of_cell(&node_cell)))
    }
}

fn replace_children(e: &E, idx: &mut usize) -> E {
    let mut next = || { let i = *idx; *idx += 1; Box::new(E::Col(i)) };
    match e {
        E::Lit(_) | E::Col(_) => e.clone(),
        E::Neg(_) => E::Neg(next()),
        E::Not(_) => E::Not(next()),
        E::IsNull(_, n) => E::IsNull(next(), *n),
        E::Bin(op, ..) => { let a = next(); let b = next(); E::Bin(*op, a, b) }
        E::Like(_, _, n) => { let a = next(); let b = next(); E::Like(a, b, *n) }
        E::In(_, l, n) => { let a = next(); let v: Vec<E> = l.iter().map(|_| *next()).collect(); E::In(a, v, *n) }
        E::Between(_, _, _, n) => { let a = next(); let b = next(); let c = next(); E::Between(a, b, c, *n) }
        E::Coalesce(l) => E::Coalesce(l.iter().map(|_| *next()).collect()),
        E::Case(ws, _) => { let v: Vec<(E, E)> = ws.iter().map(|_| { let c = *next(); let x = *next(); (c, x) }).collect(); let els = next(); E::Case(v, els) }
    }
}
