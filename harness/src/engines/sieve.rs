//! C35: `turdb::storage::PageCache` (SIEVE, 64 shards) vs the Lean model `TurVerif.Sieve`.
//!
//! Sequential case = one line: `sv <total_capacity> n|b<other_pages> <op> …`
//!   `i<f>.<p>.<v>`  get_or_insert(key, init fills the page with v)   (the PageRef is kept = a pin)
//!   `x<f>.<p>`      get_or_insert with an init closure that returns Err
//!   `g<f>.<p>`      get (a hit keeps the PageRef)
//!   `u<f>.<p>`      drop one PageRef held for the key (= unpin); skipped when none is held
//!   `w<f>.<p>.<v>`  fill the page with v through a held PageRef (data_mut); skipped when none is held
//!   `r<f>.<p>`      read (data) and compare the shard state
//!   `m<f>.<p>` / `c<f>.<p>`   mark_dirty / clear_dirty
//!   `o<pages>`      the other memory pools now hold <pages> pages (budgeted caches only)
//!   `E`             evict_all_unpinned
//!   `K`             drop every PageRef, then clear()
//! After every op the implementation's answer, cache_used, len and the complete private state of the
//! key's shard (hook `verif_dump_shard`: hand, capacity, entry vector with visited/dirty/pin/data,
//! index) must equal the model's.  Independently, monitors evaluate the property on the real cache:
//! every key for which a PageRef is held is present with exactly the last written contents, no shard
//! exceeds its capacity, the index matches the vector, cache_used = len * PAGE_SIZE, and 0 after the
//! final clear.
//!
//! Multi-thread stress = `mt <seed> <threads> <ops> <total_capacity> <other_pages>`: real threads on one
//! cache, same monitors; the interleaving is NOT replayed through the model (no schedule control).
use crate::common::*;
use std::collections::HashMap;
use std::sync::{Arc, Mutex};
use turdb::memory::{MemoryBudget, Pool};
use turdb::storage::{PageCache, PageKey, PageRef, PAGE_SIZE};

type K = (u32, u32);

#[derive(Clone, Debug, PartialEq)]
enum Op {
    Ins(K, u64),
    InsFail(K),
    Get(K),
    Unpin(K),
    Write(K, u64),
    Read(K),
    Mark(K),
    ClearDirty(K),
    Other(u64),
    EvictAll,
    Clear,
}

fn kstr(k: &K) -> String {
    format!("{}.{}", k.0, k.1)
}
fn show_op(o: &Op) -> String {
    match o {
        Op::Ins(k, v) => format!("i{}.{v}", kstr(k)),
        Op::InsFail(k) => format!("x{}", kstr(k)),
        Op::Get(k) => format!("g{}", kstr(k)),
        Op::Unpin(k) => format!("u{}", kstr(k)),
        Op::Write(k, v) => format!("w{}.{v}", kstr(k)),
        Op::Read(k) => format!("r{}", kstr(k)),
        Op::Mark(k) => format!("m{}", kstr(k)),
        Op::ClearDirty(k) => format!("c{}", kstr(k)),
        Op::Other(n) => format!("o{n}"),
        Op::EvictAll => "E".into(),
        Op::Clear => "K".into(),
    }
}
fn show_case(cap: usize, budget: Option<u64>, ops: &[Op]) -> String {
    let b = match budget {
        None => "n".to_string(),
        Some(o) => format!("b{o}"),
    };
    let mut s = format!("sv {cap} {b}");
    for o in ops {
        s.push(' ');
        s.push_str(&show_op(o));
    }
    s
}
fn parse_case(line: &str) -> Option<(usize, Option<u64>, Vec<Op>)> {
    let mut it = line.split_whitespace();
    if it.next()? != "sv" {
        return None;
    }
    let cap: usize = it.next()?.parse().ok()?;
    let b = it.next()?;
    let budget = if b == "n" { None } else { Some(b.strip_prefix('b')?.parse().ok()?) };
    let mut ops = vec![];
    for w in it {
        let (h, rest) = w.split_at(1);
        let nums: Vec<u64> = if rest.is_empty() { vec![] } else { rest.split('.').map(|x| x.parse().ok()).collect::<Option<_>>()? };
        let key = |n: &Vec<u64>| -> Option<K> { Some((*n.first()? as u32, *n.get(1)? as u32)) };
        ops.push(match h {
            "i" => Op::Ins(key(&nums)?, *nums.get(2)?),
            "x" => Op::InsFail(key(&nums)?),
            "g" => Op::Get(key(&nums)?),
            "u" => Op::Unpin(key(&nums)?),
            "w" => Op::Write(key(&nums)?, *nums.get(2)?),
            "r" => Op::Read(key(&nums)?),
            "m" => Op::Mark(key(&nums)?),
            "c" => Op::ClearDirty(key(&nums)?),
            "o" => Op::Other(*nums.first()?),
            "E" => Op::EvictAll,
            "K" => Op::Clear,
            _ => return None,
        });
    }
    Some((cap, budget, ops))
}

fn shard_of(k: &K) -> usize {
    ((k.0 as usize).wrapping_mul(31).wrapping_add(k.1 as usize)) % 64
}
fn fill(buf: &mut [u8], v: u64) {
    let b = v.to_le_bytes();
    for c in buf.chunks_mut(8) {
        c.copy_from_slice(&b[..c.len()]);
    }
}
/// Some(v) when the whole page is the pattern of v
fn uniform(buf: &[u8]) -> Option<u64> {
    let mut b = [0u8; 8];
    b.copy_from_slice(&buf[..8]);
    if buf.chunks(8).all(|c| c == &b[..c.len()]) {
        Some(u64::from_le_bytes(b))
    } else {
        None
    }
}

/// keeps the other pools of a MemoryBudget at a requested number of bytes
struct OtherPools {
    held: Vec<(Pool, usize)>,
}
impl OtherPools {
    fn set(&mut self, b: &MemoryBudget, target: usize) -> usize {
        for (p, n) in self.held.drain(..) {
            b.release(p, n);
        }
        let mut total = 0usize;
        for pool in [Pool::Query, Pool::Recovery, Pool::Schema, Pool::Shared] {
            while total + PAGE_SIZE <= target && b.allocate(pool, PAGE_SIZE).is_ok() {
                self.held.push((pool, PAGE_SIZE));
                total += PAGE_SIZE;
            }
        }
        let st = b.stats();
        st.total_used - st.cache_used
    }
}

fn dump_shard(c: &PageCache, sh: usize) -> String {
    let (hand, cap, entries, index) = c.verif_dump_shard(sh);
    let es: Vec<String> = entries.iter().map(|e| format!("{}:{}:{}:{}:{}:{}", e.0, e.1, e.2 as u8, e.3 as u8, e.4, e.5)).collect();
    let ix: Vec<String> = index.iter().map(|e| format!("{}:{}:{}", e.0, e.1, e.2)).collect();
    format!("{} {} | {} | {}", hand, cap, es.join(" "), ix.join(" "))
}
fn used(c: &PageCache) -> String {
    match c.budget() {
        Some(b) => b.stats().cache_used.to_string(),
        None => "-".into(),
    }
}
fn tail(c: &PageCache, k: &K) -> String {
    format!("{} {} | {}", used(c), c.len(), dump_shard(c, shard_of(k)))
}

/// PageRefs held by the harness; if a panic unwinds through the owner they are leaked instead of dropped
/// (PageRef::drop may panic again on a debug_assert, which would abort the process)
struct Refs<'a>(Vec<(K, PageRef<'a>)>);
impl Drop for Refs<'_> {
    fn drop(&mut self) {
        if std::thread::panicking() {
            for (_, r) in self.0.drain(..) {
                std::mem::forget(r);
            }
        }
    }
}

/// drop a PageRef (= unpin).  `PageCache::unpin` debug-asserts pin_count > 0 inside `Drop`; a panic there
/// while unwinding aborts the process, so the pin count is looked at first and the guard is leaked
/// (and the situation reported) when the entry is present with pin_count 0.
fn release_ref(c: &PageCache, k: &K, r: PageRef<'_>) -> bool {
    let (_, _, entries, _) = c.verif_dump_shard(shard_of(k));
    match entries.iter().find(|e| (e.0, e.1) == *k) {
        Some(e) if e.4 == 0 => {
            std::mem::forget(r);
            false
        }
        _ => {
            drop(r);
            true
        }
    }
}

/// structural monitors on every shard: capacity and index/vector agreement
fn shard_monitors(c: &PageCache) -> Option<(String, String)> {
    for sh in 0..64 {
        let (hand, cap, entries, index) = c.verif_dump_shard(sh);
        if entries.len() > cap {
            return Some((format!("shard {sh} holds {} entries, capacity {cap}", entries.len()), "over-capacity".into()));
        }
        if index.len() != entries.len() || index.iter().any(|(f, p, slot)| entries.get(*slot).map(|e| (e.0, e.1)) != Some((*f, *p))) {
            return Some((format!("shard {sh}: index {:?} does not match the entry vector {:?}", index, entries.iter().map(|e| (e.0, e.1)).collect::<Vec<_>>()), "index-inconsistent".into()));
        }
        if !entries.is_empty() && hand >= entries.len() {
            return Some((format!("shard {sh}: hand {hand} outside the {} entries", entries.len()), "hand-out-of-range".into()));
        }
    }
    None
}

struct Outcome {
    reqs: Vec<String>,
    impl_resp: Vec<String>,
    op_of_req: Vec<usize>,
    oracle: Vec<(usize, String, String)>,
    n_evictions: u64,
    n_errs: HashMap<&'static str, u64>,
    n_inserted: u64,
    n_hits: u64,
}

fn classify_err(msg: &str) -> &'static str {
    if msg.contains("budget exhausted and no evictable") {
        "errBudget"
    } else if msg.contains("shard full") {
        "errFull"
    } else if msg.contains("verif-init-fail") {
        "errInit"
    } else {
        "errAlloc"
    }
}

fn run_seq(cap: usize, budget_other: Option<u64>, ops: &[Op]) -> Outcome {
    let mut out = Outcome { reqs: vec![], impl_resp: vec![], op_of_req: vec![], oracle: vec![], n_evictions: 0, n_errs: HashMap::new(), n_inserted: 0, n_hits: 0 };
    let budget = budget_other.map(|_| Arc::new(MemoryBudget::with_limit(4 * 1024 * 1024)));
    let mut pools = OtherPools { held: vec![] };
    let cache = match PageCache::with_budget(cap, budget.clone()) {
        Ok(c) => c,
        Err(_) => {
            out.reqs.push(match budget_other { None => format!("new {cap} nobudget"), Some(_) => format!("new {cap} 4194304 0") });
            out.impl_resp.push("err".into());
            out.op_of_req.push(0);
            return out;
        }
    };
    let other0 = match (&budget, budget_other) {
        (Some(b), Some(o)) => pools.set(b, o as usize * PAGE_SIZE),
        _ => 0,
    };
    out.reqs.push(match budget_other { None => format!("new {cap} nobudget"), Some(_) => format!("new {cap} 4194304 {other0}") });
    out.impl_resp.push("ok".into());
    out.op_of_req.push(0);

    let mut refs_guard = Refs(vec![]);
    let refs = &mut refs_guard.0;
    let mut last: HashMap<K, u64> = HashMap::new();
    let mut init_failures_leaked: usize = 0; // failing inits that happened after a successful budget.allocate
    let push = |out: &mut Outcome, oi: usize, req: String, resp: String| {
        out.reqs.push(req);
        out.impl_resp.push(resp);
        out.op_of_req.push(oi);
    };
    for (oi, op) in ops.iter().enumerate() {
        let len_before = cache.len();
        match op {
            Op::Ins(k, _) | Op::InsFail(k) | Op::Get(k) => {
                let key = PageKey::new(k.0, k.1);
                let mut ran = false;
                let (req, res): (String, Result<Option<PageRef<'_>>, String>) = match op {
                    Op::Ins(_, v) => {
                        let v = *v;
                        (format!("goi {} {} ok {v}", k.0, k.1), cache.get_or_insert(key, |d| { ran = true; fill(d, v); Ok(()) }).map(Some).map_err(|e| e.to_string()))
                    }
                    Op::InsFail(_) => (format!("goi {} {} fail 0", k.0, k.1), cache.get_or_insert(key, |_| Err(eyre::eyre!("verif-init-fail"))).map(Some).map_err(|e| e.to_string())),
                    _ => (format!("get {} {}", k.0, k.1), Ok(cache.get(&key))),
                };
                let word = match (&res, op) {
                    (Ok(None), _) => "miss",
                    (Ok(Some(_)), Op::Ins(..)) if ran => "inserted",
                    (Ok(Some(_)), _) => "hit",
                    (Err(m), _) => classify_err(m),
                };
                match word {
                    "inserted" => {
                        out.n_inserted += 1;
                        if let Op::Ins(_, v) = op {
                            last.insert(*k, *v);
                        }
                        if cache.len() <= len_before {
                            out.n_evictions += 1;
                        }
                    }
                    "hit" => out.n_hits += 1,
                    "miss" => {}
                    e => {
                        *out.n_errs.entry(match e { "errBudget" => "errBudget", "errFull" => "errFull", "errInit" => "errInit", _ => "errAlloc" }).or_insert(0) += 1;
                        if e == "errInit" && budget.is_some() {
                            init_failures_leaked += 1;
                        }
                    }
                }
                if let Ok(Some(r)) = res {
                    refs.push((*k, r));
                }
                push(&mut out, oi, req, format!("{word} {}", tail(&cache, k)));
            }
            Op::Unpin(k) => {
                if let Some(pos) = refs.iter().position(|(rk, _)| rk == k) {
                    let (_, r) = refs.remove(pos);
                    if !release_ref(&cache, k, r) {
                        out.oracle.push((oi, format!("dropping a PageRef for {k:?}: the entry's pin_count is already 0"), "pin-underflow".into()));
                    }
                    push(&mut out, oi, format!("unpin {} {}", k.0, k.1), format!("ok {}", tail(&cache, k)));
                }
            }
            Op::Write(k, v) => {
                if cache.data(&PageKey::new(k.0, k.1)).is_none() && refs.iter().any(|(rk, _)| rk == k) {
                    out.oracle.push((oi, format!("a PageRef is held for key {k:?} but the page is no longer cached (write)"), "pinned-evicted".into()));
                    break;
                }
                if let Some((_, r)) = refs.iter_mut().find(|(rk, _)| rk == k) {
                    fill(r.data_mut(), *v);
                    last.insert(*k, *v);
                    push(&mut out, oi, format!("write {} {} {v}", k.0, k.1), format!("ok {}", tail(&cache, k)));
                }
            }
            Op::Read(k) => {
                let key = PageKey::new(k.0, k.1);
                let v = match cache.data(&key) {
                    Some(d) => match uniform(d) {
                        Some(v) => v.to_string(),
                        None => "mixed".into(),
                    },
                    None => "none".into(),
                };
                push(&mut out, oi, format!("read {} {}", k.0, k.1), format!("{v} {}", tail(&cache, k)));
                let d = cache.is_dirty(&key);
                push(&mut out, oi, format!("dirty {} {}", k.0, k.1), format!("{d} {}", tail(&cache, k)));
            }
            Op::Mark(k) => {
                cache.mark_dirty(&PageKey::new(k.0, k.1));
                push(&mut out, oi, format!("markdirty {} {}", k.0, k.1), format!("ok {}", tail(&cache, k)));
            }
            Op::ClearDirty(k) => {
                cache.clear_dirty(&PageKey::new(k.0, k.1));
                push(&mut out, oi, format!("cleardirty {} {}", k.0, k.1), format!("ok {}", tail(&cache, k)));
            }
            Op::Other(n) => {
                if let Some(b) = &budget {
                    let got = pools.set(b, *n as usize * PAGE_SIZE);
                    push(&mut out, oi, format!("other {got}"), "ok".into());
                }
            }
            Op::EvictAll => {
                let n = cache.evict_all_unpinned();
                out.n_evictions += n as u64;
                push(&mut out, oi, "evictall".into(), n.to_string());
                push(&mut out, oi, "used".into(), used(&cache));
                push(&mut out, oi, "len".into(), cache.len().to_string());
            }
            Op::Clear => {
                while let Some((rk, r)) = refs.pop() {
                    if !release_ref(&cache, &rk, r) {
                        out.oracle.push((oi, format!("dropping a PageRef for {rk:?}: the entry's pin_count is already 0"), "pin-underflow".into()));
                    }
                }
                cache.clear();
                push(&mut out, oi, "__unpin_all".into(), String::new());
                push(&mut out, oi, "clear".into(), "ok".into());
                push(&mut out, oi, "used".into(), used(&cache));
                push(&mut out, oi, "len".into(), cache.len().to_string());
            }
        }
        // forget what is no longer cached (so that a later insert of the key is recognised as one)
        last.retain(|k, _| cache.data(&PageKey::new(k.0, k.1)).is_some());
        // ---- monitors on the real cache
        for (k, _) in refs.iter() {
            match cache.data(&PageKey::new(k.0, k.1)) {
                None => {
                    out.oracle.push((oi, format!("a PageRef is held for key {k:?} but the page is no longer cached"), "pinned-evicted".into()));
                }
                Some(d) => {
                    let want = last.get(k).cloned();
                    if uniform(d) != want || want.is_none() {
                        out.oracle.push((oi, format!("key {k:?}: contents {:?}, last written {:?}", uniform(d), want), "wrong-data".into()));
                    }
                }
            }
        }
        if let Some((d, sig)) = shard_monitors(&cache) {
            out.oracle.push((oi, d, sig));
        }
        if let Some(b) = &budget {
            let cu = b.stats().cache_used;
            let want = cache.len() * PAGE_SIZE;
            if cu != want {
                let sig = if cu == want + init_failures_leaked * PAGE_SIZE && init_failures_leaked > 0 {
                    "budget-ne-len:init-error-after-allocate".to_string()
                } else if matches!(op, Op::Clear) && init_failures_leaked > 0 && cu <= init_failures_leaked * PAGE_SIZE {
                    "budget-ne-len:init-error-after-allocate".to_string()
                } else {
                    format!("budget-ne-len:unexplained:{}", if cu > want { "over" } else { "under" })
                };
                out.oracle.push((oi, format!("cache_used {cu} but {} pages cached (= {want} bytes); failing inits so far {init_failures_leaked}", cache.len()), sig));
                if matches!(op, Op::Clear) {
                    init_failures_leaked = cu / PAGE_SIZE;
                }
            }
        }
        if !out.oracle.is_empty() && out.oracle.iter().any(|(_, _, s)| !s.starts_with("budget-ne-len:init")) {
            break;
        }
    }
    while let Some((rk, r)) = refs.pop() {
        let _ = release_ref(&cache, &rk, r);
    }
    out
}

/// a panic inside the cache (index out of range, `expect("page not in cache")`, debug_assert) is a
/// property failure of its own
fn run_seq_guarded(cap: usize, budget_other: Option<u64>, ops: &[Op]) -> Outcome {
    let ops2 = ops.to_vec();
    match guarded(move || run_seq(cap, budget_other, &ops2)) {
        Ok(o) => o,
        Err(m) => {
            let short: String = m.chars().take(60).collect();
            Outcome {
                reqs: vec![],
                impl_resp: vec![],
                op_of_req: vec![],
                oracle: vec![(ops.len().saturating_sub(1), format!("the cache panicked: {m}"), format!("panic:{short}"))],
                n_evictions: 0,
                n_errs: HashMap::new(),
                n_inserted: 0,
                n_hits: 0,
            }
        }
    }
}

/// `__unpin_all` is expanded for the model into one `unpin` per PageRef the harness held
fn expand_for_model(cap: usize, budget_other: Option<u64>, ops: &[Op], o: &Outcome) -> (Vec<String>, Vec<Option<usize>>) {
    // replay the harness's own pin bookkeeping to know which refs were held at a Clear
    let _ = (cap, budget_other);
    let mut held: Vec<K> = vec![];
    let mut reqs = vec![];
    let mut map = vec![]; // for each model request: index into o.reqs to compare with (None = not compared)
    let mut j = 0usize;
    while j < o.reqs.len() {
        let r = &o.reqs[j];
        let oi = o.op_of_req[j];
        if r == "__unpin_all" {
            for k in held.drain(..) {
                reqs.push(format!("unpin {} {}", k.0, k.1));
                map.push(None);
            }
        } else {
            if r.starts_with("goi ") || r.starts_with("get ") {
                let w = o.impl_resp[j].split(' ').next().unwrap_or("");
                if w == "hit" || w == "inserted" {
                    if let Some(Op::Ins(k, _)) | Some(Op::InsFail(k)) | Some(Op::Get(k)) = ops.get(oi) {
                        held.push(*k);
                    }
                }
            } else if r.starts_with("unpin ") {
                if let Some(Op::Unpin(k)) = ops.get(oi) {
                    if let Some(p) = held.iter().position(|x| x == k) {
                        held.remove(p);
                    }
                }
            }
            reqs.push(r.clone());
            map.push(Some(j));
        }
        j += 1;
    }
    (reqs, map)
}

const SHARDS_USED: [u32; 3] = [0, 1, 63];

fn gen_key(rng: &mut Rng, nkeys: u64) -> K {
    // keys of three shards: page_no = shard + 64*j with file 0, or file 2 (2*31 = 62) page_no = shard - 62 + 64*j
    let sh = *rng.pick(&SHARDS_USED);
    let j = rng.below(nkeys) as u32;
    if rng.chance(1, 4) {
        let base = (sh + 64 - 62) % 64;
        (2, base + 64 * j)
    } else {
        (0, sh + 64 * j)
    }
}

/// a cache large enough to leave the pool's reserved 32 pages: `can_allocate` turns false and the
/// budget loop of get_or_insert has to evict (from the key's own shard only)
fn gen_big(rng: &mut Rng) -> (usize, Option<u64>, Vec<Op>) {
    let cap = 64 * (34 + rng.below(8) as usize);
    let other = 256 - 32 - rng.below(5);
    let mut ops = vec![];
    let n = 30 + rng.below(16);
    let mut val = 7_000_000;
    for j in 0..n {
        val += 1;
        let sh = if rng.chance(1, 5) { 1 } else { 0 };
        let k = (0u32, sh + 64 * j as u32);
        ops.push(Op::Ins(k, val));
        match rng.below(10) {
            0 => {}
            1 => {
                ops.push(Op::Unpin(k));
                ops.push(Op::Get(k));
                ops.push(Op::Unpin(k));
            }
            _ => ops.push(Op::Unpin(k)),
        }
        if rng.chance(1, 12) {
            ops.push(Op::InsFail((0, 64 * (100 + j as u32))));
        }
        if rng.chance(1, 15) {
            ops.push(Op::Other(256 - 32 - rng.below(6)));
        }
    }
    for _ in 0..rng.below(12) {
        val += 1;
        let k = (0u32, 64 * rng.below(n + 4) as u32);
        ops.push(match rng.below(4) { 0 => Op::Ins(k, val), 1 => Op::Get(k), 2 => Op::Unpin(k), _ => Op::Read(k) });
    }
    ops.push(Op::EvictAll);
    ops.push(Op::Clear);
    (cap, Some(other), ops)
}

fn gen_seq(rng: &mut Rng) -> (usize, Option<u64>, Vec<Op>) {
    if rng.chance(1, 12) {
        return gen_big(rng);
    }
    // capacities: 64 → 1 per shard; 65..127 → shard 0 (and 1) get 2; 128 → 2; 129..; 192 → 3; 256 → 4
    let cap = *rng.pick(&[64usize, 64, 65, 66, 127, 128, 129, 130, 192, 193, 256, 63]);
    let budget = if rng.chance(1, 2) {
        // 4 MiB = 256 pages; leave the cache between 0 and 7 pages
        Some(match rng.below(4) { 0 => 0, 1 => 256 - rng.below(8), 2 => 250 - rng.below(40), _ => rng.below(256) })
    } else {
        None
    };
    let n = 5 + rng.below(70);
    let nkeys = 2 + rng.below(5);
    let mut ops = vec![];
    let mut val = 1 + rng.below(1000) * 1000;
    for _ in 0..n {
        let k = gen_key(rng, nkeys);
        val += 1;
        ops.push(match rng.below(100) {
            0..=29 => Op::Ins(k, val),
            30..=32 => Op::InsFail(k),
            33..=42 => Op::Get(k),
            43..=72 => Op::Unpin(k),
            73..=81 => Op::Write(k, val),
            82..=86 => Op::Read(k),
            87..=89 => Op::Mark(k),
            90..=91 => Op::ClearDirty(k),
            92..=94 => Op::Other(if rng.chance(1, 2) { 256 - rng.below(6) } else { rng.below(257) }),
            95..=97 => Op::EvictAll,
            _ => Op::Clear,
        });
    }
    ops.push(Op::Clear);
    (cap, budget, ops)
}

fn shrink(cap: usize, b: Option<u64>, ops: &[Op], sig: &str) -> Vec<Op> {
    let mut cur = ops.to_vec();
    let mut changed = true;
    while changed {
        changed = false;
        let mut i = 0;
        while i < cur.len() {
            let mut t = cur.clone();
            t.remove(i);
            let o = run_seq_guarded(cap, b, &t);
            if o.oracle.iter().any(|(_, _, s)| s == sig) {
                cur = t;
                changed = true;
            } else {
                i += 1;
            }
        }
    }
    cur
}

// ---------------------------------------------------------------- multi-thread stress
struct MtResult {
    failures: Vec<(String, String)>,
    ops: u64,
    inserted: u64,
    errors: u64,
}

fn run_mt(seed: u64, threads: usize, nops: usize, cap: usize, other_pages: u64) -> MtResult {
    let budget = Arc::new(MemoryBudget::with_limit(4 * 1024 * 1024));
    let mut pools = OtherPools { held: vec![] };
    pools.set(&budget, other_pages as usize * PAGE_SIZE);
    let cache = PageCache::with_budget(cap, Some(budget.clone())).unwrap();
    let keys: Vec<K> = {
        let mut r = Rng::new(seed ^ 0xABCD);
        let mut v = vec![];
        for _ in 0..7 {
            v.push(gen_key(&mut r, 3));
        }
        v.sort();
        v.dedup();
        v
    };
    let lastw: HashMap<K, Mutex<u64>> = keys.iter().map(|k| (*k, Mutex::new(0u64))).collect();
    let failures: Mutex<Vec<(String, String)>> = Mutex::new(vec![]);
    let counters: Mutex<(u64, u64, u64)> = Mutex::new((0, 0, 0));
    std::thread::scope(|s| {
        for t in 0..threads {
            let cache = &cache;
            let keys = &keys;
            let lastw = &lastw;
            let failures = &failures;
            let counters = &counters;
            s.spawn(move || {
                let mut rng = Rng::new(seed.wrapping_mul(1000).wrapping_add(t as u64));
                let mut refs_guard = Refs(vec![]);
                let refs = &mut refs_guard.0;
                let (mut n, mut ins, mut errs) = (0u64, 0u64, 0u64);
                for i in 0..nops {
                    n += 1;
                    let k = *rng.pick(keys);
                    let key = PageKey::new(k.0, k.1);
                    match rng.below(100) {
                        0..=34 => {
                            let v = ((t as u64 + 1) << 40) | (i as u64 + 1);
                            let cell = &lastw[&k];
                            let mut ran = false;
                            let r = cache.get_or_insert(key, |d| {
                                // runs under the shard's write lock; nobody waits for a shard lock while holding `cell`
                                let mut g = cell.lock().unwrap();
                                fill(d, v);
                                *g = v;
                                ran = true;
                                Ok(())
                            });
                            match r {
                                Ok(pr) => {
                                    if ran {
                                        ins += 1;
                                    }
                                    refs.push((k, pr));
                                }
                                Err(_) => errs += 1,
                            }
                        }
                        35..=49 => {
                            if let Some(pr) = cache.get(&key) {
                                refs.push((k, pr));
                            }
                        }
                        50..=84 => {
                            if !refs.is_empty() {
                                let p = rng.below(refs.len() as u64) as usize;
                                let (rk, r) = refs.swap_remove(p);
                                if !release_ref(cache, &rk, r) {
                                    failures.lock().unwrap().push((format!("thread {t}: dropping a PageRef for {rk:?} whose pin_count is already 0 (op {i})"), "mt:pin-underflow".into()));
                                }
                            }
                        }
                        _ => {
                            if !refs.is_empty() {
                                let p = rng.below(refs.len() as u64) as usize;
                                let v = ((t as u64 + 1) << 40) | (1 << 30) | (i as u64 + 1);
                                let (rk, pr) = &mut refs[p];
                                if cache.data(&PageKey::new(rk.0, rk.1)).is_none() {
                                    failures.lock().unwrap().push((format!("thread {t} holds a PageRef for {rk:?} but the page is not cached (write, op {i})"), "mt:pinned-evicted".into()));
                                    break;
                                }
                                let d = pr.data_mut(); // shard read lock taken and released here
                                let mut g = lastw[rk].lock().unwrap();
                                fill(d, v);
                                *g = v;
                            }
                        }
                    }
                    // monitor: one of the pages this thread has pinned
                    if !refs.is_empty() {
                        let p = rng.below(refs.len() as u64) as usize;
                        let rk = refs[p].0;
                        match cache.data(&PageKey::new(rk.0, rk.1)) {
                            None => failures.lock().unwrap().push((format!("thread {t} holds a PageRef for {rk:?} but the page is not cached (op {i})"), "mt:pinned-evicted".into())),
                            Some(d) => {
                                let g = lastw[&rk].lock().unwrap();
                                let got = uniform(d);
                                if got != Some(*g) {
                                    failures.lock().unwrap().push((format!("thread {t}: key {rk:?} contents {got:?}, last written {:?} (op {i})", *g), "mt:wrong-data".into()));
                                }
                            }
                        }
                    }
                    if i % 16 == 0 {
                        if let Some((d, sig)) = shard_monitors(cache) {
                            failures.lock().unwrap().push((d, format!("mt:{sig}")));
                        }
                    }
                    if failures.lock().unwrap().len() > 4 {
                        break;
                    }
                }
                while let Some((rk, r)) = refs.pop() {
                    let _ = release_ref(cache, &rk, r);
                }
                let mut c = counters.lock().unwrap();
                c.0 += n;
                c.1 += ins;
                c.2 += errs;
            });
        }
    });
    let mut fs = failures.into_inner().unwrap();
    // quiescent: every pin has been dropped
    let cu = budget.stats().cache_used;
    if cu != cache.len() * PAGE_SIZE {
        fs.push((format!("after all threads finished cache_used {cu} but {} pages cached", cache.len()), "mt:budget-ne-len".into()));
    }
    for sh in 0..64 {
        let (_, _, entries, _) = cache.verif_dump_shard(sh);
        if let Some(e) = entries.iter().find(|e| e.4 != 0) {
            fs.push((format!("after every PageRef was dropped key ({},{}) still has pin_count {}", e.0, e.1, e.4), "mt:pin-count-drift".into()));
        }
    }
    let n = cache.evict_all_unpinned();
    let _ = n;
    if cache.len() != 0 || budget.stats().cache_used != 0 {
        fs.push((format!("after evict_all_unpinned with no pins: len {} cache_used {}", cache.len(), budget.stats().cache_used), "mt:not-empty-after-evict-all".into()));
    }
    let c = counters.into_inner().unwrap();
    MtResult { failures: fs, ops: c.0, inserted: c.1, errors: c.2 }
}

/// Two threads miss the SAME uncached key under the read lock (both parked at the hook site
/// `cache.miss.before_write_lock`), then take the write lock one after the other.  The re-check
/// under the write lock must make the second one re-use the first one's entry: init runs once,
/// the cache holds the key once, both PageRefs pin the same entry, and after one of them is
/// dropped the page survives eviction pressure on its shard.
fn concurrent_miss_scenario(rep: &mut Report, order_first: usize) {
    use crate::sched::*;
    use std::sync::atomic::{AtomicU64, Ordering};
    use std::time::Duration;
    let cache: Arc<PageCache> = match PageCache::new(256) { Ok(c) => Arc::new(c), Err(_) => return };
    let inits = Arc::new(AtomicU64::new(0));
    let key = (3u32, 5u32);
    let case = format!("concurrent miss of one key: both threads parked after the read-locked miss, thread {order_first} goes first");
    rep.case(Some(&case));
    rep.count("concurrent_miss_scenarios");
    let sched = Sched::new(2);
    let refs: Arc<Mutex<Vec<Option<PageRef<'static>>>>> = Arc::new(Mutex::new(vec![None, None]));
    let mut handles = vec![];
    for tid in 0..2usize {
        let (cache, inits, refs) = (cache.clone(), inits.clone(), refs.clone());
        handles.push(sched.spawn(tid, move || {
            // SAFETY of the lifetime extension: the Arc<PageCache> outlives every PageRef (they are dropped below before the cache)
            let c: &'static PageCache = unsafe { &*(Arc::as_ptr(&cache)) };
            let r = c.get_or_insert(PageKey::new(key.0, key.1), |d| { inits.fetch_add(1, Ordering::SeqCst); fill(d, 100 + tid as u64); Ok(()) });
            if let Ok(r) = r { refs.lock().unwrap()[tid] = Some(r); }
        }));
    }
    sched.settle(Duration::from_secs(5));
    let to_site = |tid: usize| -> StepResult {
        let mut last = StepResult::NotRunnable;
        for _ in 0..10 { last = sched.step(tid, Duration::from_secs(5)); if last == StepResult::Parked("cache.miss.before_write_lock") || !matches!(last, StepResult::Parked(_)) { break; } }
        last
    };
    let a = to_site(0);
    let b = to_site(1);
    let reached = a == StepResult::Parked("cache.miss.before_write_lock") && b == StepResult::Parked("cache.miss.before_write_lock");
    let (f, s2) = (order_first, 1 - order_first);
    for tid in [f, s2] { for _ in 0..10 { if !matches!(sched.step(tid, Duration::from_secs(5)), StepResult::Parked(_)) { break; } } }
    let finished = sched.all_finished();
    sched.shutdown();
    for h in handles { let _ = h.join(); }
    if !reached {
        // not a verdict about the code (an overloaded machine can miss the 5 s step window): recorded, nothing more
        rep.count("concurrent_miss_scenario_not_set_up");
        rep.notes.push(format!("concurrent-miss scenario could not be set up (hook site not reached: {a:?} / {b:?})"));
        return;
    }
    if !finished { rep.oracle_fail(case.clone(), "a thread did not return from get_or_insert".into(), "cache:concurrent-miss:stuck".into()); return; }
    let n_init = inits.load(Ordering::SeqCst);
    let len = cache.len();
    let mut rs = refs.lock().unwrap();
    let both = rs[0].is_some() && rs[1].is_some();
    if n_init != 1 || len != 1 || !both {
        rep.oracle_fail(case.clone(), format!("after both get_or_insert calls returned: init ran {n_init} times, cache.len() = {len}, both refs ok = {both} (expected 1, 1, true)"), "cache:concurrent-miss:double-insert".into());
    }
    // PageRef::data() panics with "page not in cache" when the entry behind a live PageRef is gone
    let data_of = |r: &Option<PageRef<'static>>| -> Result<Option<Option<u64>>, String> {
        guarded(std::panic::AssertUnwindSafe(|| r.as_ref().map(|r| uniform(r.data()))))
    };
    let v0 = match data_of(&rs[0]) { Ok(v) => v, Err(p) => { rep.oracle_fail(case.clone(), format!("PageRef::data() of a live PageRef panicked right after both calls returned: {p}"), "cache:concurrent-miss:live-pageref-unreadable".into()); None } };
    // drop one holder (PageRef::drop debug-asserts pin_count > 0: a panic there is a finding, not a crash of the
    // harness), then push more pages than the shard can hold through the same shard
    let r1 = rs[1].take();
    if let Err(p) = guarded(std::panic::AssertUnwindSafe(move || drop(r1))) {
        rep.oracle_fail(case.clone(), format!("dropping the second PageRef panicked: {p}"), "cache:concurrent-miss:unpin-panic".into());
    }
    let sh = shard_of(&key);
    let mut pushed = 0;
    let mut p = 0u32;
    let mut extra: Vec<PageRef<'_>> = vec![];
    while pushed < 12 && p < 100_000 {
        p += 1;
        let k2 = (9u32, p);
        if shard_of(&k2) != sh { continue; }
        if let Ok(r) = cache.get_or_insert(PageKey::new(k2.0, k2.1), |d| { fill(d, 7); Ok(()) }) { drop(r); pushed += 1; }
        let _ = &mut extra;
    }
    let still = cache.data(&PageKey::new(key.0, key.1)).map(|d| uniform(d));
    let v_now = match data_of(&rs[0]) { Ok(v) => v, Err(p) => { rep.oracle_fail(case.clone(), format!("PageRef::data() of the remaining live PageRef panicked after eviction pressure on its shard: {p}"), "cache:concurrent-miss:pinned-page-evicted".into()); None } };
    if still.is_none() || v_now != v0 {
        rep.oracle_fail(case.clone(), format!("the page was evicted (or changed) while a PageRef to it is alive: cached now = {still:?}, through the ref before {v0:?} / now {v_now:?}"), "cache:concurrent-miss:pinned-page-evicted".into());
    }
    let r0 = rs[0].take();
    if let Err(p) = guarded(std::panic::AssertUnwindSafe(move || drop(r0))) {
        rep.oracle_fail(case.clone(), format!("dropping the first PageRef panicked: {p}"), "cache:concurrent-miss:unpin-panic".into());
    }
    drop(rs);
}

pub fn run(ctx: &Ctx) -> Report {
    let mut rep = Report::new(
        "sieve",
        "sequential op sequences (insert / failing insert / get / unpin / write / read / dirty flags / other-pool \
         pressure / evict_all_unpinned / clear) on caches whose used shards hold 1..4 pages, with and without a \
         memory budget that leaves 0..7 pages; compared step by step with the model including the private \
         shard state (hook). Forced interleaving: two threads miss the same uncached key under the read lock (hook site before the write lock), then insert one after the other - init must run once, one entry, the page must survive eviction pressure while one PageRef is alive. Multi-thread: 3 real threads on 5..7 keys, monitors only. non-trivial = distinct \
         sequence in which at least one page was evicted to make room",
    );
    if ctx.replay.is_none() { for first in [0usize, 1] { concurrent_miss_scenario(&mut rep, first); } }
    let mut rng = Rng::new(ctx.seed ^ 0x35);
    let mut cases: Vec<(usize, Option<u64>, Vec<Op>, &'static str)> = vec![];
    let mut mt_cases: Vec<(u64, usize, usize, usize, u64)> = vec![];
    for c in ctx.corpus_cases("C35") {
        if let Some((cap, b, ops)) = parse_case(&c) {
            cases.push((cap, b, ops, "corpus"));
        } else if c.starts_with("mt ") {
            let f: Vec<u64> = c.split_whitespace().skip(1).filter_map(|x| x.parse().ok()).collect();
            if f.len() == 5 {
                mt_cases.push((f[0], f[1] as usize, f[2] as usize, f[3] as usize, f[4]));
            }
        } else {
            rep.disagree(c.clone(), "unparsable corpus/replay line".into(), "bad-case".into());
        }
    }
    let nseq = if ctx.thorough { 40_000 } else { 3_000 };
    for _ in 0..nseq {
        let (cap, b, ops) = gen_seq(&mut rng);
        cases.push((cap, b, ops, "seq"));
    }
    let mut all_reqs: Vec<String> = vec![];
    let mut outs = vec![];
    let mut maps = vec![];
    for (cap, b, ops, _) in &cases {
        let o = run_seq_guarded(*cap, *b, ops);
        let (reqs, map) = expand_for_model(*cap, *b, ops, &o);
        all_reqs.extend(reqs.iter().cloned());
        maps.push((reqs.len(), map));
        outs.push(o);
    }
    let resp = model_batch(&ctx.model_bin, "sieve", &all_reqs);
    let mut off = 0usize;
    let mut kept: HashMap<String, u32> = HashMap::new();
    for (((cap, b, ops, kind), o), (nreq, map)) in cases.iter().zip(outs.iter()).zip(maps.iter()) {
        let case = show_case(*cap, *b, ops);
        rep.case(if o.n_evictions > 0 { Some(&case) } else { None });
        rep.count(&format!("cases_{kind}"));
        rep.count_n("requests_compared", *nreq as u64);
        rep.count_n("inserted", o.n_inserted);
        rep.count_n("hits", o.n_hits);
        rep.count_n("evictions", o.n_evictions);
        for (k, v) in &o.n_errs {
            rep.count_n(&format!("goi_{k}"), *v);
        }
        rep.count(if b.is_some() { "with_budget" } else { "without_budget" });
        if rep.samples.len() < 5 {
            rep.sample(case.clone());
        }
        for (m, tgt) in map.iter().enumerate() {
            if let Some(j) = tgt {
                if resp[off + m] != o.impl_resp[*j] {
                    let upto = o.op_of_req[*j].min(ops.len().saturating_sub(1));
                    rep.disagree(
                        show_case(*cap, *b, &ops[..=upto]),
                        format!("request `{}` (op #{upto}): impl=`{}` model=`{}`", o.reqs[*j], o.impl_resp[*j], resp[off + m]),
                        format!("sieve-step-differs:{}", o.reqs[*j].split(' ').next().unwrap_or("")),
                    );
                    break;
                }
            }
        }
        off += nreq;
        let mut seen: Vec<String> = vec![];
        for (oi, detail, sig) in &o.oracle {
            if seen.contains(sig) {
                continue;
            }
            seen.push(sig.clone());
            rep.count(&format!("oracle:{sig}"));
            let upto = (*oi).min(ops.len().saturating_sub(1));
            let pre = &ops[..=upto];
            let n = kept.entry(sig.clone()).or_insert(0);
            *n += 1;
            let small = if *n <= 3 { shrink(*cap, *b, pre, sig) } else { pre.to_vec() };
            rep.oracle_fail(show_case(*cap, *b, &small), detail.clone(), sig.clone());
        }
    }
    // ---- multi-thread stress (monitors only)
    let nmt = if ctx.thorough { 3000 } else { 300 };
    for i in 0..nmt {
        let seed = rng.next() % 1_000_000_007;
        let cap = *rng.pick(&[64usize, 65, 128, 130, 192]);
        let other = if i % 3 == 0 { 256 - rng.below(7) } else { rng.below(200) };
        mt_cases.push((seed, 2 + (i % 2) as usize, 400, cap, other));
    }
    for (seed, th, nops, cap, other) in &mt_cases {
        let (a1, a2, a3, a4, a5) = (*seed, *th, *nops, *cap, *other);
        let r = match guarded(move || run_mt(a1, a2, a3, a4, a5)) {
            Ok(r) => r,
            Err(m) => {
                let short: String = m.chars().take(60).collect();
                MtResult { failures: vec![(format!("a cache call panicked in a worker thread: {m}"), format!("mt:panic:{short}"))], ops: 0, inserted: 0, errors: 0 }
            }
        };
        let case = format!("mt {seed} {th} {nops} {cap} {other}");
        rep.case(if r.inserted > 0 { Some(&case) } else { None });
        rep.count("cases_mt");
        rep.count_n("mt_ops", r.ops);
        rep.count_n("mt_inserted", r.inserted);
        rep.count_n("mt_goi_errors", r.errors);
        for (d, sig) in r.failures.iter().take(3) {
            rep.count(&format!("oracle:{sig}"));
            rep.oracle_fail(case.clone(), d.clone(), sig.clone());
        }
    }
    rep.notes.push("multi-thread runs use real threads without schedule control; their linearisation is not compared with the model, only the monitors (pinned page present with last written contents, shard len <= capacity, index = vector, budget = len at quiescence) are evaluated".into());
    rep
}
