//! C20: scalar functions, CAST and arithmetic vs the reference definitions `TurVerif.SqlFn`.
//!
//! One case = (function, declared argument types, argument values).  Every case is evaluated on
//! the real engine twice: with the arguments stored in the columns of a table row
//! (`SELECT id, F(i0, s0) FROM a WHERE id = k`, path `col`) and as literals
//! (`SELECT id, F(5, 'x') FROM one WHERE id > 0`, path `lit`), and compared with
//! `tvmodel sqlfn`.  The property's own oracle is folded into the comparison rules:
//!   * reference = error overflow  -> the engine must report an error (not a panic, a wrapped or
//!     saturated value, or NULL);
//!   * reference = error divzero   -> the engine must report an error or NULL, never a value;
//!   * reference = NULL for a NULL argument of a strict function -> engine NULL;
//!   * integers compare exactly (no float tolerance), DOUBLE results within 1e-12 relative.
//! Signature alphabet: `fn:<name>(<arg kinds>[,flags])@<path> exp=<kind|error> got=<kind|kind-wrong|panic|error|norow>`.
//! One-line case syntax (corpus / replay): `<name> <ty,ty,...> <sexpr list of values>`.
use crate::common::*;
use crate::sqlgen::{cell_of, error_class, Dbh, Out};

#[derive(Clone, Debug, PartialEq)]
pub enum A {
    Null,
    Int(i64),
    /// dyadic rational, exactly representable
    Flt(f64),
    Text(String),
    Bool(bool),
}

#[derive(Clone, Copy, Debug, PartialEq, Eq)]
pub enum T { I, F, S, B }

impl T {
    fn name(&self) -> &'static str { match self { T::I => "int", T::F => "float", T::S => "text", T::B => "bool" } }
    fn parse(s: &str) -> Option<T> { match s { "int" => Some(T::I), "float" => Some(T::F), "text" => Some(T::S), "bool" => Some(T::B), _ => None } }
}

impl A {
    fn sql(&self) -> String {
        match self {
            A::Null => "NULL".into(),
            A::Bool(b) => if *b { "TRUE".into() } else { "FALSE".into() },
            A::Int(i) => {
                if *i == i64::MIN { "(-9223372036854775807 - 1)".into() }
                else if *i < 0 { format!("({i})") } else { format!("{i}") }
            }
            A::Flt(f) => {
                let s = if f.fract() == 0.0 { format!("{:.1}", f) } else { format!("{:?}", f) };
                if *f < 0.0 { format!("({s})") } else { s }
            }
            A::Text(s) => format!("'{}'", s.replace('\'', "''")),
        }
    }
    /// literal usable in INSERT ... VALUES (the parser accepts -9223372036854775808 there)
    fn insert_sql(&self) -> String {
        match self {
            A::Int(i) => format!("{i}"),
            A::Flt(f) => if f.fract() == 0.0 { format!("{:.1}", f) } else { format!("{:?}", f) },
            _ => self.sql(),
        }
    }
    fn sx(&self) -> String {
        match self {
            A::Null => "(null)".into(),
            A::Bool(b) => format!("(bool {})", *b as u8),
            A::Int(i) => format!("(int {i})"),
            A::Flt(f) => {
                if f.fract() == 0.0 { format!("(flt {} 1)", *f as i128) }
                else { format!("(flt {} 1048576)", (*f * 1048576.0) as i128) }
            }
            A::Text(s) => format!("(text {})", hex(s.as_bytes())),
        }
    }
    fn kind(&self) -> &'static str {
        match self { A::Null => "null", A::Bool(_) => "bool", A::Int(_) => "int", A::Flt(_) => "float", A::Text(_) => "text" }
    }
}

#[derive(Clone, Debug)]
pub struct Case {
    pub name: &'static str,
    pub tys: Vec<T>,
    pub args: Vec<A>,
}

/// model name -> SQL text over the rendered arguments
fn render(name: &str, a: &[String]) -> Option<String> {
    let j = a.join(", ");
    Some(match name {
        "char_length" => format!("CHAR_LENGTH({j})"),
        "length" => format!("LENGTH({j})"),
        "upper" => format!("UPPER({j})"),
        "lower" => format!("LOWER({j})"),
        "substr" => format!("SUBSTR({j})"),
        "left" => format!("LEFT({j})"),
        "right" => format!("RIGHT({j})"),
        "locate" => format!("LOCATE({j})"),
        "instr" => format!("INSTR({j})"),
        "reverse" => format!("REVERSE({j})"),
        "lpad" => format!("LPAD({j})"),
        "rpad" => format!("RPAD({j})"),
        "trim" => format!("TRIM({j})"),
        "ltrim" => format!("LTRIM({j})"),
        "rtrim" => format!("RTRIM({j})"),
        "replace" => format!("REPLACE({j})"),
        "concat" => format!("CONCAT({j})"),
        "concat_ws" => format!("CONCAT_WS({j})"),
        "repeat" => format!("REPEAT({j})"),
        "ascii" => format!("ASCII({j})"),
        "abs" => format!("ABS({j})"),
        "sign" => format!("SIGN({j})"),
        "mod" => format!("MOD({j})"),
        "power" => format!("POWER({j})"),
        "round" => format!("ROUND({j})"),
        "floor" => format!("FLOOR({j})"),
        "ceil" => format!("CEIL({j})"),
        "truncate" => format!("TRUNCATE({j})"),
        "greatest" => format!("GREATEST({j})"),
        "least" => format!("LEAST({j})"),
        "coalesce" => format!("COALESCE({j})"),
        "nullif" => format!("NULLIF({j})"),
        "ifnull" => format!("IFNULL({j})"),
        "if" => format!("IF({j})"),
        "case" => format!("CASE WHEN {} THEN {} ELSE {} END", a[0], a[1], a[2]),
        "cast_int" => format!("CAST({} AS BIGINT)", a[0]),
        "cast_text" => format!("CAST({} AS TEXT)", a[0]),
        "cast_bool" => format!("CAST({} AS BOOLEAN)", a[0]),
        "cast_float" => format!("CAST({} AS DOUBLE)", a[0]),
        "add" => format!("({} + {})", a[0], a[1]),
        "sub" => format!("({} - {})", a[0], a[1]),
        "mul" => format!("({} * {})", a[0], a[1]),
        "div" => format!("({} / {})", a[0], a[1]),
        "rem" => format!("({} % {})", a[0], a[1]),
        "neg" => format!("(-{})", a[0]),
        "concat_op" => format!("({} || {})", a[0], a[1]),
        _ => return None,
    })
}

fn model_name(name: &str) -> &str { if name == "case" { "if" } else { name } }

const NAMES: &[&str] = &["char_length", "length", "upper", "lower", "substr", "left", "right", "locate", "instr", "reverse",
    "lpad", "rpad", "trim", "ltrim", "rtrim", "replace", "concat", "concat_ws", "repeat", "ascii", "abs", "sign", "mod",
    "power", "round", "floor", "ceil", "truncate", "greatest", "least", "coalesce", "nullif", "ifnull", "if", "case",
    "cast_int", "cast_text", "cast_bool", "cast_float", "add", "sub", "mul", "div", "rem", "neg", "concat_op"];

fn intern(name: &str) -> Option<&'static str> { NAMES.iter().find(|n| **n == name).copied() }

impl Case {
    fn line(&self) -> String {
        format!("{} {} ({})", self.name, self.tys.iter().map(|t| t.name()).collect::<Vec<_>>().join(","),
            self.args.iter().map(|a| a.sx()).collect::<Vec<_>>().join(" "))
    }
    fn parse(line: &str) -> Option<Case> {
        let mut it = line.splitn(3, ' ');
        let name = intern(it.next()?)?;
        let tys: Vec<T> = it.next()?.split(',').map(T::parse).collect::<Option<Vec<_>>>()?;
        let rest = it.next()?.trim();
        let inner = rest.strip_prefix('(')?.strip_suffix(')')?;
        let mut args = vec![];
        let mut depth = 0;
        let mut cur = String::new();
        for ch in inner.chars() {
            match ch {
                '(' => { depth += 1; cur.clear(); }
                ')' => {
                    depth -= 1;
                    let toks: Vec<&str> = cur.split_whitespace().collect();
                    args.push(match toks.as_slice() {
                        ["null"] => A::Null,
                        ["bool", b] => A::Bool(*b == "1"),
                        ["int", i] => A::Int(i.parse().ok()?),
                        ["flt", n, d] => A::Flt(n.parse::<f64>().ok()? / d.parse::<f64>().ok()?),
                        ["text", h] => A::Text(String::from_utf8(unhex(h)).ok()?),
                        _ => return None,
                    });
                }
                c => if depth > 0 { cur.push(c); }
            }
        }
        if args.len() != tys.len() { return None; }
        Some(Case { name, tys, args })
    }
    fn model_req(&self) -> String {
        format!("fn {} ({})", model_name(self.name), self.args.iter().map(|a| a.sx()).collect::<Vec<_>>().join(" "))
    }
    /// column names holding the arguments (by declared type, in order)
    fn columns(&self) -> Option<Vec<String>> {
        let (mut ni, mut nf, mut ns, mut nb) = (0, 0, 0, 0);
        let mut v = vec![];
        for t in &self.tys {
            match t {
                T::I => { if ni >= 3 { return None; } v.push(format!("i{ni}")); ni += 1; }
                T::F => { if nf >= 2 { return None; } v.push(format!("d{nf}")); nf += 1; }
                T::S => { if ns >= 3 { return None; } v.push(format!("s{ns}")); ns += 1; }
                T::B => { if nb >= 1 { return None; } v.push(format!("b{nb}")); nb += 1; }
            }
        }
        Some(v)
    }
    fn flags(&self, model: &str) -> String {
        let mut f = String::new();
        if self.args.iter().any(|a| matches!(a, A::Text(s) if !s.is_ascii())) { f.push_str(",nonascii"); }
        if self.args.iter().any(|a| matches!(a, A::Text(s) if s.is_empty())) { f.push_str(",empty"); }
        if matches!(self.name, "left" | "right" | "substr" | "lpad" | "rpad" | "repeat" | "locate")
            && self.args.iter().any(|a| matches!(a, A::Int(i) if *i < 0)) { f.push_str(",neg-count"); }
        if self.args.iter().any(|a| matches!(a, A::Int(i) if i.unsigned_abs() > (1u64 << 53))) { f.push_str(",big"); }
        else if self.args.iter().any(|a| matches!(a, A::Int(i) if i.unsigned_abs() > 1_000_000_000_000)) { f.push_str(",large"); }
        if self.args.iter().any(|a| matches!(a, A::Flt(x) if x.abs() >= 9.3e18)) { f.push_str(",huge"); }
        if model == "err overflow" { f.push_str(",overflow"); }
        if model == "err divzero" { f.push_str(",divzero"); }
        f
    }
    fn sig_head(&self, model: &str, path: &str) -> String {
        format!("fn:{}({}{})@{}", self.name, self.args.iter().map(|a| a.kind()).collect::<Vec<_>>().join(","), self.flags(model), path)
    }
}

fn kind_of_cell(c: &str) -> &'static str {
    match c.as_bytes()[0] { b'N' => "null", b'B' => "bool", b'I' => "int", b'F' => "float", b'T' => "text", _ => "other" }
}

fn rat_of_model(c: &str) -> Option<f64> {
    let r = c.strip_prefix('F')?;
    let (n, d) = r.split_once('/')?;
    Some(n.parse::<f64>().ok()? / d.parse::<f64>().ok()?)
}

/// does engine cell `e` agree with model cell `m`?
fn agree(m: &str, e: &str) -> bool {
    if m == e { return true; }
    match (m.as_bytes()[0], e.as_bytes()[0]) {
        (b'B', b'I') => (m == "B1" && e == "I1") || (m == "B0" && e == "I0"),
        (b'I', b'I') => false,
        (b'I', b'F') => {
            // an integer result delivered as DOUBLE must be the exact integer
            let mi: i128 = match m[1..].parse() { Ok(x) => x, Err(_) => return false };
            let f: f64 = match e[1..].parse() { Ok(x) => x, Err(_) => return false };
            f.is_finite() && f.fract() == 0.0 && f.abs() < 9.3e18 && (f as i128) == mi && mi.unsigned_abs() <= (1u128 << 53)
        }
        (b'F', b'F') | (b'F', b'I') => {
            let a = match rat_of_model(m) { Some(x) => x, None => return false };
            let b: f64 = match e[1..].parse() { Ok(x) => x, Err(_) => return false };
            (a - b).abs() <= 1e-12 * a.abs().max(b.abs()).max(1.0)
        }
        _ => false,
    }
}

fn must(db: &Dbh, sql: &str) {
    match db.exec(sql) {
        Out::Err(e) => { eprintln!("sql_fn: setup statement failed: {sql}: {e}"); std::process::exit(3); }
        Out::Panic(p) => { eprintln!("sql_fn: setup statement panicked: {sql}: {p}"); std::process::exit(3); }
        _ => {}
    }
}

enum Got { Cell(String), Err(String), Panic(String), NoRow(String) }

fn run_sql(db: &Dbh, sql: &str) -> Got {
    match db.exec(sql) {
        Out::Rows(rs) => {
            if rs.len() == 1 && rs[0].len() == 2 { Got::Cell(rs[0][1].clone()) } else { Got::NoRow(format!("{} rows", rs.len())) }
        }
        Out::Err(e) => Got::Err(e),
        Out::Panic(p) => Got::Panic(p),
        o => Got::NoRow(format!("{o:?}")),
    }
}

/// compare one engine outcome with the model response; returns Some((exp, got, detail)) on failure
fn judge(model: &str, got: &Got) -> Option<(String, String, String)> {
    match model {
        "err overflow" => match got {
            Got::Err(_) => None,
            Got::Panic(p) => Some(("error".into(), "panic".into(), format!("panic: {p}"))),
            Got::Cell(c) => Some(("error".into(), kind_of_cell(c).into(), format!("engine value {c}"))),
            Got::NoRow(d) => Some(("error".into(), "norow".into(), d.clone())),
        },
        "err divzero" => match got {
            Got::Err(_) => None,
            Got::Cell(c) if c == "N" => None,
            Got::Panic(p) => Some(("null-or-error".into(), "panic".into(), format!("panic: {p}"))),
            Got::Cell(c) => Some(("null-or-error".into(), kind_of_cell(c).into(), format!("engine value {c}"))),
            Got::NoRow(d) => Some(("null-or-error".into(), "norow".into(), d.clone())),
        },
        m => {
            let mc = &m[3..];
            let exp = kind_of_cell(mc).to_string();
            match got {
                Got::Cell(c) => {
                    if agree(mc, c) { None } else {
                        let k = kind_of_cell(c);
                        let same = k == exp || (exp == "bool" && k == "int");
                        Some((exp, if same { format!("{k}-wrong") } else { k.to_string() }, format!("reference {mc}, engine {c}")))
                    }
                }
                Got::Err(e) => Some((exp, format!("error:{}", error_class(e)), format!("reference {mc}, engine error {e}"))),
                Got::Panic(p) => Some((exp, "panic".into(), format!("reference {mc}, engine panic: {p}"))),
                Got::NoRow(d) => Some((exp, "norow".into(), format!("reference {mc}, engine {d}"))),
            }
        }
    }
}

// ------------------------------------------------------------------ generator

const MIN: i64 = i64::MIN;
const MAX: i64 = i64::MAX;
const INTS: &[i64] = &[MIN, MIN + 1, -9007199254740993, -10, -3, -1, 0, 1, 2, 3, 7, 10, 9007199254740993, MAX - 1, MAX];
const SMALL: &[i64] = &[-3, -1, 0, 1, 2, 3, 5, 10];
const TEXTS: &[&str] = &["", "a", "abc", "héllo", "日本語", "e\u{301}x", "😀a😀", " a b ", "ababa", "\u{a0}x\t", "12", "-7", "Ab-Z"];
const NEEDLES: &[&str] = &["", "a", "b", "l", "é", "本", "😀", "aba", "x", "\u{301}"];
const FLOATS: &[f64] = &[0.0, 0.5, -0.5, 1.25, -1.25, 2.5, -2.5, 1.75, -1.75, 100.0, 1234.5, 1180591620717411303424.0, -1180591620717411303424.0];
/// characters whose case mapping is not ASCII: UPPER/LOWER are defined on ASCII only
fn cased_nonascii(s: &str) -> bool { s.chars().any(|c| !c.is_ascii() && (c.is_lowercase() || c.is_uppercase())) }

fn ints(v: &[i64]) -> Vec<A> { v.iter().map(|i| A::Int(*i)).collect() }
fn texts(v: &[&str]) -> Vec<A> { v.iter().map(|s| A::Text(s.to_string())).collect() }
fn floats(v: &[f64]) -> Vec<A> { v.iter().map(|f| A::Flt(*f)).collect() }

fn product(name: &'static str, tys: &[T], pools: &[Vec<A>], out: &mut Vec<Case>) {
    let mut idx = vec![0usize; pools.len()];
    loop {
        out.push(Case { name, tys: tys.to_vec(), args: idx.iter().enumerate().map(|(k, i)| pools[k][*i].clone()).collect() });
        let mut k = pools.len();
        loop {
            if k == 0 { return; }
            k -= 1;
            idx[k] += 1;
            if idx[k] < pools[k].len() { break; }
            idx[k] = 0;
        }
    }
}

/// NULL in every argument position (other arguments take the first two pool values)
fn null_positions(name: &'static str, tys: &[T], pools: &[Vec<A>], out: &mut Vec<Case>) {
    for p in 0..pools.len() {
        for variant in 0..2usize {
            let args: Vec<A> = (0..pools.len()).map(|k| if k == p { A::Null } else { pools[k][(variant * 3 + 1) % pools[k].len()].clone() }).collect();
            out.push(Case { name, tys: tys.to_vec(), args });
        }
    }
    out.push(Case { name, tys: tys.to_vec(), args: vec![A::Null; pools.len()] });
}

fn rand_text(rng: &mut Rng) -> String {
    let alpha = ["a", "b", "c", "l", "é", "日", "😀", "\u{301}", " ", "Z", "1", "\t", "\u{a0}", "x"];
    let n = rng.below(7) as usize;
    (0..n).map(|_| *rng.pick(&alpha)).collect()
}

fn rand_int(rng: &mut Rng) -> i64 {
    match rng.below(6) {
        0 => *rng.pick(INTS),
        1 => rng.next() as i64,
        2 => MAX - rng.below(1000) as i64,
        3 => MIN + rng.below(1000) as i64,
        4 => rng.range(-1000, 1000),
        _ => { let sh = rng.below(63); (rng.next() as i64) >> sh }
    }
}

fn rand_flt(rng: &mut Rng) -> f64 {
    if rng.chance(1, 8) { return *rng.pick(FLOATS); }
    rng.range(-40000, 40000) as f64 / 8.0
}

struct Sigt { name: &'static str, tys: Vec<T>, pools: Vec<Vec<A>>, random: bool }

fn signatures() -> Vec<Sigt> {
    use T::*;
    let i = || ints(INTS);
    let sm = || ints(SMALL);
    let tx = || texts(TEXTS);
    let nd = || texts(NEEDLES);
    let fl = || floats(FLOATS);
    let mut v: Vec<Sigt> = vec![];
    let mut add = |name: &'static str, tys: Vec<T>, pools: Vec<Vec<A>>| v.push(Sigt { name, tys, pools, random: true });
    for n in ["char_length", "length", "upper", "lower", "reverse", "trim", "ltrim", "rtrim", "ascii"] {
        add(n, vec![S], vec![tx()]);
    }
    add("char_length", vec![I], vec![ints(&[0, -12, 12345, MAX, MIN])]);
    add("length", vec![I], vec![ints(&[0, -12, 12345, MAX, MIN])]);
    add("reverse", vec![I], vec![ints(&[0, -12, 12345])]);
    add("substr", vec![S, I], vec![tx(), ints(&[-10, -3, -1, 0, 1, 2, 3, 5, 10])]);
    add("substr", vec![S, I, I], vec![tx(), ints(&[-10, -3, -1, 0, 1, 2, 3, 10]), ints(&[-1, 0, 1, 2, 10])]);
    add("left", vec![S, I], vec![tx(), sm()]);
    add("right", vec![S, I], vec![tx(), sm()]);
    add("locate", vec![S, S], vec![nd(), tx()]);
    add("locate", vec![S, S, I], vec![nd(), tx(), ints(&[-1, 0, 1, 2, 3, 10])]);
    add("instr", vec![S, S], vec![tx(), nd()]);
    // negative lengths are generated for LPAD only: RPAD with a negative length loops pushing
    // 2^64 characters (would exhaust memory) -- see the note in the report
    add("lpad", vec![S, I, S], vec![tx(), ints(&[-1, 0, 1, 2, 3, 5, 10]), texts(&["", "x", "xy", "é😀"])]);
    add("rpad", vec![S, I, S], vec![tx(), ints(&[0, 1, 2, 3, 5, 10]), texts(&["", "x", "xy", "é😀"])]);
    add("replace", vec![S, S, S], vec![tx(), nd(), texts(&["", "X", "é", "aa"])]);
    add("concat", vec![S, S], vec![tx(), tx()]);
    add("concat", vec![S, I, S], vec![texts(&["a", "é"]), ints(&[0, -5, MAX, MIN]), texts(&["", "z"])]);
    add("concat", vec![S], vec![tx()]);
    add("concat_op", vec![S, S], vec![tx(), tx()]);
    add("concat_ws", vec![S, S, S], vec![texts(&[",", "", "é", "--"]), texts(&["a", "", "日本語"]), texts(&["b", "", "😀"])]);
    add("concat_ws", vec![S, I, I], vec![texts(&["-"]), ints(&[1, -2, MAX]), ints(&[0, MIN])]);
    add("repeat", vec![S, I], vec![tx(), ints(&[-1, 0, 1, 2, 3])]);
    add("abs", vec![I], vec![i()]);
    add("abs", vec![F], vec![fl()]);
    add("sign", vec![I], vec![i()]);
    add("sign", vec![F], vec![fl()]);
    add("neg", vec![I], vec![i()]);
    add("neg", vec![F], vec![fl()]);
    for n in ["add", "sub", "mul", "div", "rem", "mod"] { add(n, vec![I, I], vec![i(), i()]); }
    add("mul", vec![I, I], vec![ints(&[3037000500, -3037000500, 4294967296, 2000000000000]), ints(&[3037000500, 3037000499, -4294967296, 2000000000000, 4611686])]);
    for n in ["add", "sub", "mul", "div"] {
        add(n, vec![F, I], vec![floats(&[0.0, 0.5, -1.25, 2.5, 100.0]), ints(&[-3, 0, 1, 2, 10])]);
        add(n, vec![F, F], vec![floats(&[0.0, 0.5, -1.25, 2.5, 100.0]), floats(&[0.0, 0.5, -2.0, 4.0])]);
        add(n, vec![I, F], vec![ints(&[-3, 0, 1, 2, 10]), floats(&[0.0, 0.5, -2.0, 4.0])]);
    }
    add("power", vec![I, I], vec![ints(&[-3, -2, -1, 1, 2, 3, 10]), ints(&[-2, -1, 0, 1, 2, 3, 10])]);
    add("power", vec![F, I], vec![floats(&[0.5, -0.5, 1.25, 2.5, -2.5]), ints(&[-2, -1, 0, 1, 2, 3])]);
    add("power", vec![I, I], vec![ints(&[0]), ints(&[0, 1, 2])]);
    add("round", vec![I], vec![i()]);
    add("round", vec![F], vec![fl()]);
    add("round", vec![F, I], vec![fl(), ints(&[-2, -1, 0, 1, 2, 3])]);
    add("round", vec![I, I], vec![ints(&[-1250, -1234, -15, -5, 0, 5, 14, 15, 1234, 1250, 1999, 7798258500147254, -7798258500147254, 9007199254740993]), ints(&[-3, -2, -1, 0, 1, 2])]);
    add("truncate", vec![F, I], vec![fl(), ints(&[-2, -1, 0, 1, 2, 3])]);
    add("truncate", vec![I, I], vec![ints(&[-1999, -15, 0, 15, 1999, 7798258500147254, 9007199254740993]), ints(&[-3, -2, -1, 0, 1])]);
    add("floor", vec![F], vec![fl()]);
    add("floor", vec![I], vec![i()]);
    add("ceil", vec![F], vec![fl()]);
    add("ceil", vec![I], vec![i()]);
    for n in ["greatest", "least"] {
        add(n, vec![I, I], vec![i(), i()]);
        add(n, vec![I, I, I], vec![ints(&[MIN, -1, 0, 5, MAX]), ints(&[-2, 5, MAX]), ints(&[MIN, 0, 7])]);
        add(n, vec![F, F], vec![fl(), floats(&[0.0, -1.25, 2.5, 1234.5])]);
        add(n, vec![S, S], vec![tx(), texts(&["", "a", "b", "é", "Z"])]);
        add(n, vec![I], vec![ints(&[MIN, 0, MAX])]);
    }
    add("coalesce", vec![I, I], vec![i(), ints(&[0, 7])]);
    add("coalesce", vec![S, S, S], vec![texts(&["", "é"]), texts(&["b"]), texts(&["c"])]);
    add("coalesce", vec![F, I], vec![floats(&[0.0, 2.5]), ints(&[7])]);
    add("ifnull", vec![I, I], vec![i(), ints(&[0, 7])]);
    add("ifnull", vec![S, S], vec![tx(), texts(&["", "alt"])]);
    add("nullif", vec![I, I], vec![i(), i()]);
    add("nullif", vec![S, S], vec![tx(), texts(&["", "a", "héllo", "A"])]);
    add("nullif", vec![F, F], vec![floats(&[0.0, 0.5, 2.5]), floats(&[0.0, 0.5, -2.5])]);
    for n in ["if", "case"] {
        add(n, vec![I, I, I], vec![ints(&[MIN, -1, 0, 1, 2, MAX]), ints(&[10, MAX]), ints(&[20, MIN])]);
        add(n, vec![I, S, S], vec![ints(&[-1, 0, 1]), texts(&["yes", "é"]), texts(&["no", ""])]);
    }
    add("cast_int", vec![I], vec![i()]);
    add("cast_int", vec![F], vec![fl()]);
    add("cast_int", vec![B], vec![vec![A::Bool(true), A::Bool(false)]]);
    add("cast_int", vec![S], vec![texts(&["0", "12", "-7", "+5", "007", "9223372036854775807", "-9223372036854775808", "9223372036854775808",
        "-9223372036854775809", "", " 12", "12 ", "1.5", "12abc", "abc", "-", "+", "1e3", "١٢", "--5"])]);
    add("cast_text", vec![I], vec![i()]);
    add("cast_text", vec![F], vec![floats(&[0.0, 0.5, -0.5, 1.25, -1.25, 2.5, 100.0, -100.0, 1234.5, 0.125])]);
    add("cast_text", vec![S], vec![tx()]);
    add("cast_bool", vec![I], vec![i()]);
    add("cast_bool", vec![F], vec![floats(&[0.0, 0.5, -2.5])]);
    add("cast_bool", vec![B], vec![vec![A::Bool(true), A::Bool(false)]]);
    add("cast_bool", vec![S], vec![texts(&["true", "TRUE", "t", "T", "1", "yes", "Yes", "on", "ON", "false", "False", "f", "0", "no", "off", "OFF", "", "x", "2", "tru", " true", "y", "n"])]);
    add("cast_float", vec![I], vec![ints(&[-9007199254740992, -10, -1, 0, 1, 7, 4503599627370496, 9007199254740992])]);
    add("cast_float", vec![F], vec![fl()]);
    v
}

fn rand_arg(rng: &mut Rng, s: &Sigt, k: usize) -> A {
    if rng.chance(1, 12) { return A::Null; }
    if rng.chance(1, 2) { return rng.pick(&s.pools[k]).clone(); }
    // random values stay inside the envelope of the systematic pool for count-like arguments
    let small_pool = s.pools[k].iter().all(|a| matches!(a, A::Int(i) if i.unsigned_abs() <= 20));
    match s.tys[k] {
        T::I => if small_pool {
            let lo = s.pools[k].iter().map(|a| if let A::Int(i) = a { *i } else { 0 }).min().unwrap_or(0);
            let hi = s.pools[k].iter().map(|a| if let A::Int(i) = a { *i } else { 0 }).max().unwrap_or(0);
            A::Int(rng.range(lo, hi))
        } else if s.pools[k].iter().all(|a| matches!(a, A::Int(i) if i.unsigned_abs() <= (1u64 << 53))) {
            A::Int(rng.range(-2000, 2000))
        } else { A::Int(rand_int(rng)) },
        T::F => if s.pools[k].iter().any(|a| matches!(a, A::Flt(f) if f.abs() > 1e18)) { A::Flt(rand_flt(rng)) } else { A::Flt(rng.range(-800, 800) as f64 / 8.0) },
        T::S => if matches!(s.name, "cast_int" | "cast_bool") { rng.pick(&s.pools[k]).clone() } else { A::Text(rand_text(rng)) },
        T::B => A::Bool(rng.chance(1, 2)),
    }
}

/// cases the reference does not define or that are outside the compared dialect
fn excluded(c: &Case) -> Option<&'static str> {
    if matches!(c.name, "upper" | "lower") && c.args.iter().any(|a| matches!(a, A::Text(s) if cased_nonascii(s))) {
        return Some("excluded_nonascii_case_mapping");
    }
    if c.name == "power" {
        let zero = matches!(c.args.first(), Some(A::Int(0))) || matches!(c.args.first(), Some(A::Flt(f)) if *f == 0.0);
        if zero && matches!(c.args.get(1), Some(A::Int(e)) if *e < 0) { return Some("excluded_power_zero_negative"); }
    }
    if c.name == "rpad" { if let Some(A::Int(n)) = c.args.get(1) { if *n < 0 { return Some("excluded_rpad_negative_length_would_exhaust_memory"); } } }
    if matches!(c.name, "lpad" | "rpad" | "repeat") { if let Some(A::Int(n)) = c.args.get(1) { if *n > 10000 { return Some("excluded_huge_count"); } } }
    None
}

const BATCH: usize = 200;

pub fn run(ctx: &Ctx) -> Report {
    let mut rep = Report::new(
        "sql_fn",
        "cases = function x declared argument types x values; systematic layer: full product of boundary pools per signature \
         (i64 MIN/MIN+1/+-(2^53+1)/small/MAX-1/MAX; strings with 2-, 3-, 4-byte code points, combining mark, NBSP/tab; dyadic \
         doubles incl. +-2^70) plus NULL in every argument position; random layer on the same signatures; every case runs with \
         arguments in table columns (path col) and as literals (path lit). Not generated: non-ASCII cased letters for UPPER/LOWER \
         (Unicode case mapping is outside the reference), POWER(0, negative), RPAD with negative length (would loop to memory \
         exhaustion in eval_rpad), date/time functions (C41). non-trivial = distinct case whose reference result is not NULL",
    );
    if std::env::var("VERIF_DEBUG").is_ok() { let _ = std::panic::take_hook(); }
    let mut rng = Rng::new(ctx.seed);
    let sigs = signatures();
    let mut cases: Vec<Case> = vec![];
    for l in ctx.corpus_cases("C20") {
        match Case::parse(&l) { Some(c) => cases.push(c), None => rep.notes.push(format!("unparsable corpus line: {l}")) }
    }
    let n_corpus = cases.len();
    for s in &sigs {
        product(s.name, &s.tys, &s.pools, &mut cases);
        null_positions(s.name, &s.tys, &s.pools, &mut cases);
    }
    let n_sys = cases.len() - n_corpus;
    let nrand = if ctx.thorough { 40000 } else { 4000 };
    for _ in 0..nrand {
        let s = rng.pick(&sigs);
        if !s.random { continue; }
        let args: Vec<A> = (0..s.tys.len()).map(|k| rand_arg(&mut rng, s, k)).collect();
        cases.push(Case { name: s.name, tys: s.tys.clone(), args });
    }
    rep.notes.push(format!("corpus {n_corpus}, systematic {n_sys}, random {}", cases.len() - n_corpus - n_sys));
    // drop excluded and duplicate cases
    let mut seen = std::collections::HashSet::new();
    let mut kept: Vec<Case> = vec![];
    for c in cases {
        if let Some(why) = excluded(&c) { rep.count(why); continue; }
        if c.columns().is_none() { rep.count("excluded_too_many_args"); continue; }
        if seen.insert(fnv(&c.line())) { kept.push(c); }
    }
    // model answers in one batch
    let reqs: Vec<String> = kept.iter().map(|c| c.model_req()).collect();
    let answers = model_batch(&ctx.model_bin, "sqlfn", &reqs);
    // M-code correspondence for INSTR: the pinned eval_instr is modelled as `instrImpl` (byte offsets)
    let instr_idx: Vec<usize> = kept.iter().enumerate().filter(|(_, c)| c.name == "instr" && c.args.iter().all(|a| matches!(a, A::Text(_)))).map(|(i, _)| i).collect();
    let instr_reqs: Vec<String> = instr_idx.iter().map(|i| match (&kept[*i].args[0], &kept[*i].args[1]) { (A::Text(h), A::Text(n)) => format!("instr_impl {} {}", hex(h.as_bytes()), hex(n.as_bytes())), _ => unreachable!() }).collect();
    let instr_ans = model_batch(&ctx.model_bin, "sqlfn", &instr_reqs);
    let instr_impl: std::collections::HashMap<usize, String> = instr_idx.iter().cloned().zip(instr_ans.into_iter()).collect();

    let one = Dbh::create(ctx, "c20-one");
    one.must("CREATE TABLE one (id INT, z INT)");
    one.must("INSERT INTO one VALUES (1, 0)");

    for (bi, chunk) in kept.chunks(BATCH).enumerate() {
        let db = Dbh::create(ctx, &format!("c20-{bi}"));
        db.must("CREATE TABLE a (id INT, i0 BIGINT, i1 BIGINT, i2 BIGINT, s0 TEXT, s1 TEXT, s2 TEXT, d0 DOUBLE, d1 DOUBLE, b0 BOOLEAN)");
        for (k, c) in chunk.iter().enumerate() {
            let cols = c.columns().unwrap();
            let mut vals: Vec<(String, String)> = vec![("id".into(), format!("{}", k + 1))];
            for (col, a) in cols.iter().zip(&c.args) { vals.push((col.clone(), a.insert_sql())); }
            let sql = format!("INSERT INTO a ({}) VALUES ({})", vals.iter().map(|v| v.0.clone()).collect::<Vec<_>>().join(", "), vals.iter().map(|v| v.1.clone()).collect::<Vec<_>>().join(", "));
            must(&db, &sql);
        }
        for (k, c) in chunk.iter().enumerate() {
            let gi = bi * BATCH + k;
            let model = answers[gi].as_str();
            if model == "bad-op" || model == "err type" || !(model.starts_with("ok ") || model.starts_with("err ")) {
                rep.count(&format!("skipped_model_{}", model.replace(' ', "_")));
                continue;
            }
            let line = c.line();
            rep.case(if model != "ok N" { Some(&line) } else { None });
            rep.count(&format!("fn_{}", c.name));
            rep.count(&format!("ref_{}", if model.starts_with("ok ") { kind_of_cell(&model[3..]) } else { model }));
            if c.args.iter().any(|a| *a == A::Null) { rep.count("has_null_arg"); }
            if c.args.iter().any(|a| matches!(a, A::Text(s) if !s.is_ascii())) { rep.count("has_nonascii_arg"); }
            if rep.evaluations % 977 == 0 { rep.sample(format!("{line} -> reference {model}")); }
            let cols = c.columns().unwrap();
            let e_col = render(c.name, &cols).unwrap();
            let e_lit = render(c.name, &c.args.iter().map(|a| a.sql()).collect::<Vec<_>>()).unwrap();
            let q_col = format!("SELECT id, {e_col} FROM a WHERE id = {}", k + 1);
            let q_lit = format!("SELECT id, {e_lit} FROM one WHERE id > 0");
            for (path, dbh, q) in [("col", &db, &q_col), ("lit", &one, &q_lit)] {
                let got = run_sql(dbh, q);
                if let Some(m) = instr_impl.get(&gi) {
                    rep.count("instr_impl_compared");
                    let ok = matches!(&got, Got::Cell(c) if m.strip_prefix("ok ") == Some(c.as_str()));
                    if !ok { rep.disagree(line.clone(), format!("{q}: M-code instrImpl says {m}, engine {}", match &got { Got::Cell(c) => c.clone(), Got::Err(e) => format!("error {e}"), Got::Panic(p) => format!("panic {p}"), Got::NoRow(d) => d.clone() }), "instr-impl".into()); }
                }
                if let Some((exp, g, detail)) = judge(model, &got) {
                    rep.oracle_fail(line.clone(), format!("{q}: {detail}"), format!("{} exp={} got={}", c.sig_head(model, path), exp, g));
                }
            }
        }
    }
    let _ = cell_of;
    rep
}
