//! C23: decoders of stored bytes reject corruption without crashing.
//!
//! Every case is `<op words> @ <zhex buffer>`: the op is evaluated on the real decoder (under
//! catch_unwind, on a watched helper thread) and on the Lean guard-structure model (family `dec`,
//! plus the existing `varint` / `key` / `json` families).  Model and code must agree on the
//! outcome line (`ok <payload>` / `err` / `oob` / `arith` / `expect`); a panic or hang of the real
//! decoder is a violation of the property itself (oracle failure) whether or not the model
//! predicts it.  File-level cases (`open-corrupt ...`) live in decfuzz_file.rs.
use crate::common::*;
use std::cell::RefCell;
use std::collections::BTreeMap;
use std::sync::{mpsc, Arc};
use std::time::Duration;
use turdb::btree::{InteriorNode, InteriorNodeMut, LeafNode, LeafNodeMut};
use turdb::hnsw::storage::{HnswFileHeader, HnswPage, HnswPageRef};
use turdb::records::{ArrayBuilder, ArrayView, ColumnDef, DataType, JsonbView, RecordBuilder, RecordView, Schema};
use turdb::schema::persistence::CatalogPersistence;
use turdb::schema::Catalog;
use turdb::storage::{validate_page, IndexFileHeader, MetaFileHeader, TableFileHeader, WalFrameHeader, WalSegment};

pub const PAGE: usize = 16384;

// ------------------------------------------------------------------ panic capture

thread_local! {
    static LOC: RefCell<Option<String>> = const { RefCell::new(None) };
}

pub fn rel_path(f: &str) -> String {
    if let Some(i) = f.rfind("/repo/") {
        return f[i + 6..].to_string();
    }
    if let Some(i) = f.find("/library/") {
        return f[i + 1..].to_string();
    }
    if let Some(i) = f.find("/registry/src/") {
        let r = &f[i + 14..];
        return r.splitn(2, '/').nth(1).unwrap_or(r).to_string();
    }
    f.to_string()
}

/// install a hook that records the panic location of the panicking thread
pub fn install_loc_hook() {
    std::panic::set_hook(Box::new(|info| {
        let loc = info.location().map(|l| format!("{}:{}", rel_path(l.file()), l.line())).unwrap_or_else(|| "?".into());
        if std::env::var("DECFUZZ_DEBUG").is_ok() {
            eprintln!("panic: {info}");
        }
        LOC.with(|c| *c.borrow_mut() = Some(loc));
    }));
}
pub fn restore_silent_hook() {
    std::panic::set_hook(Box::new(|_| {}));
}

pub fn panic_class(msg: &str) -> &'static str {
    if msg.contains("out of range") || msg.contains("out of bounds") || msg.contains("slice index starts at") {
        "oob"
    } else if msg.contains("with overflow") {
        "arith"
    } else if msg.contains("capacity overflow") {
        "capacity"
    } else {
        "expect"
    }
}

#[derive(Clone, Debug)]
pub struct Out {
    /// `ok <payload>` | `err[ <tag>]` | `oob` | `arith` | `expect` | `capacity` | `hang`
    pub line: String,
    pub loc: String,
    pub msg: String,
}
impl Out {
    pub fn is_panic(&self) -> bool {
        !(self.line.starts_with("ok") || self.line.starts_with("err"))
    }
}

/// run one decoder call; `f` returns Ok(payload) / Err(error text)
pub fn real_call(f: impl FnOnce() -> Result<String, String>) -> Out {
    LOC.with(|c| *c.borrow_mut() = None);
    match guarded(std::panic::AssertUnwindSafe(f)) {
        Ok(Ok(p)) => Out { line: format!("ok {p}"), loc: String::new(), msg: String::new() },
        Ok(Err(e)) => Out { line: "err".into(), loc: String::new(), msg: e },
        Err(m) => {
            let loc = LOC.with(|c| c.borrow_mut().take()).unwrap_or_else(|| "?".into());
            Out { line: panic_class(&m).to_string(), loc, msg: m }
        }
    }
}

// ------------------------------------------------------------------ buffers in `zhex`

pub fn zhex(b: &[u8]) -> String {
    if b.is_empty() {
        return "-".into();
    }
    const H: &[u8; 16] = b"0123456789abcdef";
    let mut s = String::with_capacity(64);
    let mut i = 0;
    let mut open = false; // a hex segment is open
    while i < b.len() {
        let mut j = i;
        while j < b.len() && b[j] == b[i] {
            j += 1;
        }
        let run = j - i;
        if run >= 8 {
            if !s.is_empty() {
                s.push('.');
            }
            if b[i] == 0 {
                s.push_str(&format!("z{run}"));
            } else {
                s.push_str(&format!("r{:02x}x{run}", b[i]));
            }
            open = false;
            i = j;
        } else {
            if !open {
                if !s.is_empty() {
                    s.push('.');
                }
                open = true;
            }
            for _ in 0..run {
                s.push(H[(b[i] >> 4) as usize] as char);
                s.push(H[(b[i] & 15) as usize] as char);
            }
            i = j;
        }
    }
    s
}

pub fn unzhex(s: &str) -> Option<Vec<u8>> {
    if s == "-" {
        return Some(vec![]);
    }
    let mut out = vec![];
    for seg in s.split('.') {
        if let Some(n) = seg.strip_prefix('z') {
            out.extend(std::iter::repeat(0u8).take(n.parse().ok()?));
        } else if let Some(r) = seg.strip_prefix('r') {
            let (h, n) = r.split_once('x')?;
            let b = u8::from_str_radix(h, 16).ok()?;
            out.extend(std::iter::repeat(b).take(n.parse().ok()?));
        } else {
            if seg.len() % 2 != 0 {
                return None;
            }
            for k in 0..seg.len() / 2 {
                out.push(u8::from_str_radix(&seg[2 * k..2 * k + 2], 16).ok()?);
            }
        }
    }
    Some(out)
}

fn hx(b: &[u8]) -> String {
    hex(b)
}
fn tf(b: bool) -> String {
    if b { "t".into() } else { "f".into() }
}
fn es(e: eyre::Report) -> String {
    e.to_string()
}

// ------------------------------------------------------------------ real evaluators

pub fn mk_schema(spec: &str) -> Schema {
    let mut cols = vec![];
    if spec != "-" {
        for (i, w) in spec.split(',').enumerate() {
            let dt = match w {
                "v" => DataType::Blob,
                "1" => DataType::Bool,
                "2" => DataType::Int2,
                "4" => DataType::Int4,
                "8" => DataType::Int8,
                "12" => DataType::TimestampTz,
                "16" => DataType::Uuid,
                "6" => DataType::MacAddr,
                "9" => DataType::Int4Range,
                "17" => DataType::Int8Range,
                "24" => DataType::Circle,
                "32" => DataType::Box,
                _ => panic!("harness: unsupported column width {w}"),
            };
            cols.push(ColumnDef::new(format!("c{i}"), dt));
        }
    }
    Schema::new(cols)
}

fn show_range<T: Copy>(r: &turdb::records::Range<T>, le: impl Fn(T) -> Vec<u8>) -> String {
    if r.is_empty {
        "empty".into()
    } else {
        let b = |o: Option<T>| o.map(|x| hx(&le(x))).unwrap_or_else(|| "-".into());
        format!("{} {} {} {}", b(r.lower), b(r.upper), r.lower_inclusive as u8, r.upper_inclusive as u8)
    }
}

fn opt_show<T>(o: Option<T>, f: impl Fn(T) -> String) -> String {
    match o {
        None => "none".into(),
        Some(x) => format!("some {}", f(x)),
    }
}

fn rv_op(v: &RecordView, op: &str, c: usize) -> Result<String, String> {
    let (o, base) = match op.strip_prefix('o') {
        Some(b) if !matches!(op, "o") => (true, b),
        _ => (false, op),
    };
    macro_rules! g {
        ($plain:ident, $opt:ident, $show:expr) => {
            if o {
                v.$opt(c).map(|x| opt_show(x, $show)).map_err(es)
            } else {
                v.$plain(c).map($show).map_err(es)
            }
        };
    }
    match op {
        "new" => return Ok("-".into()),
        "hl" => return Ok(v.header_len().to_string()),
        "null" => return Ok(tf(v.is_null(c))),
        "vb" => return v.get_var_bounds(c).map(|(a, b)| format!("{a} {b}")).map_err(es),
        "rcc" => return Ok(v.record_column_count().to_string()),
        "nom" => return Ok(tf(v.is_null_or_missing(c))),
        _ => {}
    }
    let parts: Vec<&str> = base.split(':').collect();
    match parts.as_slice() {
        ["fixed", "2"] => g!(get_int2, get_int2_opt, |x: i16| hx(&x.to_le_bytes())),
        ["fixed", "4"] => g!(get_int4, get_int4_opt, |x: i32| hx(&x.to_le_bytes())),
        ["fixed", "8"] => g!(get_int8, get_int8_opt, |x: i64| hx(&x.to_le_bytes())),
        ["fixed", "16"] => g!(get_uuid, get_uuid_opt, |x: &[u8; 16]| hx(x)),
        ["fixed", "6"] => g!(get_macaddr, get_macaddr_opt, |x: &[u8; 6]| hx(x)),
        ["bool"] => g!(get_bool, get_bool_opt, tf),
        ["fields", "8+4"] => g!(get_timestamptz, get_timestamptz_opt, |(a, b): (i64, i32)| format!("{}+{}", hx(&a.to_le_bytes()), hx(&b.to_le_bytes()))),
        ["fields", "8+4+4"] => g!(get_interval, get_interval_opt, |(a, b, c2): (i64, i32, i32)| format!("{}+{}+{}", hx(&a.to_le_bytes()), hx(&b.to_le_bytes()), hx(&c2.to_le_bytes()))),
        ["fields", "2+2"] => g!(get_enum, get_enum_opt, |(a, b): (u16, u16)| format!("{}+{}", hx(&a.to_le_bytes()), hx(&b.to_le_bytes()))),
        ["fields", "8+8"] => g!(get_point, get_point_opt, |(a, b): (f64, f64)| format!("{}+{}", hx(&a.to_bits().to_le_bytes()), hx(&b.to_bits().to_le_bytes()))),
        ["fields", "8+8+8"] => g!(get_circle, get_circle_opt, |((a, b), r): ((f64, f64), f64)| format!("{}+{}+{}", hx(&a.to_bits().to_le_bytes()), hx(&b.to_bits().to_le_bytes()), hx(&r.to_bits().to_le_bytes()))),
        ["fields", "8+8+8+8"] => g!(get_box, get_box_opt, |((a, b), (c2, d)): ((f64, f64), (f64, f64))| format!(
            "{}+{}+{}+{}",
            hx(&a.to_bits().to_le_bytes()),
            hx(&b.to_bits().to_le_bytes()),
            hx(&c2.to_bits().to_le_bytes()),
            hx(&d.to_bits().to_le_bytes())
        )),
        ["blob"] => g!(get_blob, get_blob_opt, |x: &[u8]| hx(x)),
        ["text"] => g!(get_text, get_text_opt, |x: &str| hx(x.as_bytes())),
        ["minlen", "4"] => g!(get_jsonb, get_jsonb_opt, |x: JsonbView| hx(x.data())),
        ["minlen", "8"] => g!(get_array, get_array_opt, |_x: ArrayView| "-".to_string()),
        ["vec"] => {
            let sh = |x: Vec<f32>| if x.is_empty() { "-".to_string() } else { x.iter().map(|f| f.to_bits().to_string()).collect::<Vec<_>>().join(",") };
            if o {
                v.get_vector_opt(c).map(|x| opt_show(x, sh)).map_err(es)
            } else {
                v.get_vector_copy(c).map(sh).map_err(es)
            }
        }
        ["range", "4"] => g!(get_int4_range, get_int4_range_opt, |r: turdb::records::Range<i32>| show_range(&r, |x| x.to_le_bytes().to_vec())),
        ["range", "8"] => g!(get_int8_range, get_int8_range_opt, |r: turdb::records::Range<i64>| show_range(&r, |x| x.to_le_bytes().to_vec())),
        _ => panic!("harness: unknown recordview op {op}"),
    }
}

fn cat_err_tag(m: &str) -> String {
    if let Some(r) = m.strip_prefix("unexpected end of data reading ") {
        format!("eof:{r}")
    } else if let Some(r) = m.strip_prefix("invalid UTF-8 in ") {
        format!("utf8:{}", r.split(':').next().unwrap_or(r))
    } else if m.starts_with("unknown data type byte") {
        "unknown data type".into()
    } else if m.starts_with("unknown constraint type") {
        "unknown constraint type".into()
    } else if m.starts_with("unknown index type") {
        "unknown index type".into()
    } else if m.contains("not found in catalog during deserialization") {
        "schema not found".into()
    } else {
        format!("?{m}")
    }
}

fn dump_catalog(cat: &Catalog) -> String {
    use turdb::schema::table::Constraint;
    let mut entries: Vec<(String, String)> = vec![];
    for (sname, schema) in cat.schemas() {
        for (tname, t) in schema.tables() {
            let key = format!("{}/{}", hx(sname.as_bytes()), hx(tname.as_bytes()));
            let pk = match t.primary_key() {
                None => "-".to_string(),
                Some(ns) => format!("P{}", ns.iter().map(|n| hx(n.as_bytes())).collect::<Vec<_>>().join("+")),
            };
            let toast = t.toast_id().map(|x| x.to_string()).unwrap_or_else(|| "-".into());
            let mut parts = vec![format!("T{}:{}:{}", t.id(), pk, toast)];
            for c in t.columns() {
                let cs: Vec<String> = c
                    .constraints()
                    .iter()
                    .map(|k| match k {
                        Constraint::NotNull => "0",
                        Constraint::PrimaryKey => "1",
                        Constraint::Unique => "2",
                        Constraint::ForeignKey { .. } => "3",
                        Constraint::Check(_) => "4",
                        Constraint::AutoIncrement => "5",
                    }.to_string())
                    .collect();
                parts.push(format!(
                    "C{}:{}:{}:{}:{}",
                    hx(c.name().as_bytes()),
                    c.data_type() as u8,
                    if cs.is_empty() { "-".to_string() } else { cs.join(",") },
                    tf(c.default_value().is_some()),
                    c.max_length().map(|m| m.to_string()).unwrap_or_else(|| "-".into())
                ));
            }
            for i in t.indexes() {
                let cols: Vec<String> = i.column_defs().iter().map(|d| format!("{}/{}", hx(d.as_column().unwrap_or("").as_bytes()), d.is_desc() as u8)).collect();
                let ty = match i.index_type() {
                    turdb::schema::IndexType::BTree => 0,
                    turdb::schema::IndexType::Hnsw => 1,
                };
                parts.push(format!("I{}:{}:{}:{}", hx(i.name().as_bytes()), tf(i.is_unique()), ty, if cols.is_empty() { "-".to_string() } else { cols.join("+") }));
            }
            entries.push((key, parts.join(" ")));
        }
    }
    entries.sort();
    if entries.is_empty() {
        "-".into()
    } else {
        entries.iter().map(|(k, v)| format!("{k} {v}")).collect::<Vec<_>>().join(" | ")
    }
}

pub struct Env {
    pub scratch: String,
}

/// evaluate one op (words of the model protocol) on the real code; may panic
fn eval_real(env: &Env, w: &[&str], buf: &[u8]) -> Result<String, String> {
    let n = |s: &str| -> usize { s.parse().expect("harness: numeric op argument") };
    match w {
        ["rv", sch, op, col] => {
            let schema = mk_schema(sch);
            let v = RecordView::new(buf, &schema).map_err(es)?;
            rv_op(&v, op, n(col))
        }
        ["validate"] => validate_page(buf).map(|_| "-".into()).map_err(es),
        ["leaf", "from"] => LeafNode::from_page(buf).map(|_| "-".into()).map_err(es),
        ["leaf", "cc"] => LeafNode::from_page(buf).map(|l| l.cell_count().to_string()).map_err(es),
        ["leaf", "slot", i] => {
            let l = LeafNode::from_page(buf).map_err(es)?;
            l.slot_at(n(i)).map(|s| format!("{} {} {}", hx(&s.prefix), s.offset(), s.key_len())).map_err(es)
        }
        ["leaf", "key", i] => LeafNode::from_page(buf).map_err(es)?.key_at(n(i)).map(hx).map_err(es),
        ["leaf", "val", i] => LeafNode::from_page(buf).map_err(es)?.value_at(n(i)).map(hx).map_err(es),
        ["leaf", "vlen", i] => LeafNode::from_page(buf).map_err(es)?.value_len_at(n(i)).map(|x| x.to_string()).map_err(es),
        // oracle only (no model op): the vectorised search must not panic either
        ["leaf", "find", k] => {
            let l = LeafNode::from_page(buf).map_err(es)?;
            Ok(format!("{:?}", l.find_key(&unhex(k))))
        }
        ["int", "from"] => InteriorNode::from_page(buf).map(|_| "-".into()).map_err(es),
        ["int", "slot", i] => {
            let l = InteriorNode::from_page(buf).map_err(es)?;
            l.slot_at(n(i)).map(|s| format!("{} {} {} {}", s.prefix_as_u32(), s.child_page(), s.offset(), s.key_len())).map_err(es)
        }
        ["int", "key", i] => InteriorNode::from_page(buf).map_err(es)?.key_at(n(i)).map(hx).map_err(es),
        ["int", "find", k] => {
            let l = InteriorNode::from_page(buf).map_err(es)?;
            l.find_child(&unhex(k)).map(|(c, o)| format!("{c} {}", opt_show(o, |x| x.to_string()))).map_err(es)
        }
        ["hnsw", "from"] => HnswPageRef::from_bytes(buf).map(|_| "-".into()).map_err(es),
        ["hnsw", "sc"] => HnswPageRef::from_bytes(buf).map(|p| p.slot_count().to_string()).map_err(es),
        ["hnsw", "slot", i] => {
            let p = HnswPageRef::from_bytes(buf).map_err(es)?;
            let idx = n(i);
            if idx > 65535 {
                panic!("harness: hnsw slot index is a u16");
            }
            Ok(opt_show(p.get_slot(idx as u16), |s| {
                let st = if s.is_active() { 1 } else if s.is_deleted() { 2 } else { 0 };
                format!("{} {} {}", s.offset, st, s.size)
            }))
        }
        ["hnsw", "node", i] => {
            let p = HnswPageRef::from_bytes(buf).map_err(es)?;
            p.read_node_data(n(i) as u16).map(hx).map_err(es)
        }
        ["meta"] => MetaFileHeader::from_bytes(buf)
            .map(|h| format!("{},{},{},{},{},{}", h.page_size(), h.schema_count(), h.default_schema_id(), h.next_table_id(), h.next_index_id(), h.flags()))
            .map_err(es),
        ["table"] => TableFileHeader::from_bytes(buf)
            .map(|h| format!("{},{},{},{},{},{},{}", h.table_id(), h.row_count(), h.root_page(), h.column_count(), h.first_free_page(), h.auto_increment(), h.rightmost_hint()))
            .map_err(es),
        ["index"] => IndexFileHeader::from_bytes(buf)
            .map(|h| format!("{},{},{},{},{},{}", h.index_id(), h.table_id(), h.root_page(), h.key_column_count(), h.is_unique() as u8, h.index_type()))
            .map_err(es),
        ["hnswhdr"] => HnswFileHeader::from_bytes(buf)
            .map(|h| {
                let df = match format!("{:?}", h.distance_fn()).as_str() {
                    "Cosine" => 1,
                    "InnerProduct" => 2,
                    _ => 0,
                };
                let q = match format!("{:?}", h.quantization()).as_str() {
                    "SQ8" => 1,
                    "PQ" => 2,
                    _ => 0,
                };
                let (p, a, b) = match h.entry_point() {
                    None => (0, 0, 0),
                    Some(id) => (1, id.page_no(), id.slot_index()),
                };
                format!(
                    "{},{},{},{},{},{},{},{},{},{},{},{},{},{},{},{}",
                    h.index_id(), h.table_id(), h.dimensions(), h.m(), h.m0(), h.ef_construction(), h.ef_search(), df, q, p, a, b,
                    h.max_level(), h.node_count(), h.vector_count(), h.first_free_page()
                )
            })
            .map_err(es),
        ["wal", _crc] => {
            let path = format!("{}/walframe-{:?}", env.scratch, std::thread::current().id());
            std::fs::write(&path, buf).map_err(|e| format!("harness io: {e}"))?;
            let r = (|| {
                let mut seg = WalSegment::open(std::path::Path::new(&path), 1).map_err(es)?;
                seg.read_frame().map(|(h, _)| format!("{} {} {}", h.file_id, h.page_no, h.db_size)).map_err(es)
            })();
            let _ = std::fs::remove_file(&path);
            r
        }
        ["arr", "new"] => ArrayView::new(buf).map(|_| "-".into()).map_err(es),
        ["arr", "et"] => ArrayView::new(buf).map(|a| (a.elem_type() as u8).to_string()).map_err(es),
        ["arr", "len"] => ArrayView::new(buf).map(|a| a.len().to_string()).map_err(es),
        ["arr", "null", i] => ArrayView::new(buf).map(|a| tf(a.is_null(n(i)))).map_err(es),
        ["arr", "fixed", i, wd] => {
            let a = ArrayView::new(buf).map_err(es)?;
            match *wd {
                "1" => a.get_bool(n(i)).map(tf).map_err(es),
                "2" => a.get_int2(n(i)).map(|x| hx(&x.to_le_bytes())).map_err(es),
                "4" => a.get_int4(n(i)).map(|x| hx(&x.to_le_bytes())).map_err(es),
                "8" => a.get_int8(n(i)).map(|x| hx(&x.to_le_bytes())).map_err(es),
                _ => panic!("harness: array width"),
            }
        }
        ["arr", "blob", i] => ArrayView::new(buf).map_err(es)?.get_blob(n(i)).map(hx).map_err(es),
        ["arr", "text", i] => ArrayView::new(buf).map_err(es)?.get_text(n(i)).map(|s| hx(s.as_bytes())).map_err(es),
        ["cat", _known] => {
            let mut cat = Catalog::new();
            match CatalogPersistence::deserialize(buf, &mut cat) {
                Ok(()) => Ok(dump_catalog(&cat)),
                Err(e) => Err(cat_err_tag(&e.to_string())),
            }
        }
        ["varint"] => turdb::encoding::varint::decode_varint(buf).map(|(v, k)| format!("{v} {k}")).map_err(es),
        ["key"] => turdb::encoding::key::decode_key(buf)
            .map(|(d, k)| {
                let dbg = format!("{d:?}");
                let outside = dbg.contains("Json") || dbg.contains("Range");
                format!("{k}{}", if outside { " outside" } else { "" })
            })
            .map_err(es),
        ["jsonb", op] => jsonb_op(buf, op),
        _ => panic!("harness: unknown op {w:?}"),
    }
}

fn show_jv(v: &turdb::records::JsonbValue) -> String {
    use turdb::records::JsonbValue as J;
    match v {
        J::Null => "N".into(),
        J::Bool(true) => "T".into(),
        J::Bool(false) => "F".into(),
        J::Number(n) => format!("#{:016x}", n.to_bits()),
        J::String(s) => format!("S{}", hx(s.as_bytes())),
        J::Array(v) => format!("A{}", hx(v.data())),
        J::Object(v) => format!("O{}", hx(v.data())),
    }
}

fn jsonb_op(buf: &[u8], op: &str) -> Result<String, String> {
    let view = JsonbView::new(buf).map_err(es)?;
    if op == "v" {
        view.as_value().map(|v| show_jv(&v)).map_err(es)
    } else if op == "al" {
        view.array_len().map(|x| x.to_string()).map_err(es)
    } else if op == "ol" {
        view.object_len().map(|x| x.to_string()).map_err(es)
    } else if let Some(k) = op.strip_prefix("g:") {
        let key = String::from_utf8_lossy(&unhex(k)).to_string();
        view.get(&key).map(|o| opt_show(o, |v| show_jv(&v))).map_err(es)
    } else if let Some(i) = op.strip_prefix("a:") {
        view.array_get(i.parse().unwrap()).map(|o| opt_show(o, |v| show_jv(&v))).map_err(es)
    } else {
        panic!("harness: unknown jsonb op {op}")
    }
}

// ------------------------------------------------------------------ jobs, watchdog

#[derive(Clone)]
pub struct Job {
    pub buf: Vec<u8>,
    pub ops: Vec<String>,
}

fn decoder_of(op: &str) -> String {
    let w: Vec<&str> = op.split(' ').collect();
    match w.as_slice() {
        ["rv", _, o, _] => {
            let o = o.split(':').next().unwrap();
            format!("recordview.{o}")
        }
        ["leaf", o, ..] | ["int", o, ..] | ["hnsw", o, ..] | ["arr", o, ..] => format!("{}.{}", w[0], o),
        ["jsonb", o] => format!("jsonb.{}", o.split(':').next().unwrap()),
        _ => w[0].to_string(),
    }
}
fn family_of(op: &str) -> &str {
    op.split(' ').next().unwrap()
}

/// Evaluate all jobs on helper threads.  One result vector per job; a decoder family whose call
/// does not return within 5 s is reported as `hang` and its remaining jobs are skipped.
fn run_real(env: Arc<Env>, jobs: Arc<Vec<Job>>) -> Vec<Vec<Out>> {
    let mut results: Vec<Option<Vec<Out>>> = vec![None; jobs.len()];
    let mut hung: Vec<String> = vec![];
    let mut start = 0usize;
    while start < jobs.len() {
        let (tx, rx) = mpsc::channel::<(usize, Vec<Out>)>();
        let jobs2 = jobs.clone();
        let env2 = env.clone();
        let hung2 = hung.clone();
        let s0 = start;
        std::thread::Builder::new()
            .stack_size(16 << 20)
            .spawn(move || {
                for i in s0..jobs2.len() {
                    let j = &jobs2[i];
                    let mut outs = Vec::with_capacity(j.ops.len());
                    for op in &j.ops {
                        if hung2.iter().any(|h| h == family_of(op)) {
                            outs.push(Out { line: "skipped".into(), loc: String::new(), msg: String::new() });
                            continue;
                        }
                        let w: Vec<&str> = op.split(' ').collect();
                        outs.push(real_call(|| eval_real(&env2, &w, &j.buf)));
                    }
                    if tx.send((i, outs)).is_err() {
                        return;
                    }
                }
            })
            .expect("spawn worker");
        let mut next = start;
        let mut hang_at = None;
        while next < jobs.len() {
            match rx.recv_timeout(Duration::from_secs(5)) {
                Ok((i, outs)) => {
                    results[i] = Some(outs);
                    next = i + 1;
                }
                Err(mpsc::RecvTimeoutError::Timeout) => {
                    hang_at = Some(next);
                    break;
                }
                Err(mpsc::RecvTimeoutError::Disconnected) => break,
            }
        }
        match hang_at {
            Some(i) => {
                // the worker is stuck inside job i: which op is unknown, blame the job's family
                let fam = family_of(&jobs[i].ops[0]).to_string();
                results[i] = Some(jobs[i].ops.iter().map(|_| Out { line: "hang".into(), loc: "watchdog".into(), msg: "no answer within 5 s".into() }).collect());
                hung.push(fam);
                start = i + 1;
            }
            None => {
                if next < jobs.len() {
                    // worker died without hanging (should not happen): mark and continue after it
                    results[next] = Some(jobs[next].ops.iter().map(|_| Out { line: "hang".into(), loc: "worker-died".into(), msg: String::new() }).collect());
                    start = next + 1;
                } else {
                    start = jobs.len();
                }
            }
        }
    }
    results.into_iter().map(|r| r.unwrap_or_default()).collect()
}

// ------------------------------------------------------------------ generators

const U16X: [u16; 14] = [0, 1, 2, 0x7f, 0x80, 0xff, 0x100, 0x7ff, 0x3fff, 0x4000, 0x7fff, 0x8000, 0xfffe, 0xffff];

fn put16(b: &mut [u8], at: usize, v: u16) {
    if at + 2 <= b.len() {
        b[at..at + 2].copy_from_slice(&v.to_le_bytes());
    }
}
fn put32(b: &mut [u8], at: usize, v: u32) {
    if at + 4 <= b.len() {
        b[at..at + 4].copy_from_slice(&v.to_le_bytes());
    }
}

/// generic mutations of a valid encoding; `fields` = offsets of u16 length/offset/count fields
fn mutate(rng: &mut Rng, base: &[u8], fields16: &[usize], fields32: &[usize], n: usize, hot: std::ops::Range<usize>) -> Vec<Vec<u8>> {
    let mut out = vec![];
    // every length/offset field × every extreme (+ values around the buffer length)
    for &f in fields16 {
        let l = base.len() as u16;
        for v in U16X.iter().copied().chain([l.wrapping_sub(1), l, l.wrapping_add(1)]) {
            let mut b = base.to_vec();
            put16(&mut b, f, v);
            out.push(b);
        }
    }
    for &f in fields32 {
        for v in [0u32, 1, 0x7f, 0x80, 0xff, 0xffff, 0x10000, 0x7fff_ffff, 0x8000_0000, 0xffff_fffe, 0xffff_ffff, base.len() as u32, base.len() as u32 + 1] {
            let mut b = base.to_vec();
            put32(&mut b, f, v);
            out.push(b);
        }
    }
    for _ in 0..n {
        let mut b = base.to_vec();
        let k = 1 + rng.below(3);
        for _ in 0..k {
            if b.is_empty() {
                break;
            }
            let p = if !hot.is_empty() && rng.chance(3, 4) { (hot.start + rng.below((hot.end - hot.start) as u64) as usize).min(b.len() - 1) } else { rng.below(b.len() as u64) as usize };
            match rng.below(7) {
                0 => b[p] ^= 1 << rng.below(8),
                1 => b[p] = *rng.pick(&[0u8, 1, 0x7f, 0x80, 0xfe, 0xff]),
                2 => b[p] = rng.next() as u8,
                3 => {
                    let e = (p + 1 + rng.below(16) as usize).min(b.len());
                    for x in &mut b[p..e] {
                        *x = 0;
                    }
                }
                4 => {
                    let e = (p + 1 + rng.below(9) as usize).min(b.len());
                    for x in &mut b[p..e] {
                        *x = 0xff;
                    }
                }
                5 => {
                    if !fields16.is_empty() {
                        let f = *rng.pick(fields16);
                        put16(&mut b, f, *rng.pick(&U16X));
                    }
                }
                _ => {
                    let v = rng.next() as u16;
                    put16(&mut b, p, v);
                }
            }
        }
        out.push(b);
    }
    out
}

fn truncations(base: &[u8], max_all: usize) -> Vec<Vec<u8>> {
    let mut out = vec![];
    if base.len() <= max_all {
        for k in 0..base.len() {
            out.push(base[..k].to_vec());
        }
    } else {
        for k in (0..40).chain([base.len() / 2, base.len() - 2, base.len() - 1]) {
            if k < base.len() {
                out.push(base[..k].to_vec());
            }
        }
    }
    let mut e = base.to_vec();
    e.push(0);
    out.push(e);
    out
}

// ---- records

fn rv_hand_build(rng: &mut Rng, spec: &str, nulls: bool) -> (Vec<u8>, Vec<usize>) {
    let cols: Vec<&str> = if spec == "-" { vec![] } else { spec.split(',').collect() };
    let bm = cols.len().div_ceil(8);
    let nv = cols.iter().filter(|c| **c == "v").count();
    let hl = 2 + bm + 2 * nv;
    let mut b = vec![];
    b.extend((hl as u16).to_le_bytes());
    let mut fields = vec![0usize];
    for i in 0..bm {
        let mut x = 0u8;
        if nulls {
            for k in 0..8 {
                if i * 8 + k < cols.len() && rng.chance(1, 4) {
                    x |= 1 << k;
                }
            }
        }
        b.push(x);
    }
    let mut vars: Vec<Vec<u8>> = vec![];
    let mut off = 0u16;
    for _ in 0..nv {
        let l = *rng.pick(&[0usize, 1, 3, 4, 8, 12, 20]);
        let d: Vec<u8> = match rng.below(4) {
            0 => (0..l).map(|_| b'a' + rng.below(26) as u8).collect(),
            1 => {
                // a vector: u32 count + f32s
                let k = l / 4;
                let mut v = (k as u32).to_le_bytes().to_vec();
                v.extend(rng.bytes(k * 4));
                v
            }
            2 => "é€😀".as_bytes()[..l.min(9)].to_vec(),
            _ => rng.bytes(l),
        };
        off += d.len() as u16;
        fields.push(b.len());
        b.extend(off.to_le_bytes());
        vars.push(d);
    }
    for c in &cols {
        if *c != "v" {
            let w: usize = c.parse().unwrap();
            let mut d = rng.bytes(w);
            if (w == 9 || w == 17) && rng.chance(1, 2) {
                d[0] &= 0x06; // neither empty nor infinite
            }
            b.extend(d);
        }
    }
    for v in vars {
        b.extend(v);
    }
    (b, fields)
}

fn rv_ops(spec: &str) -> Vec<String> {
    let cols: Vec<&str> = if spec == "-" { vec![] } else { spec.split(',').collect() };
    let mut ops = vec![format!("rv {spec} new 0"), format!("rv {spec} hl 0"), format!("rv {spec} rcc 0")];
    for (i, c) in cols.iter().enumerate() {
        ops.push(format!("rv {spec} null {i}"));
        ops.push(format!("rv {spec} nom {i}"));
        let gs: Vec<&str> = match *c {
            "v" => vec!["vb", "blob", "text", "vec", "minlen:4", "minlen:8"],
            "1" => vec!["bool", "fixed:2"],
            "2" => vec!["fixed:2", "fields:2+2"],
            "4" => vec!["fixed:4", "fields:2+2", "fixed:8"],
            "8" => vec!["fixed:8", "fixed:16"],
            "12" => vec!["fields:8+4"],
            "16" => vec!["fixed:16", "fields:8+8", "fields:8+4+4"],
            "6" => vec!["fixed:6"],
            "9" => vec!["range:4"],
            "17" => vec!["range:8"],
            "24" => vec!["fields:8+8+8"],
            "32" => vec!["fields:8+8+8+8"],
            _ => vec![],
        };
        for g in gs {
            ops.push(format!("rv {spec} {g} {i}"));
            if g != "vb" {
                ops.push(format!("rv {spec} o{g} {i}"));
            }
        }
    }
    // a getter applied to a column of the other kind / past the schema
    if !cols.is_empty() {
        ops.push(format!("rv {spec} blob 0"));
        ops.push(format!("rv {spec} fixed:4 {}", cols.len() - 1));
        ops.push(format!("rv {spec} null {}", cols.len()));
        ops.push(format!("rv {spec} nom {}", cols.len() + 8));
    }
    ops
}

fn gen_records(rng: &mut Rng, thorough: bool, jobs: &mut Vec<Job>, rep: &mut Report) {
    let specs = ["-", "4", "v", "4,v", "1,2,4,8,v,v", "8,v,4,v,16,6", "9,17,v", "12,16,4,32,24,v", "4,4,4,4,4,4,4,4,v,4", "v,v,v"];
    // sanity: the hand builder agrees with RecordBuilder on a schema it supports
    {
        let schema = mk_schema("4,v");
        let mut rb = RecordBuilder::new(&schema);
        let _ = rb.set_int4(0, 0x01020304);
        let _ = rb.set_blob(1, b"xyz");
        let built = rb.build().unwrap_or_default();
        let want = vec![5u8, 0, 0, 3, 0, 4, 3, 2, 1, b'x', b'y', b'z'];
        if built != want {
            rep.disagree("rv-builder".into(), format!("RecordBuilder layout {} differs from the harness layout {}", hex(&built), hex(&want)), "harness-layout".into());
        }
    }
    let per = if thorough { 2500 } else { 140 };
    for spec in specs {
        let ops = rv_ops(spec);
        for round in 0..3 {
            let (base, fields) = rv_hand_build(rng, spec, round > 0);
            let mut bufs = vec![base.clone()];
            bufs.extend(truncations(&base, 80));
            bufs.extend(mutate(rng, &base, &fields, &[], per, 0..base.len().min(2 + 2 + 2 * 4)));
            for _ in 0..per / 8 {
                let n = rng.below(40) as usize;
                bufs.push(rng.bytes(n));
            }
            for b in bufs {
                rep.count("buffers_recordview");
                jobs.push(Job { buf: b, ops: ops.clone() });
            }
        }
    }
}

// ---- pages

fn leaf_page(rng: &mut Rng, ncells: usize) -> Vec<u8> {
    let mut p = vec![0u8; PAGE];
    {
        let mut l = LeafNodeMut::init(&mut p).expect("leaf init");
        let mut keys: Vec<Vec<u8>> = (0..ncells)
            .map(|i| {
                let mut k = format!("k{:05}", i * 3).into_bytes();
                if rng.chance(1, 4) {
                    let kl = rng.below(6) as usize;
                    k.extend(rng.bytes(kl));
                }
                k
            })
            .collect();
        keys.sort();
        keys.dedup();
        for k in keys {
            let vl = *rng.pick(&[0usize, 1, 5, 30, 240, 241, 300]);
            let v = rng.bytes(vl);
            if l.insert_cell(&k, &v).is_err() {
                break;
            }
        }
    }
    p
}

fn interior_page(rng: &mut Rng, ncells: usize) -> Vec<u8> {
    let mut p = vec![0u8; PAGE];
    {
        let mut l = InteriorNodeMut::init(&mut p, 77).expect("interior init");
        for i in 0..ncells {
            let mut k = format!("s{:05}", i * 2).into_bytes();
            if rng.chance(1, 3) {
                k.truncate(3);
                k.push(i as u8);
            }
            if l.insert_separator(&k, 100 + i as u32).is_err() {
                break;
            }
        }
    }
    p
}

fn hnsw_page(rng: &mut Rng, nslots: usize) -> Vec<u8> {
    let mut p = vec![0u8; PAGE];
    {
        let mut h = HnswPage::init(&mut p).expect("hnsw init");
        for _ in 0..nslots {
            let sz = *rng.pick(&[8u16, 40, 100, 600]);
            match h.allocate_slot(sz) {
                Ok(s) => {
                    let _ = h.write_node_data(s, &rng.bytes(sz as usize));
                }
                Err(_) => break,
            }
        }
    }
    p
}

fn idx_set(cc: usize, lim: usize) -> Vec<usize> {
    let mut v = vec![0, 1, cc / 2, cc.saturating_sub(1), cc, cc + 1, lim.saturating_sub(1), lim, lim + 1, 65534, 65535];
    v.sort();
    v.dedup();
    v
}

fn page_mutations(rng: &mut Rng, base: &[u8], slot0: usize, slot_size: usize, off_in_slot: usize, lim: usize, cc_at: usize, n: usize) -> Vec<Vec<u8>> {
    let cc = u16::from_le_bytes([base[cc_at], base[cc_at + 1]]) as usize;
    let mut out = vec![base.to_vec()];
    // count field extremes
    for v in U16X.iter().copied().chain([cc as u16 + 1, cc.saturating_sub(1) as u16, lim as u16 - 1, lim as u16, lim as u16 + 1, (lim * 2) as u16]) {
        let mut b = base.to_vec();
        put16(&mut b, cc_at, v);
        out.push(b);
    }
    // slot offset / length field extremes in the first, middle and last slot
    for s in [0usize, cc / 2, cc.saturating_sub(1)] {
        let at = slot0 + s * slot_size + off_in_slot;
        for f in [at, at + 2] {
            for v in U16X.iter().copied().chain([16383, 16384, 16385, 16380, 8191, 8192]) {
                let mut b = base.to_vec();
                put16(&mut b, f, v);
                out.push(b);
            }
        }
    }
    // header bytes
    for (at, vals) in [(0usize, vec![0u8, 1, 2, 3, 0x10, 0x11, 0x20, 0x30, 0x40, 0xff]), (1, vec![0, 1, 0xff])] {
        for v in vals {
            let mut b = base.to_vec();
            b[at] = v;
            out.push(b);
        }
    }
    for f in [4usize, 6] {
        for v in [0u16, 15, 16, 24, 0x3fff, 0x4000, 0x4001, 0xffff] {
            let mut b = base.to_vec();
            put16(&mut b, f, v);
            out.push(b);
        }
    }
    // wrong page sizes
    for l in [0usize, 1, 15, 16, 17, PAGE - 1, PAGE + 1] {
        let mut b = base.to_vec();
        b.resize(l, 0);
        out.push(b);
    }
    let hot_end = (slot0 + (cc + 2) * slot_size).min(PAGE);
    out.extend(mutate(rng, base, &[cc_at], &[], n, 0..hot_end));
    out
}

fn gen_pages(rng: &mut Rng, thorough: bool, samples: &DbSamples, jobs: &mut Vec<Job>, rep: &mut Report) {
    let n = if thorough { 600 } else { 50 };
    // ---- leaf
    let mut leafs: Vec<Vec<u8>> = vec![leaf_page(rng, 0), leaf_page(rng, 1), leaf_page(rng, 9), leaf_page(rng, 120), leaf_page(rng, 2000)];
    leafs.extend(samples.leaf_pages.iter().take(3).cloned());
    for base in &leafs {
        let cc = u16::from_le_bytes([base[2], base[3]]) as usize;
        let mut bufs = page_mutations(rng, base, 24, 8, 4, 2045, 2, n);
        // the varint in front of a value: length extremes
        for s in [0usize, cc / 2] {
            if cc == 0 {
                break;
            }
            let so = 24 + s * 8;
            let off = u16::from_le_bytes([base[so + 4], base[so + 5]]) as usize;
            let kl = u16::from_le_bytes([base[so + 6], base[so + 7]]) as usize;
            let vs = off + kl;
            for pat in [&[0xffu8; 9][..], &[0xff, 0x7f, 0xff, 0xff, 0xff, 0xff, 0xff, 0xff, 0xff], &[0xfb, 0xff, 0xff, 0xff, 0xff], &[0xfa, 0xff, 0xff, 0xff], &[0xf9, 0xff, 0xff], &[0xf8, 0xff], &[0xfc], &[0xfe], &[0xff, 0, 0, 0, 0, 0, 0, 0x40, 0], &[0xf0]] {
                let mut b = base.to_vec();
                for (k, x) in pat.iter().enumerate() {
                    if vs + k < PAGE {
                        b[vs + k] = *x;
                    }
                }
                bufs.push(b);
            }
            // cell pushed against the end of the page: value_start = PAGE-1 .. PAGE
            for delta in [1usize, 2, 9, 10] {
                let mut b = base.to_vec();
                put16(&mut b, so + 4, (PAGE - delta - kl.min(PAGE - delta)) as u16);
                b[PAGE - delta] = 0xff;
                bufs.push(b);
            }
        }
        for b in bufs {
            let cc2 = if b.len() >= 4 { u16::from_le_bytes([b[2], b[3]]) as usize } else { 0 };
            let mut ops = vec!["validate".to_string(), "leaf from".into(), "leaf cc".into()];
            for i in idx_set(cc2.min(70000), 2045) {
                for o in ["slot", "key", "val", "vlen"] {
                    ops.push(format!("leaf {o} {i}"));
                }
            }
            for k in ["-", "6b", "6b3030303630", "ffffffffff", "6b30303030300000"] {
                ops.push(format!("leaf find {k}"));
            }
            rep.count("buffers_leaf");
            jobs.push(Job { buf: b, ops });
        }
    }
    // ---- interior
    let mut ints: Vec<Vec<u8>> = vec![interior_page(rng, 0), interior_page(rng, 1), interior_page(rng, 7), interior_page(rng, 300), interior_page(rng, 1400)];
    ints.extend(samples.interior_pages.iter().take(2).cloned());
    for base in &ints {
        let bufs = page_mutations(rng, base, 16, 12, 8, 1364, 2, n);
        for b in bufs {
            let cc2 = if b.len() >= 4 { u16::from_le_bytes([b[2], b[3]]) as usize } else { 0 };
            let mut ops = vec!["validate".to_string(), "int from".into()];
            for i in idx_set(cc2, 1364) {
                ops.push(format!("int slot {i}"));
                ops.push(format!("int key {i}"));
            }
            for k in ["-", "73", "733030303036", "73303030", "ffffffff", "00", "7330303031300000"] {
                ops.push(format!("int find {k}"));
            }
            rep.count("buffers_interior");
            jobs.push(Job { buf: b, ops });
        }
    }
    // ---- hnsw node page
    let hn: Vec<Vec<u8>> = vec![hnsw_page(rng, 0), hnsw_page(rng, 3), hnsw_page(rng, 25)];
    for base in &hn {
        let mut bufs = page_mutations(rng, base, 64, 4, 0, 4080, 16, n);
        // slot status / offset / size extremes
        for s in [0usize, 1] {
            for (o, sz) in [(0x2000u16 | 8191, 0xffffu16), (0x2000 | 16, 16384 - 16), (0x2000 | 16, 16384 - 15), (0x4000 | 100, 10), (0x6000 | 100, 10), (0x2000, 0)] {
                let mut b = base.to_vec();
                put16(&mut b, 64 + s * 4, o);
                put16(&mut b, 64 + s * 4 + 2, sz);
                if u16::from_le_bytes([b[16], b[17]]) as usize <= s {
                    put16(&mut b, 16, s as u16 + 1);
                }
                bufs.push(b);
            }
        }
        for b in bufs {
            let sc = if b.len() >= 18 { u16::from_le_bytes([b[16], b[17]]) as usize } else { 0 };
            let mut ops = vec!["hnsw from".to_string(), "hnsw sc".into()];
            for i in idx_set(sc, 4080).into_iter().filter(|i| *i <= 65535) {
                ops.push(format!("hnsw slot {i}"));
                ops.push(format!("hnsw node {i}"));
            }
            rep.count("buffers_hnsw_page");
            jobs.push(Job { buf: b, ops });
        }
    }
}

// ---- file headers, wal frames

fn header_bytes(magic: &[u8; 16], rng: &mut Rng) -> Vec<u8> {
    let mut h = magic.to_vec();
    h.extend(rng.bytes(112));
    h
}

fn wal_frame(rng: &mut Rng, file_id: u64, page_no: u32, db_size: u32, page: &[u8]) -> Vec<u8> {
    let mut hdr = WalFrameHeader::new_with_file_id(page_no, db_size, rng.next() as u32, rng.next() as u32, 0, file_id);
    hdr.checksum = turdb::storage::verif_wal_compute_checksum(&hdr, page);
    let mut b = vec![];
    b.extend(hdr.file_id.to_le_bytes());
    b.extend(hdr.page_no.to_le_bytes());
    b.extend(hdr.db_size.to_le_bytes());
    b.extend(hdr.salt1.to_le_bytes());
    b.extend(hdr.salt2.to_le_bytes());
    b.extend(hdr.checksum.to_le_bytes());
    b.extend(page);
    b
}

fn wal_crc_arg(b: &[u8]) -> String {
    if b.len() < 32 + PAGE {
        return "x".into();
    }
    let u32at = |i: usize| u32::from_le_bytes(b[i..i + 4].try_into().unwrap());
    let hdr = WalFrameHeader::new_with_file_id(u32at(8), u32at(12), u32at(16), u32at(20), 0, u64::from_le_bytes(b[0..8].try_into().unwrap()));
    turdb::storage::verif_wal_compute_checksum(&hdr, &b[32..32 + PAGE]).to_string()
}

fn gen_headers(rng: &mut Rng, thorough: bool, samples: &DbSamples, jobs: &mut Vec<Job>, rep: &mut Report) {
    let n = if thorough { 3000 } else { 300 };
    let ops: Vec<String> = ["meta", "table", "index", "hnswhdr"].iter().map(|s| s.to_string()).collect();
    let mut bases: Vec<Vec<u8>> = vec![
        header_bytes(turdb::storage::META_MAGIC, rng),
        header_bytes(turdb::storage::TABLE_MAGIC, rng),
        header_bytes(turdb::storage::INDEX_MAGIC, rng),
        header_bytes(turdb::storage::HNSW_MAGIC, rng),
    ];
    {
        // a meta header that passes the version gate, an hnsw header without entry point
        let mut m = header_bytes(turdb::storage::META_MAGIC, rng);
        put32(&mut m, 16, 1);
        bases.push(m);
        let mut h = header_bytes(turdb::storage::HNSW_MAGIC, rng);
        put32(&mut h, 44, u32::MAX);
        h[42] = 1;
        h[43] = 2;
        bases.push(h);
    }
    bases.extend(samples.headers.iter().cloned());
    for base in &bases {
        let mut bufs = vec![base.clone()];
        for l in [0usize, 1, 15, 16, 17, 127, 129, 200] {
            let mut b = base.clone();
            b.resize(l, 0);
            bufs.push(b);
        }
        bufs.extend(mutate(rng, base, &[], &[16, 20, 32, 44], n, 0..48));
        for b in bufs {
            rep.count("buffers_file_header");
            jobs.push(Job { buf: b, ops: ops.clone() });
        }
    }
    for _ in 0..n {
        let l = *rng.pick(&[0usize, 16, 64, 127, 128, 128, 128, 300]);
        jobs.push(Job { buf: rng.bytes(l), ops: ops.clone() });
    }
    // ---- WAL frames
    let nw = if thorough { 400 } else { 60 };
    let page: Vec<u8> = samples.leaf_pages.first().cloned().unwrap_or_else(|| leaf_page(rng, 20));
    let mut frames = vec![
        wal_frame(rng, 1, 3, 10, &page),
        wal_frame(rng, 0, 0, 0, &vec![0u8; PAGE]),
        wal_frame(rng, (2u64 << 56) | (5 << 32) | 9, 1, 2, &page),
        vec![0u8; 32 + PAGE], // a zero hole: CRC-64/ECMA-182 of zeros is 0 = the stored checksum
    ];
    let mut two = frames[0].clone();
    two.extend(frames[2].clone());
    frames.push(two);
    for base in frames {
        let mut bufs = vec![base.clone()];
        for l in [0usize, 1, 31, 32, 33, 32 + PAGE - 1, 32 + PAGE + 1] {
            let mut b = base.clone();
            b.resize(l, 0);
            bufs.push(b);
        }
        bufs.extend(mutate(rng, &base, &[], &[8, 12, 24, 28], nw, 0..40));
        for b in bufs {
            rep.count("buffers_wal_frame");
            let crc = wal_crc_arg(&b);
            jobs.push(Job { buf: b, ops: vec![format!("wal {crc}")] });
        }
    }
}

// ---- arrays

fn gen_arrays(rng: &mut Rng, thorough: bool, jobs: &mut Vec<Job>, rep: &mut Report) {
    let n = if thorough { 2500 } else { 60 };
    let mut bases: Vec<(Vec<u8>, bool)> = vec![];
    for cnt in [0usize, 1, 3, 9, 17] {
        let mut a = ArrayBuilder::new(DataType::Int4);
        for i in 0..cnt {
            if i % 4 == 3 {
                a.push_null();
            } else {
                a.push_int4(rng.next() as i32);
            }
        }
        bases.push((a.build(), false));
        let mut a = ArrayBuilder::new(DataType::Int8);
        for _ in 0..cnt {
            a.push_int8(rng.next() as i64);
        }
        bases.push((a.build(), false));
        let mut a = ArrayBuilder::new(DataType::Bool);
        for i in 0..cnt {
            a.push_bool(i % 2 == 0);
        }
        bases.push((a.build(), false));
        let mut a = ArrayBuilder::new(DataType::Text);
        for i in 0..cnt {
            if i % 5 == 4 {
                a.push_null();
            } else {
                a.push_text(["", "h", "hé", "héllo wörld", "€"][i % 5]);
            }
        }
        bases.push((a.build(), true));
        let mut a = ArrayBuilder::new(DataType::Blob);
        for _ in 0..cnt {
            let l = rng.below(9) as usize;
            a.push_blob(&rng.bytes(l));
        }
        bases.push((a.build(), true));
    }
    for (base, _var) in &bases {
        let cnt = if base.len() >= 8 { u16::from_le_bytes([base[6], base[7]]) as usize } else { 0 };
        let bm = cnt.div_ceil(8);
        let mut f32s = vec![0usize];
        for i in 0..cnt.min(4) {
            f32s.push(8 + bm + i * 4);
        }
        if cnt > 0 {
            f32s.push(8 + bm + (cnt - 1) * 4);
        }
        let mut bufs = vec![base.clone()];
        bufs.extend(truncations(base, 64));
        bufs.extend(mutate(rng, base, &[6], &f32s, n, 0..(8 + bm + 4 * cnt).min(base.len())));
        if cnt == 3 {
            for b in 0..=255u8 {
                // every element-type byte
                let mut x = base.clone();
                if x.len() > 4 {
                    x[4] = b;
                    bufs.push(x);
                }
            }
        }
        for b in bufs {
            let c2 = if b.len() >= 8 { u16::from_le_bytes([b[6], b[7]]) as usize } else { 0 };
            let mut ops = vec!["arr new".to_string(), "arr et".into(), "arr len".into()];
            let mut idxs = vec![0usize, 1, c2 / 2, c2.saturating_sub(1), c2, c2 + 1];
            idxs.sort();
            idxs.dedup();
            for i in idxs {
                ops.push(format!("arr null {i}"));
                for w in [1, 2, 4, 8] {
                    ops.push(format!("arr fixed {i} {w}"));
                }
                ops.push(format!("arr blob {i}"));
                ops.push(format!("arr text {i}"));
            }
            rep.count("buffers_array");
            jobs.push(Job { buf: b, ops });
        }
    }
    for _ in 0..n {
        let l = rng.below(40) as usize;
        jobs.push(Job { buf: rng.bytes(l), ops: vec!["arr new".into(), "arr et".into(), "arr len".into(), "arr null 0".into(), "arr fixed 0 4".into(), "arr blob 0".into(), "arr text 1".into()] });
    }
}

// ---- catalog

pub const KNOWN_SCHEMAS: &str = "726f6f74,74757264625f636174616c6f67";

fn gen_catalog(rng: &mut Rng, thorough: bool, samples: &DbSamples, jobs: &mut Vec<Job>, rep: &mut Report) {
    let n = if thorough { 20000 } else { 1200 };
    let op = vec![format!("cat {KNOWN_SCHEMAS}")];
    let mut bases: Vec<Vec<u8>> = samples.catalogs.clone();
    if bases.is_empty() {
        rep.notes.push("no catalog sample from a real database; catalog fuzz uses random bytes only".into());
    }
    // hand-made minimal documents: empty schema `root`, one table without columns
    let mut min = vec![];
    min.extend(0u32.to_le_bytes());
    min.extend(4u16.to_le_bytes());
    min.extend(b"root");
    min.extend(0u32.to_le_bytes());
    bases.push(min.clone());
    let mut one = min.clone();
    let l = one.len();
    one[l - 4] = 1;
    one.extend(7u64.to_le_bytes());
    one.extend(1u16.to_le_bytes());
    one.extend(b"t");
    one.extend(0u32.to_le_bytes()); // columns
    one.push(0); // no pk
    one.extend(0u32.to_le_bytes()); // indexes
    bases.push(one);
    for base in &bases {
        let mut bufs = vec![base.clone()];
        for k in 0..base.len() {
            bufs.push(base[..k].to_vec());
        }
        // every byte position: set to each extreme (finds every count/length/flag field)
        for p in 0..base.len() {
            for v in [0u8, 1, 2, 6, 0x7f, 0x80, 0xff] {
                if base[p] != v {
                    let mut b = base.clone();
                    b[p] = v;
                    bufs.push(b);
                }
            }
        }
        bufs.extend(mutate(rng, base, &[], &[], n, 0..0));
        for b in bufs {
            rep.count("buffers_catalog");
            jobs.push(Job { buf: b, ops: op.clone() });
        }
    }
    for _ in 0..n / 4 {
        let l = rng.below(60) as usize;
        jobs.push(Job { buf: rng.bytes(l), ops: op.clone() });
    }
}

// ---- varint / key / jsonb (existing model families)

fn gen_codecs(rng: &mut Rng, thorough: bool, jobs: &mut Vec<Job>, rep: &mut Report) {
    let n = if thorough { 60000 } else { 6000 };
    for _ in 0..n {
        let first = *rng.pick(&[0u8, 240, 241, 248, 249, 250, 251, 252, 254, 255]);
        let l = rng.below(11) as usize;
        let mut b = vec![if rng.chance(1, 2) { first } else { rng.next() as u8 }];
        b.extend(rng.bytes(l));
        b.truncate(l);
        rep.count("buffers_varint");
        jobs.push(Job { buf: b, ops: vec!["varint".into()] });
    }
    // keys: every prefix byte × tails rich in 00 / 01 / ff, nested containers
    for p in 0..=255u8 {
        let reps = if thorough { 200 } else { 24 };
        for _ in 0..reps {
            let l = rng.below(24) as usize;
            let mut b = vec![p];
            for _ in 0..l {
                b.push(if rng.chance(1, 2) { *rng.pick(&[0u8, 1, 0xff, 0xfe, 0x60, 0x61, 0x20, 0x14]) } else { rng.next() as u8 });
            }
            rep.count("buffers_key");
            jobs.push(Job { buf: b, ops: vec!["key".into()] });
        }
    }
    for depth in [1usize, 2, 10, 100, 400] {
        for inner in [&[0x14u8][..], &[], &[0x00], &[0x20, b'a', 0, 0]] {
            let mut b = vec![0x60u8; depth];
            b.extend_from_slice(inner);
            b.extend(std::iter::repeat(0u8).take(depth / 2));
            jobs.push(Job { buf: b, ops: vec!["key".into()] });
        }
    }
    // jsonb: documents from the real builder, mutated
    use turdb::records::jsonb::JsonbBuilderValue as BV;
    use turdb::records::JsonbBuilder;
    let mut docs: Vec<Vec<u8>> = vec![];
    {
        let mut o = JsonbBuilder::new_object();
        o.set("a", BV::Number(1.5));
        o.set("b", BV::String("xy".into()));
        o.set("k1", BV::Null);
        docs.push(o.build());
        let mut a = JsonbBuilder::new_array();
        a.push(BV::Bool(true));
        a.push(BV::String("héllo".into()));
        a.push(BV::Number(-2.0));
        docs.push(a.build());
        docs.push(JsonbBuilder::new_string("plain".to_string()).build());
        docs.push(JsonbBuilder::new_number(3.25).build());
        docs.push(JsonbBuilder::new_null().build());
        docs.push(JsonbBuilder::new_object().build());
    }
    let jops: Vec<String> = ["jsonb v", "jsonb al", "jsonb ol", "jsonb g:61", "jsonb g:62", "jsonb g:6b31", "jsonb g:-", "jsonb a:0", "jsonb a:1", "jsonb a:2", "jsonb a:7"].iter().map(|s| s.to_string()).collect();
    let nj = if thorough { 6000 } else { 700 };
    for base in &docs {
        let mut bufs = vec![base.clone()];
        bufs.extend(truncations(base, 64));
        bufs.extend(mutate(rng, base, &[0], &[0], nj, 0..base.len().min(16)));
        for b in bufs {
            rep.count("buffers_jsonb");
            jobs.push(Job { buf: b, ops: jops.clone() });
        }
    }
    for _ in 0..nj {
        let l = rng.below(24) as usize;
        jobs.push(Job { buf: rng.bytes(l), ops: jops.clone() });
    }
}

// ------------------------------------------------------------------ samples from a real database

#[derive(Default)]
pub struct DbSamples {
    pub leaf_pages: Vec<Vec<u8>>,
    pub interior_pages: Vec<Vec<u8>>,
    pub headers: Vec<Vec<u8>>,
    pub catalogs: Vec<Vec<u8>>,
}

pub fn collect_samples(dir: &str) -> DbSamples {
    let mut s = DbSamples::default();
    fn walk(p: &std::path::Path, out: &mut Vec<std::path::PathBuf>) {
        if let Ok(rd) = std::fs::read_dir(p) {
            let mut es: Vec<_> = rd.filter_map(|e| e.ok()).map(|e| e.path()).collect();
            es.sort();
            for e in es {
                if e.is_dir() {
                    walk(&e, out);
                } else {
                    out.push(e);
                }
            }
        }
    }
    let mut files = vec![];
    walk(std::path::Path::new(dir), &mut files);
    for f in files {
        let name = f.file_name().unwrap().to_string_lossy().to_string();
        let Ok(data) = std::fs::read(&f) else { continue };
        if name == "turdb.catalog" {
            if data.len() > 128 {
                let len = u64::from_le_bytes(data[72..80].try_into().unwrap()) as usize;
                if 128 + len <= data.len() {
                    s.catalogs.push(data[128..128 + len].to_vec());
                }
            }
            s.headers.push(data[..data.len().min(128)].to_vec());
        } else if name.ends_with(".tbd") || name.ends_with(".idx") || name.ends_with(".hnsw") || name == "turdb.meta" {
            if data.len() >= 128 {
                s.headers.push(data[..128].to_vec());
            }
            for pg in data.chunks(PAGE).skip(1) {
                if pg.len() == PAGE {
                    if pg[0] == 2 && s.leaf_pages.len() < 6 && u16::from_le_bytes([pg[2], pg[3]]) > 0 {
                        s.leaf_pages.push(pg.to_vec());
                    } else if pg[0] == 1 && s.interior_pages.len() < 4 {
                        s.interior_pages.push(pg.to_vec());
                    }
                }
            }
        }
    }
    s
}

// ------------------------------------------------------------------ run

fn parse_case(line: &str) -> Option<Job> {
    let (op, z) = line.split_once(" @ ")?;
    Some(Job { buf: unzhex(z.trim())?, ops: vec![op.trim().to_string()] })
}

pub fn run(ctx: &Ctx) -> Report {
    if let Ok(spec) = std::env::var("DECFUZZ_CHILD") {
        super::decfuzz_file::child_main(&spec);
    }
    let mut rep = Report::new(
        "decfuzz",
        "per decoder (varint, index key, JSONB view, RecordView getters, ArrayView, catalog deserialize, WAL frame, meta/table/index/HNSW \
         file headers, validate_page, leaf / interior / HNSW node page accessors): valid encodings from the real encoders and from the files \
         of a real database, mutated by bit flips, byte extremes, zero/ff fill, every truncation of small encodings, every length/offset/count \
         field set to 0,1,0x7f,0x80,0xff,..,0x7fff,0x8000,0xffff and to len-1/len/len+1, plus random bytes; each buffer with every accessor \
         at indexes 0,1,mid,count-1,count,count+1 and the layout limits. File level: every file of a valid database corrupted at header \
         fields, page headers, cell counts, first/last bytes and truncated, then Database::open + SELECT * + index lookups + INSERT in a \
         child process. non-trivial = distinct (op, buffer) whose real outcome is not `ok` on an unmutated encoding",
    );
    let t0 = std::time::Instant::now();
    let mut rng = Rng::new(ctx.seed ^ 0xC23);
    // eyre captures a backtrace per error when RUST_BACKTRACE is set: 100x slower error paths
    std::env::set_var("RUST_BACKTRACE", "0");
    std::env::set_var("RUST_LIB_BACKTRACE", "0");
    install_loc_hook();

    // a real database: source of valid pages / headers / catalog, and the subject of the file-level cases
    let dbdir = format!("{}/decfuzz-db-{}", ctx.scratch, std::process::id());
    let built = super::decfuzz_file::build_database(&dbdir, &mut rep);
    let samples = if built { collect_samples(&dbdir) } else { DbSamples::default() };
    rep.count_n("sample_leaf_pages_from_db", samples.leaf_pages.len() as u64);
    rep.count_n("sample_interior_pages_from_db", samples.interior_pages.len() as u64);
    rep.count_n("sample_headers_from_db", samples.headers.len() as u64);
    rep.count_n("sample_catalogs_from_db", samples.catalogs.len() as u64);

    let mut jobs: Vec<Job> = vec![];
    let mut file_cases: Vec<String> = vec![];
    for c in ctx.corpus_cases("C23") {
        if c.starts_with("open-corrupt ") {
            file_cases.push(c);
        } else if let Some(j) = parse_case(&c) {
            jobs.push(j);
        } else {
            rep.disagree(c.clone(), "unparsable corpus/replay case".into(), "bad-case".into());
        }
    }
    // development aid: DECFUZZ_ONLY_FILE=1 skips the in-memory decoders
    let only_file = std::env::var("DECFUZZ_ONLY_FILE").is_ok();
    if !only_file {
    gen_records(&mut rng, ctx.thorough, &mut jobs, &mut rep);
    gen_pages(&mut rng, ctx.thorough, &samples, &mut jobs, &mut rep);
    gen_headers(&mut rng, ctx.thorough, &samples, &mut jobs, &mut rep);
    gen_arrays(&mut rng, ctx.thorough, &mut jobs, &mut rep);
    gen_catalog(&mut rng, ctx.thorough, &samples, &mut jobs, &mut rep);
    gen_codecs(&mut rng, ctx.thorough, &mut jobs, &mut rep);
    }

    let t_gen = t0.elapsed().as_secs_f64();
    // ---- real side
    let env = Arc::new(Env { scratch: ctx.scratch.clone() });
    let jobs = Arc::new(jobs);
    let real = run_real(env, jobs.clone());

    let t_real = t0.elapsed().as_secs_f64();
    // ---- model side
    let mut dec_reqs: Vec<String> = vec![];
    let mut var_reqs: Vec<String> = vec![];
    let mut key_reqs: Vec<String> = vec![];
    let mut json_reqs: Vec<String> = vec![];
    // where each (job, op) finds its model answer: (family, request index, part index)
    let mut slots: Vec<Vec<Option<(u8, usize, usize)>>> = Vec::with_capacity(jobs.len());
    for j in jobs.iter() {
        let mut sl = Vec::with_capacity(j.ops.len());
        let mut buf_sent = false;
        let mut json_line: Option<usize> = None;
        for op in &j.ops {
            let fam = family_of(op);
            if op.starts_with("leaf find") {
                sl.push(None);
            } else if fam == "varint" {
                var_reqs.push(format!("dec {}", hex(&j.buf)));
                sl.push(Some((1, var_reqs.len() - 1, 0)));
            } else if fam == "key" {
                key_reqs.push(format!("dec {}", hex(&j.buf)));
                sl.push(Some((2, key_reqs.len() - 1, 0)));
            } else if fam == "jsonb" {
                let o = op.strip_prefix("jsonb ").unwrap();
                match json_line {
                    None => {
                        json_reqs.push(format!("multi {} {o}", hex(&j.buf)));
                        json_line = Some(json_reqs.len() - 1);
                        sl.push(Some((3, json_reqs.len() - 1, 0)));
                    }
                    Some(li) => {
                        let part = json_reqs[li].split(' ').count() - 2;
                        json_reqs[li].push(' ');
                        json_reqs[li].push_str(o);
                        sl.push(Some((3, li, part)));
                    }
                }
            } else {
                if !buf_sent {
                    dec_reqs.push(format!("buf {}", zhex(&j.buf)));
                    buf_sent = true;
                }
                dec_reqs.push(op.clone());
                sl.push(Some((0, dec_reqs.len() - 1, 0)));
            }
        }
        slots.push(sl);
    }
    let dec_resp = model_batch(&ctx.model_bin, "dec", &dec_reqs);
    let var_resp = model_batch(&ctx.model_bin, "varint", &var_reqs);
    let key_resp = model_batch(&ctx.model_bin, "key", &key_reqs);
    let json_resp = model_batch(&ctx.model_bin, "json", &json_reqs);
    rep.count_n("model_requests_dec", dec_reqs.len() as u64);
    rep.count_n("model_requests_other_families", (var_reqs.len() + key_reqs.len() + json_reqs.len()) as u64);

    let t_model = t0.elapsed().as_secs_f64();
    // ---- compare
    let mut panic_sites: BTreeMap<String, u64> = BTreeMap::new();
    for (ji, j) in jobs.iter().enumerate() {
        let z = zhex(&j.buf);
        for (oi, op) in j.ops.iter().enumerate() {
            let Some(r) = real.get(ji).and_then(|v| v.get(oi)) else { continue };
            if r.line == "skipped" {
                rep.count("skipped_after_hang");
                continue;
            }
            let case = format!("{op} @ {z}");
            let dec = decoder_of(op);
            let class = r.line.split(' ').next().unwrap_or("").to_string();
            rep.case(if class != "ok" { Some(&case) } else { None });
            rep.count(&format!("real_{}_{}", family_of(op), class));
            if (ji * 31 + oi) % 40009 == 0 {
                rep.sample(format!("{} -> {}", if case.len() > 120 { &case[..120] } else { &case }, if r.line.len() > 60 { &r.line[..60] } else { &r.line }));
            }
            // oracle on the real code
            if r.is_panic() {
                let sig = format!("decode:{dec}:{}@{}", class, r.loc);
                *panic_sites.entry(sig.clone()).or_insert(0) += 1;
                rep.oracle_fail(case.clone(), format!("{}: {}", r.line, r.msg), sig);
            }
            // model correspondence
            let Some((fam, li, part)) = slots[ji][oi] else { continue };
            let m: String = match fam {
                0 => dec_resp[li].clone(),
                1 => {
                    let m = &var_resp[li];
                    if m.starts_with("err") { "err".into() } else { m.clone() }
                }
                2 => {
                    // `ok <n> <val>` -> `ok <n>`
                    let m = &key_resp[li];
                    let w: Vec<&str> = m.split(' ').collect();
                    if w[0] == "ok" { format!("ok {}", w.get(1).unwrap_or(&"?")) } else { "err".into() }
                }
                _ => json_resp[li].split(" ; ").nth(part).unwrap_or("missing").to_string(),
            };
            let agree = if fam == 2 {
                // Json / Range keys are outside the KeyEnc model
                r.line.ends_with(" outside") || r.line == m
            } else if op.starts_with("cat ") {
                // error tags are compared as well
                if r.line == "err" { m == format!("err {}", r.msg) } else { r.line == m }
            } else if r.line == "err" {
                m.starts_with("err")
            } else {
                r.line == m
            };
            if !agree {
                let lim = |s: &str| if s.len() > 200 { format!("{}..", &s[..200]) } else { s.to_string() };
                rep.disagree(case, format!("impl={} ({}) model={}", lim(&r.line), lim(&r.msg), lim(&m)), format!("{dec}-differs"));
            }
        }
    }
    for (k, v) in &panic_sites {
        rep.notes.push(format!("{v} × {k}"));
    }

    let t_cmp = t0.elapsed().as_secs_f64();
    // ---- file level
    if built {
        super::decfuzz_file::run_file_level(ctx, &dbdir, &mut rng, file_cases, &mut rep);
    }
    if std::env::var("DECFUZZ_KEEP").is_err() {
        let _ = std::fs::remove_dir_all(&dbdir);
    }
    restore_silent_hook();
    rep.notes.push(format!(
        "wall: generate {:.1}s, real decoders {:.1}s, model {:.1}s, compare {:.1}s, file level {:.1}s",
        t_gen, t_real - t_gen, t_model - t_real, t_cmp - t_model, t0.elapsed().as_secs_f64() - t_cmp
    ));
    rep
}
