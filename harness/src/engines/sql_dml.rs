//! C05 (`sql_dml`) and C06 (`sql_dml_atomic`): histories of INSERT / UPDATE / DELETE / TRUNCATE
//! against one table, run in lock-step on the real engine, on the relational reference model
//! (`TurVerif.SqlDb`, the spec) and on the M-code tombstone store (`TurVerif.SqlDml`).
//!
//! After EVERY statement the engine's `SELECT * FROM t` (bag), `SELECT COUNT(*) FROM t`, affected
//! count and RETURNING rows are compared
//!   * with the spec         -> property oracle, `rep.oracle_fail` (C05 signatures `dml:…`, `okerr:…`);
//!   * with the M-code store -> correspondence, `rep.disagree` (the M-code model reproduces the
//!     engine's known defects exactly, so any difference is a broken correspondence).
//! For every statement that returns Err the full dump before/after is compared (C06 oracle,
//! model-independent): `failed-stmt-effect:…`.
//! After any engine≠spec difference the history continues in a fresh *epoch*: a new database
//! loaded (by ordinary single-row INSERTs, run through all three) with the rows the engine showed,
//! so one defect is reported once and tombstones / stale header counts do not cascade.
//! A case (corpus / replay line) is `<schema flags> ;; <tags> @@ <sql> ## <sexpr> ;; …` = the
//! statements of one epoch; it replays without the generator.
use crate::common::*;
use crate::sqlgen::*;
#[path = "../sqlgen_dml.rs"]
mod sqlgen_dml;
use sqlgen_dml::*;

#[derive(Clone, Copy, PartialEq)]
enum Mode { Dml, Atomic }

#[derive(Clone, Debug, PartialEq)]
struct Snap { rows: Vec<Vec<String>>, count: Option<i64>, err: Option<String> }

fn snap(dbh: &Dbh, t: &str) -> Snap {
    let mut s = Snap { rows: vec![], count: None, err: None };
    match dbh.exec(&format!("SELECT * FROM {t}")) {
        Out::Rows(r) => s.rows = r,
        o => s.err = Some(format!("SELECT *: {o:?}")),
    }
    match dbh.exec(&format!("SELECT COUNT(*) FROM {t}")) {
        Out::Rows(r) => s.count = r.get(0).and_then(|r| r.get(0)).and_then(|c| c.strip_prefix('I')).and_then(|x| x.parse().ok()),
        o => s.err = Some(format!("SELECT COUNT(*): {o:?}")),
    }
    s
}

/// (root_page, rightmost_hint) of the table's B-tree, read from page 0 of the table file (the
/// file is a shared mapping of the engine, so the page cache shows the engine's current header)
fn table_header(dir: &str, table: &str) -> Option<(u32, u32)> {
    fn find(d: &std::path::Path, name: &str) -> Option<std::path::PathBuf> {
        for e in std::fs::read_dir(d).ok()?.flatten() {
            let p = e.path();
            if p.is_dir() { if let Some(x) = find(&p, name) { return Some(x); } }
            else if p.file_name().and_then(|f| f.to_str()) == Some(name) { return Some(p); }
        }
        None
    }
    let path = find(std::path::Path::new(dir), &format!("{table}.tbd"))?;
    use std::io::Read;
    let mut buf = vec![0u8; 128];
    std::fs::File::open(path).ok()?.read_exact(&mut buf).ok()?;
    let h = turdb::storage::TableFileHeader::from_bytes(&buf).ok()?;
    Some((h.root_page(), h.rightmost_hint()))
}

fn err_kind(msg: &str) -> &'static str {
    let m = msg.to_lowercase();
    if m.contains("not enough free space") { "nospace" }
    else if m.contains("out of bounds") { "pagebounds" }
    else if m.contains("primary key") { "pk" }
    else if m.contains("unique") { "unique" }
    else if m.contains("not null") { "notnull" }
    else if m.contains("check") { "check" }
    else if m.contains("not found") || m.contains("does not exist") || m.contains("no such") || m.contains("unknown column") { "missing" }
    else if m.contains("division by zero") || m.contains("unsupported types") { "arith" }
    else if m.contains("not a variable column") || m.contains("type") || m.contains("mismatch") || m.contains("cannot") || m.contains("expected") { "type" }
    else { "other" }
}

struct MResp { spec: String, mres: String, mcount: i64, mvis: Vec<Vec<String>>, why: String, cells_before: usize, cells_after: usize, dead: u64 }

fn parse_resp(r: &str) -> Option<MResp> {
    let p: Vec<&str> = r.split(" | ").collect();
    if p.len() != 6 { return None; }
    let f: Vec<&str> = p[5].trim().split(' ').collect();
    if f.len() != 3 { return None; }
    let (cb, ca) = (f[0], f[1]);
    Some(MResp { spec: p[0].trim().to_string(), mres: p[1].trim().to_string(), mcount: p[2].trim().parse().ok()?, mvis: parse_model_rows(p[3].trim_start()).ok()?, why: p[4].trim().to_string(), cells_before: cb.parse().ok()?, cells_after: ca.parse().ok()?, dead: f[2].parse().ok()? })
}

/// spec result `affected n rows`
fn parse_affected(s: &str) -> Option<(usize, Vec<Vec<String>>)> {
    let r = s.strip_prefix("affected ")?;
    let (n, rest) = r.split_once(' ').unwrap_or((r, ""));
    let n: usize = n.parse().ok()?;
    let rows: Vec<Vec<String>> = if rest.trim().is_empty() { vec![] } else { rest.trim().split(';').map(|row| row.split(',').map(|c| c.to_string()).collect()).collect() };
    Some((n, rows))
}

struct Run<'a> {
    ctx: &'a Ctx,
    mode: Mode,
    rep: &'a mut Report,
    model: Model,
    nepoch: u64,
}

struct Epoch { dbh: Dbh, sc: Schema, stmts: Vec<StmtText>, snap: Snap, known: Known,
    /// a successful UPDATE assigned a UNIQUE / PRIMARY KEY column in this epoch: the engine's unique index is stale from then on
    uidx_stale: bool,
    /// a TRUNCATE ran in this epoch while the table's B-tree had split (root page moved)
    trunc_multileaf: bool }

impl<'a> Run<'a> {
    fn new_epoch(&mut self, sc: &Schema, load: &[Vec<String>]) -> Epoch {
        self.nepoch += 1;
        let dbh = Dbh::create(self.ctx, &format!("dml-{}", self.nepoch));
        dbh.must(&sc.create_sql());
        self.model.ask("reset");
        let r = self.model.ask(&sc.model_create());
        assert!(r == "ok", "model create failed: {r}");
        let mut ep = Epoch { dbh, sc: sc.clone(), stmts: vec![], snap: Snap { rows: vec![], count: Some(0), err: None }, known: Known::default(), uidx_stale: false, trunc_multileaf: false };
        // load rows by ordinary INSERTs (chunks of up to 50 rows per statement; row by row when the
        // spec rejects a chunk, dropping the rows it rejects: the engine state was invalid then)
        let vals: Vec<Vec<V>> = load.iter().filter_map(|row| { let vs: Option<Vec<V>> = row.iter().map(|c| cell_to_v(c)).collect(); vs.filter(|v| v.len() == COLS.len()) }).collect();
        for chunk in vals.chunks(50) {
            let st = Dml::Insert { cols: None, rows: chunk.to_vec(), returning: false }.text(sc);
            let probe = self.model.ask(&format!("stmt {}", st.sx.as_ref().unwrap()));
            if probe.starts_with(&format!("affected {} ", chunk.len())) {
                let _ = ep.dbh.exec(&st.sql);
                ep.stmts.push(st);
                continue;
            }
            for vs in chunk {
                let st = Dml::Insert { cols: None, rows: vec![vs.clone()], returning: false }.text(sc);
                let probe = self.model.ask(&format!("stmt {}", st.sx.as_ref().unwrap()));
                if !probe.starts_with("affected 1") { continue; }
                let _ = ep.dbh.exec(&st.sql);
                ep.stmts.push(st);
            }
        }
        ep.snap = snap(&ep.dbh, &sc.name);
        // make the models agree with whatever the engine holds now
        let cnt = ep.snap.count.unwrap_or(ep.snap.rows.len() as i64).max(0);
        let rows_sx: Vec<String> = ep.snap.rows.iter().map(|r| format!("({})", r.iter().map(|c| cell_to_v(c).map(|v| v.sx()).unwrap_or("(null)".into())).collect::<Vec<_>>().join(" "))).collect();
        self.model.ask(&format!("resync {} {} {}", sc.name, cnt, rows_sx.join(" ")));
        Self::learn(&mut ep);
        ep.known.deleted.clear();
        ep.known.cells = ep.snap.rows.len();
        ep
    }

    fn learn(ep: &mut Epoch) {
        let ids: Vec<i64> = ep.snap.rows.iter().filter_map(|r| r.get(0).and_then(|c| c.strip_prefix('I')).and_then(|x| x.parse().ok())).collect();
        let us: Vec<i64> = ep.snap.rows.iter().filter_map(|r| r.get(3).and_then(|c| c.strip_prefix('I')).and_then(|x| x.parse().ok())).collect();
        // ids that disappeared are tombstones now; ids that are visible are not
        for old in &ep.known.ids { if !ids.contains(old) && !ep.known.deleted.contains(old) { ep.known.deleted.push(*old); } }
        ep.known.deleted.retain(|d| !ids.contains(d));
        ep.known.ids = ids;
        ep.known.us = us;
    }

    /// run one statement in the epoch; returns true when the epoch must be restarted
    fn exec_one(&mut self, ep: &mut Epoch, st: &StmtText) -> bool {
        let kind = st.kind();
        let verb = st.verb();
        let before = ep.snap.clone();
        let split_before = table_header(&ep.dbh.dir, &ep.sc.name).map(|h| h.0 != 1);
        if split_before.is_none() { self.rep.count("table_header_unreadable"); }
        let out = ep.dbh.exec(&st.sql);
        let resp = st.sx.as_ref().map(|sx| self.model.ask(&format!("stmt {sx}")));
        let after = snap(&ep.dbh, &ep.sc.name);
        ep.stmts.push(st.clone());
        let case = case_line(&ep.sc, &ep.stmts);
        let multi = if verb == "truncate" { "all" } else if st.has_tag("multi") { "multi" } else if verb == "insert" { "single" } else if st.has_tag("nowhere") { "allrows" } else { "where" };
        self.rep.count(&format!("stmt_{kind}"));
        if st.returning() { self.rep.count("with_returning"); }
        let mut diverged = false;

        if let Some(e) = &after.err {
            self.rep.oracle_fail(case.clone(), format!("after `{}`: {e}", st.sql), format!("dml:{verb}:dump-failed"));
            ep.snap = after;
            return true;
        }
        // engine-side status
        let (eng_ok, eng_aff, eng_ret, eng_err): (bool, usize, Option<Vec<Vec<String>>>, String) = match &out {
            Out::Affected(n, r) => (true, *n, r.clone(), String::new()),
            Out::Err(e) => (false, 0, None, e.clone()),
            Out::Panic(p) => (false, 0, None, format!("PANIC {p}")),
            o => (true, 0, None, format!("{o:?}")),
        };
        let is_panic = matches!(out, Out::Panic(_));
        self.rep.count(if eng_ok { "engine_ok" } else { "engine_err" });

        // ---------------- C06 oracle (model independent): Err => dump unchanged
        if !eng_ok {
            let rows_same = rows_agree_bag(&before.rows, &after.rows);
            let count_same = before.count == after.count;
            self.rep.count(&format!("err_stmt_{verb}_{}", err_kind(&eng_err)));
            if self.mode == Mode::Atomic {
                let key = format!("{}|{}", st.sql, show_rows(&before.rows));
                self.rep.case(Some(&key));
            }
            if !(rows_same && count_same) {
                diverged = true;
                if self.mode == Mode::Atomic {
                    let sig = format!("failed-stmt-effect:{verb}:{}{}:{multi}:rows={} count={}", if is_panic { "panic-" } else { "" }, err_kind(&eng_err), if rows_same { "same" } else { "changed" }, if count_same { "same" } else { "changed" });
                    self.rep.oracle_fail(case.clone(), format!("`{}` returned Err ({}) but the table changed: before {} rows [{}] COUNT(*)={:?}; after {} rows [{}] COUNT(*)={:?}", st.sql, eng_err.chars().take(120).collect::<String>(), before.rows.len(), show_rows(&before.rows).chars().take(400).collect::<String>(), before.count, after.rows.len(), show_rows(&after.rows).chars().take(400).collect::<String>(), after.count), sig);
                } else { self.rep.count("c06_effect_seen_not_reported_here"); }
            }
        }

        if let Some(resp) = resp {
            let Some(m) = parse_resp(&resp) else { panic!("bad model response `{resp}` for `{}`", st.sx.as_ref().unwrap()); };
            let spec_aff = parse_affected(&m.spec);
            let spec_ok = spec_aff.is_some();
            let dead: u64 = m.dead;
            ep.known.cells = m.cells_after;
            let cmax = m.cells_before.max(m.cells_after);
            self.rep.count(if cmax < 8 { "stmts_on_0-7_records" } else if cmax < 64 { "stmts_on_8-63_records" } else if cmax < 256 { "stmts_on_64-255_records" } else { "stmts_on_256+_records" });
            let key_related = spec_ok != eng_ok && (if !spec_ok { m.why.starts_with("unique") || m.why.starts_with("pk-") } else { matches!(err_kind(&eng_err), "unique" | "pk") });
            let nospace = !eng_ok && matches!(err_kind(&eng_err), "nospace" | "pagebounds");
            let ctxflag = if ep.trunc_multileaf { "after-multileaf-truncate" } else if dead > 0 { "tombstone-match" } else if ep.uidx_stale && key_related { "stale-uidx" } else if st.has_tag("nulldef") { "nulldef" } else if st.has_tag("mixedset") { "mixedset" } else { "plain" };
            if dead > 0 { self.rep.count(&format!("tombstone_match_{kind}")); }
            let spec_rows: Vec<Vec<String>> = match parse_model_rows(&self.model.ask(&format!("dump {}", ep.sc.name))) { Ok(r) => r, Err(e) => panic!("model dump: {e}") };

            // ---------------- M-code correspondence
            let inexact = false;
            if ep.trunc_multileaf { self.rep.count("mcode_not_compared_after_multileaf_truncate"); }
            else if nospace { self.rep.count("mcode_not_compared_btree_page_level_error"); }
            else if !inexact {
                let m_ok = m.mres.starts_with("ok ");
                let m_aff: usize = m.mres.strip_prefix("ok ").and_then(|x| x.split(' ').next()).and_then(|x| x.parse().ok()).unwrap_or(0);
                let mut bad: Vec<String> = vec![];
                if m_ok != eng_ok && ep.uidx_stale && key_related { self.rep.count("mcode_not_compared_stale_unique_index"); }
                else {
                if m_ok != eng_ok { bad.push(format!("status: mcode {} engine {}", m.mres, if eng_ok { "ok".to_string() } else { format!("err {}", eng_err.chars().take(80).collect::<String>()) })); }
                if m_ok && eng_ok && m_aff != eng_aff { bad.push(format!("affected: mcode {m_aff} engine {eng_aff}")); }
                if !rows_agree_bag(&m.mvis, &after.rows) { bad.push(format!("visible rows: mcode [{}] engine [{}]", show_rows(&m.mvis), show_rows(&after.rows))); }
                if Some(m.mcount) != after.count { bad.push(format!("COUNT(*): mcode {} engine {:?}", m.mcount, after.count)); }
                }
                if !bad.is_empty() {
                    self.rep.disagree(case.clone(), format!("`{}`: {}", st.sql, bad.join("; ")), format!("mcode:{kind}"));
                    diverged = true;
                }
            } else { self.rep.count("mcode_not_compared_expression_semantics"); }

            // ---------------- C05 oracle: the spec
            let nontrivial = spec_ok && spec_aff.as_ref().map(|a| a.0 > 0).unwrap_or(false);
            if self.mode == Mode::Dml {
                let key = format!("{}|{}", st.sql, show_rows(&before.rows));
                self.rep.case(if nontrivial { Some(&key) } else { None });
            }
            let mut fails: Vec<(String, String)> = vec![];
            if spec_ok != eng_ok {
                let why = if !spec_ok { m.why.clone() } else { err_kind(&eng_err).to_string() };
                fails.push((format!("okerr:{verb}:{why}:{multi}{} exp={} got={}", if ctxflag == "plain" { String::new() } else { format!(":{ctxflag}") }, if spec_ok { "ok" } else { "err" }, if eng_ok { "ok" } else if is_panic { "panic" } else { "err" }),
                    format!("spec {} / engine {}", m.spec.chars().take(60).collect::<String>(), if eng_ok { format!("ok affected {eng_aff}") } else { eng_err.chars().take(120).collect() })));
            } else if spec_ok {
                let (sa, sr) = spec_aff.clone().unwrap();
                if sa != eng_aff { fails.push((format!("dml:{verb}:affected:{ctxflag}"), format!("affected: spec {sa} engine {eng_aff}"))); }
                if st.returning() {
                    match &eng_ret {
                        None => fails.push((format!("dml:{verb}:returning-missing:{ctxflag}"), "RETURNING requested, engine returned none".into())),
                        Some(er) => if !rows_agree_bag(&sr, er) { fails.push((format!("dml:{verb}:returning:{ctxflag}"), format!("RETURNING: spec [{}] engine [{}]", show_rows(&sr), show_rows(er)))); }
                    }
                }
            }
            if spec_ok == eng_ok {
                // both failed: the spec state is unchanged; whether the engine's is, is C06's question
                if eng_ok || self.mode == Mode::Dml {
                    if eng_ok && !rows_agree_bag(&spec_rows, &after.rows) { fails.push((format!("dml:{verb}:rows:{ctxflag}"), format!("SELECT *: spec [{}] engine [{}]", show_rows(&spec_rows), show_rows(&after.rows)))); }
                    if eng_ok && after.count != Some(after.rows.len() as i64) { fails.push((format!("dml:{verb}:count-ne-visible:{ctxflag}"), format!("COUNT(*) = {:?} but SELECT * returns {} rows", after.count, after.rows.len()))); }
                    if eng_ok && after.count != Some(spec_rows.len() as i64) { fails.push((format!("dml:{verb}:count:{ctxflag}"), format!("COUNT(*): spec {} engine {:?} (engine shows {} rows)", spec_rows.len(), after.count, after.rows.len()))); }
                }
            }
            if !fails.is_empty() { diverged = true; }
            if !rows_agree_bag(&spec_rows, &after.rows) || after.count != Some(spec_rows.len() as i64) { diverged = true; }
            if self.mode == Mode::Dml {
                for (sig, d) in fails { self.rep.oracle_fail(case.clone(), format!("`{}`: {d}", st.sql), sig); }
            }
        }
        if eng_ok && verb == "update" && ((st.has_tag("setu") && ep.sc.uq) || (st.has_tag("setid") && ep.sc.pk)) { ep.uidx_stale = true; }
        if eng_ok && verb == "truncate" { ep.uidx_stale = false; if split_before == Some(true) { ep.trunc_multileaf = true; self.rep.count("truncate_of_multileaf_table"); } }
        if split_before == Some(true) { self.rep.count("stmts_on_multileaf_table"); }
        ep.snap = after;
        Self::learn(ep);
        diverged
    }

    /// `preload` rows are inserted first (multi-row INSERTs of up to 50 rows, ordinary statements of the history)
    fn history(&mut self, sc: &Schema, rng: &mut Rng, len: usize, preload: usize) {
        let gen = DmlGen { atomic_bias: self.mode == Mode::Atomic };
        let mut ep = self.new_epoch(sc, &[]);
        self.rep.count(&format!("schema_{}", sc.short()));
        self.rep.count(if preload == 0 { "histories_grown_from_empty" } else if preload < 64 { "histories_preloaded_8-63_rows" } else { "histories_preloaded_400+_rows" });
        let restart = |this: &mut Self, ep: Epoch| -> Epoch {
            this.rep.count("epoch_restarts");
            let rows = ep.snap.rows.clone();
            let sh = ep.known.shifts.get();
            drop(ep);
            let ep2 = this.new_epoch(sc, &rows);
            ep2.known.shifts.set(sh);
            ep2
        };
        let mut left = preload;
        while left > 0 {
            let n = left.min(50);
            left -= n;
            let d = gen.bulk(rng, sc, &ep.known, n);
            let st = d.text(sc);
            if self.exec_one(&mut ep, &st) { ep = restart(self, ep); }
        }
        for i in 0..len {
            let d = gen.next(rng, sc, &ep.known);
            let st = d.text(sc);
            if i == 3 && self.rep.samples.len() < 12 && self.rep.evaluations % 5 == 0 { self.rep.sample(format!("{} ;; … ;; {}", sc.create_sql(), st.sql)); }
            if self.exec_one(&mut ep, &st) { ep = restart(self, ep); }
        }
    }

    fn replay(&mut self, line: &str) {
        let Some((sc, stmts)) = parse_case(line) else { self.rep.notes.push(format!("unparsable case skipped: {}", line.chars().take(80).collect::<String>())); return; };
        let mut ep = self.new_epoch(&sc, &[]);
        for st in &stmts {
            if self.exec_one(&mut ep, st) { break; }
        }
        self.rep.count("replayed_cases");
    }
}


// ---------------------------------------------------------------- systematic layer
fn vi(i: i64) -> V { V::Int(i) }
fn vt(s: &str) -> V { V::Text(s.into()) }
fn row(id: i64, a: i64, b: V, u: V, c: V) -> Vec<V> { vec![vi(id), vi(a), b, u, c] }
fn ins(rows: Vec<Vec<V>>, returning: bool) -> Dml { Dml::Insert { cols: None, rows, returning } }
fn idcmp(op: Op, k: i64) -> Option<E> { Some(E::Bin(op, Box::new(E::Col(0)), Box::new(E::Lit(vi(k))))) }
fn seed_rows(n: i64) -> Vec<Vec<V>> { (1..=n).map(|i| row(i, 10 * i, vt("x"), vi(100 * i), vi(i))).collect() }

/// every known root cause (and its absence on neighbouring inputs) is exercised on every run,
/// whatever the seed: scripted histories, one fresh database each
fn scripted() -> Vec<(Schema, Vec<Dml>)> {
    let sc = |pk: bool, nn: bool, df: bool, uq: bool, ck: bool| Schema { name: "t".into(), pk, nn, df, uq, ck };
    let lit = |i: i64| E::Lit(vi(i));
    let mut v: Vec<(Schema, Vec<Dml>)> = vec![];
    for pk in [false, true] {
        // re-delete (range scan and pk point), delete-all twice, with and without RETURNING
        v.push((sc(pk, true, false, false, false), vec![ins(seed_rows(4), false), Dml::Delete { whr: idcmp(Op::Le, 2), returning: true }, Dml::Delete { whr: idcmp(Op::Le, 3), returning: true }]));
        v.push((sc(pk, true, false, false, false), vec![ins(seed_rows(3), false), Dml::Delete { whr: idcmp(Op::Eq, 2), returning: false }, Dml::Delete { whr: idcmp(Op::Eq, 2), returning: false }]));
        v.push((sc(pk, false, false, false, false), vec![ins(seed_rows(3), false), Dml::Delete { whr: None, returning: false }, Dml::Delete { whr: None, returning: true }]));
        // update after delete: the deleted row must not come back
        v.push((sc(pk, true, false, false, false), vec![ins(seed_rows(3), false), Dml::Delete { whr: idcmp(Op::Eq, 1), returning: false }, Dml::Update { sets: vec![(1, lit(7))], whr: idcmp(Op::Le, 2), returning: true }]));
        v.push((sc(pk, true, false, false, false), vec![ins(seed_rows(3), false), Dml::Delete { whr: idcmp(Op::Ge, 2), returning: false }, Dml::Update { sets: vec![(2, E::Lit(vt("k")))], whr: None, returning: false }]));
        // … and its new image must not be validated
        v.push((sc(pk, true, false, false, true), vec![ins(seed_rows(3), false), Dml::Delete { whr: idcmp(Op::Eq, 1), returning: false }, Dml::Update { sets: vec![(4, E::Bin(Op::Sub, Box::new(E::Col(0)), Box::new(lit(1))))], whr: idcmp(Op::Le, 3), returning: false }]));
        // truncate after delete; re-insert of a deleted key; delete it again
        v.push((sc(pk, true, false, false, false), vec![ins(seed_rows(3), false), Dml::Delete { whr: idcmp(Op::Eq, 3), returning: false }, Dml::Truncate, ins(seed_rows(2), true)]));
        v.push((sc(pk, true, false, true, false), vec![ins(seed_rows(3), false), Dml::Delete { whr: idcmp(Op::Eq, 3), returning: false }, ins(vec![row(3, 5, vt("again"), vi(300), vi(1))], true), Dml::Delete { whr: idcmp(Op::Ge, 3), returning: true }]));
        // update selecting zero rows is the identity; plain updates / deletes on a clean table
        v.push((sc(pk, true, true, true, true), vec![ins(seed_rows(4), false), Dml::Update { sets: vec![(1, lit(0))], whr: idcmp(Op::Gt, 50), returning: true }, Dml::Update { sets: vec![(1, E::Bin(Op::Add, Box::new(E::Col(1)), Box::new(lit(1)))), (2, E::Lit(V::Null))], whr: idcmp(Op::Ne, 2), returning: true }, Dml::Delete { whr: idcmp(Op::Gt, 3), returning: true }, Dml::Truncate]));
        // explicit NULL into a DEFAULT column, omitted column gets the default
        v.push((sc(pk, false, true, false, false), vec![Dml::Insert { cols: Some(vec![0, 1]), rows: vec![vec![vi(1), vi(1)]], returning: true }, ins(vec![row(2, 2, V::Null, V::Null, V::Null)], true)]));
        // SET a = const, c = a + 1
        v.push((sc(pk, true, false, false, false), vec![ins(seed_rows(2), false), Dml::Update { sets: vec![(1, lit(7)), (4, E::Bin(Op::Add, Box::new(E::Col(1)), Box::new(lit(1))))], whr: None, returning: true }]));
        v.push((sc(pk, true, false, false, true), vec![ins(vec![row(1, -5, vt("x"), V::Null, vi(1))], false), Dml::Update { sets: vec![(1, lit(7)), (4, E::Bin(Op::Add, Box::new(E::Col(1)), Box::new(lit(1))))], whr: idcmp(Op::Eq, 1), returning: false }]));
        // the same value assigned to a UNIQUE column of several rows
        v.push((sc(pk, true, false, true, false), vec![ins(seed_rows(3), false), Dml::Update { sets: vec![(3, lit(900))], whr: None, returning: false }]));
        v.push((sc(pk, true, false, true, false), vec![ins(seed_rows(3), false), Dml::Update { sets: vec![(3, lit(900))], whr: idcmp(Op::Ge, 2), returning: false }]));
        // unique index after an UPDATE of the unique column: new value taken, old value free again
        v.push((sc(pk, true, false, true, false), vec![ins(seed_rows(2), false), Dml::Update { sets: vec![(3, lit(900))], whr: idcmp(Op::Le, 1), returning: false }, ins(vec![row(5, 5, vt("n"), vi(900), vi(1))], false)]));
        v.push((sc(pk, true, false, true, false), vec![ins(seed_rows(2), false), Dml::Update { sets: vec![(3, lit(900))], whr: idcmp(Op::Le, 1), returning: false }, ins(vec![row(5, 5, vt("n"), vi(100), vi(1)), row(6, 6, vt("n"), vi(600), vi(1))], false)]));
        v.push((sc(pk, true, false, true, false), vec![ins(seed_rows(3), false), Dml::Update { sets: vec![(3, lit(900))], whr: idcmp(Op::Le, 1), returning: false }, Dml::Update { sets: vec![(3, lit(100))], whr: idcmp(Op::Ge, 3), returning: false }]));
        // 8 and more records in the leaf
        v.push((sc(pk, true, false, false, false), vec![ins(seed_rows(8), false), Dml::Update { sets: vec![(1, lit(0))], whr: idcmp(Op::Le, 2), returning: true }]));
        v.push((sc(pk, true, false, false, false), vec![ins(seed_rows(9), false), Dml::Delete { whr: idcmp(Op::Ge, 5), returning: false }]));
        v.push((sc(pk, true, false, false, false), vec![ins(seed_rows(8), false), Dml::Truncate]));
        v.push((sc(pk, true, false, true, false), vec![ins(seed_rows(8), false), ins(vec![row(9, 1, vt("d"), vi(300), vi(1))], false)]));
        v.push((sc(pk, true, false, true, false), vec![ins(seed_rows(8), false), Dml::Update { sets: vec![(3, lit(900))], whr: idcmp(Op::Ge, 7), returning: false }]));
        // multi-row UPDATE whose LAST row violates CHECK (c = 4 - id: rows 1..3 pass, row 4 fails), NOT NULL on every row, duplicate key
        v.push((sc(pk, true, false, true, true), vec![ins(seed_rows(4), false), Dml::Update { sets: vec![(1, lit(0)), (4, E::Bin(Op::Sub, Box::new(lit(4)), Box::new(E::Col(0))))], whr: None, returning: false }, Dml::Update { sets: vec![(4, E::Bin(Op::Sub, Box::new(lit(4)), Box::new(E::Col(0))))], whr: idcmp(Op::Ge, 2), returning: true }]));
        // a table of 400 rows (several B-tree leaves): in-place updates, range delete + re-delete, point statements,
        // duplicate keys against stored rows, failing multi-row INSERT
        let load = |n: i64| -> Vec<Dml> { seed_rows(n).chunks(50).map(|c| ins(c.to_vec(), false)).collect() };
        let with = |mut a: Vec<Dml>, b: Vec<Dml>| -> Vec<Dml> { a.extend(b); a };
        v.push((sc(pk, true, false, true, false), with(load(400), vec![
            Dml::Update { sets: vec![(1, lit(0))], whr: idcmp(Op::Le, 200), returning: false },
            Dml::Update { sets: vec![(4, lit(7))], whr: idcmp(Op::Eq, 333), returning: true },
            Dml::Delete { whr: idcmp(Op::Eq, 17), returning: true },
            ins(vec![row(17, 1, vt("x"), vi(1700), vi(1))], true),
            ins(vec![row(401, 1, vt("x"), vi(100), vi(1))], false),
            Dml::Delete { whr: idcmp(Op::Gt, 390), returning: true },
            Dml::Delete { whr: idcmp(Op::Ge, 380), returning: false }])));
        v.push((sc(pk, true, false, true, true), with(load(400), vec![
            ins(vec![row(500, 1, vt("x"), V::Null, vi(1)), row(501, 1, vt("x"), vi(100), vi(1))], false)])));
        // TRUNCATE of a multi-leaf table, then INSERT: the new row must be visible
        v.push((sc(pk, true, false, false, false), with(load(400), vec![Dml::Truncate, ins(seed_rows(2), true)])));
        // UPDATE that makes every record of a full leaf longer
        v.push((sc(pk, true, false, false, false), with(load(400), vec![Dml::Update { sets: vec![(2, E::Lit(vt("a considerably longer text value")))], whr: None, returning: false }])));
        // failing multi-row INSERTs: the k-th row violates each constraint kind (stored row / earlier row of the statement)
        for n in [2i64, 9, 40] {
            let base = |x: i64| 100 + x;
            v.push((sc(pk, true, false, true, true), vec![ins(seed_rows(n), false), ins(vec![row(base(1), 1, vt("n"), V::Null, vi(1)), row(base(2), 1, vt("n"), vi(100), vi(1)), row(base(3), 1, vt("n"), V::Null, vi(1))], false)]));
            v.push((sc(pk, true, false, true, true), vec![ins(seed_rows(n), false), ins(vec![row(base(1), 1, vt("n"), vi(7700), vi(1)), row(base(2), 1, vt("n"), vi(7700), vi(1))], true)]));
            v.push((sc(pk, true, false, true, true), vec![ins(seed_rows(n), false), ins(vec![row(base(1), 1, vt("n"), V::Null, vi(1)), row(base(2), 1, vt("n"), V::Null, vi(0))], false)]));
            v.push((sc(pk, true, false, true, true), vec![ins(seed_rows(n), false), ins(vec![row(base(1), 1, vt("n"), V::Null, vi(1)), vec![vi(base(2)), V::Null, vt("n"), V::Null, vi(1)], row(base(3), 1, vt("n"), V::Null, vi(1))], false)]));
            v.push((sc(pk, true, false, true, true), vec![ins(seed_rows(n), false), Dml::Raw(format!("INSERT INTO t VALUES ({}, 1, 'r', NULL, 1), ({}, 'oops', 'r', NULL, 1)", base(1), base(2)))]));
            if pk {
                v.push((sc(pk, true, false, true, true), vec![ins(seed_rows(n), false), ins(vec![row(base(1), 1, vt("n"), V::Null, vi(1)), row(1, 1, vt("n"), V::Null, vi(1))], false)]));
                v.push((sc(pk, true, false, true, true), vec![ins(seed_rows(n), false), ins(vec![row(base(1), 1, vt("n"), V::Null, vi(1)), row(base(1), 1, vt("n"), V::Null, vi(1))], false)]));
                v.push((sc(pk, true, false, true, true), vec![ins(seed_rows(n), false), ins(vec![row(base(1), 1, vt("n"), V::Null, vi(1)), vec![V::Null, vi(1), vt("n"), V::Null, vi(1)]], false)]));
            }
            // failing statements that must have (and have) no effect
            v.push((sc(pk, true, false, true, true), vec![ins(seed_rows(n), false), ins(vec![row(1, 1, vt("n"), vi(100), vi(0))], false), Dml::Update { sets: vec![(1, E::Lit(V::Null))], whr: None, returning: false }, Dml::Update { sets: vec![(4, E::Bin(Op::Sub, Box::new(E::Col(0)), Box::new(lit(1))))], whr: None, returning: false }, Dml::Update { sets: vec![(3, lit(100))], whr: idcmp(Op::Ge, 2), returning: false }, Dml::Raw("UPDATE t SET a = a / 0".into()), Dml::Raw("DELETE FROM t WHERE nosuchcol = 1".into()), Dml::Raw("INSERT INTO nosuch VALUES (1)".into())]));
        }
    }
    v
}

fn run_mode(ctx: &Ctx, mode: Mode) -> Report {
    let (name, prop) = if mode == Mode::Dml { ("sql_dml", "C05") } else { ("sql_dml_atomic", "C06") };
    let mut rep = Report::new(
        name,
        if mode == Mode::Dml {
            "histories of 20-40 INSERT (single/multi-row, with/without column list, defaults) / UPDATE (constants, expressions over NOT NULL \
             columns, key shifts, with/without WHERE) / DELETE / TRUNCATE statements, ~1/3 with RETURNING *, over one table (grown from empty, pre-loaded with 8-60 rows, or with 400-500 rows = several B-tree leaves) whose constraint set \
             (PRIMARY KEY, NOT NULL, DEFAULT, UNIQUE, CHECK) is drawn per history; predicates are comparisons / IN / BETWEEN / AND / OR over NOT NULL \
             integer columns only (NULL-sensitive WHERE logic is C14's subject), and re-target ids deleted earlier (re-delete, update-after-delete, \
             re-insert); arithmetic SET expressions only over NOT NULL columns. After every statement: SELECT * (bag), COUNT(*), affected, RETURNING vs the spec \
             and vs the M-code tombstone store. non-trivial = distinct (statement, pre-state) whose spec result affects >= 1 row"
        } else {
            "same histories, biased to failing statements: multi-row INSERT whose k-th row violates PK / UNIQUE / NOT NULL / CHECK (against stored rows or earlier rows of \
             the same statement), multi-row UPDATE with a violating assignment (data-dependent CHECK, NOT NULL, duplicate key), engine-only failing statements \
             (missing table/column, type error or division by zero in the k-th row). Oracle: for every Err-returning statement SELECT * and COUNT(*) before = after. Multi-table layer: the FK scenarios and random parent/child histories of the constraint engine (incl. a DELETE that hits a cascading and a refusing reference at once): every Err-returning DELETE / UPDATE must leave ALL tables unchanged. \
             non-trivial = distinct (failing statement, pre-state)"
        },
    );
    let model = Model::spawn(&ctx.model_bin, "sqldml");
    let mut run = Run { ctx, mode, rep: &mut rep, model, nepoch: 0 };
    for line in ctx.corpus_cases(prop) { if line.starts_with("sys:") || line.starts_with("rand:") { continue; } run.replay(&line); }
    for (sc, script) in scripted() {
        let mut ep = run.new_epoch(&sc, &[]);
        for d in &script {
            let st = d.text(&sc);
            if run.exec_one(&mut ep, &st) { break; }
        }
        run.rep.count("scripted_histories");
    }
    let mut rng = Rng::new(ctx.seed ^ if mode == Mode::Dml { 0x0505 } else { 0x0606 });
    let nhist = if ctx.thorough { 600 } else { 70 };
    // systematic layer: every constraint subset appears (32 schemas) before random ones
    for h in 0..nhist {
        let bits = if h < 32 { h as u64 } else { rng.below(32) };
        let sc = Schema { name: "t".into(), pk: bits & 1 != 0, nn: bits & 2 != 0, df: bits & 4 != 0, uq: bits & 8 != 0, ck: bits & 16 != 0 };
        let len = 20 + rng.below(21) as usize;
        let mut hr = rng.fork();
        // size classes: most histories grow from empty (typically 0..40 records incl. tombstones), every
        // 5th starts from 8..60 rows, and a few from 400..500 rows (more than one B-tree leaf)
        let nlarge = if ctx.thorough { 12 } else { 3 };
        let preload = if h >= nhist - nlarge { 400 + hr.below(101) as usize } else if h % 5 == 4 { 8 + hr.below(53) as usize } else { 0 };
        let len = if preload >= 400 { 12 + hr.below(8) as usize } else { len };
        run.history(&sc, &mut hr, len, preload);
    }
    let reqs = run.model.requests;
    let ne = run.nepoch;
    drop(run);
    if mode == Mode::Atomic { super::sql_cons::run_atomic_layer(ctx, &mut rep); }
    rep.notes.push(format!("model requests: {reqs}; epochs: {ne}"));
    rep
}

pub fn run(ctx: &Ctx) -> Report { run_mode(ctx, Mode::Dml) }
pub fn run_atomic(ctx: &Ctx) -> Report { run_mode(ctx, Mode::Atomic) }
