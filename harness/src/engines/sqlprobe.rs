//! Development aid: run SQL statements from the --replay file against a fresh database and print results.
use crate::common::*;
use turdb::{Database, ExecuteResult, OwnedValue};

pub fn show(v: &OwnedValue) -> String {
    match v {
        OwnedValue::Null => "NULL".into(),
        OwnedValue::Bool(b) => format!("B:{b}"),
        OwnedValue::Int(i) => format!("I:{i}"),
        OwnedValue::Float(f) => format!("F:{f:?}"),
        OwnedValue::Text(s) => format!("T:{s:?}"),
        OwnedValue::Blob(b) => format!("X:{}", hex(b)),
        other => format!("O:{other:?}"),
    }
}

pub fn run(ctx: &Ctx) -> Report {
    let rep = Report::new("sqlprobe", "manual");
    let dir = format!("{}/probe-{}", ctx.scratch, std::process::id());
    let _ = std::fs::remove_dir_all(&dir);
    let db = Database::create(&dir).unwrap();
    let text = std::fs::read_to_string(ctx.replay.as_ref().expect("--replay file")).unwrap();
    for line in text.lines() {
        let line = line.trim();
        if line.is_empty() || line.starts_with('#') { continue; }
        if line.to_uppercase().starts_with("SELECT") {
            let l3 = line.to_string();
            let dbq = &db;
            match guarded(std::panic::AssertUnwindSafe(move || dbq.query(&l3))) {
                Err(p) => println!("[query] PANIC {p}"),
                Ok(Err(e)) => println!("[query] ERR {e}"),
                Ok(Ok(rows)) => println!("[query] {}", rows.iter().map(|r| r.values.iter().map(show).collect::<Vec<_>>().join("|")).collect::<Vec<_>>().join(" ; ")),
            }
        }
        let l2 = line.to_string();
        let dbr = &db;
        let r = guarded(std::panic::AssertUnwindSafe(move || dbr.execute(&l2)));
        match r {
            Err(p) => println!("{line}\n   => PANIC {p}"),
            Ok(Err(e)) => println!("{line}\n   => ERR {e}"),
            Ok(Ok(ExecuteResult::Select { columns, rows })) => {
                println!("{line}\n   => cols {columns:?}");
                for r in rows { println!("      {}", r.values.iter().map(show).collect::<Vec<_>>().join(" | ")); }
            }
            Ok(Ok(other)) => println!("{line}\n   => {other:?}"),
        }
    }
    drop(db);
    let _ = std::fs::remove_dir_all(&dir);
    rep
}
