//! C22 — no SQL text, parameter list, PRAGMA or API call sequence makes the library panic, abort or hang.
//!
//! Three parts (the evidence says which is theorem-backed and which is search only):
//!  (1) lexer differential: the real `Lexer` against the Lean M-code model `TurVerif.Lexer` (token kinds,
//!      spans, payload slices) + the property oracle (no panic, progress, <= n+1 tokens) on the real lexer;
//!  (2) integer arithmetic differential: `SELECT a op b` on the real engine against `TurVerif.ArithImpl`
//!      (value / NULL / panic message) + oracle "no panic";
//!  (3) SEARCH ONLY: grammar-generated valid and near-valid statements, token/byte mutations, parameter
//!      lists, API call sequences, deep nesting — every call on an open database under catch_unwind and a
//!      5 s watchdog, in child processes (address-space limit) so that aborts (stack overflow, allocation
//!      failure) are observed as a signal exit and attributed to the case that was running.
//!
//! Case syntax (one line): `<kind>\t<op>\t<op>...`, ops:
//!   `E:<sql>` execute, `Q:<sql>` query, `Z:<sql>` parser only (`parse_statements`),
//!   `P:<params>:<sql>` execute_with_params, `R:<params>:<sql>` prepare+bind+execute, `S:<params>:<sql>`
//!   prepare+bind+query, `C` close, `K` checkpoint, `O` drop handle and reopen,
//!   `X:<n>:<construct>` generated deep/long statement, `L:<hex>` lexer differential,
//!   `A:<op>:<a>:<b>` arithmetic differential.  In sql text `\\ \n \r \t` are escaped.
//!   params: comma-separated, see `parse_param`; `-` = empty list.
use super::robust_gen::*;
use crate::common::*;
use std::cell::RefCell;
use std::collections::{BTreeMap, BTreeSet, HashMap};
use std::io::Write;
use std::sync::mpsc;
use std::sync::{Mutex, OnceLock};
use std::time::{Duration, Instant};
use turdb::sql::lexer::Lexer;
use turdb::sql::token::{Parameter, Token};
use turdb::{Database, OwnedValue};

// ---------------------------------------------------------------------------------------------
// panic capture: location (file:line) -> file:function, message class
// ---------------------------------------------------------------------------------------------

thread_local! {
    static LAST: RefCell<Option<(String, u32, String, Option<std::backtrace::Backtrace>)>> = const { RefCell::new(None) };
    /// what the current call is (op tag + statement kind): part of the key of the backtrace cache
    static TAG: RefCell<String> = const { RefCell::new(String::new()) };
}
/// set while a captured backtrace is being symbolised (slow: DWARF of a large binary); the watchdog waits
static GRACE: std::sync::atomic::AtomicBool = std::sync::atomic::AtomicBool::new(false);

fn install_hook() {
    std::panic::set_hook(Box::new(|info| {
        let (f, l) = info.location().map(|l| (l.file().to_string(), l.line())).unwrap_or(("?".into(), 0));
        let msg = if let Some(s) = info.payload().downcast_ref::<&str>() {
            s.to_string()
        } else if let Some(s) = info.payload().downcast_ref::<String>() {
            s.clone()
        } else {
            "panic".to_string()
        };
        // a panic raised inside std / a dependency: keep the (unresolved) backtrace to find the innermost turdb frame
        let bt = if !f.contains("/repo/src/") { Some(std::backtrace::Backtrace::force_capture()) } else { None };
        LAST.with(|c| *c.borrow_mut() = Some((f, l, msg, bt)));
    }));
}

/// innermost turdb frame ("file:line:col") of a backtrace; symbolisation is slow, so results are cached in the
/// process and across the worker processes of one run, keyed by (panic location, message class, call tag)
fn resolve_via(key: &str, bt: &std::backtrace::Backtrace) -> String {
    static CACHE: OnceLock<Mutex<HashMap<String, String>>> = OnceLock::new();
    let m = CACHE.get_or_init(|| Mutex::new(HashMap::new()));
    if let Some(v) = m.lock().unwrap().get(key) { return v.clone(); }
    let dir = format!("{}/bt-cache", std::env::var("VERIF_ROBUST_DBROOT").unwrap_or_else(|_| "/tmp".into()));
    let file = format!("{dir}/{:016x}", fnv(key));
    if let Ok(v) = std::fs::read_to_string(&file) {
        m.lock().unwrap().insert(key.to_string(), v.clone());
        return v;
    }
    GRACE.store(true, std::sync::atomic::Ordering::SeqCst);
    let txt = bt.to_string();
    let lines: Vec<&str> = txt.lines().collect();
    let mut via = String::new();
    for i in 0..lines.len() {
        if lines[i].contains("turdb::") && i + 1 < lines.len() {
            if let Some(rest) = lines[i + 1].trim().strip_prefix("at ") {
                if rest.contains("/repo/src/") { via = rest.to_string(); break; }
            }
        }
    }
    let _ = std::fs::create_dir_all(&dir);
    let _ = std::fs::write(&file, &via);
    m.lock().unwrap().insert(key.to_string(), via.clone());
    GRACE.store(false, std::sync::atomic::Ordering::SeqCst);
    via
}

fn src_lines(path: &str) -> Option<std::sync::Arc<Vec<String>>> {
    static CACHE: OnceLock<Mutex<HashMap<String, Option<std::sync::Arc<Vec<String>>>>>> = OnceLock::new();
    let m = CACHE.get_or_init(|| Mutex::new(HashMap::new()));
    let mut g = m.lock().unwrap();
    g.entry(path.to_string())
        .or_insert_with(|| std::fs::read_to_string(path).ok().map(|s| std::sync::Arc::new(s.lines().map(|l| l.to_string()).collect())))
        .clone()
}

/// name of the function enclosing `line` (nearest preceding `fn name`)
fn enclosing_fn(path: &str, line: u32) -> String {
    let Some(lines) = src_lines(path) else { return "?".into() };
    let mut i = (line as usize).min(lines.len());
    while i > 0 {
        i -= 1;
        let l = &lines[i];
        if let Some(p) = l.find("fn ") {
            let before_ok = p == 0 || !l.as_bytes()[p - 1].is_ascii_alphanumeric() && l.as_bytes()[p - 1] != b'_';
            let name: String = l[p + 3..].chars().take_while(|c| c.is_alphanumeric() || *c == '_').collect();
            let is_comment = l.trim_start().starts_with("//");
            if before_ok && !name.is_empty() && !is_comment {
                return name;
            }
        }
    }
    "?".into()
}

fn msg_class(m: &str) -> String {
    let mut out = String::new();
    let mut prev_digit = false;
    for c in m.chars() {
        if c.is_ascii_digit() {
            if !prev_digit { out.push('N'); }
            prev_digit = true;
        } else {
            prev_digit = false;
            if c == ';' || c == '\n' { break; }
            out.push(c);
        }
    }
    // drop quoted payloads (`...` after " of ", strings after ": ")
    if let Some(i) = out.find(" of `") { out.truncate(i); }
    if let Some(i) = out.find(": \"") { out.truncate(i); }
    let out: String = out.chars().take(72).collect();
    out.trim().to_string()
}

fn rel(path: &str) -> String {
    if let Some(i) = path.find("/repo/src/") { path[i + 6..].to_string() } else if let Some(i) = path.find("/library/") { format!("std:{}", &path[i + 9..]) } else if let Some(i) = path.find("/registry/src/") { format!("dep:{}", path[i + 14..].splitn(2, '/').nth(1).unwrap_or("?")) } else { path.to_string() }
}

/// (signature, detail) of the panic captured on this thread
fn take_panic(fallback_msg: &str) -> (String, String) {
    let got = LAST.with(|c| c.borrow_mut().take());
    match got {
        Some((f, l, msg, bt)) => {
            let via = match &bt {
                Some(b) => { let tag = TAG.with(|t| t.borrow().clone()); resolve_via(&format!("{}|{}|{}", rel(&f), msg_class(&msg), tag), b) }
                None => String::new(),
            };
            let (file, line) = if !via.is_empty() {
                let mut parts = via.rsplitn(3, ':');
                let _col = parts.next();
                let line = parts.next().and_then(|x| x.parse::<u32>().ok()).unwrap_or(0);
                (parts.next().unwrap_or("?").to_string(), line)
            } else {
                (f.clone(), l)
            };
            let func = if file.contains("/repo/src/") { enclosing_fn(&file, line) } else { "?".into() };
            let viatxt = if via.is_empty() { String::new() } else { format!(" raised in {}", rel(&f)) };
            (format!("panic:{}:{}:{}", rel(&file), func, msg_class(&msg)), format!("panicked at {}:{}{}: {}", rel(&file), line, viatxt, msg.chars().take(300).collect::<String>()))
        }
        None => (format!("panic:?:?:{}", msg_class(fallback_msg)), format!("panic (no location captured): {fallback_msg}")),
    }
}

// ---------------------------------------------------------------------------------------------
// case syntax
// ---------------------------------------------------------------------------------------------

pub fn esc(s: &str) -> String {
    let mut o = String::with_capacity(s.len() + 8);
    for c in s.chars() {
        match c {
            '\\' => o.push_str("\\\\"),
            '\n' => o.push_str("\\n"),
            '\r' => o.push_str("\\r"),
            '\t' => o.push_str("\\t"),
            c => o.push(c),
        }
    }
    o
}
pub fn unesc(s: &str) -> String {
    let mut o = String::with_capacity(s.len());
    let mut it = s.chars();
    while let Some(c) = it.next() {
        if c == '\\' {
            match it.next() {
                Some('n') => o.push('\n'),
                Some('r') => o.push('\r'),
                Some('t') => o.push('\t'),
                Some('\\') => o.push('\\'),
                Some(x) => { o.push('\\'); o.push(x); }
                None => o.push('\\'),
            }
        } else {
            o.push(c);
        }
    }
    o
}

#[derive(Clone, Debug)]
enum Op {
    Exec(String),
    Query(String),
    ParseOnly(String),
    Params(String, String),
    Prep(String, String),
    PrepQ(String, String),
    Close,
    Checkpoint,
    Reopen,
    Deep(usize, String),
    Lex(Vec<u8>),
    Arith(String, i64, i64),
    /// all boundary pairs of one operator on one table (same checks as `Arith`, one database)
    ArithAll(String, usize, usize),
    /// several lexer inputs in one case (same check as `Lex`)
    LexBatch(Vec<Vec<u8>>),
}

#[derive(Clone, Debug)]
struct Case {
    kind: String,
    ops: Vec<Op>,
}

impl Op {
    fn text(&self) -> String {
        match self {
            Op::Exec(s) => format!("E:{}", esc(s)),
            Op::Query(s) => format!("Q:{}", esc(s)),
            Op::ParseOnly(s) => format!("Z:{}", esc(s)),
            Op::Params(p, s) => format!("P:{p}:{}", esc(s)),
            Op::Prep(p, s) => format!("R:{p}:{}", esc(s)),
            Op::PrepQ(p, s) => format!("S:{p}:{}", esc(s)),
            Op::Close => "C".into(),
            Op::Checkpoint => "K".into(),
            Op::Reopen => "O".into(),
            Op::Deep(n, c) => format!("X:{n}:{c}"),
            Op::Lex(b) => format!("L:{}", hex(b)),
            Op::Arith(o, a, b) => format!("A:{o}:{a}:{b}"),
            Op::ArithAll(o, lo, hi) => format!("AA:{o}:{lo}:{hi}"),
            Op::LexBatch(v) => format!("LB:{}", v.iter().map(|b| hex(b)).collect::<Vec<_>>().join(";")),
        }
    }
    fn parse(t: &str) -> Option<Op> {
        if t == "C" { return Some(Op::Close); }
        if t == "K" { return Some(Op::Checkpoint); }
        if t == "O" { return Some(Op::Reopen); }
        let (tag, rest) = t.split_at(t.find(':')? + 1);
        match tag {
            "E:" => Some(Op::Exec(unesc(rest))),
            "Q:" => Some(Op::Query(unesc(rest))),
            "Z:" => Some(Op::ParseOnly(unesc(rest))),
            "P:" | "R:" | "S:" => {
                let i = rest.find(':')?;
                let (p, s) = (rest[..i].to_string(), unesc(&rest[i + 1..]));
                Some(match tag { "P:" => Op::Params(p, s), "R:" => Op::Prep(p, s), _ => Op::PrepQ(p, s) })
            }
            "X:" => {
                let i = rest.find(':')?;
                Some(Op::Deep(rest[..i].parse().ok()?, rest[i + 1..].to_string()))
            }
            "L:" => Some(Op::Lex(unhex(rest))),
            "LB:" => Some(Op::LexBatch(rest.split(';').map(unhex).collect())),
            "AA:" => { let p: Vec<&str> = rest.split(':').collect(); if p.len() != 3 { return None; } Some(Op::ArithAll(p[0].to_string(), p[1].parse().ok()?, p[2].parse().ok()?)) }
            "A:" => {
                let p: Vec<&str> = rest.split(':').collect();
                if p.len() != 3 { return None; }
                Some(Op::Arith(p[0].to_string(), p[1].parse().ok()?, p[2].parse().ok()?))
            }
            _ => None,
        }
    }
    /// the SQL text of the op, if any (for statement-kind statistics and hang/abort focus)
    fn sql(&self) -> Option<String> {
        match self {
            Op::Exec(s) | Op::Query(s) | Op::ParseOnly(s) | Op::Params(_, s) | Op::Prep(_, s) | Op::PrepQ(_, s) => Some(s.clone()),
            _ => None,
        }
    }
}

impl Case {
    fn text(&self) -> String {
        let mut s = self.kind.clone();
        for o in &self.ops {
            s.push('\t');
            s.push_str(&o.text());
        }
        s
    }
    fn parse(line: &str) -> Option<Case> {
        let mut it = line.split('\t');
        let kind = it.next()?.to_string();
        let mut ops = vec![];
        for t in it {
            if t.is_empty() { continue; }
            ops.push(Op::parse(t)?);
        }
        if ops.is_empty() { return None; }
        Some(Case { kind, ops })
    }
}

fn parse_param(t: &str) -> Option<OwnedValue> {
    if t == "n" { return Some(OwnedValue::Null); }
    let (k, r) = t.split_at(1);
    let two = |r: &str| -> Option<(String, String)> { let i = r.find('_')?; Some((r[..i].to_string(), r[i + 1..].to_string())) };
    Some(match k {
        "i" => OwnedValue::Int(r.parse().ok()?),
        "f" => OwnedValue::Float(f64::from_bits(u64::from_str_radix(r, 16).ok()?)),
        "t" => OwnedValue::Text(String::from_utf8_lossy(&unhex(r)).into_owned()),
        "b" => OwnedValue::Blob(unhex(r)),
        "B" => OwnedValue::Bool(r == "1"),
        "v" => OwnedValue::Vector(if r == "-" { vec![] } else { r.split('_').filter_map(|x| u32::from_str_radix(x, 16).ok()).map(f32::from_bits).collect() }),
        "d" => OwnedValue::Date(r.parse().ok()?),
        "T" => OwnedValue::Time(r.parse().ok()?),
        "s" => OwnedValue::Timestamp(r.parse().ok()?),
        "z" => { let (a, b) = two(r)?; OwnedValue::TimestampTz(a.parse().ok()?, b.parse().ok()?) }
        "u" => { let b = unhex(r); let mut a = [0u8; 16]; for (i, x) in b.iter().take(16).enumerate() { a[i] = *x; } OwnedValue::Uuid(a) }
        "j" => OwnedValue::Jsonb(unhex(r)),
        "D" => { let (a, b) = two(r)?; OwnedValue::Decimal(a.parse().ok()?, b.parse().ok()?) }
        "e" => { let (a, b) = two(r)?; OwnedValue::Enum(a.parse().ok()?, b.parse().ok()?) }
        "p" => OwnedValue::ToastPointer(unhex(r)),
        "I" => { let p: Vec<&str> = r.split('_').collect(); if p.len() != 3 { return None; } OwnedValue::Interval(p[0].parse().ok()?, p[1].parse().ok()?, p[2].parse().ok()?) }
        "P" => { let (a, b) = two(r)?; OwnedValue::Point(f64::from_bits(u64::from_str_radix(&a, 16).ok()?), f64::from_bits(u64::from_str_radix(&b, 16).ok()?)) }
        _ => return None,
    })
}
fn parse_params(p: &str) -> Vec<OwnedValue> {
    if p == "-" || p.is_empty() { return vec![]; }
    p.split(',').filter_map(parse_param).collect()
}

/// deep / long statement constructs (generated at run time so that case lines stay short)
pub const DEEP: &[&str] = &[
    "paren", "not", "neg", "plus-chain", "and-chain", "or-chain", "concat-chain", "cmp-chain", "scalar-subquery", "from-subquery", "exists-subquery", "case", "func",
    "cast-chain", "array", "in-list", "values-rows", "select-cols", "joins", "unions", "cte-chain", "line-comments", "block-comment-nest", "block-comments",
    "long-ident", "long-string", "long-number", "semicolons", "where-paren", "insert-paren", "update-paren", "check-paren", "default-paren", "between-chain", "like-pattern", "create-cols", "order-by-items", "group-by-items", "params",
];
fn deep_sql(n: usize, c: &str) -> String {
    let rep = |s: &str| s.repeat(n);
    match c {
        "paren" => format!("SELECT {}1{}", rep("("), rep(")")),
        "not" => format!("SELECT {}TRUE", rep("NOT ")),
        "neg" => format!("SELECT {}1", rep("- ")),
        "plus-chain" => format!("SELECT 1{}", rep(" + 1")),
        "and-chain" => format!("SELECT id FROM t1 WHERE a = 1{}", rep(" AND a = 1")),
        "or-chain" => format!("SELECT id FROM t1 WHERE a = 1{}", rep(" OR a = 1")),
        "concat-chain" => format!("SELECT 'a'{}", rep(" || 'a'")),
        "cmp-chain" => format!("SELECT 1{}", rep(" < 1")),
        "scalar-subquery" => format!("SELECT {}1{}", rep("(SELECT "), rep(")")),
        "from-subquery" => format!("SELECT * FROM {}t1{}", rep("(SELECT * FROM "), (0..n).map(|i| format!(") AS q{i}")).collect::<String>()),
        "exists-subquery" => format!("SELECT id FROM t1 WHERE {}1 = 1{}", rep("EXISTS (SELECT 1 FROM t2 WHERE "), rep(")")),
        "case" => format!("SELECT {}1{}", rep("CASE WHEN TRUE THEN "), rep(" END")),
        "func" => format!("SELECT {}1{}", rep("ABS("), rep(")")),
        "cast-chain" => format!("SELECT 1{}", rep("::BIGINT")),
        "array" => format!("SELECT {}1{}", rep("["), rep("]")),
        "in-list" => format!("SELECT id FROM t1 WHERE a IN (0{})", rep(", 1")),
        "values-rows" => format!("INSERT INTO t2 (id, n) VALUES (1000, 1){}", (0..n).map(|i| format!(", ({}, 1)", 1001 + i)).collect::<String>()),
        "select-cols" => format!("SELECT id{} FROM t1", rep(", a")),
        "joins" => format!("SELECT t1.id FROM t1{}", (0..n).map(|i| format!(" JOIN t2 AS j{i} ON j{i}.t1_id = t1.id")).collect::<String>()),
        "unions" => format!("SELECT 1{}", rep(" UNION ALL SELECT 1")),
        "cte-chain" => format!("WITH c0 AS (SELECT 1 AS x){} SELECT * FROM c{}", (1..=n).map(|i| format!(", c{i} AS (SELECT x FROM c{})", i - 1)).collect::<String>(), n),
        "line-comments" => format!("{}SELECT 1", rep("--\n")),
        "block-comment-nest" => format!("{}{} SELECT 1", rep("/*"), rep("*/")),
        "block-comments" => format!("{}SELECT 1", rep("/**/")),
        "long-ident" => format!("SELECT {} FROM t1", rep("a")),
        "long-string" => format!("SELECT '{}'", rep("a")),
        "long-number" => format!("SELECT 1{}", rep("0")),
        "semicolons" => format!("SELECT 1{}", rep(";")),
        "where-paren" => format!("SELECT id FROM t1 WHERE {}a = 1{}", rep("("), rep(")")),
        "insert-paren" => format!("INSERT INTO t2 (id, n) VALUES (2000, {}1{})", rep("("), rep(")")),
        "update-paren" => format!("UPDATE t2 SET n = {}n{} WHERE id = 1", rep("("), rep(")")),
        "check-paren" => format!("CREATE TABLE dp (c BIGINT CHECK ({}c > 0{}))", rep("("), rep(")")),
        "default-paren" => format!("CREATE TABLE dd (c BIGINT DEFAULT {}1{})", rep("("), rep(")")),
        "between-chain" => format!("SELECT id FROM t1 WHERE a BETWEEN 1 AND 2{}", rep(" AND a BETWEEN 1 AND 2")),
        "like-pattern" => format!("SELECT '{}b' LIKE '{}c'", rep("a"), "%a".repeat(n.min(2000))),
        "create-cols" => format!("CREATE TABLE wide (c0 BIGINT{})", (1..=n).map(|i| format!(", c{i} BIGINT")).collect::<String>()),
        "order-by-items" => format!("SELECT id FROM t1 ORDER BY id{}", rep(", a")),
        "group-by-items" => format!("SELECT COUNT(*) FROM t1 GROUP BY a{}", rep(", b")),
        "params" => format!("SELECT ?{}", rep(", ?")),
        _ => "SELECT 1".into(),
    }
}

// ---------------------------------------------------------------------------------------------
// the standard database
// ---------------------------------------------------------------------------------------------

const SETUP: &[&str] = &[
    "CREATE TABLE t1 (id BIGINT PRIMARY KEY, a BIGINT, b INT, s TEXT, f DOUBLE, flag BOOLEAN)",
    "CREATE TABLE t2 (id BIGINT PRIMARY KEY, t1_id BIGINT, v TEXT, n BIGINT)",
    "CREATE TABLE t3 (k TEXT PRIMARY KEY, d DATE, j JSONB, bl BLOB, ts TIMESTAMP)",
    "CREATE INDEX t1_a ON t1 (a)",
    "CREATE INDEX t2_fk ON t2 (t1_id)",
    "CREATE UNIQUE INDEX t2_v ON t2 (v)",
    "INSERT INTO t1 VALUES (1, 10, 1, 'one', 1.5, TRUE), (2, -20, 2, 'two', -2.5, FALSE), (3, NULL, NULL, NULL, NULL, NULL), (4, 9223372036854775807, 2147483647, '', 1e308, TRUE), (5, -9223372036854775808, -2147483648, 'é日本', -0.0, FALSE), (6, 0, 0, 'a%b_c', 0.0, TRUE), (7, 10, 7, 'seven', 7.0, NULL), (8, 8, 8, 'eight', 8.0, TRUE), (9, 9, 9, 'nine', 9.0, FALSE), (10, 1, -1, 'ten', 1e-300, TRUE)",
    "INSERT INTO t2 VALUES (1, 1, 'x', 100), (2, 1, 'y', 200), (3, 2, 'z', NULL), (4, NULL, NULL, 9223372036854775807), (5, 99, 'w', -1)",
    "INSERT INTO t3 VALUES ('k1', '2024-02-29', '{\"a\": 1, \"b\": [1, 2, 3]}', x'00ff', '2024-02-29 12:34:56'), ('k2', NULL, NULL, NULL, NULL), ('', '1970-01-01', '[]', x'', '1970-01-01 00:00:00')",
];

struct Handle {
    dir: String,
    db: Option<Database>,
}

/// a pristine standard database left behind by a read-only case, reused by the next case
static SHARED: Mutex<Option<Handle>> = Mutex::new(None);
static DB_COUNTER: std::sync::atomic::AtomicU64 = std::sync::atomic::AtomicU64::new(0);

fn first_kw(sql: &str) -> String { sql.trim_start().chars().take_while(|c| c.is_ascii_alphabetic()).collect::<String>().to_uppercase() }

impl Case {
    /// cannot change the database: only SELECT/WITH statements, parser-only and lexer ops
    fn is_readonly(&self) -> bool {
        self.ops.iter().all(|o| match o {
            Op::Lex(_) | Op::LexBatch(_) | Op::ParseOnly(_) => true,
            Op::Exec(s) | Op::Query(s) | Op::Params(_, s) | Op::Prep(_, s) | Op::PrepQ(_, s) => { let k = first_kw(s); (k == "SELECT" || k == "WITH") && !s.to_uppercase().contains("INSERT") && !s.to_uppercase().contains("UPDATE") && !s.to_uppercase().contains("DELETE") }
            _ => false,
        })
    }
}

// ---------------------------------------------------------------------------------------------
// running one case (in a worker thread, under a watchdog)
// ---------------------------------------------------------------------------------------------

#[derive(Clone, Debug)]
enum Res {
    Ok,
    Err(String),
    Panic(String, String),
    /// differential / oracle findings that are not panics: (is_disagreement, signature, detail)
    Finding(bool, String, String),
    /// result of a sub-case of a batch op: (case text of the equivalent single case, result)
    Sub(String, Box<Res>),
}

enum Msg {
    Start(usize),
    Done(usize, Vec<Res>),
    Finished,
}

fn err_class(e: &str) -> String {
    let l = e.to_lowercase();
    if l.contains("parse") || l.contains("unexpected token") || l.contains("expected") || l.contains("unterminated") { "err-parse".into() } else { "err-other".into() }
}

fn exec_db<T>(h: &Handle, f: impl FnOnce(&Database) -> eyre::Result<T>) -> Res {
    let Some(db) = h.db.as_ref() else { return Res::Err("no handle".into()) };
    match guarded(std::panic::AssertUnwindSafe(|| f(db).map(|_| ()).map_err(|e| format!("{e:#}")))) {
        Ok(Ok(())) => Res::Ok,
        Ok(Err(e)) => Res::Err(e),
        Err(m) => { let (s, d) = take_panic(&m); Res::Panic(s, d) }
    }
}

fn tok_str(input: &str, t: &Token, start: usize, stop: usize) -> String {
    let off = |s: &str| -> (usize, usize) { let a = s.as_ptr() as usize - input.as_ptr() as usize; (a, a + s.len()) };
    let (k, (a, b)) = match t {
        Token::Keyword(_) => ("Word".to_string(), (start, stop)),
        Token::Ident(s) => ("Word".to_string(), off(s)),
        Token::QuotedIdent(s) => ("QuotedIdent".into(), off(s)),
        Token::String(s) => ("String".into(), off(s)),
        Token::Integer(s) => ("Integer".into(), off(s)),
        Token::Float(s) => ("Float".into(), off(s)),
        Token::HexNumber(s) => ("HexNumber".into(), off(s)),
        Token::BinaryNumber(s) => ("BinaryNumber".into(), off(s)),
        Token::OctalNumber(s) => ("OctalNumber".into(), off(s)),
        Token::Parameter(Parameter::Positional(n)) => (format!("ParamPos({n})"), (0, 0)),
        Token::Parameter(Parameter::Named(s)) => ("ParamNamed".into(), off(s)),
        Token::Parameter(Parameter::Anonymous) => ("ParamAnon".into(), (0, 0)),
        Token::Error(m) => (format!("Error({})", m.replace(' ', "_")), (0, 0)),
        other => (format!("{other:?}"), (0, 0)),
    };
    format!("{k}:{start}:{stop}:{a}:{b}")
}

/// real lexer on `s`: Ok(token strings) or Err(finding)
fn lex_real(s: &str) -> Result<Vec<String>, Res> {
    let owned = s.to_string();
    let r = guarded(move || {
        let mut lx = Lexer::new(&owned);
        let mut out = vec![];
        let mut prev = 0usize;
        let limit = owned.len() + 2;
        loop {
            let t = lx.next_token();
            let stop = lx.position();
            let sp = lx.span();
            let start = sp.offset as usize;
            let eof = matches!(t, Token::Eof);
            out.push(tok_str(&owned, &t, start, stop));
            if eof { break; }
            if stop <= prev { return Err(format!("no progress: token {} leaves pos at {stop} (was {prev})", out.last().unwrap())); }
            if stop > owned.len() { return Err(format!("position {stop} past the input length {}", owned.len())); }
            prev = stop;
            if out.len() > limit { return Err(format!("more than n+1 = {} tokens", owned.len() + 1)); }
        }
        Ok(out)
    });
    match r {
        Ok(Ok(v)) => Ok(v),
        Ok(Err(e)) => Err(Res::Finding(false, format!("lexer:{}", msg_class(&e)), e)),
        Err(m) => { let (s, d) = take_panic(&m); Err(Res::Panic(s, d)) }
    }
}

fn cell(v: &OwnedValue) -> String {
    match v {
        OwnedValue::Null => "null".into(),
        OwnedValue::Int(i) => format!("int {i}"),
        OwnedValue::Float(_) => "float".into(),
        OwnedValue::Bool(b) => format!("int {}", *b as i64),
        other => format!("other {other:?}"),
    }
}

fn lit_i64(v: i64) -> String {
    if v == i64::MIN { "(-9223372036854775807 - 1)".into() } else if v < 0 { format!("({v})") } else { format!("{v}") }
}

fn ask_model(model_bin: &str, line: &str) -> String {
    static MODEL: OnceLock<Mutex<Option<Model>>> = OnceLock::new();
    let m = MODEL.get_or_init(|| Mutex::new(None));
    let mut g = m.lock().unwrap_or_else(|e| e.into_inner());
    g.get_or_insert_with(|| Model::spawn(model_bin, "robust")).ask(line)
}

fn run_op(h: &mut Handle, op: &Op, model_bin: &str) -> Vec<Res> {
    // call tag = op letter + statement kind + first function-call name in the text (key of the backtrace cache)
    let first_fn = |s: &str| -> String {
        let b = s.as_bytes();
        let mut i = 0;
        while i < b.len() {
            if b[i].is_ascii_alphabetic() || b[i] == b'_' {
                let st = i;
                while i < b.len() && (b[i].is_ascii_alphanumeric() || b[i] == b'_') { i += 1; }
                if i < b.len() && b[i] == b'(' {
                    let w = s[st..i].to_uppercase();
                    if !matches!(w.as_str(), "VALUES" | "IN" | "AND" | "OR" | "NOT" | "SELECT" | "FROM" | "WHERE" | "ON" | "EXISTS" | "AS" | "INTO" | "T1" | "T2" | "T3") { return w; }
                }
            } else { i += 1; }
        }
        String::new()
    };
    let tag = format!("{}{}:{}", op.text().chars().take(1).collect::<String>(), op.sql().map(|s| stmt_kind(&s)).unwrap_or_default(), op.sql().map(|s| first_fn(&s)).unwrap_or_default());
    TAG.with(|t| *t.borrow_mut() = tag);
    match op {
        Op::Exec(s) => vec![exec_db(h, |db| db.execute(s))],
        Op::Query(s) => vec![exec_db(h, |db| db.query(s))],
        Op::Deep(n, c) => { let s = deep_sql(*n, c); vec![exec_db(h, |db| db.execute(&s))] }
        Op::ParseOnly(s) => {
            let s2 = s.clone();
            match guarded(move || {
                let arena = bumpalo::Bump::new();
                let mut p = turdb::sql::parser::Parser::new(&s2, &arena);
                let r = p.parse_statements();
                r.errors.len()
            }) {
                Ok(0) => vec![Res::Ok],
                Ok(_) => vec![Res::Err("parse errors".into())],
                Err(m) => { let (s, d) = take_panic(&m); vec![Res::Panic(s, d)] }
            }
        }
        Op::Params(p, s) => { let ps = parse_params(p); vec![exec_db(h, |db| db.execute_with_params(s, &ps))] }
        Op::Prep(p, s) | Op::PrepQ(p, s) => {
            let ps = parse_params(p);
            let is_q = matches!(op, Op::PrepQ(..));
            vec![exec_db(h, |db| {
                let st = db.prepare(s)?;
                let mut it = ps.into_iter();
                match it.next() {
                    None => { if is_q { db.query(st.sql()).map(|_| ()) } else { db.execute_with_cached_plan(&st, &[]).map(|_| ()) } }
                    Some(first) => {
                        let mut b = st.bind(first);
                        for v in it { b = b.bind(v); }
                        if is_q { b.query(db).map(|_| ()) } else { b.execute(db).map(|_| ()) }
                    }
                }
            })]
        }
        Op::Close => vec![exec_db(h, |db| db.close())],
        Op::Checkpoint => vec![exec_db(h, |db| db.checkpoint())],
        Op::Reopen => {
            let old = h.db.take();
            let r0 = guarded(std::panic::AssertUnwindSafe(move || drop(old)));
            let dir = h.dir.clone();
            let r = guarded(move || Database::open(&dir).map_err(|e| format!("{e:#}")));
            let mut out = vec![];
            if let Err(m) = r0 { let (s, d) = take_panic(&m); out.push(Res::Panic(s, d)); }
            match r {
                Ok(Ok(db)) => { h.db = Some(db); out.push(Res::Ok); }
                Ok(Err(e)) => out.push(Res::Err(e)),
                Err(m) => { let (s, d) = take_panic(&m); out.push(Res::Panic(s, d)); }
            }
            out
        }
        Op::Lex(bytes) => {
            let s = String::from_utf8_lossy(bytes).into_owned();
            let want = ask_model(model_bin, &format!("lex {}", hex(s.as_bytes())));
            match lex_real(&s) {
                Ok(toks) => {
                    let got = format!("ok {}", toks.join(" "));
                    if got == want { vec![Res::Ok] } else {
                        // localise: first differing token
                        let (g, w): (Vec<&str>, Vec<&str>) = (got.split(' ').collect(), want.split(' ').collect());
                        let i = g.iter().zip(w.iter()).position(|(x, y)| x != y).unwrap_or(g.len().min(w.len()));
                        vec![Res::Finding(true, "lex-differs".into(), format!("token #{i}: impl={} model={}", g.get(i).unwrap_or(&"-"), w.get(i).unwrap_or(&"-")))]
                    }
                }
                Err(r) => {
                    let mut out = vec![r];
                    if want.starts_with("ok") { out.push(Res::Finding(true, "lex-differs".into(), format!("impl failed, model={}", want.chars().take(200).collect::<String>()))); }
                    out
                }
            }
        }
        Op::LexBatch(v) => {
            let mut out = vec![];
            for b in v {
                let sub = Case { kind: "sys-lex".into(), ops: vec![Op::Lex(b.clone())] }.text();
                for r in run_op(h, &Op::Lex(b.clone()), model_bin) { out.push(Res::Sub(sub.clone(), Box::new(r))); }
            }
            out
        }
        Op::Arith(o, a, b) => {
            let Some(db) = h.db.as_ref() else { return vec![Res::Err("no handle".into())] };
            for s in ["DROP TABLE IF EXISTS ar", "CREATE TABLE ar (k BIGINT, a BIGINT, b BIGINT)"] { let _ = guarded(std::panic::AssertUnwindSafe(|| db.execute(s).map(|_| ()).map_err(|e| e.to_string()))); }
            let ins = format!("INSERT INTO ar VALUES (0, {a}, {b})");
            let _ = guarded(std::panic::AssertUnwindSafe(|| db.execute(&ins).map(|_| ()).map_err(|e| e.to_string())));
            let out = arith_check(db, model_bin, o, *a, *b, 0);
            if out.is_empty() { vec![Res::Ok] } else { out }
        }
        Op::ArithAll(o, lo, hi) => {
            let Some(db) = h.db.as_ref() else { return vec![Res::Err("no handle".into())] };
            for s in ["DROP TABLE IF EXISTS ar", "CREATE TABLE ar (k BIGINT, a BIGINT, b BIGINT)"] { let _ = guarded(std::panic::AssertUnwindSafe(|| db.execute(s).map(|_| ()).map_err(|e| e.to_string()))); }
            let mut pairs: Vec<(i64, i64)> = vec![];
            if o == "neg" { for x in ARITH_B { pairs.push((*x, 0)); } } else { for x in ARITH_B { for y in ARITH_B { pairs.push((*x, *y)); } } }
            let pairs: Vec<(i64, i64)> = pairs.into_iter().skip(*lo).take(hi.saturating_sub(*lo)).collect();
            for (k0, ch) in pairs.chunks(64).enumerate() {
                let vals: Vec<String> = ch.iter().enumerate().map(|(j, (a, b))| format!("({}, {a}, {b})", k0 * 64 + j)).collect();
                let ins = format!("INSERT INTO ar VALUES {}", vals.join(", "));
                let _ = guarded(std::panic::AssertUnwindSafe(|| db.execute(&ins).map(|_| ()).map_err(|e| e.to_string())));
            }
            let mut out = vec![];
            for (k, (a, b)) in pairs.iter().enumerate() {
                let sub = Case { kind: "sys-arith".into(), ops: vec![Op::Arith(o.clone(), *a, *b)] }.text();
                let rs = arith_check(db, model_bin, o, *a, *b, k);
                if rs.is_empty() { out.push(Res::Sub(sub.clone(), Box::new(Res::Ok))); }
                for r in rs { out.push(Res::Sub(sub.clone(), Box::new(r))); }
            }
            out
        }
    }
}

pub const ARITH_B: &[i64] = &[0, 1, -1, 2, -2, 3, -3, 7, 10, 62, 63, 64, 65, 3037000499, 3037000500, -3037000499, -3037000500, 2147483647, 2147483648, 4294967295, 4294967296, 4294967297, 4294967298, 4611686018427387903, 4611686018427387904, -4611686018427387904, -4611686018427387905, i64::MAX, i64::MAX - 1, i64::MIN, i64::MIN + 1];

/// one operand pair: literal path, column path (row k of table ar), WHERE path; returns findings only
fn arith_check(db: &Database, model_bin: &str, o: &str, a: i64, b: i64, k: usize) -> Vec<Res> {
    let (want, sqls): (String, Vec<(&str, String)>) = if o == "neg" {
        (ask_model(model_bin, &format!("neg {a}")), vec![("lit", format!("SELECT -{}", lit_i64(a))), ("col", format!("SELECT -a FROM ar WHERE k = {k}")), ("where", format!("SELECT 1 FROM ar WHERE k = {k} AND -a = 0"))])
    } else {
        let sym = match o { "add" => "+", "sub" => "-", "mul" => "*", "div" => "/", "mod" => "%", _ => "^" };
        (ask_model(model_bin, &format!("arith {o} {a} {b}")), vec![("lit", format!("SELECT {} {sym} {}", lit_i64(a), lit_i64(b))), ("col", format!("SELECT a {sym} b FROM ar WHERE k = {k}")), ("where", format!("SELECT 1 FROM ar WHERE k = {k} AND a {sym} b = 0"))])
    };
    let mut out = vec![];
    for (path, sql) in sqls {
        let r = guarded(std::panic::AssertUnwindSafe(|| db.query(&sql).map_err(|e| format!("{e:#}"))));
        let got = match r {
            Ok(Ok(rows)) => {
                if path == "where" { "ran".to_string() } else { rows.first().and_then(|r| r.values.first()).map(cell).unwrap_or("norow".into()) }
            }
            Ok(Err(e)) => format!("error {}", e.chars().take(80).collect::<String>()),
            Err(msg) => {
                let (s, d) = take_panic(&msg);
                out.push(Res::Panic(s, format!("{d} [{sql}]")));
                format!("panic {}", msg.replace(' ', "_"))
            }
        };
        // correspondence: the model predicts value / NULL / panic message of the raw i64 operator
        let agrees = if path == "where" { want.starts_with("panic") == got.starts_with("panic") && (!want.starts_with("panic") || want == got) } else { want == got };
        if !agrees { out.push(Res::Finding(true, format!("arith-differs:{o}:{path}"), format!("{sql}: impl={got} model={want}"))); }
    }
    out
}

/// thread body: a pristine standard database (reused or fresh), then the ops
fn case_thread(base: String, case: Case, model_bin: String, tx: mpsc::Sender<Msg>) {
    let needs_db = case.ops.iter().any(|o| !matches!(o, Op::Lex(_) | Op::LexBatch(_) | Op::ParseOnly(_)));
    let _ = tx.send(Msg::Start(usize::MAX));
    let mut setup_res = vec![];
    let timing = std::env::var("VERIF_ROBUST_TIMING").is_ok();
    let t0 = Instant::now();
    let mut h = Handle { dir: String::new(), db: None };
    if needs_db {
        let reused = SHARED.lock().unwrap_or_else(|e| e.into_inner()).take();
        if let Some(hh) = reused {
            h = hh;
        } else {
            let n = DB_COUNTER.fetch_add(1, std::sync::atomic::Ordering::Relaxed);
            h.dir = format!("{base}-{n}");
            let _ = std::fs::remove_dir_all(&h.dir);
            let d2 = h.dir.clone();
            match guarded(move || Database::create(&d2).map_err(|e| format!("{e:#}"))) {
                Ok(Ok(db)) => h.db = Some(db),
                Ok(Err(e)) => setup_res.push(Res::Err(format!("create: {e}"))),
                Err(m) => { let (s, d) = take_panic(&m); setup_res.push(Res::Panic(s, d)); }
            }
            if h.db.is_some() {
                if timing { eprintln!("create {:?}", t0.elapsed()); }
                for s in SETUP {
                    match exec_db(&h, |db| db.execute(s)) {
                        Res::Ok => {}
                        other => setup_res.push(other),
                    }
                }
            }
        }
    }
    let _ = tx.send(Msg::Done(usize::MAX, setup_res));
    let mut clean = case.is_readonly();
    for (i, op) in case.ops.iter().enumerate() {
        let _ = tx.send(Msg::Start(i));
        let r = run_op(&mut h, op, &model_bin);
        let stop = r.iter().any(|x| matches!(x, Res::Panic(..)));
        if r.iter().any(|x| matches!(x, Res::Panic(..)) || matches!(x, Res::Sub(_, b) if matches!(**b, Res::Panic(..)))) { clean = false; }
        let _ = tx.send(Msg::Done(i, r));
        if stop { break; }
    }
    if needs_db && clean && h.db.is_some() {
        *SHARED.lock().unwrap_or_else(|e| e.into_inner()) = Some(h);
        let _ = tx.send(Msg::Finished);
        return;
    }
    let _ = tx.send(Msg::Start(usize::MAX - 1));
    let db = h.db.take();
    let t2 = Instant::now();
    let r = guarded(std::panic::AssertUnwindSafe(move || drop(db)));
    if timing { eprintln!("drop {:?} total {:?}", t2.elapsed(), t0.elapsed()); }
    let mut fin = vec![];
    if let Err(m) = r { let (s, d) = take_panic(&m); fin.push(Res::Panic(s, format!("in Drop of Database: {d}"))); }
    let _ = tx.send(Msg::Done(usize::MAX - 1, fin));
    if !h.dir.is_empty() { let _ = std::fs::remove_dir_all(&h.dir); }
    let _ = tx.send(Msg::Finished);
}

struct CaseOut {
    /// (op index, results); usize::MAX = setup, usize::MAX-1 = drop
    per_op: Vec<(usize, Vec<Res>)>,
    hang_at: Option<usize>,
}

struct Worker {
    tx: mpsc::Sender<Case>,
    rx: mpsc::Receiver<Msg>,
}
static WORKER: Mutex<Option<Worker>> = Mutex::new(None);

fn spawn_worker(dir: &str, model_bin: &str) -> Worker {
    let (tx_case, rx_case) = mpsc::channel::<Case>();
    let (tx_msg, rx_msg) = mpsc::channel::<Msg>();
    let (d, mb) = (dir.to_string(), model_bin.to_string());
    // 8 MiB: the stack of a main thread (spawned threads default to 2 MiB)
    std::thread::Builder::new().stack_size(8 << 20).spawn(move || {
        while let Ok(case) = rx_case.recv() {
            case_thread(d.clone(), case, mb.clone(), tx_msg.clone());
        }
    }).expect("spawn worker");
    Worker { tx: tx_case, rx: rx_msg }
}

fn run_case(dir: &str, case: &Case, model_bin: &str, timeout: Duration) -> CaseOut {
    let mut guard = WORKER.lock().unwrap_or_else(|e| e.into_inner());
    let mut out = CaseOut { per_op: vec![], hang_at: None };
    for _attempt in 0..2 {
        if guard.is_none() { *guard = Some(spawn_worker(dir, model_bin)); }
        let w = guard.as_ref().unwrap();
        if w.tx.send(case.clone()).is_err() { *guard = None; continue; }
        let mut current = usize::MAX;
        let t_case = Instant::now();
        loop {
            match w.rx.recv_timeout(timeout) {
                Ok(Msg::Start(i)) => current = i,
                Ok(Msg::Done(i, r)) => out.per_op.push((i, r)),
                Ok(Msg::Finished) => return out,
                Err(mpsc::RecvTimeoutError::Timeout) => {
                    // not a hang of the call: the worker is symbolising a backtrace
                    if GRACE.load(std::sync::atomic::Ordering::SeqCst) && t_case.elapsed() < Duration::from_secs(300) { continue; }
                    out.hang_at = Some(current);
                    return out;
                }
                Err(mpsc::RecvTimeoutError::Disconnected) => { *guard = None; return out; }
            }
        }
    }
    out
}

// ---------------------------------------------------------------------------------------------
// accumulated results (child -> parent, line format)
// ---------------------------------------------------------------------------------------------

#[derive(Default)]
struct Acc {
    evals: u64,
    nontrivial: BTreeSet<u64>,
    hist: BTreeMap<String, u64>,
    /// signature -> (count, case, detail, is_disagreement)
    findings: BTreeMap<String, (u64, String, String, bool)>,
    samples: Vec<String>,
}

impl Acc {
    fn count(&mut self, k: &str) { *self.hist.entry(k.to_string()).or_insert(0) += 1; }
    fn count_n(&mut self, k: &str, n: u64) { *self.hist.entry(k.to_string()).or_insert(0) += n; }
    fn finding(&mut self, sig: &str, case: &str, detail: &str, dis: bool) {
        let e = self.findings.entry(sig.to_string()).or_insert((0, case.to_string(), detail.to_string(), dis));
        e.0 += 1;
        // prefer the shortest reproducing case
        if case.len() < e.1.len() { e.1 = case.to_string(); e.2 = detail.to_string(); }
    }
    fn dump(&self, path: &str, next_idx: usize) {
        let mut s = String::new();
        s.push_str(&format!("NEXT\t{next_idx}\nE\t{}\n", self.evals));
        for n in &self.nontrivial { s.push_str(&format!("N\t{n}\n")); }
        for (k, v) in &self.hist { s.push_str(&format!("H\t{k}\t{v}\n")); }
        for (sig, (n, case, detail, dis)) in &self.findings {
            s.push_str(&format!("F\t{}\t{n}\t{}\t{}\t{}\n", *dis as u8, esc(sig), esc(detail), esc(case)));
        }
        for x in &self.samples { s.push_str(&format!("S\t{}\n", esc(x))); }
        let tmp = format!("{path}.tmp");
        if std::fs::write(&tmp, s).is_ok() { let _ = std::fs::rename(&tmp, path); }
    }
    fn merge_file(&mut self, path: &str) -> Option<usize> {
        let s = std::fs::read_to_string(path).ok()?;
        let mut next = None;
        for l in s.lines() {
            let p: Vec<&str> = l.split('\t').collect();
            match p[0] {
                "NEXT" => next = p.get(1).and_then(|x| x.parse().ok()),
                "E" => self.evals += p.get(1).and_then(|x| x.parse::<u64>().ok()).unwrap_or(0),
                "N" => { if let Some(n) = p.get(1).and_then(|x| x.parse().ok()) { self.nontrivial.insert(n); } }
                "H" if p.len() >= 3 => *self.hist.entry(p[1].to_string()).or_insert(0) += p[2].parse::<u64>().unwrap_or(0),
                "F" if p.len() >= 6 => {
                    let (dis, n, sig, detail, case) = (p[1] == "1", p[2].parse::<u64>().unwrap_or(1), unesc(p[3]), unesc(p[4]), p[5..].join("\t"));
                    let case = unesc_case(&case);
                    let e = self.findings.entry(sig).or_insert((0, case.clone(), detail.clone(), dis));
                    e.0 += n;
                    if case.len() < e.1.len() { e.1 = case; e.2 = detail; }
                }
                "S" if p.len() >= 2 => { if self.samples.len() < 40 { self.samples.push(unesc(p[1])); } }
                _ => {}
            }
        }
        next
    }
}
/// the case text inside an F line was escaped as a whole (tabs became \t); undo exactly one level
fn unesc_case(s: &str) -> String { unesc(s) }

fn stmt_kind(sql: &str) -> String {
    let w: String = sql.trim_start().chars().take_while(|c| c.is_ascii_alphabetic()).collect::<String>().to_uppercase();
    match w.as_str() {
        "SELECT" | "WITH" | "INSERT" | "UPDATE" | "DELETE" | "CREATE" | "DROP" | "ALTER" | "TRUNCATE" | "BEGIN" | "COMMIT" | "ROLLBACK" | "SAVEPOINT" | "RELEASE" | "EXPLAIN" | "PRAGMA" | "SET" | "SHOW" | "RESET" | "MERGE" | "CALL" | "GRANT" | "REVOKE" | "UPSERT" | "REPLACE" => w.to_lowercase(),
        _ => "other".into(),
    }
}

/// what a hang/abort signature is keyed on: a sized function in the statement, else the statement kind
fn focus(case: &Case, op_idx: usize) -> String {
    let op = case.ops.get(op_idx).or(case.ops.last());
    match op {
        Some(Op::Deep(_, c)) => format!("deep-{c}"),
        Some(Op::Lex(_)) | Some(Op::LexBatch(_)) => "lexer".into(),
        Some(Op::Arith(..)) | Some(Op::ArithAll(..)) => "arith".into(),
        Some(Op::Close) => "close".into(),
        Some(Op::Checkpoint) => "checkpoint".into(),
        Some(Op::Reopen) => "reopen".into(),
        Some(o) => {
            let sql = o.sql().unwrap_or_default();
            let up = sql.to_uppercase();
            for f in SIZED_FUNCS {
                if up.contains(&format!("{f}(")) { return format!("fn-{f}"); }
            }
            stmt_kind(&sql)
        }
        None => "?".into(),
    }
}

/// evaluate one case, minimise failures, record into acc; returns true when the process must be abandoned (hang)
fn eval_case(acc: &mut Acc, case: &Case, dir: &str, model_bin: &str, timeout: Duration) -> bool {
    let out = run_case(dir, case, model_bin, timeout);
    acc.evals += 1;
    acc.count(&format!("case:{}", case.kind.split(':').next().unwrap_or("?")));
    let mut past_parser = false;
    for (i, rs) in &out.per_op {
        for r0 in rs {
            let (sub_case, r) = match r0 { Res::Sub(c, b) => (Some(c.clone()), &**b), other => (None, other) };
            if sub_case.is_some() { acc.evals += 1; }
            let opname = if *i == usize::MAX { "setup".to_string() } else if *i == usize::MAX - 1 { "drop".into() } else {
                match &case.ops[*i] { Op::Exec(s) | Op::Query(s) | Op::Params(_, s) | Op::Prep(_, s) | Op::PrepQ(_, s) => format!("stmt:{}", stmt_kind(s)), Op::ParseOnly(_) => "parse-only".into(), Op::Deep(..) => "deep".into(), Op::Lex(_) | Op::LexBatch(_) => "lex".into(), Op::Arith(..) | Op::ArithAll(..) => "arith".into(), Op::Close => "close".into(), Op::Checkpoint => "checkpoint".into(), Op::Reopen => "reopen".into() }
            };
            match r {
                Res::Ok => { acc.count(&format!("{opname}:ok")); past_parser = true; }
                Res::Err(e) => { let c = err_class(e); if c != "err-parse" { past_parser = true; } acc.count(&format!("{opname}:{c}")); }
                Res::Sub(..) => {}
                Res::Panic(sig, detail) if sub_case.is_some() => {
                    acc.count(&format!("{opname}:panic"));
                    acc.finding(sig, sub_case.as_ref().unwrap(), detail, false);
                }
                Res::Finding(dis, sig, detail) if sub_case.is_some() => {
                    acc.count(&format!("{opname}:finding"));
                    acc.finding(sig, sub_case.as_ref().unwrap(), detail, *dis);
                }
                Res::Panic(sig, detail) => {
                    past_parser = true;
                    acc.count(&format!("{opname}:panic"));
                    // minimise: the panicking op alone on a fresh database, else the prefix
                    let mut min_case = Case { kind: case.kind.clone(), ops: if *i < case.ops.len() { case.ops[..=*i].to_vec() } else { case.ops.clone() } };
                    if *i < case.ops.len() && *i > 0 && !acc.findings.contains_key(sig) {
                        let single = Case { kind: case.kind.clone(), ops: vec![case.ops[*i].clone()] };
                        let o2 = run_case(dir, &single, model_bin, timeout);
                        if o2.hang_at.is_none() && o2.per_op.iter().any(|(_, rs)| rs.iter().any(|x| matches!(x, Res::Panic(s2, _) if s2 == sig))) {
                            min_case = single;
                        } else {
                            // greedy removal of earlier ops
                            let mut k = 0;
                            while k + 1 < min_case.ops.len() {
                                let mut t = min_case.clone();
                                t.ops.remove(k);
                                let o3 = run_case(dir, &t, model_bin, timeout);
                                if o3.hang_at.is_none() && o3.per_op.iter().any(|(_, rs)| rs.iter().any(|x| matches!(x, Res::Panic(s2, _) if s2 == sig))) { min_case = t; } else { k += 1; }
                            }
                        }
                    }
                    acc.finding(sig, &min_case.text(), detail, false);
                }
                Res::Finding(dis, sig, detail) => {
                    acc.count(&format!("{opname}:finding"));
                    let single = if *i < case.ops.len() { Case { kind: case.kind.clone(), ops: vec![case.ops[*i].clone()] } } else { case.clone() };
                    acc.finding(sig, &single.text(), detail, *dis);
                }
            }
        }
    }
    if past_parser { acc.nontrivial.insert(fnv(&case.text())); }
    if acc.samples.len() < 6 && acc.evals % 97 == 1 { acc.samples.push(case.text().chars().take(300).collect()); }
    if let Some(i) = out.hang_at {
        let sig = format!("{}:{}", if timeout.as_secs() >= 20 { "hang" } else { "hang-candidate" }, focus(case, i));
        let which = if i == usize::MAX { "database setup".to_string() } else if i == usize::MAX - 1 { "Drop of Database".into() } else { format!("op #{i}") };
        let min_case = if i < case.ops.len() { Case { kind: case.kind.clone(), ops: case.ops[..=i].to_vec() } } else { case.clone() };
        acc.finding(&sig, &min_case.text(), &format!("no return within {} s from {which}", timeout.as_secs()), false);
        acc.count("hang");
        return true;
    }
    false
}

// ---------------------------------------------------------------------------------------------
// generated cases
// ---------------------------------------------------------------------------------------------

fn sized_systematic() -> Vec<Case> {
    // every size-taking function with extreme numeric arguments, one statement per case
    let mut v = vec![];
    let ext = ["9223372036854775807", "(-9223372036854775807 - 1)", "-1", "4294967296", "1e308"];
    for f in SIZED_FUNCS {
        for e in ext {
            for shape in 0..6 {
                let sql = match shape {
                    0 => format!("SELECT {f}({e})"),
                    1 => format!("SELECT {f}('ab', {e})"),
                    2 => format!("SELECT {f}('ab', {e}, 'c')"),
                    3 => format!("SELECT {f}({e}, {e})"),
                    4 => format!("SELECT {f}('2024-02-29', {e})"),
                    _ => format!("SELECT {f}('ab', 2, {e})"),
                };
                v.push(Case { kind: format!("sys-sized:{f}"), ops: vec![Op::Exec(sql)] });
            }
        }
    }
    v
}

fn gen_case(seed: u64, chunk: u64, idx: u64) -> Case {
    let mut rng = Rng::new(seed ^ chunk.wrapping_mul(0x9E37_79B9_7F4A_7C15) ^ idx.wrapping_mul(0xD1B5_4A32_D192_ED03));
    let layer = rng.below(100);
    let mk = |rng: &mut Rng| -> (&'static str, String) { let mut g = G { rng, wild: false }; g.statement() };
    match layer {
        // grammar: sessions of statements on one database
        0..=39 => {
            let n = 1 + rng.below(6);
            let mut ops = vec![];
            let mut kind = String::new();
            for j in 0..n {
                let (k, s) = mk(&mut rng);
                if j == 0 { kind = k.to_string(); }
                ops.push(if s.trim_start().to_uppercase().starts_with("SELECT") && rng.chance(1, 3) { Op::Query(s) } else { Op::Exec(s) });
            }
            Case { kind: format!("gram:{kind}"), ops }
        }
        // token / byte mutations of a generated statement
        40..=64 => {
            let (_, s) = mk(&mut rng);
            let (mk_, m) = mutate(&mut rng, &s);
            let m2 = if rng.chance(1, 4) { mutate(&mut rng, &m).1 } else { m };
            let op = match rng.below(6) { 0 => Op::ParseOnly(m2), 1 => Op::Query(m2), _ => Op::Exec(m2) };
            Case { kind: format!("mut:{mk_}"), ops: vec![op] }
        }
        // lexer differential on generated / mutated text and on lexer-centric random strings
        65..=72 => {
            let s = if rng.chance(1, 2) {
                let (_, s) = mk(&mut rng);
                mutate(&mut rng, &s).1
            } else {
                const AL: &[&str] = &["'", "\"", "`", "$", "$$", "$t$", ":", "::", ":=", "@", "@>", "?", "?|", "?&", "-", "--", "->", "->>", "/", "/*", "*/", "*", "<", "<=", "<=>", "<>", "<<", "<@", "<-", "<->", "<#", "<#>", ">", ">=", ">>", "!", "!=", "=", "=>", ".", "..", "#", "#>", "#>>", "&", "&&", "|", "||", "0", "1", "9", "0x", "0X1f", "0b", "0b12", "0o", "0o78", "1.", "1.5", ".5", "1e", "1e+", "1E-5", "1..2", "x'", "X'0f'", "x'zz'", "a", "_", "Z9", "e", "é", "日", "😀", "\u{0}", "\u{7f}", "\u{80}", " ", "\n", "\t", "\r", "(", ")", "[", "]", "{", "}", ",", ";", "%", "^", "~", "+", "\\", "4294967295", "4294967296", "$1", "$0", "$99999999999"];
                let n = rng.below(12) + 1;
                (0..n).map(|_| *rng.pick(AL)).collect::<String>()
            };
            Case { kind: "lex".into(), ops: vec![Op::Lex(s.into_bytes())] }
        }
        // parameter lists of right / wrong arity and types
        73..=84 => {
            let sql = param_statement(&mut rng);
            let want = sql.matches('?').count() + sql.matches('$').count() + sql.matches(":p").count();
            let n = match rng.below(6) { 0 => 0, 1 => want + 1, 2 => want.saturating_sub(1), 3 => want + 17, _ => want };
            let ps: Vec<String> = (0..n).map(|_| gen_param(&mut rng)).collect();
            let p = if ps.is_empty() { "-".to_string() } else { ps.join(",") };
            let op = match rng.below(3) { 0 => Op::Params(p, sql), 1 => Op::Prep(p, sql), _ => Op::PrepQ(p, sql) };
            let mut ops = vec![op.clone()];
            if rng.chance(1, 3) { ops.push(op); }
            Case { kind: "params".into(), ops }
        }
        // API call sequences
        85..=94 => {
            let n = 2 + rng.below(9);
            let mut ops = vec![];
            for _ in 0..n {
                ops.push(match rng.below(16) {
                    0..=4 => { let mut g = G { rng: &mut rng, wild: false }; Op::Exec(g.txn()) }
                    5 => Op::Close,
                    6 => Op::Checkpoint,
                    7 => Op::Reopen,
                    8..=9 => { let mut g = G { rng: &mut rng, wild: false }; Op::Exec(g.insert()) }
                    10 => { let mut g = G { rng: &mut rng, wild: false }; Op::Exec(g.update()) }
                    11 => { let mut g = G { rng: &mut rng, wild: false }; Op::Exec(g.ddl()) }
                    12 => { let mut g = G { rng: &mut rng, wild: false }; Op::Exec(g.misc()) }
                    13 => Op::Exec(format!("INSERT INTO t2 VALUES ({}, 1, 'u{}', 5)", 50 + rng.below(20), rng.below(1000))),
                    14 => Op::Query("SELECT COUNT(*) FROM t2".into()),
                    _ => { let mut g = G { rng: &mut rng, wild: false }; Op::Query(g.select(0)) }
                });
            }
            Case { kind: "api".into(), ops }
        }
        // arithmetic differential on random boundary operands
        95..=96 => {
            let b = [0i64, 1, -1, 2, -2, 3, 10, 63, 64, 3037000499, 3037000500, -3037000500, 2147483647, 4294967296, 4294967297, 4611686018427387904, -4611686018427387904, i64::MAX, i64::MAX - 1, i64::MIN, i64::MIN + 1];
            let a = if rng.chance(1, 4) { rng.next() as i64 >> rng.below(64) } else { *rng.pick(&b) };
            let c = if rng.chance(1, 4) { rng.next() as i64 >> rng.below(64) } else { *rng.pick(&b) };
            let o = *rng.pick(&["add", "sub", "mul", "div", "mod", "pow", "neg"]);
            Case { kind: "arith".into(), ops: vec![Op::Arith(o.into(), a, c)] }
        }
        // wild: huge arguments allowed everywhere (may hang: each hang costs the watchdog time)
        _ => {
            let mut g = G { rng: &mut rng, wild: true };
            let s = if g.rng.chance(1, 2) { format!("SELECT {}", g.func(3)) } else { g.select(1) };
            Case { kind: "wild".into(), ops: vec![Op::Exec(s)] }
        }
    }
}

// ---------------------------------------------------------------------------------------------
// child process: runs a list of cases, writes results, exits early on a hang
// ---------------------------------------------------------------------------------------------

fn child_main(ctx: &Ctx, spec: &str) -> Report {
    // spec = gen:<chunk>:<start>:<end>:<resfile>:<skip or -> | file:<path>:<start>:<end>:<resfile>:<skip>
    let p: Vec<&str> = spec.split('|').collect();
    let (mode, a, start, end, resfile, skip) = (p[0], p[1], p[2].parse::<usize>().unwrap(), p[3].parse::<usize>().unwrap(), p[4].to_string(), p[5]);
    let skip: BTreeSet<usize> = skip.split(',').filter_map(|x| x.parse().ok()).collect();
    install_hook();
    let timeout = Duration::from_secs(std::env::var("VERIF_ROBUST_TIMEOUT").ok().and_then(|x| x.parse().ok()).unwrap_or(5));
    let file_cases: Vec<String> = if mode == "file" { std::fs::read_to_string(a).unwrap_or_default().lines().map(|l| l.to_string()).filter(|l| !l.trim().is_empty() && !l.starts_with('#')).collect() } else { vec![] };
    let chunk: u64 = if mode == "gen" { a.parse().unwrap() } else { 0 };
    let mut acc = Acc::default();
    let progress = format!("{resfile}.progress");
    // database directories: tmpfs when the parent found one (fsync on the shared disk costs 100+ ms per database
    // with 16 parallel workers), else the scratch directory
    let root = std::env::var("VERIF_ROBUST_DBROOT").unwrap_or_else(|_| ctx.scratch.clone());
    let _ = std::fs::create_dir_all(&root);
    let dir = format!("{}/db-{}", root, std::process::id());
    let end = if mode == "file" { end.min(file_cases.len()) } else { end };
    let mut idx = start;
    while idx < end {
        if skip.contains(&idx) { idx += 1; continue; }
        let case = if mode == "file" {
            match Case::parse(&file_cases[idx]) { Some(c) => c, None => { acc.count("bad-case-line"); idx += 1; continue; } }
        } else {
            gen_case(ctx.seed, chunk, idx as u64)
        };
        let _ = std::fs::write(&progress, format!("{idx}\n{}\n", case.text()));
        let hung = eval_case(&mut acc, &case, &dir, &ctx.model_bin, timeout);
        idx += 1;
        if hung {
            acc.dump(&resfile, idx);
            std::process::exit(3);
        }
        if idx % 100 == 0 { acc.dump(&resfile, idx); }
    }
    acc.dump(&resfile, idx);
    let _ = std::fs::remove_file(&progress);
    std::process::exit(0);
}

// ---------------------------------------------------------------------------------------------
// parent: orchestration
// ---------------------------------------------------------------------------------------------

struct Job {
    mode: String,
    arg: String,
    start: usize,
    end: usize,
    tag: String,
    /// stop the whole job at the first abort/hang (ascending deep sizes)
    stop_on_fail: bool,
    /// watchdog seconds per call
    timeout: u64,
}

fn abort_class(stderr: &str, status: &std::process::ExitStatus) -> String {
    use std::os::unix::process::ExitStatusExt;
    if stderr.contains("has overflowed its stack") { return "stack-overflow".into(); }
    if stderr.contains("memory allocation of") { return "alloc-failure".into(); }
    if let Some(s) = status.signal() { return format!("signal-{s}"); }
    format!("exit-{}", status.code().unwrap_or(-1))
}

/// run one job to completion, restarting the child after aborts / hangs; merges into acc
fn run_job(ctx: &Ctx, job: &Job, acc: &Mutex<Acc>) {
    let exe = std::env::current_exe().expect("current_exe");
    let mut start = job.start;
    let mut skip: Vec<usize> = vec![];
    let mut restarts = 0;
    while start < job.end && restarts < 400 {
        let resfile = format!("{}/res-{}-{}", dbroot(ctx), job.tag, restarts);
        let errfile = format!("{resfile}.stderr");
        let spec = format!("{}|{}|{}|{}|{}|{}", job.mode, job.arg, start, job.end, resfile, if skip.is_empty() { "-".to_string() } else { skip.iter().map(|x| x.to_string()).collect::<Vec<_>>().join(",") });
        let cmdline = format!("ulimit -S -v 3145728; ulimit -c 0; exec \"$0\" robust --seed {} --tier {} --model \"{}\" --scratch \"{}/w-{}\" --out /dev/null", ctx.seed, if ctx.thorough { "thorough" } else { "quick" }, model_wrapper(ctx), ctx.scratch, job.tag);
        let errf = std::fs::File::create(&errfile).expect("stderr file");
        let mut child = std::process::Command::new("sh").arg("-c").arg(&cmdline).arg(&exe).env("VERIF_ROBUST_CHILD", &spec).env("VERIF_ROBUST_DBROOT", dbroot(ctx)).env("VERIF_ROBUST_TIMEOUT", job.timeout.to_string()).stdout(std::process::Stdio::null()).stderr(errf).spawn().expect("spawn child");
        // global guard: a child that makes no progress for 90 s is killed
        let t0 = Instant::now();
        let mut last_progress = String::new();
        let mut last_change = Instant::now();
        let status = loop {
            match child.try_wait() {
                Ok(Some(st)) => break st,
                Ok(None) => {}
                Err(_) => { let _ = child.kill(); break child.wait().unwrap(); }
            }
            std::thread::sleep(Duration::from_millis(20));
            if t0.elapsed().as_millis() % 1000 < 25 {
                let pg = std::fs::read_to_string(format!("{resfile}.progress")).unwrap_or_default();
                if pg != last_progress { last_progress = pg; last_change = Instant::now(); }
                if last_change.elapsed() > Duration::from_secs(90) { let _ = child.kill(); }
            }
        };
        restarts += 1;
        let next = { let mut a = acc.lock().unwrap(); a.merge_file(&resfile) };
        let code = status.code();
        if code == Some(0) { break; }
        if code == Some(3) {
            // watchdog fired in the child (recorded as hang-candidate, or hang when this was the confirmation run)
            start = next.unwrap_or(job.end);
            continue;
        }
        // abnormal exit: attribute to the case in progress
        let pg = std::fs::read_to_string(format!("{resfile}.progress")).unwrap_or_default();
        let mut it = pg.lines();
        let killer: Option<usize> = it.next().and_then(|x| x.parse().ok());
        let case_txt = it.next().unwrap_or("").to_string();
        let stderr = std::fs::read_to_string(&errfile).unwrap_or_default();
        let cls = abort_class(&stderr, &status);
        let mut a = acc.lock().unwrap();
        match (killer, Case::parse(&case_txt)) {
            (Some(k), Some(case)) => {
                let sig = format!("abort:{cls}:{}", focus(&case, case.ops.len().saturating_sub(1)));
                let tail: String = stderr.lines().rev().take(3).collect::<Vec<_>>().into_iter().rev().collect::<Vec<_>>().join(" | ");
                a.finding(&sig, &case.text(), &format!("process died ({cls}) while running this case: {}", tail.chars().take(300).collect::<String>()), false);
                a.count("abort");
                a.evals += 1;
                skip.push(k);
                start = next.unwrap_or(start).min(k);
                // the cases between the last dump and k are re-run (they did not fail); k is skipped
                if job.stop_on_fail { break; }
            }
            _ => {
                a.finding(&format!("abort:{cls}:unattributed"), &format!("# job {} start {}", job.tag, start), &format!("child died without progress record: {}", stderr.chars().take(300).collect::<String>()), false);
                break;
            }
        }
    }
}

/// the Lean runtime reserves more address space than the children's soft limit allows: lift it for the model
fn model_wrapper(ctx: &Ctx) -> String {
    let p = format!("{}/tvmodel-unlimited.sh", ctx.scratch);
    if !std::path::Path::new(&p).exists() {
        let _ = std::fs::write(&p, format!("#!/bin/sh\nulimit -S -v unlimited\nexec \"{}\" \"$@\"\n", ctx.model_bin));
        use std::os::unix::fs::PermissionsExt;
        let _ = std::fs::set_permissions(&p, std::fs::Permissions::from_mode(0o755));
    }
    p
}

fn run_pool(ctx: &Ctx, jobs: Vec<Job>, acc: &Mutex<Acc>) {
    let nworkers = std::env::var("VERIF_ROBUST_WORKERS").ok().and_then(|x| x.parse().ok()).unwrap_or_else(|| std::thread::available_parallelism().map(|n| n.get()).unwrap_or(4).clamp(2, 12));
    let queue = Mutex::new(jobs.into_iter().rev().collect::<Vec<_>>());
    std::thread::scope(|sc| {
        for _ in 0..nworkers {
            sc.spawn(|| loop {
                let job = { queue.lock().unwrap().pop() };
                match job { Some(j) => { let t = Instant::now(); run_job(ctx, &j, acc); if std::env::var("VERIF_ROBUST_TIMING").is_ok() { eprintln!("job {} {}..{} took {:?}", j.tag, j.start, j.end, t.elapsed()); } } None => break }
            });
        }
    });
}

fn dbroot(ctx: &Ctx) -> String {
    let shm = format!("/dev/shm/vharness-robust-{}", std::process::id());
    if std::fs::create_dir_all(&shm).is_ok() && std::fs::write(format!("{shm}/.probe"), b"x").is_ok() { shm } else { format!("{}/dbs", ctx.scratch) }
}

fn parent_main(ctx: &Ctx) -> Report {
    let mut rep = Report::new(
        "robust",
        "THEOREM-BACKED: (1) lexer: real Lexer vs Lean M-code model on generated/mutated statements and lexer-centric random strings \
         (token kind, span, payload slice) + oracle no-panic/progress/<=n+1 tokens; (2) i64 arithmetic: SELECT a op b (literal, column and \
         WHERE paths) vs Lean ArithImpl (value / NULL / panic message) on all boundary pairs. SEARCH ONLY (no theorem): grammar-generated \
         valid and near-valid statements over the whole dialect, token/byte mutations, parameter lists of wrong arity/type through \
         execute_with_params and prepared statements, API call sequences (nested BEGIN, COMMIT without BEGIN, savepoint misuse, use after \
         close, reopen), deep nesting 10..10000 in child processes; every call under catch_unwind + 5 s watchdog, address space limited to \
         3 GiB. Arguments of size-taking functions (REPEAT, LPAD, ...) are kept small in the random layers and tested with extreme values \
         once each in the systematic layer. non-trivial = distinct case in which at least one call got past the parser",
    );
    let _ = std::fs::create_dir_all(&ctx.scratch);
    let acc = Mutex::new(Acc::default());
    let mut jobs: Vec<Job> = vec![];
    // 0. corpus + replay
    let corpus = ctx.corpus_cases("C22");
    if !corpus.is_empty() {
        let path = format!("{}/corpus.cases", ctx.scratch);
        std::fs::write(&path, corpus.join("\n") + "\n").unwrap();
        let per = 40;
        let mut s = 0;
        while s < corpus.len() {
            jobs.push(Job { mode: "file".into(), arg: path.clone(), start: s, end: (s + per).min(corpus.len()), tag: format!("corpus{s}"), stop_on_fail: false, timeout: 5 });
            s += per;
        }
    }
    let only_replay = ctx.replay.is_some() && std::env::var("VERIF_ROBUST_FULL").is_err();
    if !only_replay {
        // 1. systematic: arithmetic boundary pairs, lexer table, sized functions, deep nesting
        let mut sys: Vec<Case> = vec![];
        for o in ["add", "sub", "mul", "div", "mod", "pow", "neg"] {
            let total = if o == "neg" { ARITH_B.len() } else { ARITH_B.len() * ARITH_B.len() };
            let mut lo = 0;
            while lo < total { sys.push(Case { kind: "sys-arith".into(), ops: vec![Op::ArithAll(o.into(), lo, (lo + 96).min(total))] }); lo += 96; }
        }
        // lexer: every start byte followed by every relevant second byte and a tail
        let seconds: &[&str] = &["", " ", "'", "\"", "$", "-", ">", "=", "<", "*", "/", ".", "#", "@", "&", "|", "0", "x", "e", "é", ":", "?", "!", "1e5", "'a", "$$", "$a$", "\n"];
        let mut batch: Vec<Vec<u8>> = vec![];
        for c in 0u8..128 {
            for s2 in seconds {
                let mut v = vec![c];
                v.extend(s2.as_bytes());
                batch.push(v.clone());
                v.extend(b" z");
                batch.push(v);
                if batch.len() >= 64 { sys.push(Case { kind: "sys-lex".into(), ops: vec![Op::LexBatch(std::mem::take(&mut batch))] }); }
            }
        }
        if !batch.is_empty() { sys.push(Case { kind: "sys-lex".into(), ops: vec![Op::LexBatch(batch)] }); }
        // every scalar function x small argument patterns (NULL, empty, multi-byte text, negative, extremes)
        let pats: &[&str] = &["", "NULL", "''", "'abc'", "0", "-1", "1.5", "'é日本😀'", "'abc', 1", "'abc', -1", "'abc', NULL", "NULL, NULL", "'é日本😀', 1", "'é日本😀', 2", "'é日本😀', -2",
            "'é日本😀', 2, 1", "'é日本😀', 1, 'é'", "'abc', 'b', 'c'", "'a,b,c', ',', 2", "1, 2, 3", "'2024-02-29'", "'2024-02-29', 1", "'2024-02-29', '%Y-%m-%d %H'", "'%Y %q %', '2024-02-29'", "'12:34:56', '23:59:59'",
            "9223372036854775807", "(-9223372036854775807 - 1)", "1e308", "'abc', 0, 0", "'', ''", "0, 0", "2, 0.5", "-8, 0.5", "10, 1, 36", "'zz', 36, 2", "a", "s, 2", "f, -1", "id, s, f"];
        for f in FUNCS {
            if SIZED_FUNCS.contains(f) { continue; }
            for pt in pats {
                let from = if pt.contains("a") && !pt.contains('\'') || pt.starts_with("s,") || pt.starts_with("f,") || pt.starts_with("id,") { " FROM t1" } else { "" };
                sys.push(Case { kind: "sys-fn".into(), ops: vec![Op::Exec(format!("SELECT {f}({pt}){from}"))] });
            }
        }
        for f in SIZED_FUNCS {
            for pt in ["", "NULL", "'é日本😀', 2", "'é日本😀', 2, 'é'", "'é日本😀', 1, 2, 'ü'", "'abc', 0", "'2024-02-29', 1", "0", "1.5, 2", "'12:00:00', '01:00:00'", "202401, 13", "2024, 366", "17, 2, 36"] {
                sys.push(Case { kind: "sys-fn".into(), ops: vec![Op::Exec(format!("SELECT {f}({pt})"))] });
            }
        }
        // every PRAGMA x value x syntax, SET / SHOW / RESET
        for pr in PRAGMAS {
            sys.push(Case { kind: "sys-pragma".into(), ops: vec![Op::Exec(format!("PRAGMA {pr}"))] });
            for v in PRAGMA_VALS {
                sys.push(Case { kind: "sys-pragma".into(), ops: vec![Op::Exec(format!("PRAGMA {pr} = {v}")), Op::Exec(format!("PRAGMA {pr}({v})")), Op::Exec(format!("PRAGMA {pr} {v}")), Op::Exec(format!("PRAGMA {pr}"))] });
            }
        }
        for v in ["ON", "OFF", "1", "0", "'on'", "TRUE", "DEFAULT", "9223372036854775808", "-1", "1.5", "NULL", "a, b", "(1)", "x"] {
            for n in ["foreign_keys", "x", "search_path"] {
                sys.push(Case { kind: "sys-set".into(), ops: vec![Op::Exec(format!("SET {n} = {v}")), Op::Exec(format!("SET {n} TO {v}")), Op::Exec(format!("SHOW {n}")), Op::Exec(format!("RESET {n}"))] });
            }
        }
        // parameter kind x target column matrix (INSERT / UPDATE / WHERE) through execute_with_params and prepared statements
        let kinds: &[&str] = &["i7", "i9223372036854775807", "f3ff8000000000000", "f7ff8000000000000", "t616263", "t-", "b00ff", "b-", "n", "B1", "v3f800000_40000000_40400000", "v-", "d19782", "d2147483647",
            "T86399999999", "T-1", "s1709251199000000", "s9223372036854775807", "z0_0", "z-1_2147483647", "u000102030405060708090a0b0c0d0e0f", "j-", "j0102", "D12345_2", "D1_39", "D1_-32768", "e1_1", "e65535_65535", "p-", "p0102030405060708",
            "I0_0_0", "I9223372036854775807_2147483647_2147483647", "P3ff0000000000000_3ff0000000000000"];
        let t1_ok = ["i900", "i1", "i1", "t61", "f3ff8000000000000", "B1"];
        let t3_ok = ["t7a7a", "d19782", "j-", "b00", "s0"];
        let t1_cols = ["id", "a", "b", "s", "f", "flag"];
        let t3_cols = ["k", "d", "j", "bl", "ts"];
        for k in kinds {
            for j in 0..6 {
                let mut ps: Vec<&str> = t1_ok.to_vec();
                ps[j] = k;
                sys.push(Case { kind: "sys-params".into(), ops: vec![Op::Params(ps.join(","), "INSERT INTO t1 VALUES (?, ?, ?, ?, ?, ?)".into())] });
                sys.push(Case { kind: "sys-params".into(), ops: vec![Op::Prep(format!("{k},i1"), format!("UPDATE t1 SET {} = ? WHERE id = ?", t1_cols[j]))] });
                sys.push(Case { kind: "sys-params".into(), ops: vec![Op::PrepQ(k.to_string(), format!("SELECT id FROM t1 WHERE {} = ?", t1_cols[j]))] });
            }
            for j in 0..5 {
                let mut ps: Vec<&str> = t3_ok.to_vec();
                ps[j] = k;
                sys.push(Case { kind: "sys-params".into(), ops: vec![Op::Params(ps.join(","), "INSERT INTO t3 VALUES (?, ?, ?, ?, ?)".into())] });
                sys.push(Case { kind: "sys-params".into(), ops: vec![Op::Params(format!("{k},t6b31"), format!("UPDATE t3 SET {} = ? WHERE k = ?", t3_cols[j]))] });
                sys.push(Case { kind: "sys-params".into(), ops: vec![Op::Params(k.to_string(), format!("SELECT k FROM t3 WHERE {} = ?", t3_cols[j]))] });
            }
        }
        let path = format!("{}/sys.cases", ctx.scratch);
        std::fs::write(&path, sys.iter().map(|c| c.text()).collect::<Vec<_>>().join("\n") + "\n").unwrap();
        let per = sys.len() / 28 + 1;
        let mut s = 0;
        while s < sys.len() {
            jobs.push(Job { mode: "file".into(), arg: path.clone(), start: s, end: (s + per).min(sys.len()), tag: format!("sys{s}"), stop_on_fail: false, timeout: 5 });
            s += per;
        }
        let sized = sized_systematic();
        let path = format!("{}/sized.cases", ctx.scratch);
        std::fs::write(&path, sized.iter().map(|c| c.text()).collect::<Vec<_>>().join("\n") + "\n").unwrap();
        let per = sized.len() / 60 + 1;
        let mut s = 0;
        while s < sized.len() {
            jobs.push(Job { mode: "file".into(), arg: path.clone(), start: s, end: (s + per).min(sized.len()), tag: format!("sized{s}"), stop_on_fail: false, timeout: 5 });
            s += per;
        }
        // deep nesting: one job per construct, ascending sizes, stop at the first abort/hang
        let sizes: &[usize] = if ctx.thorough { &[10, 100, 1000, 10000, 100000] } else { &[10, 100, 1000, 10000] };
        for c in DEEP {
            let path = format!("{}/deep-{c}.cases", ctx.scratch);
            let lines: Vec<String> = sizes.iter().map(|n| Case { kind: format!("deep:{c}"), ops: vec![Op::Deep(*n, c.to_string())] }.text()).collect();
            std::fs::write(&path, lines.join("\n") + "\n").unwrap();
            jobs.push(Job { mode: "file".into(), arg: path, start: 0, end: sizes.len(), tag: format!("deep-{c}"), stop_on_fail: true, timeout: 5 });
        }
        // 2. random layers
        let (chunks, per_chunk) = if ctx.thorough { (32u64, 2500usize) } else { (16u64, 300usize) };
        let per_chunk = std::env::var("VERIF_ROBUST_PER_CHUNK").ok().and_then(|x| x.parse().ok()).unwrap_or(per_chunk);
        for c in 0..chunks {
            jobs.push(Job { mode: "gen".into(), arg: c.to_string(), start: 0, end: per_chunk, tag: format!("gen{c}"), stop_on_fail: false, timeout: 5 });
        }
    }
    run_pool(ctx, jobs, &acc);
    // hang candidates (5 s watchdog fired) are confirmed one by one with a 20 s watchdog: on a loaded machine a
    // slow but terminating call must not be reported as a hang
    let cands: Vec<(String, String)> = {
        let mut a = acc.lock().unwrap();
        let keys: Vec<String> = a.findings.keys().filter(|k| k.starts_with("hang-candidate:")).cloned().collect();
        keys.into_iter().map(|k| { let v = a.findings.remove(&k).unwrap(); a.count_n("watchdog-5s-fired", v.0); (k, v.1) }).collect()
    };
    let mut jobs2 = vec![];
    for (i, (_sig, case)) in cands.iter().enumerate() {
        let path = format!("{}/confirm-{i}.cases", ctx.scratch);
        std::fs::write(&path, format!("{case}\n")).unwrap();
        jobs2.push(Job { mode: "file".into(), arg: path, start: 0, end: 1, tag: format!("confirm{i}"), stop_on_fail: true, timeout: 20 });
    }
    run_pool(ctx, jobs2, &acc);
    {
        let mut a = acc.lock().unwrap();
        let n = a.findings.keys().filter(|k| k.starts_with("hang:")).count() as u64;
        a.count_n("hang-confirmed-20s", n);
    }
    let root = dbroot(ctx);
    if root.starts_with("/dev/shm/") { let _ = std::fs::remove_dir_all(&root); }
    let acc = acc.into_inner().unwrap();
    rep.evaluations = acc.evals;
    for n in &acc.nontrivial { rep.nontrivial.insert(*n); }
    for (k, v) in &acc.hist { rep.count_n(k, *v); }
    for s in acc.samples.iter().take(12) { rep.sample(s.clone()); }
    for (sig, (n, case, detail, dis)) in &acc.findings {
        rep.count_n(&format!("finding:{sig}"), *n);
        if *dis { rep.disagree(case.clone(), detail.clone(), sig.clone()); rep.n_disagreements += n - 1; } else { rep.oracle_fail(case.clone(), detail.clone(), sig.clone()); rep.n_oracle_failures += n - 1; }
    }
    rep.notes.push("theorem-backed parts: lexer (TurVerif.Lexer) and i64 arithmetic (TurVerif.ArithImpl), LIKE termination (TurVerif.Like); parser, planner, executor, DDL, transactions are covered by SEARCH ONLY — absence of a panic there is not a proof".into());
    rep
}

pub fn run(ctx: &Ctx) -> Report {
    if let Ok(spec) = std::env::var("VERIF_ROBUST_CHILD") {
        return child_main(ctx, &spec);
    }
    parent_main(ctx)
}

#[allow(dead_code)]
fn _unused(_: &mut dyn Write) {}
