//! C16: aggregates, GROUP BY and HAVING vs the reference semantics (`TurVerif.Sql.evalAgg`,
//! `aggregate`, `groupStage`).
//!
//! One self-contained case per line (tables ;; SQL ;; model s-expression ;; role of every output
//! column ;; auxiliary model queries giving the aggregate inputs), so generated cases, corpus files
//! and replay files go through the same `check_case`.  A mismatch is localised: scalar aggregates
//! cell by cell (`agg:<fn>(<arg kind>):<input class>:...`), grouped queries by group key
//! (missing / extra / duplicated group, then the first wrong aggregate cell), HAVING and ORDER BY
//! over groups only when the same query without them is right.
//!
//! Oracles evaluated on the engine's own results (independent of the model): COUNT(*) = number of
//! input rows and COUNT(x) = number of non-NULL x (inputs read with plain SELECTs), no GROUP BY =>
//! exactly one row, one row per distinct key with NULL keys in ONE group, sum of COUNT(*) over the
//! groups = number of input rows, HAVING result = the groups of the un-filtered query that satisfy
//! the condition.
use super::sqlx::*;
use crate::common::*;
use crate::sqlgen::*;
use std::cmp::Ordering;

#[derive(Clone, Debug, PartialEq)]
pub enum Role {
    /// group key column of this kind
    Key(String),
    /// aggregate: function, argument kind (`star`, `int`, .., `expr`), index into `aux` (usize::MAX for COUNT(*))
    Agg(String, String, usize),
    /// expression over the group row
    Expr,
}

#[derive(Clone, Debug)]
pub struct ACase {
    pub kind: String,
    pub sig: String,
    pub tables: String,
    pub sql: String,
    pub sx: String,
    pub roles: Vec<Role>,
    /// model queries `SELECT arg FROM .. WHERE ..` giving the input of each aggregate; aux[0] is always `SELECT id ..` (the input rows)
    pub aux: Vec<String>,
    /// engine-side SQL for the same auxiliary queries
    pub aux_sql: Vec<String>,
    /// ORDER BY over output columns: (position, desc)
    pub order: Vec<(usize, bool)>,
    pub sub: Option<Box<ACase>>,
}

const SUBSEP: &str = " ;;SUB;; ";

impl ACase {
    pub fn line(&self) -> String {
        let roles = self.roles.iter().map(|r| match r { Role::Key(k) => format!("k:{k}"), Role::Agg(f, a, i) => format!("a:{f}:{a}:{}", if *i == usize::MAX { "-".to_string() } else { i.to_string() }), Role::Expr => "x".into() }).collect::<Vec<_>>().join(" ");
        let ord = if self.order.is_empty() { "-".to_string() } else { self.order.iter().map(|(p, d)| format!("{p}{}", if *d { 'd' } else { 'a' })).collect::<Vec<_>>().join(",") };
        let mut l = [self.kind.clone(), self.sig.clone(), self.tables.clone(), self.sql.clone(), self.sx.clone(), roles, self.aux.join(" || "), self.aux_sql.join(" || "), ord].join(" ;; ");
        if let Some(s) = &self.sub { l.push_str(SUBSEP); l.push_str(&s.line().replacen(&self.tables, "=", 1)); }
        l
    }
    pub fn parse(l: &str) -> Option<ACase> {
        let (head, sub) = match l.split_once(SUBSEP) { Some((h, s)) => (h, Some(s)), None => (l, None) };
        let f: Vec<&str> = head.split(" ;; ").collect();
        if f.len() != 9 { return None; }
        let mut roles = vec![];
        for r in f[5].split(' ') {
            if let Some(k) = r.strip_prefix("k:") { roles.push(Role::Key(k.into())); }
            else if let Some(a) = r.strip_prefix("a:") { let p: Vec<&str> = a.split(':').collect(); if p.len() != 3 { return None; } roles.push(Role::Agg(p[0].into(), p[1].into(), if p[2] == "-" { usize::MAX } else { p[2].parse().ok()? })); }
            else if r == "x" { roles.push(Role::Expr); } else if !r.is_empty() { return None; }
        }
        let order = if f[8] == "-" { vec![] } else { f[8].split(',').map(|x| { let (p, d) = x.split_at(x.len() - 1); Some((p.parse().ok()?, d == "d")) }).collect::<Option<Vec<_>>>()? };
        let mut me = ACase { kind: f[0].into(), sig: f[1].into(), tables: f[2].into(), sql: f[3].into(), sx: f[4].into(), roles,
            aux: f[6].split(" || ").map(|s| s.to_string()).collect(), aux_sql: f[7].split(" || ").map(|s| s.to_string()).collect(), order, sub: None };
        if let Some(s) = sub { let mut x = ACase::parse(s)?; x.set_tables(&me.tables); me.sub = Some(Box::new(x)); }
        Some(me)
    }
    fn set_tables(&mut self, t: &str) { if self.tables == "=" { self.tables = t.to_string(); } if let Some(s) = &mut self.sub { s.set_tables(t); } }
    fn key_positions(&self) -> Vec<usize> { self.roles.iter().enumerate().filter(|(_, r)| matches!(r, Role::Key(_))).map(|(i, _)| i).collect() }
}

pub enum Outcome { Skip, Pass, Fail { sig: String, detail: String } }

thread_local! {
    /// M-code correspondence requests collected during the run: (request to `tvmodel sqlagg`, engine cell, case)
    static PENDING: std::cell::RefCell<Vec<(String, String, String)>> = std::cell::RefCell::new(vec![]);
}

/// class of the input of one aggregate: `empty` (no input row), `allnull`, `somenull`, `nonull`
fn input_class(vals: &[Vec<String>]) -> &'static str {
    if vals.is_empty() { return "empty"; }
    let nn = vals.iter().filter(|r| r[0] != "N").count();
    if nn == 0 { "allnull" } else if nn < vals.len() { "somenull" } else { "nonull" }
}

fn expgot(m: &str, e: &str) -> String {
    let (km, ke) = (kind_of(m), kind_of(e));
    let num = |k: &str| k == "int" || k == "float";
    if km == ke || (num(km) && num(ke)) { format!("exp={km}:got={ke}:value") } else { format!("exp={km}:got={ke}") }
}

pub fn evaluate(c: &ACase, w: &World, model: &mut Model, rep: &mut Report, top: bool) -> Outcome {
    let exp = match run_model(model, &c.sx) { Ok(r) => r, Err(_) => return Outcome::Skip };
    let mut aux: Vec<Vec<Vec<String>>> = vec![];
    for a in &c.aux { match run_model(model, a) { Ok(r) => aux.push(r), Err(_) => return Outcome::Skip } }
    let nin = aux[0].len();
    let keypos = c.key_positions();
    let nkeys_declared = c.sig.split(':').find_map(|p| p.strip_suffix("keys").and_then(|n| n.parse::<usize>().ok())).unwrap_or(0);
    if top {
        let nontrivial = nin >= 2 && (exp.len() >= 2 || nkeys_declared == 0);
        rep.case(if nontrivial { Some(&c.sql) } else { None });
        rep.count(&format!("kind_{}", c.kind));
        rep.count(&format!("input_rows_{}", if nin == 0 { "0" } else if nin < 8 { "1-7" } else { "8+" }));
        rep.count(&format!("groups_{}", if exp.is_empty() { "0" } else if exp.len() == 1 { "1" } else if exp.len() < 5 { "2-4" } else { "5+" }));
        for r in &c.roles { if let Role::Agg(f, a, i) = r { rep.count(&format!("agg_{f}_{a}_{}", if *i == usize::MAX { input_class(&aux[0]) } else { input_class(&aux[*i]) })); } }
        if rep.evaluations % 61 == 0 { rep.sample(format!("{}  -- reference: {}", c.sql, show_rows(&exp).chars().take(160).collect::<String>())); }
    }
    let fail = |what: String, detail: String| Outcome::Fail { sig: format!("{}:{}", c.sig, what), detail: format!("{}: {}", c.sql, detail) };
    let got = match run_engine(&w.dbh, &c.sql) { Ok(r) => r, Err(e) => return fail(e.clone(), format!("engine {e}; reference returns {}", show_rows(&exp))) };
    if let Some(r) = got.iter().find(|r| r.len() != c.roles.len()) {
        return fail("row-width".into(), format!("result row has {} columns, expected {}: {}", r.len(), c.roles.len(), show_rows(&got)));
    }
    // ---- engine-only oracles on the aggregate inputs (plain SELECTs on the engine)
    let mut eaux: Vec<Option<Vec<Vec<String>>>> = vec![];
    for (i, q) in c.aux_sql.iter().enumerate() {
        match run_engine(&w.dbh, q) { Ok(r) if rows_agree_bag(&aux[i], &r) => eaux.push(Some(r)), _ => eaux.push(None) }
    }
    let agg_sig = |f: &str, a: &str, i: usize, m: &str, e: &str| format!("{f}({a}):{}:{}", if i == usize::MAX { input_class(&aux[0]) } else { input_class(&aux[i]) }, expgot(m, e));
    if nkeys_declared == 0 && top && got.len() == 1 {
        // M-code correspondence (`TurVerif.SqlAggImpl`): the accumulator model run over the argument values in table order
        for (j, r) in c.roles.iter().enumerate() {
            if let Role::Agg(f, a, i) = r {
                if a == "expr" { continue; }
                let (fname, vals): (&str, Vec<String>) = if *i == usize::MAX { ("count", aux[0].iter().map(|r| r[0].clone()).collect()) } else { (f.as_str(), aux[*i].iter().map(|r| r[0].clone()).collect()) };
                let req = format!("run {} {}", fname, vals.join(" "));
                PENDING.with(|p| p.borrow_mut().push((req.trim_end().to_string(), got[0][j].clone(), format!("{} [column {}]", c.sql, j + 1))));
            }
        }
    }
    if nkeys_declared == 0 {
        // ---- no GROUP BY: exactly one row, also for empty input
        if got.len() != 1 { return fail(format!("rowcount-{}", if got.is_empty() { "0" } else { "many" }), format!("{} rows for an aggregate query without GROUP BY: {}", got.len(), show_rows(&got))); }
        if exp.len() != 1 { return Outcome::Skip; }
        for (j, r) in c.roles.iter().enumerate() {
            let (m, e) = (&exp[0][j], &got[0][j]);
            if let Role::Agg(f, a, i) = r {
                // property oracle from the engine's own plain SELECT of the inputs
                let input = if *i == usize::MAX { eaux[0].as_ref() } else { eaux[*i].as_ref() };
                if let Some(inp) = input {
                    let want = match f.as_str() { "countstar" => Some(inp.len()), "count" => Some(inp.iter().filter(|r| r[0] != "N").count()), _ => None };
                    if let Some(wn) = want { if !cells_agree(&format!("I{wn}"), e) { return fail(agg_sig(f, a, *i, m, e), format!("{f} returned {e} but the engine's own SELECT of the input has {wn} qualifying rows (column {})", j + 1)); } }
                    if inp.iter().all(|r| r[0] == "N") && matches!(f.as_str(), "sum" | "avg" | "min" | "max") && e != "N" { return fail(agg_sig(f, a, *i, m, e), format!("{f} over no non-NULL input returned {e}, expected NULL (column {})", j + 1)); }
                }
                if !cells_agree(m, e) { return fail(agg_sig(f, a, *i, m, e), format!("column {}: expected {m}, got {e}", j + 1)); }
            } else if !cells_agree(m, e) { return fail(format!("expr:{}", expgot(m, e)), format!("column {}: expected {m}, got {e}", j + 1)); }
        }
        return Outcome::Pass;
    }
    // ---- GROUP BY
    let all_keys_out = keypos.len() == nkeys_declared;
    if all_keys_out {
        let key = |r: &Vec<String>| -> Vec<String> { keypos.iter().map(|p| r[*p].clone()).collect() };
        let nullkey = |k: &Vec<String>| if k.iter().any(|x| x == "N") { "nullkey" } else { "valkey" };
        for i in 0..got.len() { for j in 0..i { if rows_same(&key(&got[i]), &key(&got[j])) { return fail(format!("dup-group:{}", nullkey(&key(&got[i]))), format!("group key {} appears in two result rows: {}", key(&got[i]).join(","), show_rows(&got))); } } }
        if let Some(m) = exp.iter().find(|m| !got.iter().any(|g| rows_same(&key(g), &key(m)))) { return fail(format!("missing-group:{}", nullkey(&key(m))), format!("group {} missing: {}", key(m).join(","), show_rows(&got))); }
        if let Some(g) = got.iter().find(|g| !exp.iter().any(|m| rows_same(&key(g), &key(m)))) { return fail(format!("extra-group:{}", nullkey(&key(g))), format!("group {} should not be in the result: {}", key(g).join(","), show_rows(&got))); }
        // groups partition the input: COUNT(*) over the groups adds up to the number of input rows (un-filtered queries only)
        if c.kind == "group" {
            if let Some(p) = c.roles.iter().position(|r| matches!(r, Role::Agg(f, _, _) if f == "countstar")) {
                let total: f64 = got.iter().filter_map(|g| match cv(&g[p]) { CV::Num(x) => Some(x), _ => None }).sum();
                if (total - nin as f64).abs() > 0.5 { return fail("partition".into(), format!("COUNT(*) over the groups adds up to {total}, the input has {nin} rows")); }
            }
        }
        for m in &exp {
            let g = got.iter().find(|g| rows_same(&key(g), &key(m))).unwrap();
            for (j, r) in c.roles.iter().enumerate() {
                if cells_agree(&m[j], &g[j]) { continue; }
                match r {
                    Role::Agg(f, a, i) => return fail(format!("wrong-agg:{}", agg_sig(f, a, *i, &m[j], &g[j])), format!("group {}: column {} expected {}, got {}", key(m).join(","), j + 1, m[j], g[j])),
                    _ => return fail(format!("wrong-expr:{}", expgot(&m[j], &g[j])), format!("group {}: column {} expected {}, got {}", key(m).join(","), j + 1, m[j], g[j])),
                }
            }
        }
    } else if !rows_agree_bag(&exp, &got) {
        return fail(if got.len() != exp.len() { "bag-count".into() } else { "bag".into() }, format!("expected (any order) {} got {}", show_rows(&exp), show_rows(&got)));
    }
    // ---- ORDER BY over the groups
    if !c.order.is_empty() {
        let pos: Vec<usize> = c.order.iter().map(|(p, _)| *p).collect();
        let dirs: Vec<bool> = c.order.iter().map(|(_, d)| *d).collect();
        let ks: Vec<Vec<String>> = got.iter().map(|r| pos.iter().map(|p| r[*p].clone()).collect()).collect();
        if !ks.windows(2).all(|w| keys_cmp(&w[0], &w[1], &dirs) != Ordering::Greater) {
            let hasnull = ks.iter().any(|k| k.iter().any(|x| x == "N"));
            let nn: Vec<&Vec<String>> = ks.iter().filter(|k| !k.iter().any(|x| x == "N")).collect();
            let what = if hasnull && nn.windows(2).all(|w| keys_cmp(w[0], w[1], &dirs) != Ordering::Greater) { "null-position" } else { "unsorted" };
            return fail(format!("nulls={}:{what}", if hasnull { "y" } else { "n" }), format!("key sequence {} is not sorted", show_rows(&ks)));
        }
    }
    Outcome::Pass
}

fn localise(c: &ACase, w: &World, model: &mut Model, rep: &mut Report, top: bool) -> Outcome {
    match evaluate(c, w, model, rep, top) {
        Outcome::Fail { sig, detail } => {
            if let Some(s) = &c.sub {
                if let Outcome::Fail { sig: s2, detail: d2 } = localise(s, w, model, rep, false) { return Outcome::Fail { sig: s2, detail: format!("{d2}  [localised from: {}]", c.sql) }; }
            }
            Outcome::Fail { sig, detail }
        }
        o => o,
    }
}

pub fn check_case(c: &ACase, w: &World, model: &mut Model, rep: &mut Report) {
    match localise(c, w, model, rep, true) {
        Outcome::Skip => { rep.case(None); rep.count("skipped_model_error"); }
        Outcome::Pass => {}
        Outcome::Fail { sig, detail } => rep.oracle_fail(c.line(), detail, sig),
    }
}

// ---------------------------------------------------------------- generator

#[derive(Clone, Debug)]
pub struct AggSpec { f: &'static str, arg: Option<E>, argkind: String }

struct Gen<'a> { t: &'a TableSpec, spec: &'a str }

#[derive(Clone, Copy, PartialEq)]
enum Wh { None, True, False }

impl<'a> Gen<'a> {
    fn kind(&self, c: usize) -> &'static str { ty_kind(self.t.cols[c].1) }
    fn agg(&self, f: &'static str, c: Option<usize>) -> AggSpec {
        match c { None => AggSpec { f: "countstar", arg: None, argkind: "star".into() }, Some(c) => AggSpec { f, arg: Some(col(c)), argkind: self.kind(c).into() } }
    }
    fn agg_expr(&self, f: &'static str, e: E) -> AggSpec { AggSpec { f, arg: Some(e), argkind: "expr".into() } }

    /// `layout`: "keys-aggs" (SELECT k.., a..), "aggs-keys", "aggs-only", "keys-only".
    /// `having` is over the group row keys ++ aggs (indices into that row); `order`: (index into the group row, desc)
    #[allow(clippy::too_many_arguments)]
    fn build(&self, kind: &str, wh: Wh, keys: &[E], keykinds: &[String], aggs: &[AggSpec], layout: &str, having: Option<(E, &str)>, order: &[(usize, bool)], extra_items: &[E]) -> ACase {
        let sc = self.t.bare_scope();
        let mut s = Sel::simple(&self.t.name, sc.clone());
        s.whr = match wh { Wh::None => None, Wh::True => Some(where_true()), Wh::False => Some(bin(Op::Lt, col(0), lit_i(0))) };
        s.grouped = true;
        s.keys = keys.to_vec();
        s.aggs = aggs.iter().map(|a| AggItem { f: if a.f == "countstar" { "count" } else { a.f }, arg: a.arg.clone() }).collect();
        let nk = keys.len();
        let kcols: Vec<usize> = (0..nk).collect();
        let acols: Vec<usize> = (nk..nk + aggs.len()).collect();
        let outcols: Vec<usize> = match layout { "aggs-keys" => acols.iter().chain(kcols.iter()).cloned().collect(), "aggs-only" => acols.clone(), "keys-only" => kcols.clone(), _ => kcols.iter().chain(acols.iter()).cloned().collect() };
        s.items = outcols.iter().map(|i| col(*i)).chain(extra_items.iter().cloned()).collect();
        // auxiliary queries: aux[0] = ids of the input rows, then one per aggregate argument
        let mut auxs: Vec<Sel> = vec![];
        let mut a0 = Sel::simple(&self.t.name, sc.clone()); a0.whr = Some(s.whr.clone().unwrap_or(where_true())); a0.items = vec![col(0)]; auxs.push(a0);
        let mut roles: Vec<Role> = vec![];
        for i in &outcols {
            if *i < nk { roles.push(Role::Key(keykinds[*i].clone())); }
            else {
                let a = &aggs[*i - nk];
                match &a.arg {
                    None => roles.push(Role::Agg(a.f.into(), a.argkind.clone(), usize::MAX)),
                    Some(e) => { let mut q = Sel::simple(&self.t.name, sc.clone()); q.whr = Some(s.whr.clone().unwrap_or(where_true())); q.items = vec![col(0), e.clone()]; auxs.push(q); roles.push(Role::Agg(a.f.into(), a.argkind.clone(), auxs.len() - 1)); }
                }
            }
        }
        for _ in extra_items { roles.push(Role::Expr); }
        let sub = if having.is_some() || !order.is_empty() {
            Some(Box::new(if !order.is_empty() && having.is_some() { self.build("having", wh, keys, keykinds, aggs, layout, having.clone(), &[], extra_items) } else { self.build("group", wh, keys, keykinds, aggs, layout, None, &[], extra_items) }))
        } else { None };
        let mut hsig = String::new();
        if let Some((h, name)) = &having { s.having = Some(h.clone()); hsig = format!(":having-{name}"); }
        let mut order_out: Vec<(usize, bool)> = vec![];
        if !order.is_empty() {
            s.order_on_output = true;
            for (gi, d) in order { let p = outcols.iter().position(|x| x == gi).expect("order key must be in the select list"); s.order.push((col(p), *d)); order_out.push((p, *d)); }
        }
        // aux queries project (id, arg): the checker wants single-column rows of the argument
        let aux_sx: Vec<String> = auxs.iter().enumerate().map(|(i, q)| if i == 0 { q.sx() } else { let mut q2 = q.clone(); q2.items = vec![q.items[1].clone()]; q2.sx() }).collect();
        let aux_sql: Vec<String> = auxs.iter().enumerate().map(|(i, q)| if i == 0 { q.sql() } else { let mut q2 = q.clone(); q2.items = vec![q.items[1].clone()]; q2.sql() }).collect();
        let whs = match wh { Wh::None => "nowhere", Wh::True => "where", Wh::False => "where-false" };
        let osig = if order.is_empty() { String::new() } else { format!(":order-{}-{}", if order.iter().all(|(gi, _)| *gi < nk) { "key" } else { "agg" }, if order[0].1 { "desc" } else { "asc" }) };
        let sig = if nk == 0 { format!("agg:{whs}{}", if aggs.len() > 1 { ":multi" } else { "" }) }
                  else { format!("{}:{}:{}keys:{}:{}{}{}", if !order.is_empty() { "gorder" } else if having.is_some() { "having" } else { "group" }, whs, nk, if nk == 1 { keykinds[0].clone() } else if keykinds.iter().any(|k| k == "expr") { "multiexpr".into() } else { "multi".into() }, layout, hsig, osig) };
        let _ = kind;
        ACase { kind: if nk == 0 { "agg".into() } else if !order.is_empty() { "gorder".into() } else if having.is_some() { "having".into() } else { "group".into() },
            sig, tables: self.spec.to_string(), sql: s.sql(), sx: s.sx(), roles, aux: aux_sx, aux_sql, order: order_out, sub }
    }
}

fn systematic(g: &Gen, out: &mut Vec<ACase>) {
    let ncols = g.t.cols.len();
    let fns: [&'static str; 5] = ["count", "sum", "avg", "min", "max"];
    // ---- scalar aggregates: every function x every argument kind x WHERE none / true / false
    for wh in [Wh::None, Wh::True, Wh::False] {
        out.push(g.build("agg", wh, &[], &[], &[g.agg("count", None)], "keys-aggs", None, &[], &[]));
        for c in 1..ncols {
            for f in fns {
                let k = g.kind(c);
                if (f == "sum" || f == "avg") && !(k == "int" || k == "float") { continue; }
                if k == "bool" && f != "count" { continue; }
                out.push(g.build("agg", wh, &[], &[], &[g.agg(f, Some(c))], "keys-aggs", None, &[], &[]));
            }
        }
        // several aggregates in one query
        out.push(g.build("agg", wh, &[], &[], &[g.agg("count", None), g.agg("count", Some(1)), g.agg("sum", Some(1)), g.agg("avg", Some(1)), g.agg("min", Some(1)), g.agg("max", Some(1))], "keys-aggs", None, &[], &[]));
        out.push(g.build("agg", wh, &[], &[], &[g.agg("sum", Some(2)), g.agg("avg", Some(2)), g.agg("min", Some(2)), g.agg("max", Some(2)), g.agg("count", Some(3))], "keys-aggs", None, &[], &[]));
        // expression arguments and expressions over aggregates
        out.push(g.build("agg", wh, &[], &[], &[g.agg_expr("sum", bin(Op::Add, col(1), lit_i(1)))], "keys-aggs", None, &[], &[]));
        out.push(g.build("agg", wh, &[], &[], &[g.agg_expr("count", bin(Op::Add, col(1), lit_i(1)))], "keys-aggs", None, &[], &[]));
        out.push(g.build("agg", wh, &[], &[], &[g.agg_expr("max", bin(Op::Mul, col(1), lit_i(2)))], "keys-aggs", None, &[], &[]));
        out.push(g.build("agg", wh, &[], &[], &[g.agg("sum", Some(1))], "aggs-only", None, &[], &[bin(Op::Add, col(0), lit_i(1))]));
    }
    // ---- GROUP BY
    let keysets: Vec<Vec<usize>> = vec![vec![1], vec![2], vec![3], vec![4], vec![5], vec![1, 4], vec![3, 5]];
    let aggsets: Vec<Vec<AggSpec>> = vec![
        vec![g.agg("count", None)], vec![g.agg("count", Some(1))], vec![g.agg("sum", Some(1))], vec![g.agg("avg", Some(2))],
        vec![g.agg("min", Some(1)), g.agg("max", Some(2))], vec![g.agg("count", None), g.agg("sum", Some(2))], vec![g.agg("min", Some(3)), g.agg("count", Some(3))],
    ];
    for ks in &keysets {
        if ks.iter().any(|c| *c >= ncols) { continue; }
        let keys: Vec<E> = ks.iter().map(|c| col(*c)).collect();
        let kk: Vec<String> = ks.iter().map(|c| g.kind(*c).to_string()).collect();
        for wh in [Wh::None, Wh::True, Wh::False] {
            for ags in &aggsets { out.push(g.build("group", wh, &keys, &kk, ags, "keys-aggs", None, &[], &[])); }
            out.push(g.build("group", wh, &keys, &kk, &[g.agg("count", None)], "aggs-keys", None, &[], &[]));
            out.push(g.build("group", wh, &keys, &kk, &[g.agg("count", None)], "aggs-only", None, &[], &[]));
            out.push(g.build("group", wh, &keys, &kk, &[], "keys-only", None, &[], &[]));
        }
        // ---- HAVING (group row = keys ++ aggs)
        let nk = keys.len();
        let cstar = g.agg("count", None);
        let havings: Vec<(E, &str, Vec<AggSpec>)> = vec![
            (bin(Op::Gt, col(nk), lit_i(1)), "countstar-gt", vec![cstar.clone()]),
            (bin(Op::Eq, col(nk), lit_i(1)), "countstar-eq", vec![cstar.clone()]),
            (bin(Op::Ge, col(nk), lit_i(0)), "countstar-true", vec![cstar.clone()]),
            (bin(Op::Gt, col(nk + 1), lit_i(2)), "sum-gt", vec![cstar.clone(), g.agg("sum", Some(1))]),
            (E::IsNull(Box::new(col(0)), false), "key-isnull", vec![cstar.clone()]),
            (E::IsNull(Box::new(col(0)), true), "key-isnotnull", vec![cstar.clone()]),
            (bin(Op::And, bin(Op::Ge, col(nk), lit_i(1)), bin(Op::Lt, col(nk + 1), lit_i(5))), "and", vec![cstar.clone(), g.agg("min", Some(1))]),
        ];
        for (h, name, ags) in &havings {
            for wh in [Wh::None, Wh::True] {
                out.push(g.build("having", wh, &keys, &kk, ags, "keys-aggs", Some((h.clone(), name)), &[], &[]));
            }
            out.push(g.build("having", Wh::None, &keys, &kk, ags, "keys-only", Some((h.clone(), name)), &[], &[]));
        }
        // ---- ORDER BY over the groups
        for d in [false, true] {
            out.push(g.build("gorder", Wh::None, &keys, &kk, &[cstar.clone()], "keys-aggs", None, &(0..nk).map(|i| (i, d)).collect::<Vec<_>>(), &[]));
            out.push(g.build("gorder", Wh::True, &keys, &kk, &[cstar.clone(), g.agg("sum", Some(1))], "keys-aggs", None, &[(nk, d), (0, false)], &[]));
            out.push(g.build("gorder", Wh::None, &keys, &kk, &[cstar.clone()], "keys-aggs", Some((bin(Op::Ge, col(nk), lit_i(1)), "countstar-true")), &(0..nk).map(|i| (i, d)).collect::<Vec<_>>(), &[]));
        }
    }
    // expression as group key
    for wh in [Wh::None, Wh::True, Wh::False] {
        out.push(g.build("group", wh, &[bin(Op::Add, col(1), lit_i(1))], &["expr".to_string()], &[g.agg("count", None)], "keys-aggs", None, &[], &[]));
        out.push(g.build("group", wh, &[bin(Op::Mul, col(1), lit_i(2))], &["expr".to_string()], &[g.agg("sum", Some(1))], "keys-aggs", None, &[], &[]));
        // a plain column next to an expression key
        if ncols > 4 { out.push(g.build("group", wh, &[col(4), bin(Op::Add, col(1), lit_i(1))], &["multi".to_string(), "expr".to_string()], &[g.agg("count", None), g.agg("max", Some(1))], "keys-aggs", None, &[], &[])); }
    }
}

fn random_case(g: &Gen, rng: &mut Rng) -> ACase {
    let ncols = g.t.cols.len();
    let fns: [&'static str; 5] = ["count", "sum", "avg", "min", "max"];
    let pick_agg = |rng: &mut Rng| -> AggSpec {
        loop {
            if rng.chance(1, 5) { return g.agg("count", None); }
            let c = 1 + rng.below(ncols as u64 - 1) as usize;
            let f = *rng.pick(&fns);
            let k = g.kind(c);
            if (f == "sum" || f == "avg") && !(k == "int" || k == "float") { continue; }
            if k == "bool" && f != "count" { continue; }
            return g.agg(f, Some(c));
        }
    };
    let wh = *rng.pick(&[Wh::None, Wh::True, Wh::True, Wh::False]);
    let na = 1 + rng.below(3) as usize;
    let aggs: Vec<AggSpec> = (0..na).map(|_| pick_agg(rng)).collect();
    if rng.chance(1, 4) { return g.build("agg", wh, &[], &[], &aggs, "keys-aggs", None, &[], &[]); }
    let nk = 1 + rng.below(2) as usize;
    let mut ks: Vec<usize> = vec![];
    for _ in 0..nk { let c = 1 + rng.below(ncols as u64 - 1) as usize; if !ks.contains(&c) { ks.push(c); } }
    let keys: Vec<E> = ks.iter().map(|c| col(*c)).collect();
    let kk: Vec<String> = ks.iter().map(|c| g.kind(*c).to_string()).collect();
    let nk = keys.len();
    let mut aggs2 = vec![g.agg("count", None)];
    aggs2.extend(aggs);
    let having = if rng.chance(1, 3) { let k = rng.range(0, 3); Some((bin(*rng.pick(&[Op::Gt, Op::Ge, Op::Eq, Op::Lt]), col(nk), lit_i(k)), "countstar-cmp")) } else { None };
    let order: Vec<(usize, bool)> = if rng.chance(1, 3) { let d = rng.chance(1, 2); (0..nk).map(|i| (i, d)).collect() } else { vec![] };
    g.build("group", wh, &keys, &kk, &aggs2, "keys-aggs", having, &order, &[])
}

pub fn run(ctx: &Ctx) -> Report {
    let mut rep = Report::new(
        "sql_agg",
        "tables of 8-14 rows: t (unique id + INT/DOUBLE/TEXT/BOOLEAN columns, ~25% NULLs, at least one NULL per column, small colliding \
         domains), u (no NULLs), a (every non-id column entirely NULL), e (empty). Systematic layer (every run): COUNT(*), and \
         COUNT/SUM/AVG/MIN/MAX over every column kind x WHERE none/true/false (false = empty input), several aggregates per query, \
         expression arguments, expressions over aggregates; GROUP BY over 1-2 keys of every kind x 7 aggregate lists x 4 select-list layouts; \
         HAVING on COUNT(*), SUM, key IS [NOT] NULL, conjunctions (aggregate in or not in the select list); ORDER BY over keys and over \
         aggregates; expression keys. Random layer on top. A HAVING / ORDER BY failure is reported only when the same query without it is \
         right (localisation). non-trivial = distinct query over >= 2 input rows (grouped: >= 2 groups in the reference result)",
    );
    let mut rng = Rng::new(ctx.seed);
    let mut model = Model::spawn(&ctx.model_bin, "sql");
    let mut last_spec = String::new();
    let mut world: Option<World> = None;
    for (i, l) in ctx.corpus_cases("C16").iter().enumerate() {
        let Some(c) = ACase::parse(l) else { rep.notes.push(format!("unparsable corpus/replay line {}", i + 1)); continue; };
        if c.tables != last_spec || world.is_none() {
            let Some(ts) = parse_tables(&c.tables) else { rep.notes.push(format!("unparsable tables in corpus/replay line {}", i + 1)); continue; };
            world = None;
            world = Some(load_world(ctx, &format!("c16-r{i}"), &mut model, &ts));
            last_spec = c.tables.clone();
        }
        rep.count("corpus_or_replay_case");
        check_case(&c, world.as_ref().unwrap(), &mut model, &mut rep);
    }
    drop(world);
    let nsets = if ctx.thorough { 12 } else { 2 };
    let nrandom = if ctx.thorough { 1200 } else { 400 };
    for si in 0..nsets {
        let nt = 8 + rng.below(7) as usize;
        let mut t = gen_table(&mut rng, "t", 5, nt, 25);
        force_nulls(&mut t);
        let nu = 8 + rng.below(7) as usize;
        let mut u = gen_table(&mut rng, "u", 5, nu, 0);
        u.cols = t.cols.clone();
        // same column layout for all four tables: regenerate u's last column with t's type
        let lt = t.cols[5].1;
        for r in u.rows.iter_mut() { r[5] = gen_val(&mut rng, lt, 0); }
        let mut a = gen_table(&mut rng, "a", 5, 6, 100);
        a.cols = t.cols.clone();
        let mut e = gen_table(&mut rng, "e", 5, 0, 0);
        e.cols = t.cols.clone();
        let tables = vec![t, u, a, e];
        let w = load_world(ctx, &format!("c16-{si}"), &mut model, &tables);
        let mut cases: Vec<ACase> = vec![];
        for ti in 0..4 { let g = Gen { t: &tables[ti], spec: &w.spec }; systematic(&g, &mut cases); }
        for _ in 0..nrandom { let ti = match rng.below(6) { 0 => 1, 1 => 2, _ => 0 }; let g = Gen { t: &tables[ti], spec: &w.spec }; cases.push(random_case(&g, &mut rng)); }
        for c in &cases { check_case(c, &w, &mut model, &mut rep); }
    }
    overflow_phase(ctx, &mut model, &mut rep);
    // ---- M-code correspondence of the aggregate accumulator, one batch
    let pend: Vec<(String, String, String)> = PENDING.with(|p| p.borrow_mut().drain(..).collect());
    let reqs: Vec<String> = pend.iter().map(|p| p.0.clone()).collect();
    let resp = model_batch(&ctx.model_bin, "sqlagg", &reqs);
    for ((req, cell, case), r) in pend.iter().zip(resp.iter()) {
        rep.count("mcode_accumulator_checked");
        let ok = match r.strip_prefix("ok ") { Some(m) => cells_agree(m, cell) || (m == "N" && cell == "N"), None => false };
        if !ok { rep.disagree(format!("sqlagg ;; {case} ;; {req}"), format!("{case}: engine returned {cell}, M-code model of AggregateState says {r}"), "agg-state-model".into()); }
    }
    rep.notes.push(format!("model requests: {}", model.requests));
    rep
}

/// SUM over BIGINT values whose exact sum leaves the 64-bit range: the reference semantics says
/// "error, never a wrapped value"; the engine must answer with an SQL error (not a panic, not a number)
fn overflow_phase(ctx: &Ctx, model: &mut Model, rep: &mut Report) {
    let max = i64::MAX;
    let sets: Vec<(&str, Vec<i64>)> = vec![("max+1", vec![max, 1]), ("min-1", vec![i64::MIN + 1, -1, -1]), ("max+max", vec![max, max]), ("fits", vec![max - 1, 1]), ("fits-neg", vec![i64::MIN + 1, -1])];
    for (name, vals) in sets {
        let t = TableSpec { name: "o".into(), cols: vec![("id".into(), Ty::Int), ("n0".into(), Ty::Int), ("g".into(), Ty::Int)],
            rows: vals.iter().enumerate().map(|(i, v)| vec![V::Int(i as i64 + 1), V::Int(*v), V::Int(1)]).collect() };
        // the summed column must be BIGINT (the generated `INT` is 32-bit in this engine)
        let dbh = Dbh::create(ctx, &format!("c16-ovf-{name}"));
        dbh.must("CREATE TABLE o (id INT, n0 BIGINT, g INT)");
        for q in t.insert_sqls() { dbh.must(&q); }
        model.ask("reset");
        for l in t.model_lines() { model.ask(&l); }
        let w = World { dbh, spec: tables_spec(&[t.clone()]), tables: vec![t.clone()] };
        // make sure the values arrived unchanged
        match run_engine(&w.dbh, "SELECT n0 FROM o WHERE id > 0") { Ok(r) if r.len() == vals.len() && r.iter().zip(vals.iter()).all(|(a, b)| a[0] == format!("I{b}")) => {}, o => { rep.notes.push(format!("overflow phase: BIGINT values not stored as inserted: {o:?}")); continue; } }
        let g = Gen { t: &t, spec: &w.spec };
        for c in [g.build("agg", Wh::None, &[], &[], &[g.agg("sum", Some(1))], "keys-aggs", None, &[], &[]),
                  g.build("group", Wh::None, &[col(2)], &["int".to_string()], &[g.agg("sum", Some(1))], "keys-aggs", None, &[], &[])] {
            let m = model.ask(&format!("query {}", c.sx));
            rep.case(Some(&format!("{} {}", c.sql, name)));
            rep.count("overflow_case");
            if m != "err overflow" { check_case(&c, &w, model, rep); continue; }
            match run_engine(&w.dbh, &c.sql) {
                Err(e) if e.starts_with("err-") => {}
                Err(e) => rep.oracle_fail(c.line(), format!("{}: exact sum of {:?} is outside the BIGINT range; engine {e}", c.sql, vals), format!("{}:sum(int):overflow:{e}", c.kind)),
                Ok(r) => rep.oracle_fail(c.line(), format!("{}: exact sum of {:?} is outside the BIGINT range; engine returned {}", c.sql, vals, show_rows(&r)), format!("{}:sum(int):overflow:returned-value", c.kind)),
            }
        }
    }
}
