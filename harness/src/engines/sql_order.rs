//! C15: ORDER BY / LIMIT / OFFSET / DISTINCT vs the reference semantics (`TurVerif.Sql.orderBy`,
//! `limitOffset`, `distinct`, `runSelect`).
//!
//! Every case is self-contained on one line (tables ;; SQL ;; model s-expression ;; the same query
//! without ORDER BY/LIMIT/OFFSET/DISTINCT ;; oracle metadata), so generated cases, corpus files and
//! replay files all go through the same `check_case`.
//!
//! Oracles evaluated on the real engine, independently of the model's sort:
//!   * the result is sorted by the keys under the specification comparator `sqlx::cell_cmp`
//!     (NULL first ascending / last descending, numbers by value), ties in any order;
//!   * the result is the same bag as the engine's own result of the unordered query;
//!   * LIMIT/OFFSET: row count = min(l, max(n - o, 0)); the rows are a sub-bag of the unordered
//!     result; with ORDER BY the key sequence is exactly the window of the sorted key sequence;
//!   * DISTINCT: no two result rows are the same; every input row is represented; no foreign row.
//! Reference model: exact row sequence when the keys are a total order, bag equality otherwise.
use super::sqlx::*;
use crate::common::*;
use crate::sqlgen::*;
use std::cmp::Ordering;

#[derive(Clone, Debug)]
pub enum KeySrc {
    None,
    /// keys are these output columns
    Pos(Vec<usize>),
    /// keys are looked up by id (output column 0) in the model's answer to this query (`SELECT id, keys`)
    Map(String),
}

#[derive(Clone, Debug)]
pub struct Flat {
    pub kind: String,
    pub sig: String,
    pub tables: String,
    pub sql: String,
    pub sx: String,
    /// the query without ORDER BY/LIMIT/OFFSET/DISTINCT, with `WHERE id > 0` added (dodges C14's projection defect)
    pub base_sql: String,
    pub base_sx: String,
    /// the query without ORDER BY/LIMIT/OFFSET/DISTINCT exactly as written (no dodge); `-` when equal to base_sql
    pub plain_sql: String,
    pub dirs: Vec<bool>,
    pub keysrc: KeySrc,
    pub total: bool,
    pub limit: Option<u64>,
    pub offset: u64,
    pub distinct: bool,
    /// a simpler query (one construct removed) used to localise a failure: when it fails too, the
    /// failure is reported under its signature
    pub sub: Option<Box<Flat>>,
}

const SUBSEP: &str = " ;;SUB;; ";

impl Flat {
    pub fn line(&self) -> String {
        let ks = match &self.keysrc { KeySrc::None => "-".to_string(), KeySrc::Pos(p) => format!("pos:{}", p.iter().map(|x| x.to_string()).collect::<Vec<_>>().join(",")), KeySrc::Map(s) => format!("map:{s}") };
        let mut l = [self.kind.clone(), self.sig.clone(), self.tables.clone(), self.sql.clone(), self.sx.clone(), self.base_sql.clone(), self.base_sx.clone(), self.plain_sql.clone(),
         if self.dirs.is_empty() { "-".into() } else { self.dirs.iter().map(|d| if *d { 'd' } else { 'a' }).collect::<String>() },
         ks, (self.total as u8).to_string(), self.limit.map(|l| l.to_string()).unwrap_or("-".into()), self.offset.to_string(), (self.distinct as u8).to_string()].join(" ;; ");
        if let Some(s) = &self.sub { l.push_str(SUBSEP); let mut sl = s.line(); sl = sl.replacen(&self.tables, "=", 1); l.push_str(&sl); }
        l
    }
    pub fn parse(l: &str) -> Option<Flat> {
        let (head, sub) = match l.split_once(SUBSEP) { Some((h, s)) => (h, Some(s)), None => (l, None) };
        let f: Vec<&str> = head.split(" ;; ").collect();
        if f.len() != 14 { return None; }
        let keysrc = if f[9] == "-" { KeySrc::None } else if let Some(p) = f[9].strip_prefix("pos:") { KeySrc::Pos(p.split(',').filter_map(|x| x.parse().ok()).collect()) } else { KeySrc::Map(f[9].strip_prefix("map:")?.to_string()) };
        let mut me = Flat { kind: f[0].into(), sig: f[1].into(), tables: f[2].into(), sql: f[3].into(), sx: f[4].into(), base_sql: f[5].into(), base_sx: f[6].into(), plain_sql: f[7].into(),
            dirs: if f[8] == "-" { vec![] } else { f[8].chars().map(|c| c == 'd').collect() }, keysrc, total: f[10] == "1",
            limit: if f[11] == "-" { None } else { f[11].parse().ok() }, offset: f[12].parse().ok()?, distinct: f[13] == "1", sub: None };
        if let Some(s) = sub { let mut x = Flat::parse(s)?; x.set_tables(&me.tables); me.sub = Some(Box::new(x)); }
        Some(me)
    }
    fn set_tables(&mut self, t: &str) { if self.tables == "=" { self.tables = t.to_string(); } if let Some(s) = &mut self.sub { s.set_tables(t); } }
}

fn keys_of(rows: &[Vec<String>], src: &KeySrc, map: &[(String, Vec<String>)]) -> Option<Vec<Vec<String>>> {
    match src {
        KeySrc::None => None,
        KeySrc::Pos(p) => rows.iter().map(|r| p.iter().map(|i| r.get(*i).cloned()).collect::<Option<Vec<String>>>()).collect(),
        KeySrc::Map(_) => rows.iter().map(|r| { let id = r.first()?; map.iter().find(|(k, _)| cells_same(k, id)).map(|(_, v)| v.clone()) }).collect(),
    }
}

fn sorted_by(keys: &[Vec<String>], dirs: &[bool]) -> bool {
    keys.windows(2).all(|w| keys_cmp(&w[0], &w[1], dirs) != Ordering::Greater)
}

fn cls(l: Option<u64>, n: usize) -> &'static str { match l { None => "none", Some(0) => "0", Some(x) if (x as usize) < n => "some", Some(_) => "ge" } }

pub enum Outcome { Skip, Pass, Fail { sig: String, detail: String } }

/// evaluate one query against all oracles; the first failing check decides the outcome
pub fn evaluate(c: &Flat, w: &World, model: &mut Model, rep: &mut Report, top: bool) -> Outcome {
    let exp = match run_model(model, &c.sx) { Ok(r) => r, Err(_) => return Outcome::Skip };
    let base_exp = match run_model(model, &c.base_sx) { Ok(r) => r, Err(_) => return Outcome::Skip };
    let map: Vec<(String, Vec<String>)> = match &c.keysrc {
        KeySrc::Map(sx) => match run_model(model, sx) { Ok(r) => r.into_iter().map(|mut row| { let id = row.remove(0); (id, row) }).collect(), Err(_) => return Outcome::Skip },
        _ => vec![],
    };
    let n = base_exp.len();
    let exp_keys = keys_of(&exp, &c.keysrc, &map);
    let has_null_key = keys_of(&base_exp, &c.keysrc, &map).map(|ks| ks.iter().any(|k| k.iter().any(|x| x == "N"))).unwrap_or(false)
        || (c.distinct && base_exp.iter().any(|r| r.iter().any(|x| x == "N")));
    if top {
        let nontrivial = exp.len() >= 2 && exp != base_exp;
        rep.case(if nontrivial { Some(&c.sql) } else { None });
        rep.count(&format!("kind_{}", c.kind));
        rep.count(&format!("rows_{}", if n == 0 { "0" } else if n < 8 { "1-7" } else { "8+" }));
        if !c.dirs.is_empty() { rep.count(&format!("nkeys_{}", c.dirs.len())); rep.count(if has_null_key { "keys_with_null" } else { "keys_without_null" }); }
        if c.limit.is_some() || c.offset > 0 { rep.count(&format!("limit_{}_offset_{}", cls(c.limit, n), cls(Some(c.offset), n))); }
        if rep.evaluations % 97 == 0 { rep.sample(format!("{}  -- reference: {} rows", c.sql, exp.len())); }
    }
    let fail = |what: &str, detail: String| Outcome::Fail { sig: format!("{}:nulls={}:{}", c.sig, if has_null_key { "y" } else { "n" }, what), detail: format!("{}: {}", c.sql, detail) };

    // the unordered query must itself be right (otherwise the case says nothing about ORDER BY etc.)
    let base_got = match run_engine(&w.dbh, &c.base_sql) { Ok(r) => r, Err(e) => return fail(&format!("base-{e}"), format!("unordered query {} fails", c.base_sql)) };
    if !rows_agree_bag(&base_exp, &base_got) {
        return fail("base-wrong", format!("the query without ORDER BY/LIMIT/DISTINCT ({}) already differs from the reference: expected {} got {}", c.base_sql, show_rows(&base_exp), show_rows(&base_got)));
    }
    // the same query as written, without ORDER BY/LIMIT/DISTINCT: when it is already wrong (C14's projection
    // defect: selected columns not a prefix of the table's columns and no WHERE) the case is classified as such
    if c.plain_sql != "-" {
        match run_engine(&w.dbh, &c.plain_sql) {
            Ok(r) if rows_agree_bag(&base_exp, &r) => {}
            Ok(r) => { if top { rep.count("plain_query_hits_projection_defect"); } if c.dirs.is_empty() { return fail("plain-select-wrong", format!("{} already returns {} instead of {}", c.plain_sql, show_rows(&r), show_rows(&base_exp))); } }
            Err(e) => return fail(&format!("plain-{e}"), format!("{} fails", c.plain_sql)),
        }
    }
    let got = match run_engine(&w.dbh, &c.sql) { Ok(r) => r, Err(e) => return fail(&e, format!("engine {e}; reference returns {} rows", exp.len())) };
    if let Some(r) = got.iter().find(|r| r.len() != exp.first().map(|x| x.len()).unwrap_or(r.len())) {
        return fail("row-width", format!("result row has {} columns, expected {}", r.len(), exp[0].len()));
    }
    // ---- row count
    if got.len() != exp.len() {
        return fail(if got.len() > exp.len() { "count-more" } else { "count-fewer" }, format!("{} rows, expected {} (input {} rows, limit {:?}, offset {}): got {}", got.len(), exp.len(), n, c.limit, c.offset, show_rows(&got)));
    }
    // ---- DISTINCT
    if c.distinct {
        for i in 0..got.len() { for j in 0..i { if rows_same(&got[i], &got[j]) { return fail("dups", format!("row {} returned twice: {}", got[i].join(","), show_rows(&got))); } } }
        if let Some(r) = got.iter().find(|r| !base_got.iter().any(|b| rows_same(b, r))) { return fail("extra", format!("row {} is not a row of the input", r.join(","))); }
        if c.limit.is_none() && c.offset == 0 {
            if let Some(b) = base_got.iter().find(|b| !got.iter().any(|r| rows_same(b, r))) { return fail("missing", format!("input row {} is not represented: {}", b.join(","), show_rows(&got))); }
        }
    }
    // ---- rows come from the unordered result
    let windowed = c.limit.is_some() || c.offset > 0;
    if !c.distinct {
        if !windowed { if !rows_agree_bag(&base_got, &got) { return fail("bag", format!("not the same bag of rows as the unordered query: {}", show_rows(&got))); } }
        else if !sub_bag(&got, &base_got) { return fail("foreign-rows", format!("rows not taken from the unordered result: {}", show_rows(&got))); }
    }
    // ---- sortedness under the specification comparator
    if !c.dirs.is_empty() {
        let gk = match keys_of(&got, &c.keysrc, &map) { Some(k) => k, None => return fail("keys-unavailable", "cannot read the sort keys of the result rows".into()) };
        if !sorted_by(&gk, &c.dirs) {
            let nn: Vec<Vec<String>> = gk.iter().filter(|k| !k.iter().any(|x| x == "N")).cloned().collect();
            let what = if has_null_key && sorted_by(&nn, &c.dirs) { "null-position" } else { "unsorted" };
            return fail(what, format!("key sequence {} is not sorted ({})", show_rows(&gk), c.dirs.iter().map(|d| if *d { "desc" } else { "asc" }).collect::<Vec<_>>().join(",")));
        }
        if windowed {
            if let Some(ek) = &exp_keys {
                if !(ek.len() == gk.len() && ek.iter().zip(&gk).all(|(a, b)| rows_same(a, b))) {
                    return fail("window", format!("key sequence {} is not the window (limit {:?} offset {}) of the sorted keys, expected {}", show_rows(&gk), c.limit, c.offset, show_rows(ek)));
                }
            }
        }
    }
    // ---- reference model
    let agree = if c.total && !c.dirs.is_empty() { rows_agree_ordered(&exp, &got) } else if !windowed { rows_agree_bag(&exp, &got) } else { true };
    if !agree { return fail("model", format!("differs from the reference: expected {} got {}", show_rows(&exp), show_rows(&got))); }
    Outcome::Pass
}

/// failure of `c`, localised: when a simpler sub-query already fails, its failure is returned instead
fn localise(c: &Flat, w: &World, model: &mut Model, rep: &mut Report, top: bool) -> Outcome {
    match evaluate(c, w, model, rep, top) {
        Outcome::Fail { sig, detail } => {
            if let Some(s) = &c.sub {
                if let Outcome::Fail { sig: s2, detail: d2 } = localise(s, w, model, rep, false) { return Outcome::Fail { sig: s2, detail: format!("{d2}  [localised from: {}]", c.sql) }; }
            }
            Outcome::Fail { sig, detail }
        }
        o => o,
    }
}

pub fn check_case(c: &Flat, w: &World, model: &mut Model, rep: &mut Report) {
    match localise(c, w, model, rep, true) {
        Outcome::Skip => { rep.case(None); rep.count("skipped_model_error"); }
        Outcome::Pass => {}
        Outcome::Fail { sig, detail } => rep.oracle_fail(c.line(), detail, sig),
    }
}

// ---------------------------------------------------------------- generator

#[derive(Clone, Debug)]
enum KeyForm { Col, Ordinal, Expr(&'static str) }

struct Gen<'a> { t: &'a TableSpec, spec: &'a str }

impl<'a> Gen<'a> {
    fn kind(&self, c: usize) -> &'static str { if c == 0 { "id" } else { ty_kind(self.t.cols[c].1) } }

    /// ORDER BY case. `form`: star | idkeys | idonly. keys: (expression, desc, column it is based on)
    fn order(&self, form: &str, wh: bool, keys: &[(E, bool)], kinds: &[&str], keyform: &KeyForm, total: bool, limit: Option<u64>, offset: u64) -> Flat {
        let sc = self.t.bare_scope();
        let mut s = Sel::simple(&self.t.name, sc.clone());
        if wh { s.whr = Some(where_true()); }
        let keycols: Vec<usize> = { let mut v = vec![]; for (e, _) in keys { collect_cols(e, &mut v); } v.retain(|c| *c != 0); v.dedup(); v };
        s.items = match form {
            "star" => (0..self.t.cols.len()).map(col).collect(),
            "idonly" => vec![col(0)],
            "keys" => keycols_all(keys),
            _ => { let mut v = vec![col(0)]; for c in &keycols { if !v.contains(&col(*c)) { v.push(col(*c)); } } v }
        };
        let plain = s.clone();
        let mut base = s.clone();
        base.whr = Some(where_true());
        s.order = keys.to_vec();
        s.limit = limit; s.offset = offset;
        let simple_cols = keys.iter().all(|(e, _)| matches!(e, E::Col(_)));
        // where the keys can be read from the result
        let keysrc = if simple_cols && form != "idonly" {
            KeySrc::Pos(keys.iter().map(|(e, _)| { let E::Col(c) = e else { unreachable!() }; s.items.iter().position(|x| *x == col(*c)).unwrap() }).collect())
        } else {
            let mut m = Sel::simple(&self.t.name, sc.clone());
            m.items = std::iter::once(col(0)).chain(keys.iter().map(|(e, _)| e.clone())).collect();
            KeySrc::Map(m.sx())
        };
        let fix = |q: String| if form == "star" { q.replacen(&format!("SELECT {}", sc.join(", ")), "SELECT *", 1) } else { q };
        let sql = fix(match keyform {
            KeyForm::Ordinal => {
                let items: Vec<String> = keys.iter().map(|(e, d)| { let pos = s.items.iter().position(|x| x == e).unwrap() + 1; format!("{}{}", pos, if *d { " DESC" } else { "" }) }).collect();
                sel_sql_with_order(&s, Some(&items))
            }
            _ => s.sql(),
        });
        let base_sql = fix(base.sql());
        let plain_sql = if wh { "-".to_string() } else { fix(plain.sql()) };
        let windowed = limit.is_some() || offset > 0;
        let kf = match keyform { KeyForm::Col => "col".to_string(), KeyForm::Ordinal => "ordinal".to_string(), KeyForm::Expr(n) => format!("expr-{n}") };
        let dirs: Vec<bool> = keys.iter().map(|(_, d)| *d).collect();
        let sig = if windowed {
            format!("limit:{}:{}:{}:lim={}:off={}", if total { "order-total" } else { "order-ties" }, form, kf, cls(limit, self.t.rows.len()), cls(Some(offset), self.t.rows.len()))
        } else {
            format!("order:{}:{}:{}keys:{}:{}", form, if wh { "where" } else { "nowhere" }, keys.len(), if kinds.len() <= 2 && (kinds.len() == 1 || kinds[1] == "id") { kinds.join(",") } else { "multi".to_string() }, kf)
        };
        Flat { kind: if windowed { "limit".into() } else { "order".into() }, sig, tables: self.spec.to_string(), sql, sx: s.sx(), base_sql, base_sx: base.sx(), plain_sql, dirs, keysrc, total, limit, offset, distinct: false,
            sub: if windowed { Some(Box::new(self.order(form, wh, keys, kinds, keyform, total, None, 0))) } else { None } }
    }

    fn limit_plain(&self, form: &str, wh: bool, limit: Option<u64>, offset: u64) -> Flat {
        let sc = self.t.bare_scope();
        let mut s = Sel::simple(&self.t.name, sc.clone());
        if wh { s.whr = Some(where_true()); }
        s.items = if form == "star" { (0..self.t.cols.len()).map(col).collect() } else { vec![col(0), col(1)] };
        let plain = s.clone();
        let mut base = s.clone();
        base.whr = Some(where_true());
        s.limit = limit; s.offset = offset;
        let fix = |q: String| if form == "star" { q.replacen(&format!("SELECT {}", sc.join(", ")), "SELECT *", 1) } else { q };
        Flat { kind: "limit".into(), sig: format!("limit:no-order:{}:{}:lim={}:off={}", form, if wh { "where" } else { "nowhere" }, cls(limit, self.t.rows.len()), cls(Some(offset), self.t.rows.len())),
            tables: self.spec.to_string(), sql: fix(s.sql()), sx: s.sx(), base_sql: fix(base.sql()), base_sx: base.sx(), plain_sql: if wh { "-".into() } else { fix(plain.sql()) }, dirs: vec![], keysrc: KeySrc::None, total: false, limit, offset, distinct: false, sub: None }
    }

    /// SELECT DISTINCT cols [WHERE id > 0] [ORDER BY all cols] [LIMIT/OFFSET]
    fn distinct(&self, cols: &[usize], wh: bool, order: Option<bool>, limit: Option<u64>, offset: u64) -> Flat {
        let sc = self.t.bare_scope();
        let mut s = Sel::simple(&self.t.name, sc);
        if wh { s.whr = Some(where_true()); }
        s.items = cols.iter().map(|c| col(*c)).collect();
        let plain = s.clone();
        let mut base = s.clone();
        base.whr = Some(where_true());
        s.distinct = true;
        if let Some(d) = order { s.order = (0..cols.len()).map(|i| (col(i), d)).collect(); s.order_on_output = true; }
        s.limit = limit; s.offset = offset;
        let nd = { let mut seen: Vec<Vec<&V>> = vec![]; for r in &self.t.rows { let k: Vec<&V> = cols.iter().map(|c| &r[*c]).collect(); if !seen.contains(&k) { seen.push(k); } } seen.len() };
        let sig = format!("distinct:{}:{}cols:{}:order={}:lim={}:off={}", if wh { "where" } else { "nowhere" }, cols.len(), if cols.len() == 1 { self.kind(cols[0]) } else { "multi" },
            match order { None => "none", Some(false) => "asc", Some(true) => "desc" }, cls(limit, nd), cls(Some(offset), nd));
        let dirs: Vec<bool> = match order { None => vec![], Some(d) => vec![d; cols.len()] };
        Flat { kind: "distinct".into(), sig, tables: self.spec.to_string(), sql: s.sql(), sx: s.sx(), base_sql: base.sql(), base_sx: base.sx(), plain_sql: if wh { "-".into() } else { plain.sql() }, dirs, keysrc: if order.is_some() { KeySrc::Pos((0..cols.len()).collect()) } else { KeySrc::None }, total: order.is_some(), limit, offset, distinct: true,
            sub: if limit.is_some() || offset > 0 { Some(Box::new(self.distinct(cols, wh, order, None, 0))) }
                 else if let Some(d) = order { let keys: Vec<(E, bool)> = cols.iter().map(|c| (col(*c), d)).collect(); let kinds: Vec<&str> = cols.iter().map(|c| self.kind(*c)).collect(); Some(Box::new(self.order("keys", wh, &keys, &kinds, &KeyForm::Col, false, None, 0))) }
                 else { None } }
    }
}

fn keycols_all(keys: &[(E, bool)]) -> Vec<E> { let mut v = vec![]; for (e, _) in keys { collect_cols(e, &mut v); } v.into_iter().map(col).collect() }

fn collect_cols(e: &E, out: &mut Vec<usize>) {
    if let E::Col(c) = e { if !out.contains(c) { out.push(*c); } }
    for k in e.children() { collect_cols(k, out); }
}

fn expr_key(name: &str, a: usize, b: usize) -> (E, &'static str) {
    match name {
        "add" => (bin(Op::Add, col(a), lit_i(1)), "add"),
        "neg" => (E::Neg(Box::new(col(a))), "neg"),
        "mul" => (bin(Op::Mul, col(a), col(b)), "mul"),
        _ => (bin(Op::Sub, col(a), col(b)), "sub"),
    }
}

fn systematic(g: &Gen, out: &mut Vec<Flat>) {
    let n = g.t.rows.len() as u64;
    let ncols = g.t.cols.len();
    // ---- ORDER BY: one key of every kind, both directions, with and without the id tie-break
    for form in ["star", "idkeys", "idonly"] {
        for wh in [false, true] {
            for c in 0..ncols {
                for d in [false, true] {
                    if c == 0 { out.push(g.order(form, wh, &[(col(0), d)], &["id"], &KeyForm::Col, true, None, 0)); continue; }
                    out.push(g.order(form, wh, &[(col(c), d)], &[g.kind(c)], &KeyForm::Col, false, None, 0));
                    out.push(g.order(form, wh, &[(col(c), d), (col(0), false)], &[g.kind(c), "id"], &KeyForm::Col, true, None, 0));
                }
            }
            // two and three keys
            for (a, b) in [(1usize, 3usize), (4, 2), (3, 5), (5, 1)] {
                if a >= ncols || b >= ncols { continue; }
                for (da, db) in [(false, false), (false, true), (true, false), (true, true)] {
                    out.push(g.order(form, wh, &[(col(a), da), (col(b), db)], &[g.kind(a), g.kind(b)], &KeyForm::Col, false, None, 0));
                    out.push(g.order(form, wh, &[(col(a), da), (col(b), db), (col(0), da)], &[g.kind(a), g.kind(b), "id"], &KeyForm::Col, true, None, 0));
                }
            }
        }
    }
    // ---- key forms: ordinals and expressions (keys in the select list)
    for d in [false, true] {
        for c in [1usize, 3] {
            out.push(g.order("idkeys", false, &[(col(c), d), (col(0), false)], &[g.kind(c), "id"], &KeyForm::Ordinal, true, None, 0));
            out.push(g.order("star", false, &[(col(c), d), (col(0), false)], &[g.kind(c), "id"], &KeyForm::Ordinal, true, None, 0));
        }
        for name in ["add", "neg", "mul", "sub"] {
            let (e, nm) = expr_key(name, 1, 2);
            out.push(g.order("idkeys", false, &[(e.clone(), d), (col(0), false)], &["expr", "id"], &KeyForm::Expr(nm), true, None, 0));
            out.push(g.order("idkeys", true, &[(e, d)], &["expr"], &KeyForm::Expr(nm), false, None, 0));
        }
    }
    // ---- LIMIT / OFFSET
    let lims = [None, Some(0), Some(1), Some(3), Some(n), Some(n + 5)];
    let offs = [0, 1, n.saturating_sub(1), n, n + 3];
    for l in lims {
        for o in offs {
            if l.is_none() && o == 0 { continue; }
            for form in ["idkeys", "star"] { for wh in [false, true] { out.push(g.limit_plain(form, wh, l, o)); } }
            for d in [false, true] {
                out.push(g.order("idkeys", false, &[(col(0), d)], &["id"], &KeyForm::Col, true, l, o));
                out.push(g.order("idkeys", false, &[(col(1), d), (col(0), d)], &[g.kind(1), "id"], &KeyForm::Col, true, l, o));
                out.push(g.order("idkeys", true, &[(col(3), d)], &[g.kind(3)], &KeyForm::Col, false, l, o));
            }
            out.push(g.order("star", false, &[(col(0), true)], &["id"], &KeyForm::Col, true, l, o));
            out.push(g.order("idonly", false, &[(col(0), false)], &["id"], &KeyForm::Col, true, l, o));
        }
    }
    // ---- DISTINCT
    let sets: Vec<Vec<usize>> = vec![vec![1], vec![2], vec![3], vec![4], vec![1, 4], vec![5, 3], vec![0, 1], vec![1, 3, 4]];
    for cols in &sets {
        if cols.iter().any(|c| *c >= ncols) { continue; }
        for wh in [false, true] {
            for order in [None, Some(false), Some(true)] {
                for (l, o) in [(None, 0u64), (Some(2u64), 0), (Some(2), 1), (None, 1), (Some(0), 0), (Some(50), 0), (Some(1), 50)] {
                    out.push(g.distinct(cols, wh, order, l, o));
                }
            }
        }
    }
}

fn random_case(g: &Gen, rng: &mut Rng) -> Flat {
    let ncols = g.t.cols.len();
    let n = g.t.rows.len() as u64;
    let pick_lim = |rng: &mut Rng| -> (Option<u64>, u64) {
        if rng.chance(1, 2) { return (None, 0); }
        let l = match rng.below(5) { 0 => None, 1 => Some(0), 2 => Some(rng.below(n + 1)), 3 => Some(n), _ => Some(n + rng.below(4)) };
        let o = match rng.below(4) { 0 => 0, 1 => rng.below(n + 1), 2 => n, _ => n + 1 + rng.below(3) };
        (l, o)
    };
    match rng.below(10) {
        0..=5 => {
            let form = *rng.pick(&["star", "idkeys", "idkeys", "idonly"]);
            let nk = 1 + rng.below(3) as usize;
            let mut keys: Vec<(E, bool)> = vec![];
            let mut kinds: Vec<&str> = vec![];
            for _ in 0..nk { let c = rng.below(ncols as u64) as usize; if keys.iter().any(|(e, _)| *e == col(c)) { continue; } keys.push((col(c), rng.chance(1, 2))); kinds.push(g.kind(c)); }
            let mut total = keys.iter().any(|(e, _)| *e == col(0));
            if !total && rng.chance(1, 2) { keys.push((col(0), rng.chance(1, 2))); kinds.push("id"); total = true; }
            let (l, o) = pick_lim(rng);
            g.order(form, rng.chance(1, 2), &keys, &kinds, &KeyForm::Col, total, l, o)
        }
        6 => { let (l, o) = pick_lim(rng); g.limit_plain(*rng.pick(&["star", "idkeys"]), rng.chance(1, 2), l.or(Some(rng.below(n + 2))), o) }
        _ => {
            let k = 1 + rng.below(3) as usize;
            let mut cols: Vec<usize> = vec![];
            for _ in 0..k { let c = 1 + rng.below(ncols as u64 - 1) as usize; if !cols.contains(&c) { cols.push(c); } }
            let (l, o) = pick_lim(rng);
            g.distinct(&cols, rng.chance(3, 4), *rng.pick(&[None, Some(false), Some(true)]), l, o)
        }
    }
}

pub fn run(ctx: &Ctx) -> Report {
    let mut rep = Report::new(
        "sql_order",
        "tables of 8-14 rows: t (unique id + INT/DOUBLE/TEXT/BOOLEAN columns, ~25% NULLs, at least one NULL per column, small colliding \
         domains so ties occur), u (same layout, no NULLs), e (empty). Systematic layer (every run): ORDER BY one key of every column kind x \
         ASC/DESC x with/without id tie-break x select-list form (SELECT *, id+keys, id only = key not in select list) x with/without WHERE; \
         two/three keys in all direction combinations; ordinal and expression keys; LIMIT in {none,0,1,3,n,n+5} x OFFSET in {0,1,n-1,n,n+3} \
         with no order / total order / ties; DISTINCT over 1-3 columns x WHERE x ORDER BY x LIMIT/OFFSET. Random layer on top. \
         The projection defect of C14 is dodged by selecting id first (or *) except in the DISTINCT ... nowhere forms, which carry their own \
         signature. non-trivial = distinct query whose reference result has >= 2 rows and differs from the unordered/unlimited result",
    );
    let mut rng = Rng::new(ctx.seed);
    let mut model = Model::spawn(&ctx.model_bin, "sql");
    // ---- corpus and replay cases first
    let mut last_spec = String::new();
    let mut world: Option<World> = None;
    for (i, l) in ctx.corpus_cases("C15").iter().enumerate() {
        let Some(c) = Flat::parse(l) else { rep.notes.push(format!("unparsable corpus/replay line {}", i + 1)); continue; };
        if c.tables != last_spec || world.is_none() {
            let Some(ts) = parse_tables(&c.tables) else { rep.notes.push(format!("unparsable tables in corpus/replay line {}", i + 1)); continue; };
            world = None; // drop the previous database first
            world = Some(load_world(ctx, &format!("c15-r{i}"), &mut model, &ts));
            last_spec = c.tables.clone();
        }
        rep.count("corpus_or_replay_case");
        check_case(&c, world.as_ref().unwrap(), &mut model, &mut rep);
    }
    drop(world);
    // ---- generated
    let nsets = if ctx.thorough { 12 } else { 2 };
    let nrandom = if ctx.thorough { 1500 } else { 500 };
    for si in 0..nsets {
        let nt = 8 + rng.below(7) as usize;
        let mut t = gen_table(&mut rng, "t", 5, nt, 25);
        force_nulls(&mut t);
        let nu = 8 + rng.below(7) as usize;
        let u = gen_table(&mut rng, "u", 5, nu, 0);
        let mut e = gen_table(&mut rng, "e", 5, 0, 0);
        e.cols = t.cols.clone();
        let tables = vec![t, u, e];
        let w = load_world(ctx, &format!("c15-{si}"), &mut model, &tables);
        let mut cases: Vec<Flat> = vec![];
        for ti in 0..2 { let g = Gen { t: &tables[ti], spec: &w.spec }; systematic(&g, &mut cases); }
        {
            // empty table: a few boundary cases
            let g = Gen { t: &tables[2], spec: &w.spec };
            cases.push(g.order("star", false, &[(col(1), false)], &["int"], &KeyForm::Col, false, None, 0));
            cases.push(g.order("idkeys", false, &[(col(1), true), (col(0), false)], &["int", "id"], &KeyForm::Col, true, Some(1), 0));
            cases.push(g.limit_plain("idkeys", false, Some(0), 0));
            cases.push(g.limit_plain("idkeys", false, Some(3), 2));
            cases.push(g.distinct(&[1], true, None, None, 0));
            cases.push(g.distinct(&[1, 2], true, Some(false), Some(1), 0));
        }
        for _ in 0..nrandom { let ti = if rng.chance(2, 3) { 0 } else { 1 }; let g = Gen { t: &tables[ti], spec: &w.spec }; cases.push(random_case(&g, &mut rng)); }
        for c in &cases { check_case(c, &w, &mut model, &mut rep); }
    }
    comparator_phase(ctx, &mut rng, &mut rep);
    rep.notes.push(format!("model requests: {}", model.requests));
    rep
}

/// M-code correspondence for the engine's three sort comparators (`TurVerif.SqlCmp`), plus the
/// property's requirements on a sort comparator evaluated on the real functions: it must be a total
/// preorder (transitive), put NULL strictly below every non-NULL value, and order INT/DOUBLE by value.
fn comparator_phase(ctx: &Ctx, rng: &mut Rng, rep: &mut Report) {
    use std::borrow::Cow;
    use turdb::sql::executor::{DualSource, DynamicExecutor, SortExecutor};
    use turdb::types::Value;
    use turdb::OwnedValue;
    #[derive(Clone, Debug)]
    enum C { N, B(bool), I(i64), F(i64, u64), T(String), X(Vec<u8>) }
    impl C {
        fn cell(&self) -> String { match self { C::N => "N".into(), C::B(b) => format!("B{}", *b as u8), C::I(i) => format!("I{i}"), C::F(n, d) => format!("F{n}/{d}"), C::T(s) => format!("T{}", hex(s.as_bytes())), C::X(b) => format!("X{}", hex(b)) } }
        fn kind(&self) -> &'static str { match self { C::N => "null", C::B(_) => "bool", C::I(_) => "int", C::F(..) => "float", C::T(_) => "text", C::X(_) => "blob" } }
        fn value(&self) -> Option<Value<'static>> { Some(match self { C::N => Value::Null, C::B(_) => return None, C::I(i) => Value::Int(*i), C::F(n, d) => Value::Float(*n as f64 / *d as f64), C::T(s) => Value::Text(Cow::Owned(s.clone())), C::X(b) => Value::Blob(Cow::Owned(b.clone())) }) }
        fn owned(&self) -> OwnedValue { match self { C::N => OwnedValue::Null, C::B(b) => OwnedValue::Bool(*b), C::I(i) => OwnedValue::Int(*i), C::F(n, d) => OwnedValue::Float(*n as f64 / *d as f64), C::T(s) => OwnedValue::Text(s.clone()), C::X(b) => OwnedValue::Blob(b.clone()) } }
        /// specification order (NULL lowest, numbers by value); None when the two kinds are not comparable in SQL
        fn spec(&self, o: &C) -> Option<Ordering> {
            let num = |c: &C| match c { C::I(i) => Some((*i as i128) * 1024), C::F(n, d) => Some((*n as i128) * 1024 / (*d as i128)), _ => None };
            match (self, o) {
                (C::N, C::N) => Some(Ordering::Equal), (C::N, _) => Some(Ordering::Less), (_, C::N) => Some(Ordering::Greater),
                (C::B(a), C::B(b)) => Some(a.cmp(b)), (C::T(a), C::T(b)) => Some(a.as_bytes().cmp(b.as_bytes())), (C::X(a), C::X(b)) => Some(a.cmp(b)),
                (a, b) => match (num(a), num(b)) { (Some(x), Some(y)) => Some(x.cmp(&y)), _ => None },
            }
        }
    }
    let big = 1i64 << 53;
    let mut vals: Vec<C> = vec![C::N, C::B(false), C::B(true)];
    for i in [0i64, 1, -1, 2, 3, 10, -10, 100, big, -big, big - 1] { vals.push(C::I(i)); }
    for (n, d) in [(0i64, 1u64), (1, 2), (3, 2), (-3, 2), (2, 1), (4, 2), (5, 2), (1, 1024), (-1, 1024), (big, 1), (41, 4)] { vals.push(C::F(n, d)); }
    for t in ["", "a", "ab", "b", "B", "é", "a\u{10000}", "10", "2"] { vals.push(C::T(t.into())); }
    for b in [vec![], vec![0u8], vec![0, 255], vec![1], vec![255]] { vals.push(C::X(b)); }
    for _ in 0..(if ctx.thorough { 60 } else { 12 }) {
        vals.push(match rng.below(4) { 0 => C::I(rng.range(-50, 50)), 1 => C::F(rng.range(-200, 200), 4), 2 => { let k = rng.below(4); C::T((0..k).map(|_| *rng.pick(&['a', 'b', 'é', 'A'])).collect()) } _ => { let k = rng.below(3) as usize; C::X(rng.bytes(k)) } });
    }
    let ord = |o: Ordering| match o { Ordering::Less => "lt", Ordering::Equal => "eq", Ordering::Greater => "gt" };
    type SE = SortExecutor<'static, DynamicExecutor<'static, DualSource>>;
    let fns: [(&str, &str, Box<dyn Fn(&C, &C) -> Option<Ordering>>); 3] = [
        ("forsort", "Value::compare_for_sort", Box::new(|a: &C, b: &C| Some(a.value()?.compare_for_sort(&b.value()?)))),
        ("sortexec", "SortExecutor::compare_values", Box::new(|a: &C, b: &C| Some(SE::verif_compare_values(&a.value()?, &b.value()?)))),
        ("owned", "compare_owned_values", Box::new(|a: &C, b: &C| Some(turdb::database::verif_compare_owned_values(&a.owned(), &b.owned())))),
    ];
    // ---- model == code on every pair
    let mut reqs: Vec<String> = vec![];
    let mut meta: Vec<(usize, usize, usize)> = vec![];
    for (fi, (f, _, _)) in fns.iter().enumerate() {
        for (i, a) in vals.iter().enumerate() { for (j, b) in vals.iter().enumerate() {
            if *f != "owned" && (matches!(a, C::B(_)) || matches!(b, C::B(_))) { continue; }
            reqs.push(format!("cmp {} {} {}", f, a.cell(), b.cell())); meta.push((fi, i, j));
        } }
    }
    let resp = model_batch(&ctx.model_bin, "sqlcmp", &reqs);
    let n = vals.len();
    let mut table: Vec<Vec<Option<Ordering>>> = vec![vec![None; n * n]; 3];
    for ((fi, i, j), r) in meta.iter().zip(resp.iter()) {
        let (f, name, call) = &fns[*fi];
        let (a, b) = (&vals[*i], &vals[*j]);
        let got = match guarded(std::panic::AssertUnwindSafe(|| call(a, b))) { Ok(Some(o)) => o, Ok(None) => continue, Err(p) => { rep.disagree(format!("cmp {f} {} {}", a.cell(), b.cell()), format!("{name} panicked: {p}"), "cmp-panic".into()); continue; } };
        table[*fi][i * n + j] = Some(got);
        let case = format!("cmp {f} {} {}", a.cell(), b.cell());
        rep.case(Some(&case));
        rep.count(&format!("cmp_{}", ord(got)));
        if ord(got) != r { rep.disagree(case.clone(), format!("{name}({}, {}) = {}, M-code model says {}", a.cell(), b.cell(), ord(got), r), format!("cmp-model:{f}")); }
        // the property's requirements on the real function
        if let Some(sp) = a.spec(b) {
            if sp != got {
                let what = if matches!(a, C::N) != matches!(b, C::N) { "null-not-lowest".to_string() } else { format!("wrong-order({},{})", a.kind(), b.kind()) };
                rep.oracle_fail(case, format!("{name}({}, {}) = {}, the specified order is {}", a.cell(), b.cell(), ord(got), ord(sp)), format!("comparator:{f}:{what}"));
            }
        }
    }
    // ---- transitivity of `<=` on the real functions (first violation per comparator and kind triple)
    for (fi, (f, name, _)) in fns.iter().enumerate() {
        let le = |i: usize, j: usize| table[fi][i * n + j].map(|o| o != Ordering::Greater);
        let mut seen: Vec<String> = vec![];
        for i in 0..n { for j in 0..n { for k in 0..n {
            // only triples a typed column can hold: NULLs plus values of one type family (INT/DOUBLE together)
            let fam = |c: &C| match c { C::N => 0, C::I(_) | C::F(..) => 1, C::T(_) => 2, C::B(_) => 3, C::X(_) => 4 };
            let fams: Vec<i32> = [i, j, k].iter().map(|x| fam(&vals[*x])).filter(|f| *f != 0).collect();
            if fams.windows(2).any(|w| w[0] != w[1]) { continue; }
            if let (Some(true), Some(true), Some(false)) = (le(i, j), le(j, k), le(i, k)) {
                let kinds = format!("{},{},{}", vals[i].kind(), vals[j].kind(), vals[k].kind());
                if seen.contains(&kinds) { continue; }
                seen.push(kinds.clone());
                rep.oracle_fail(format!("cmp3 {f} {} {} {}", vals[i].cell(), vals[j].cell(), vals[k].cell()),
                    format!("{name} is not transitive: {} <= {} and {} <= {} but not {} <= {}", vals[i].cell(), vals[j].cell(), vals[j].cell(), vals[k].cell(), vals[i].cell(), vals[k].cell()),
                    format!("comparator:{f}:not-transitive({kinds})"));
            }
        } } }
    }
}
