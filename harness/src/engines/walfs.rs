//! C03: `turdb::storage::Wal` on a real directory vs the Lean model `TurVerif.Wal` (family `wal`)
//! and vs the property's own statement (longest valid prefix of the log in write order).
//!
//! One case = one history (one line):
//!   `nf=<files> np=<pages> ; w f p d i ; b <withSync> f p d i f p d i .. ; mode <0|1|2> ; sync ;
//!    rot ; trunc ; reopen`
//! After the history the Wal is dropped and, for a systematic set of faults on the segment files
//! (every truncation offset at frame and sub-frame boundaries, single-byte corruptions, zero fills),
//! the directory is copied, damaged, opened with `Wal::open`, replayed with `Wal::recover` /
//! `recover_for_file` into fresh storages, read back with `read_page`, and one more frame is
//! appended.  Everything observed is compared with the model (correspondence); the replayed
//! frames, final page images and `read_page` results are compared with the specification (oracle).
use crate::common::*;
use std::collections::HashMap;
use std::panic::AssertUnwindSafe;
use std::path::{Path, PathBuf};
use std::sync::Mutex;
use turdb::storage::{verif_wal_compute_checksum as compute_checksum, verif_wal_validate_checksum as validate_checksum, MmapStorage, SyncMode, Wal, WalFrameHeader};

const PAGE: usize = 16384;
const HDR: usize = 32;
const F: usize = PAGE + HDR;
const FS: usize = 4;
/// sub-frame cell boundaries: [0,32) header | [32,8208) | [8208,12312) | [12312,F)
const CB1: usize = 32;
const CB2: usize = 8208;
const CB3: usize = 12312;

/// length residue -> cells kept (monotone, 0 < rho(r) < FS for 0 < r < F)
fn rho(r: usize) -> usize {
    if r == 0 { 0 } else if r <= CB1 { 1 } else if r <= CB2 { 2 } else { 3 }
}
fn cells_of_len(b: u64) -> usize {
    (b as usize / F) * FS + rho(b as usize % F)
}
/// cell that contains byte `r` of a frame
fn cell_of_byte(r: usize) -> usize {
    if r < CB1 { 0 } else if r < CB2 { 1 } else if r < CB3 { 2 } else { 3 }
}
fn cell_start(c: usize) -> usize {
    [0, CB1, CB2, CB3, F][c]
}

/// page image for an id: id 0 is the zero page; otherwise no byte is zero
fn page_bytes(img: u64) -> Vec<u8> {
    let mut v = vec![0u8; PAGE];
    if img == 0 {
        return v;
    }
    for (k, b) in v.iter_mut().enumerate() {
        *b = ((img.wrapping_mul(31).wrapping_add(k as u64 * 7)) % 255) as u8 + 1;
    }
    v[..8].copy_from_slice(&(img | 0x0101_0101_0100_0000).to_le_bytes());
    v
}
fn img_id_from_first8(x: u64) -> u64 {
    if x == 0 { 0 } else { x & 0x0000_0000_00FF_FFFF }
}
fn img_of_page(data: &[u8]) -> String {
    let mut f8 = [0u8; 8];
    f8.copy_from_slice(&data[..8]);
    let id = img_id_from_first8(u64::from_le_bytes(f8));
    if data == &page_bytes(id)[..] { id.to_string() } else { "?".to_string() }
}

type SF = (u64, u64, u64, u64); // file, page, db_size, img

#[derive(Clone, Debug)]
enum Op {
    W(SF),
    B(bool, Vec<SF>),
    Mode(u8),
    Sync,
    Rot,
    Trunc,
    Reopen,
}

#[derive(Clone, Debug)]
struct Hist {
    nf: u64,
    np: u64,
    ops: Vec<Op>,
}

impl Hist {
    fn line(&self) -> String {
        let mut s = format!("nf={} np={}", self.nf, self.np);
        for o in &self.ops {
            s.push_str(" ; ");
            s.push_str(&op_line(o));
        }
        s
    }
    fn parse(l: &str) -> Option<Hist> {
        let mut parts = l.split(';').map(|x| x.trim());
        let head = parts.next()?;
        let mut nf = 0;
        let mut np = 0;
        for w in head.split_whitespace() {
            if let Some(v) = w.strip_prefix("nf=") { nf = v.parse().ok()?; }
            if let Some(v) = w.strip_prefix("np=") { np = v.parse().ok()?; }
        }
        if nf == 0 || np == 0 || nf > 8 || np > 64 { return None; }
        let mut ops = vec![];
        for p in parts {
            let w: Vec<&str> = p.split_whitespace().collect();
            if w.is_empty() { continue; }
            let nums: Option<Vec<u64>> = w[1..].iter().map(|x| x.parse().ok()).collect();
            let nums = nums?;
            match (w[0], nums.len()) {
                ("w", 4) => ops.push(Op::W((nums[0], nums[1], nums[2], nums[3]))),
                ("b", n) if n >= 1 && (n - 1) % 4 == 0 => {
                    let fs = nums[1..].chunks(4).map(|c| (c[0], c[1], c[2], c[3])).collect();
                    ops.push(Op::B(nums[0] == 1, fs));
                }
                ("mode", 1) if nums[0] <= 2 => ops.push(Op::Mode(nums[0] as u8)),
                ("sync", 0) => ops.push(Op::Sync),
                ("rot", 0) => ops.push(Op::Rot),
                ("trunc", 0) => ops.push(Op::Trunc),
                ("reopen", 0) => ops.push(Op::Reopen),
                _ => return None,
            }
        }
        Some(Hist { nf, np, ops })
    }
}

fn op_line(o: &Op) -> String {
    match o {
        Op::W((f, p, d, i)) => format!("w {f} {p} {d} {i}"),
        Op::B(s, fs) => {
            let mut t = format!("b {}", *s as u8);
            for (f, p, d, i) in fs { t.push_str(&format!(" {f} {p} {d} {i}")); }
            t
        }
        Op::Mode(m) => format!("mode {m}"),
        Op::Sync => "sync".into(),
        Op::Rot => "rot".into(),
        Op::Trunc => "trunc".into(),
        Op::Reopen => "reopen".into(),
    }
}

// ---------------------------------------------------------------- faults

#[derive(Clone, Debug)]
enum Fault {
    None,
    /// cut file number `seg` (position in ascending order) to `bytes`
    Trunc { seg: usize, bytes: usize },
    /// flip bits of one byte
    Junk { seg: usize, off: usize, x: u8 },
    /// zero-fill the cells [a, b) (cell boundaries)
    Zero { seg: usize, a: usize, b: usize },
}

impl Fault {
    fn kind(&self) -> &'static str {
        match self {
            Fault::None => "none",
            Fault::Trunc { bytes, .. } => if bytes % F == 0 { "trunc-frame" } else { "trunc-mid" },
            Fault::Junk { .. } => "corrupt",
            Fault::Zero { .. } => "zero-fill",
        }
    }
    fn model(&self) -> String {
        match self {
            Fault::None => "-".into(),
            Fault::Trunc { seg, bytes } => format!("t {seg} {}", cells_of_len(*bytes as u64)),
            Fault::Junk { seg, off, .. } => format!("j {seg} {}", (off / F) * FS + cell_of_byte(off % F)),
            Fault::Zero { seg, a, b } => format!("z {seg} {a} {b}"),
        }
    }
    fn show(&self) -> String {
        match self {
            Fault::None => "fault=none".into(),
            Fault::Trunc { seg, bytes } => format!("fault=trunc seg#{seg} to {bytes} bytes ({}*F+{})", bytes / F, bytes % F),
            Fault::Junk { seg, off, x } => format!("fault=corrupt seg#{seg} byte {off} ({}*F+{}) ^= {x:#x}", off / F, off % F),
            Fault::Zero { seg, a, b } => format!("fault=zero-fill seg#{seg} cells [{a},{b}) = bytes [{},{})", cell_byte(*a), cell_byte(*b)),
        }
    }
    fn apply(&self, files: &[(u64, PathBuf)]) -> std::io::Result<()> {
        use std::io::{Read, Seek, SeekFrom, Write};
        match self {
            Fault::None => Ok(()),
            Fault::Trunc { seg, bytes } => {
                let f = std::fs::OpenOptions::new().write(true).open(&files[*seg].1)?;
                if (*bytes as u64) < f.metadata()?.len() { f.set_len(*bytes as u64)?; }
                Ok(())
            }
            Fault::Junk { seg, off, x } => {
                let mut f = std::fs::OpenOptions::new().read(true).write(true).open(&files[*seg].1)?;
                if (*off as u64) < f.metadata()?.len() {
                    let mut b = [0u8; 1];
                    f.seek(SeekFrom::Start(*off as u64))?;
                    f.read_exact(&mut b)?;
                    b[0] ^= *x;
                    f.seek(SeekFrom::Start(*off as u64))?;
                    f.write_all(&b)?;
                }
                Ok(())
            }
            Fault::Zero { seg, a, b } => {
                let mut f = std::fs::OpenOptions::new().read(true).write(true).open(&files[*seg].1)?;
                let len = f.metadata()?.len() as usize;
                let (s, e) = (cell_byte(*a).min(len), cell_byte(*b).min(len));
                if s < e {
                    f.seek(SeekFrom::Start(s as u64))?;
                    f.write_all(&vec![0u8; e - s])?;
                }
                Ok(())
            }
        }
    }
}
fn cell_byte(c: usize) -> usize {
    (c / FS) * F + cell_start(c % FS)
}

// ---------------------------------------------------------------- specification (independent of the model)

fn spec_log(ops: &[Op]) -> Vec<Vec<Option<SF>>> {
    let mut l: Vec<Vec<Option<SF>>> = vec![vec![]];
    for o in ops {
        match o {
            Op::W(f) => l.last_mut().unwrap().push(Some(*f)),
            Op::B(_, fs) => l.last_mut().unwrap().extend(fs.iter().map(|f| Some(*f))),
            Op::Rot => l.push(vec![]),
            Op::Trunc => l = vec![vec![]],
            Op::Mode(_) | Op::Sync | Op::Reopen => {}
        }
    }
    l
}

fn spec_fault(l: &mut Vec<Vec<Option<SF>>>, fault: &Fault) {
    let nseg = l.len();
    match fault {
        Fault::None => {}
        Fault::Trunc { seg, bytes } => {
            if *seg >= nseg { return; }
            let not_last = seg + 1 < nseg;
            let es = &mut l[*seg];
            if *bytes >= F * es.len() { return; }
            es.truncate(bytes / F);
            if bytes % F != 0 || not_last { es.push(None); }
        }
        Fault::Junk { seg, off, .. } => {
            if *seg >= nseg { return; }
            if let Some(e) = l[*seg].get_mut(off / F) { *e = None; }
        }
        Fault::Zero { seg, a, b } => {
            if *seg >= nseg { return; }
            let (s, e) = (cell_byte(*a), cell_byte(*b));
            for (i, en) in l[*seg].iter_mut().enumerate() {
                if s < e && s < F * (i + 1) && F * i < e { *en = None; }
            }
        }
    }
}

fn valid_prefix(l: &[Vec<Option<SF>>]) -> Vec<SF> {
    let mut v = vec![];
    for e in l.iter().flatten() {
        match e {
            Some(f) => v.push(*f),
            None => break,
        }
    }
    v
}

fn fmt_sfs(v: &[SF]) -> String {
    if v.is_empty() { return "-".into(); }
    v.iter().map(|(f, p, d, i)| format!("{f}.{p}.{d}.{i}")).collect::<Vec<_>>().join(",")
}

/// what `recover` must report after replaying `fs` (optionally only one file) into a fresh 1-page storage
fn spec_rec(fs: &[SF], only: Option<u64>, np: u64) -> String {
    let sel: Vec<SF> = fs.iter().filter(|f| only.map_or(true, |o| o == f.0)).cloned().collect();
    let mut pc = 1u64;
    let mut pages: HashMap<u64, u64> = HashMap::new();
    for (_, p, d, i) in &sel {
        if *p >= pc { pc = pc.max((*d).max(p + 1)); }
        pages.insert(*p, *i);
    }
    let imgs: Vec<String> = (0..np + 4).map(|p| pages.get(&p).cloned().unwrap_or(0).to_string()).collect();
    format!("n={} A={} pc={} P={}", sel.len(), fmt_sfs(&sel), pc, imgs.join(","))
}

fn spec_reads(fs: &[SF], nf: u64, np: u64) -> String {
    let mut v = vec![];
    for f in 0..nf {
        for p in 0..np {
            match fs.iter().rev().find(|x| x.0 == f && x.1 == p) {
                Some(x) => v.push(format!("img{}", x.3)),
                None => v.push("none".to_string()),
            }
        }
    }
    v.join(",")
}

/// history class = the defect trigger the history contains (priority order).  The label only
/// names the shape of the history: truncate with unflushed frames; a flush that lands beyond EOF
/// (cursor left behind by a truncate); a flush that lands before EOF (cursor reset by a reopen).
fn history_class(ops: &[Op]) -> &'static str {
    let (mut cursor, mut len, mut buffered) = (0usize, 0usize, 0usize);
    let mut full = true;
    let (mut c_tb, mut c_ta, mut c_ra, mut c_rot) = (false, false, false, false);
    fn flush(cursor: &mut usize, len: &mut usize, buffered: &mut usize, c_ta: &mut bool, c_ra: &mut bool) {
        if *buffered > 0 {
            if *cursor > *len { *c_ta = true; }
            if *cursor < *len { *c_ra = true; }
            *cursor += *buffered;
            *len = (*len).max(*cursor);
            *buffered = 0;
        }
    }
    for o in ops {
        match o {
            Op::W(_) | Op::B(_, _) => {
                let n = if let Op::B(_, fs) = o { fs.len() } else { 1 };
                if n == 0 { continue; }
                let syncs = match o { Op::W(_) => full, Op::B(s, _) => *s && full, _ => false };
                buffered += n;
                if syncs { flush(&mut cursor, &mut len, &mut buffered, &mut c_ta, &mut c_ra); }
            }
            Op::Mode(m) => full = *m == 0,
            Op::Sync => flush(&mut cursor, &mut len, &mut buffered, &mut c_ta, &mut c_ra),
            Op::Rot => {
                flush(&mut cursor, &mut len, &mut buffered, &mut c_ta, &mut c_ra);
                c_rot = true;
                cursor = 0; len = 0;
            }
            Op::Trunc => {
                if buffered > 0 { c_tb = true; }
                len = 0;
                flush(&mut cursor, &mut len, &mut buffered, &mut c_ta, &mut c_ra);
            }
            Op::Reopen => {
                flush(&mut cursor, &mut len, &mut buffered, &mut c_ta, &mut c_ra);
                cursor = 0;
                full = true; // a new Wal starts in SyncMode::Full
            }
        }
    }
    // the final drop flushes too
    flush(&mut cursor, &mut len, &mut buffered, &mut c_ta, &mut c_ra);
    if c_tb { "truncate-buffered" }
    else if c_ta { "truncate-append" }
    else if c_ra { "reopen-append" }
    else if c_rot { "rotate" }
    else { "create-only" }
}

// ---------------------------------------------------------------- the real side

static EVENTS: Mutex<Vec<(u8, u64, u64)>> = Mutex::new(Vec::new());
fn io_hook(kind: &'static str, _name: &str, a: u64, b: u64) {
    let k = match kind { "wal_apply" => 1, "wal_apply_img" => 2, _ => return };
    if let Ok(mut g) = EVENTS.lock() { g.push((k, a, b)); }
}

fn g<T>(f: impl FnOnce() -> T) -> Result<T, String> {
    guarded(AssertUnwindSafe(f))
}

fn list_files(dir: &Path) -> Vec<(u64, PathBuf)> {
    let mut v = vec![];
    if let Ok(rd) = std::fs::read_dir(dir) {
        for e in rd.flatten() {
            let n = e.file_name().to_string_lossy().to_string();
            if n.starts_with("wal.") && n.len() == 10 {
                if let Ok(k) = n[4..].parse::<u64>() { v.push((k, e.path())); }
            }
        }
    }
    v.sort();
    v
}

#[derive(Clone, Debug, PartialEq)]
enum Slot {
    Fr(SF, (u32, u32)),
    Z,
    X,
    P(usize),
}

fn parse_file(bytes: &[u8]) -> Vec<Slot> {
    let mut v = vec![];
    let mut o = 0;
    while o + F <= bytes.len() {
        let s = &bytes[o..o + F];
        let h = |a: usize, n: usize| { let mut x = [0u8; 8]; x[..n].copy_from_slice(&s[a..a + n]); u64::from_le_bytes(x) };
        let hdr = WalFrameHeader::new_with_file_id(h(8, 4) as u32, h(12, 4) as u32, h(16, 4) as u32, h(20, 4) as u32, h(24, 8), h(0, 8));
        if s.iter().all(|b| *b == 0) {
            v.push(Slot::Z);
        } else if validate_checksum(&hdr, &s[HDR..]) {
            {
                let img = img_of_page(&s[HDR..]);
                let id = img.parse::<u64>().unwrap_or(u64::MAX);
                v.push(Slot::Fr((hdr.file_id, hdr.page_no as u64, hdr.db_size as u64, id), (hdr.salt1, hdr.salt2)));
            }
        } else {
            v.push(Slot::X);
        }
        o += F;
    }
    if o < bytes.len() { v.push(Slot::P(rho(bytes.len() - o))); }
    v
}

/// (salt-free dump string, salts of the frames in order)
fn dump_dir(dir: &Path) -> (String, Vec<(u32, u32)>) {
    let mut parts = vec![];
    let mut salts = vec![];
    for (k, p) in list_files(dir) {
        let bytes = std::fs::read(&p).unwrap_or_default();
        let toks: Vec<String> = parse_file(&bytes).iter().map(|s| match s {
            Slot::Fr((f, p, d, i), salt) => { salts.push(*salt); format!("F{f}.{p}.{d}.{i}") }
            Slot::Z => "Z".into(),
            Slot::X => "X".into(),
            Slot::P(n) => format!("P{n}"),
        }).collect();
        parts.push(format!("{k}:{}:{}", cells_of_len(bytes.len() as u64), if toks.is_empty() { "-".to_string() } else { toks.join(",") }));
    }
    (if parts.is_empty() { "-".into() } else { parts.join(" ") }, salts)
}

/// strip `.s<id>` from a model dump; returns (salt-free string, salt ids in order)
fn split_model_dump(s: &str) -> (String, Vec<u64>) {
    let mut out = String::new();
    let mut ids = vec![];
    let b = s.as_bytes();
    let mut i = 0;
    while i < b.len() {
        if b[i] == b'.' && i + 1 < b.len() && b[i + 1] == b's' {
            let mut j = i + 2;
            let mut v = 0u64;
            while j < b.len() && b[j].is_ascii_digit() { v = v * 10 + (b[j] - b'0') as u64; j += 1; }
            ids.push(v);
            i = j;
        } else {
            out.push(b[i] as char);
            i += 1;
        }
    }
    (out, ids)
}

#[derive(Default)]
struct SaltMap {
    by_id: HashMap<u64, (u32, u32)>,
}
impl SaltMap {
    fn check(&mut self, ids: &[u64], real: &[(u32, u32)]) -> Result<(), String> {
        if ids.len() != real.len() { return Ok(()); } // the dump strings differ already
        for (id, r) in ids.iter().zip(real) {
            match self.by_id.get(id) {
                Some(x) if x != r => return Err(format!("frame carries salts {r:?}, the model says they are those of Wal instance #{id} = {x:?}")),
                Some(_) => {}
                None => { self.by_id.insert(*id, *r); }
            }
        }
        Ok(())
    }
}

fn summary(dir: &Path, wal: &Wal) -> String {
    let files = list_files(dir);
    let fl: Vec<String> = files.iter().map(|(k, p)| format!("{k}:{}", cells_of_len(std::fs::metadata(p).map(|m| m.len()).unwrap_or(0)))).collect();
    format!("seq={} off={} fc={} files={}", files.last().map(|x| x.0).unwrap_or(0), cells_of_len(wal.current_offset()), wal.frame_count(), fl.join(","))
}

fn real_rec(wal: &Wal, only: Option<u64>, np: u64, spath: &Path) -> String {
    let _ = std::fs::remove_file(spath);
    let mut st = match MmapStorage::create(spath, 1) { Ok(s) => s, Err(e) => return format!("storage-err {e}") };
    EVENTS.lock().unwrap().clear();
    let r = g(|| match only {
        None => wal.recover(&mut st),
        Some(f) => wal.recover_for_file(&mut st, f),
    });
    let ev: Vec<(u8, u64, u64)> = std::mem::take(&mut *EVENTS.lock().unwrap());
    match r {
        Err(m) => format!("panic {m}"),
        Ok(Err(_)) => "err".into(),
        Ok(Ok(n)) => {
            let mut applied = vec![];
            let mut k = 0;
            while k + 1 < ev.len() {
                let (file, pd, img) = (ev[k].1, ev[k].2, ev[k + 1].1);
                applied.push((file, pd >> 32, pd & 0xFFFF_FFFF, img_id_from_first8(img)));
                k += 2;
            }
            let pc = st.page_count() as u64;
            let imgs: Vec<String> = (0..np + 4).map(|p| if p < pc { st.page(p as u32).map(img_of_page).unwrap_or("E".into()) } else { "0".into() }).collect();
            let cnt = if n as usize == applied.len() { format!("{n}") } else { format!("{n}(events:{})", applied.len()) };
            format!("n={cnt} A={} pc={pc} P={}", fmt_sfs(&applied), imgs.join(","))
        }
    }
}

fn real_reads(wal: &Wal, nf: u64, np: u64) -> String {
    let mut v = vec![];
    for f in 0..nf {
        for p in 0..np {
            v.push(match g(|| wal.read_page(f, p as u32)) {
                Err(m) => format!("panic {m}"),
                Ok(Err(_)) => "err".into(),
                Ok(Ok(None)) => "none".into(),
                Ok(Ok(Some(d))) => format!("img{}", img_of_page(&d)),
            });
        }
    }
    v.join(",")
}

fn real_op(wal: &mut Option<Wal>, dir: &Path, o: &Op) -> Result<(), String> {
    let r = g(|| -> Result<(), String> {
        match o {
            Op::Reopen => {
                *wal = None;
                *wal = Some(Wal::open(dir).map_err(|e| format!("{e}"))?);
                Ok(())
            }
            _ => {
                let w = wal.as_ref().ok_or("no wal")?;
                match o {
                    Op::W((f, p, d, i)) => w.write_frame_with_file_id(*p as u32, *d as u32, &page_bytes(*i), *f).map_err(|e| format!("{e}")),
                    Op::B(s, fs) => {
                        let pages: Vec<Vec<u8>> = fs.iter().map(|x| page_bytes(x.3)).collect();
                        let it = fs.iter().zip(pages.iter()).map(|((f, p, d, _), pg)| (*p as u32, *d as u32, &pg[..], *f));
                        if *s { w.write_frames_batch(it) } else { w.write_frames_batch_no_sync(it) }.map_err(|e| format!("{e}"))
                    }
                    Op::Mode(m) => { w.set_sync_mode(match m { 0 => SyncMode::Full, 1 => SyncMode::Normal, _ => SyncMode::Off }); Ok(()) }
                    Op::Sync => w.sync().map_err(|e| format!("{e}")),
                    Op::Rot => w.rotate_segment().map_err(|e| format!("{e}")),
                    Op::Trunc => w.truncate().map_err(|e| format!("{e}")),
                    Op::Reopen => unreachable!(),
                }
            }
        }
    });
    match r {
        Ok(x) => x,
        Err(m) => Err(format!("panic {m}")),
    }
}

// ---------------------------------------------------------------- comparison bookkeeping

enum Cmp {
    /// plain string equality
    Str(String),
    /// dump: salt-free string + real salts
    Dump(String, Vec<(u32, u32)>),
    /// probe: the sections, dumps at 0 and last
    Probe { dump: (String, Vec<(u32, u32)>), mid: String, app: (String, Vec<(u32, u32)>) },
    /// expected frames per the Rust spec; the model's spec must print the same
    Spec(String),
}

struct Pending {
    hist: usize,
    what: String,
    cmp: Cmp,
}

struct Plan {
    reqs: Vec<String>,
    pend: Vec<Pending>,
}

fn faults_for(files: &[(u64, usize)], rng: &mut Rng, thorough: bool) -> Vec<Fault> {
    let mut v = vec![Fault::None];
    for (seg, (_, len)) in files.iter().enumerate() {
        let nslots = len / F;
        let tail = len % F;
        // which slots get the full treatment: the first and the last of each file, plus random ones
        let mut full: Vec<bool> = (0..nslots).map(|q| q == 0 || q + 1 == nslots).collect();
        for q in 0..nslots { if thorough || rng.chance(1, 4) { full[q] = true; } }
        for q in 0..nslots {
            let base = q * F;
            if full[q] {
                for r in [0usize, 1, CB1 - 1, CB1, CB1 + 1, CB2, F - 1] {
                    v.push(Fault::Trunc { seg, bytes: base + r });
                }
                let offs = [rng.below(24) as usize, 24 + rng.below(8) as usize, HDR, HDR + 1 + rng.below((PAGE - 2) as u64) as usize, F - 1];
                for (k, off) in offs.iter().enumerate() {
                    if full[q] && (thorough || k != 3 || rng.chance(1, 2)) {
                        let x = if rng.chance(1, 2) { 1u8 << rng.below(8) } else { (rng.below(255) + 1) as u8 };
                        v.push(Fault::Junk { seg, off: base + off, x });
                    }
                }
                for (a, b) in [(0, 4), (0, 1), (1, 4), (2, 4)] {
                    v.push(Fault::Zero { seg, a: q * FS + a, b: q * FS + b });
                }
            } else {
                v.push(Fault::Trunc { seg, bytes: base + [0usize, 1, CB1, CB1 + 1, F - 1][rng.below(5) as usize] });
                v.push(Fault::Junk { seg, off: base + rng.below(F as u64) as usize, x: 1u8 << rng.below(8) });
                v.push(Fault::Zero { seg, a: q * FS, b: q * FS + FS });
            }
        }
        if tail > 0 { v.push(Fault::Trunc { seg, bytes: nslots * F }); }
        // two-frame zero fill
        if nslots >= 2 { v.push(Fault::Zero { seg, a: 0, b: 2 * FS }); }
    }
    v
}

fn copy_dir(src: &Path, dst: &Path) {
    let _ = std::fs::remove_dir_all(dst);
    let _ = std::fs::create_dir_all(dst);
    for (_, p) in list_files(src) {
        let _ = std::fs::copy(&p, dst.join(p.file_name().unwrap()));
    }
}

struct HistResult {
    line: String,
    class: &'static str,
    /// per probe: (fault, expected frames, real sections) for the oracle
    probes: Vec<(Fault, Vec<SF>, Vec<Vec<Option<SF>>>, String)>,
    setup_error: Option<String>,
}

/// run one history on the real code; queue the model requests
fn run_history(ctx: &Ctx, hidx: usize, h: &Hist, variant: (bool, bool), plan: &mut Plan, rng: &mut Rng, rep: &mut Report) -> HistResult {
    let root = PathBuf::from(format!("{}/walfs-{}", ctx.scratch, std::process::id()));
    let dir = root.join("wal");
    let pdir = root.join("probe");
    let spath = root.join("storage.db");
    let _ = std::fs::remove_dir_all(&root);
    let _ = std::fs::create_dir_all(&root);
    let mut res = HistResult { line: h.line(), class: history_class(&h.ops), probes: vec![], setup_error: None };
    let push = |plan: &mut Plan, req: String, what: String, cmp: Cmp| {
        plan.reqs.push(req);
        plan.pend.push(Pending { hist: hidx, what, cmp });
    };
    let mut wal = match g(|| Wal::create(&dir)) {
        Ok(Ok(w)) => Some(w),
        Ok(Err(e)) => { res.setup_error = Some(format!("Wal::create failed: {e}")); return res; }
        Err(m) => { res.setup_error = Some(format!("Wal::create panicked: {m}")); return res; }
    };
    push(plan, format!("create {} {} 1", variant.0 as u8, variant.1 as u8), "create".into(), Cmp::Str(summary(&dir, wal.as_ref().unwrap())));
    let mut salt_id = 1;
    for (k, o) in h.ops.iter().enumerate() {
        rep.count(match o { Op::W(_) => "op_write", Op::B(true, _) => "op_batch", Op::B(false, _) => "op_batch_nosync", Op::Mode(_) => "op_mode", Op::Sync => "op_sync", Op::Rot => "op_rotate", Op::Trunc => "op_truncate", Op::Reopen => "op_reopen" });
        let r = real_op(&mut wal, &dir, o);
        let s = match (&r, wal.as_ref()) {
            (Ok(()), Some(w)) => summary(&dir, w),
            (Err(e), _) => format!("op-error {e}"),
            _ => "no-wal".into(),
        };
        let req = match o {
            Op::Reopen => { salt_id += 1; format!("reopen {salt_id}") }
            _ => op_line(o),
        };
        push(plan, req, format!("after op #{k} `{}`", op_line(o)), Cmp::Str(s));
        if r.is_err() || wal.is_none() {
            res.setup_error = Some(format!("op #{k} `{}` failed: {:?}", op_line(o), r.err()));
            return res;
        }
    }
    // live observations (other handles do not see the BufWriter)
    {
        let w = wal.as_ref().unwrap();
        let (d, salts) = dump_dir(&dir);
        push(plan, "dump".into(), "live dump".into(), Cmp::Dump(d, salts));
        push(plan, format!("rp {} {}", h.nf, h.np), "live read_page".into(), Cmp::Str(real_reads(w, h.nf, h.np)));
        push(plan, format!("rec {}", h.np), "live recover".into(), Cmp::Str(real_rec(w, None, h.np, &spath)));
    }
    drop(wal.take());
    let (d, salts) = dump_dir(&dir);
    push(plan, "save".into(), "dump after drop".into(), Cmp::Dump(d, salts));
    let files: Vec<(u64, usize)> = list_files(&dir).iter().map(|(k, p)| (*k, std::fs::metadata(p).map(|m| m.len() as usize).unwrap_or(0))).collect();
    let base_log = spec_log(&h.ops);
    let faults = faults_for(&files, rng, ctx.thorough);
    for (pi, fault) in faults.iter().enumerate() {
        rep.count(&format!("fault_{}", fault.kind()));
        copy_dir(&dir, &pdir);
        let pfiles = list_files(&pdir);
        if let Err(e) = fault.apply(&pfiles) {
            res.setup_error = Some(format!("cannot apply {}: {e}", fault.show()));
            return res;
        }
        let d0 = dump_dir(&pdir);
        // per-file replay on the undamaged log and on every third fault
        let nper = if pi == 0 || ctx.thorough || pi % 4 == 1 { h.nf } else { 0 };
        let mid;
        let app;
        match g(|| Wal::open(&pdir)) {
            Ok(Ok(w)) => {
                let mut secs = vec![summary(&pdir, &w), format!("ALL: {}", real_rec(&w, None, h.np, &spath))];
                for f in 0..nper { secs.push(format!("F{f}: {}", real_rec(&w, Some(f), h.np, &spath))); }
                secs.push(format!("RP={}", real_reads(&w, h.nf, h.np)));
                mid = secs.join(" | ");
                w.set_sync_mode(SyncMode::Off); // the drop below flushes; no fdatasync per probe
                let a = g(|| w.write_frame_with_file_id(1, h.np as u32, &page_bytes(9000), 0));
                drop(w);
                app = match a {
                    Ok(Ok(())) => dump_dir(&pdir),
                    Ok(Err(e)) => (format!("append-err {e}"), vec![]),
                    Err(m) => (format!("append-panic {m}"), vec![]),
                };
            }
            Ok(Err(e)) => { mid = format!("open-err {e}"); app = ("-".into(), vec![]); }
            Err(m) => { mid = format!("open-panic {m}"); app = ("-".into(), vec![]); }
        }
        let mut l = base_log.clone();
        spec_fault(&mut l, fault);
        let exp = valid_prefix(&l);
        push(plan, format!("probe {} {} {} {nper} {}", 1000 + pi, h.nf, h.np, fault.model()), fault.show(),
             Cmp::Probe { dump: d0, mid: mid.clone(), app });
        push(plan, format!("spec {}", fault.model()), format!("spec for {}", fault.show()), Cmp::Spec(fmt_sfs(&exp)));
        res.probes.push((fault.clone(), exp, l, mid));
    }
    let _ = std::fs::remove_dir_all(&root);
    res
}

/// evaluate the property on what the real code did for one probe
fn oracle(h: &Hist, class: &str, fault: &Fault, exp: &[SF], log: &[Vec<Option<SF>>], mid: &str) -> Vec<(String, String)> {
    let mut out = vec![];
    let sig = |what: &str| format!("wal:{class}:{}:{what}", fault.kind());
    if mid.starts_with("open-") {
        out.push((sig(if mid.starts_with("open-panic") { "panic" } else { "open-error" }), mid.to_string()));
        return out;
    }
    let secs: Vec<&str> = mid.split(" | ").collect();
    if mid.contains("panic") {
        out.push((sig("panic"), mid.to_string()));
        return out;
    }
    // section 1 = ALL, 2.. = per file, last = RP
    let flat: Vec<Option<SF>> = log.iter().flatten().cloned().collect();
    let parse_a = |s: &str| -> Option<Vec<SF>> {
        let a = s.split(" A=").nth(1)?.split(' ').next()?;
        if a == "-" { return Some(vec![]); }
        a.split(',').map(|t| { let x: Vec<u64> = t.split('.').filter_map(|y| y.parse().ok()).collect(); if x.len() == 4 { Some((x[0], x[1], x[2], x[3])) } else { None } }).collect()
    };
    let classify = |got: &[SF], exp: &[SF]| -> &'static str {
        let zero: SF = (0, 0, 0, 0);
        if got.iter().enumerate().any(|(k, f)| *f == zero && exp.get(k) != Some(&zero)) { return "hole-replayed"; }
        if got.len() > exp.len() && &got[..exp.len()] == exp { return "continues-after-bad-frame"; }
        if got.len() < exp.len() && got == &exp[..got.len()] { return "frame-lost"; }
        let beyond: Vec<SF> = flat.iter().flatten().filter(|f| !exp.contains(f)).cloned().collect();
        if got.iter().any(|f| !exp.contains(f) && beyond.contains(f)) { return "continues-after-bad-frame"; }
        if got.iter().all(|f| exp.contains(f)) { return "frame-overwritten"; }
        // a frame that is not in the log at all (it was truncated away)
        "stale-frame-replayed"
    };
    let mut rec_ok = true;
    for (k, sec) in secs.iter().enumerate().skip(1) {
        let (only, body) = if let Some(b) = sec.strip_prefix("ALL: ") { (None, b) }
            else if sec.starts_with('F') { let (a, b) = sec.split_once(": ").unwrap_or(("F0", "")); (a[1..].parse::<u64>().ok(), b) }
            else { continue };
        let _ = k;
        let want = spec_rec(exp, only, h.np);
        if body != want {
            rec_ok = false;
            let expf: Vec<SF> = exp.iter().filter(|f| only.map_or(true, |o| o == f.0)).cloned().collect();
            let what = if body == "err" { "recover-error" } else {
                match parse_a(body) {
                    Some(got) if got != expf => classify(&got, &expf),
                    Some(_) => "wrong-image",
                    None => "recover-error",
                }
            };
            let w = if only.is_some() && out.is_empty() { format!("file-filter:{what}") } else { what.to_string() };
            out.push((sig(&w), format!("{} replayed [{}], the longest valid prefix of the log gives [{}]",
                if let Some(f) = only { format!("recover_for_file({f})") } else { "recover()".into() }, body, want)));
            if only.is_none() { break; }
        }
    }
    out.truncate(1);
    if rec_ok {
        if let Some(rp) = secs.last().and_then(|s| s.strip_prefix("RP=")) {
            let want = spec_reads(exp, h.nf, h.np);
            if rp != want {
                let g: Vec<&str> = rp.split(',').collect();
                let w: Vec<&str> = want.split(',').collect();
                let mut what = "read-page-wrong-image";
                let mut first = String::new();
                for (i, (a, b)) in g.iter().zip(w.iter()).enumerate() {
                    if a != b {
                        what = if *a == "none" { "read-page-absent" } else if *a == "err" { "read-page-error" } else if *b == "none" { "read-page-phantom" } else { "read-page-wrong-image" };
                        first = format!("read_page(file {}, page {}) = {a}, the last valid image is {b}", i as u64 / h.np, i as u64 % h.np);
                        break;
                    }
                }
                out.push((sig(what), first));
            }
        }
    }
    out
}

// ---------------------------------------------------------------- generator

fn gen_frame(rng: &mut Rng, nf: u64, np: u64, next_img: &mut u64) -> SF {
    let p = if rng.chance(1, 4) { *rng.pick(&[0, np - 1]) } else { rng.below(np) };
    let d = match rng.below(4) { 0 => 0, 1 => p + 1, 2 => np, _ => rng.below(np + 3) };
    let i = *next_img;
    *next_img += 1;
    (rng.below(nf), p, d, i)
}

fn gen_history(rng: &mut Rng, flavour: u64) -> Hist {
    let nf = 1 + rng.below(4);
    let np = 1 + rng.below(8);
    let n = 2 + rng.below(9);
    let mut ops = vec![];
    let mut img = 1;
    let mut frames = 0;
    // flavour: 0 create-only, 1 rotate, 2 reopen, 3 truncate, 4 everything, 5 sync modes
    for _ in 0..n {
        if frames >= 14 { break; }
        let r = rng.below(100);
        let o = match flavour {
            0 => if r < 60 { 0 } else if r < 90 { 1 } else { 2 },
            1 => if r < 45 { 0 } else if r < 65 { 1 } else if r < 95 { 4 } else { 2 },
            2 => if r < 45 { 0 } else if r < 60 { 1 } else if r < 90 { 5 } else { 4 },
            3 => if r < 45 { 0 } else if r < 60 { 1 } else if r < 90 { 6 } else { 4 },
            5 => if r < 30 { 0 } else if r < 50 { 1 } else if r < 65 { 2 } else if r < 80 { 3 } else if r < 88 { 7 } else if r < 94 { 4 } else { 6 },
            _ => if r < 35 { 0 } else if r < 50 { 1 } else if r < 58 { 2 } else if r < 64 { 3 } else if r < 76 { 4 } else if r < 88 { 5 } else if r < 96 { 6 } else { 7 },
        };
        match o {
            0 => { ops.push(Op::W(gen_frame(rng, nf, np, &mut img))); frames += 1; }
            1 | 2 => {
                let k = rng.below(4) as usize; // empty batches too
                let fs: Vec<SF> = (0..k).map(|_| gen_frame(rng, nf, np, &mut img)).collect();
                frames += k;
                ops.push(Op::B(o == 1, fs));
            }
            3 => ops.push(Op::Sync),
            4 => ops.push(Op::Rot),
            5 => ops.push(Op::Reopen),
            6 => ops.push(Op::Trunc),
            _ => ops.push(Op::Mode(rng.below(3) as u8)),
        }
    }
    Hist { nf, np, ops }
}

fn systematic() -> Vec<Hist> {
    [
        "nf=1 np=2 ; w 0 0 1 1",
        "nf=1 np=4 ; w 0 1 4 1 ; w 0 2 4 2 ; w 0 1 4 3",
        "nf=2 np=4 ; w 0 1 4 1 ; w 1 1 4 2 ; b 1 0 2 4 3 1 3 4 4 0 0 1 5",
        // rotation
        "nf=2 np=4 ; w 0 1 4 1 ; w 1 2 4 2 ; rot ; w 0 1 4 3 ; w 1 3 0 4",
        "nf=1 np=3 ; w 0 1 3 1 ; rot ; rot ; w 0 2 3 2 ; rot ; w 0 1 3 3",
        // reopen then append
        "nf=1 np=4 ; w 0 1 4 1 ; w 0 2 4 2 ; reopen ; w 0 3 4 3",
        "nf=2 np=4 ; w 0 1 4 1 ; w 1 2 4 2 ; w 0 3 4 3 ; reopen ; b 1 0 1 4 4 1 2 4 5 ; reopen ; w 0 0 4 6",
        "nf=1 np=4 ; w 0 1 4 1 ; reopen",
        "nf=1 np=4 ; reopen ; w 0 1 4 1 ; w 0 2 4 2",
        // rotate + reopen (index only covers the newest segment)
        "nf=1 np=4 ; w 0 1 4 1 ; rot ; w 0 2 4 2 ; reopen",
        "nf=1 np=4 ; w 0 1 4 1 ; rot ; reopen ; w 0 2 4 2 ; w 0 3 4 3",
        // truncate then append
        "nf=1 np=4 ; w 0 1 4 1 ; w 0 2 4 2 ; trunc ; w 0 3 4 3",
        "nf=2 np=4 ; w 0 1 4 1 ; w 1 2 4 2 ; rot ; w 0 3 4 3 ; trunc ; w 1 1 4 4 ; w 0 2 4 5",
        "nf=1 np=4 ; w 0 1 4 1 ; trunc",
        "nf=1 np=4 ; trunc ; w 0 1 4 1",
        "nf=1 np=4 ; w 0 1 4 1 ; w 0 2 4 2 ; trunc ; reopen ; w 0 3 4 3",
        "nf=1 np=4 ; w 0 1 4 1 ; w 0 2 4 2 ; reopen ; trunc ; w 0 3 4 3",
        // unsynced frames
        "nf=1 np=4 ; mode 2 ; w 0 1 4 1 ; w 0 2 4 2",
        "nf=1 np=4 ; b 0 0 1 4 1 0 2 4 2 ; sync ; b 0 0 3 4 3",
        "nf=1 np=4 ; b 0 0 1 4 1 ; trunc",
        "nf=1 np=4 ; mode 1 ; w 0 1 4 1 ; trunc ; mode 0 ; w 0 2 4 2",
        "nf=1 np=4 ; w 0 1 4 1 ; b 0 0 2 4 2 ; rot ; w 0 3 4 3",
    ].iter().filter_map(|l| Hist::parse(l)).collect()
}

pub fn run(ctx: &Ctx) -> Report {
    let mut rep = Report::new(
        "walfs",
        "histories of write / batch / batch-no-sync / sync-mode / sync / rotate / truncate / drop-and-Wal::open over \
         <=4 files x <=8 pages on a real directory (22 systematic + corpus + 110 random in 6 flavours; thorough: 1500); per history every \
         truncation offset at frame and sub-frame boundaries (0, 1, 31, 32, 33, 8208, F-1 of the first, the last and \
         random other frames; one random boundary of the rest), 1-5 single-byte corruptions and 1-4 zero fills per frame, then Wal::open + recover + \
         recover_for_file + read_page + one appended frame. non-trivial = distinct (history, fault) with at least \
         one frame in the log",
    );
    turdb::verif_hooks::set_io_hook(Some(io_hook));
    let mut rng = Rng::new(ctx.seed);
    // which variant of the code the model follows: `--wal-model pinned|cursor|zero|cursor+zero`
    // (props/C03.json `engine_args`); pinned = the code as found, the others = with the fix patches
    let args: Vec<String> = std::env::args().collect();
    let variant_s = args.iter().position(|a| a == "--wal-model").and_then(|i| args.get(i + 1).cloned()).unwrap_or("pinned".into());
    let variant = (variant_s.contains("cursor"), variant_s.contains("zero"));
    rep.notes.push(format!("model variant: {variant_s} (cursor fix = {}, zero-frame fix = {})", variant.0, variant.1));
    let mut hists: Vec<Hist> = vec![];
    for c in ctx.corpus_cases("C03") {
        match Hist::parse(&c) {
            Some(h) => hists.push(h),
            None => rep.notes.push(format!("unparsable case line: {c}")),
        }
    }
    hists.extend(systematic());
    let nrand = if ctx.thorough { 1500 } else { 110 };
    for k in 0..nrand {
        let mut r = rng.fork();
        hists.push(gen_history(&mut r, k % 6));
    }
    let mut plan = Plan { reqs: vec![], pend: vec![] };
    let mut results = vec![];
    for (hidx, h) in hists.iter().enumerate() {
        let mut r = rng.fork();
        let res = run_history(ctx, hidx, h, variant, &mut plan, &mut r, &mut rep);
        rep.count(&format!("class_{}", res.class));
        results.push(res);
    }
    turdb::verif_hooks::set_io_hook(None);

    // ---- CRC model vs the crate (through compute_checksum): zeros and random frames
    {
        let mut reqs = vec![];
        let mut want = vec![];
        for k in 0..6u64 {
            let (hdr, page) = if k == 0 {
                (WalFrameHeader::new_with_file_id(0, 0, 0, 0, 0, 0), vec![0u8; PAGE])
            } else {
                (WalFrameHeader::new_with_file_id(rng.next() as u32, rng.next() as u32, rng.next() as u32, rng.next() as u32, 0, rng.next()),
                 if k == 1 { vec![0u8; PAGE] } else { rng.bytes(PAGE) })
            };
            let mut bytes = vec![];
            bytes.extend(hdr.file_id.to_le_bytes());
            bytes.extend(hdr.page_no.to_le_bytes());
            bytes.extend(hdr.db_size.to_le_bytes());
            bytes.extend(hdr.salt1.to_le_bytes());
            bytes.extend(hdr.salt2.to_le_bytes());
            bytes.extend(&page);
            let hx: String = { const H: &[u8; 16] = b"0123456789abcdef"; let mut t = String::with_capacity(bytes.len() * 2); for b in &bytes { t.push(H[(b >> 4) as usize] as char); t.push(H[(b & 15) as usize] as char); } t };
            reqs.push(format!("crc {hx}"));
            want.push((compute_checksum(&hdr, &page).to_string(), format!("crc of frame #{k} (header {:?})", hdr)));
        }
        reqs.push(format!("crczeros {}", 24 + PAGE));
        want.push(("0".to_string(), "crc of an all-zero header+page".to_string()));
        let resp = model_batch(&ctx.model_bin, "wal", &reqs);
        for ((w, what), m) in want.iter().zip(resp.iter()) {
            rep.case(None);
            rep.count("crc_checks");
            if w != m { rep.disagree(what.clone(), format!("crate crc64 = {w}, model = {m}"), "crc-differs".into()); }
        }
    }

    // ---- correspondence
    let resp = model_batch(&ctx.model_bin, "wal", &plan.reqs);
    let mut salts: HashMap<usize, SaltMap> = HashMap::new();
    let mut bad_hist: std::collections::HashSet<usize> = Default::default();
    for ((req, p), m) in plan.reqs.iter().zip(plan.pend.iter()).zip(resp.iter()) {
        let h = &results[p.hist];
        let sm = salts.entry(p.hist).or_insert_with(|| { let mut s = SaltMap::default(); s.by_id.insert(0, (0, 0)); s });
        let mut diff: Option<String> = None;
        match &p.cmp {
            Cmp::Str(s) => if s != m { diff = Some(format!("impl: {s} ; model: {m}")); },
            Cmp::Spec(s) => if s != m { diff = Some(format!("harness spec: {s} ; Lean spec: {m}")); },
            Cmp::Dump(s, rs) => {
                let mm = m.split(" buf=").next().unwrap_or("");
                let (ms, ids) = split_model_dump(mm);
                if *s != ms { diff = Some(format!("files impl: {s} ; model: {ms}")); }
                else if let Err(e) = sm.check(&ids, rs) { diff = Some(e); }
            }
            Cmp::Probe { dump, mid, app } => {
                let secs: Vec<&str> = m.split(" | ").collect();
                if secs.len() < 4 { diff = Some(format!("model: {m}")); }
                else {
                    let (md, ids) = split_model_dump(secs[0]);
                    let mmid = secs[1..secs.len() - 1].join(" | ");
                    let (ma, ids2) = split_model_dump(secs[secs.len() - 1].strip_prefix("APP: ").unwrap_or(""));
                    if dump.0 != md { diff = Some(format!("files after fault impl: {} ; model: {md}", dump.0)); }
                    else if *mid != mmid { diff = Some(format!("impl: {mid} ; model: {mmid}")); }
                    else if app.0 != ma { diff = Some(format!("files after appending one frame impl: {} ; model: {ma}", app.0)); }
                    else if let Err(e) = sm.check(&ids, &dump.1).and_then(|_| sm.check(&ids2, &app.1)) { diff = Some(e); }
                }
            }
        }
        if let Some(d) = diff {
            // one report per history is enough
            if bad_hist.insert(p.hist) {
                let sig = match &p.cmp { Cmp::Spec(_) => "spec-differs", Cmp::Probe { .. } => "probe-differs", _ => "state-differs" };
                rep.disagree(h.line.clone(), format!("{} [{req}]: {d}", p.what), sig.into());
            }
        }
    }

    // ---- property oracle on the implementation
    for (hidx, res) in results.iter().enumerate() {
        let h = &hists[hidx];
        if let Some(e) = &res.setup_error {
            rep.case(Some(&res.line));
            rep.oracle_fail(res.line.clone(), e.clone(), format!("wal:{}:none:{}", res.class, if e.contains("panic") { "panic" } else { "op-error" }));
            continue;
        }
        if hidx % 23 == 0 { rep.sample(format!("{} -> class {} , {} probes", res.line, res.class, res.probes.len())); }
        for (fault, exp, log, mid) in &res.probes {
            let nontrivial = log.iter().flatten().count() > 0;
            let key = format!("{} @ {}", res.line, fault.show());
            rep.case(if nontrivial { Some(&key) } else { None });
            rep.count(&format!("prefix_len_{}", exp.len().min(9)));
            for (sig, detail) in oracle(h, res.class, fault, exp, log, mid) {
                rep.oracle_fail(res.line.clone(), format!("{}: {detail}", fault.show()), sig);
            }
        }
    }
    rep
}
