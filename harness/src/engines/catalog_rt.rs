//! C40 (b): catalog serialize/deserialize round trip vs the Lean model `TurVerif.Catalog`
//! (family `catalog`).  Catalogs are built through the public schema API (random + a systematic
//! layer with every construct) and taken from `turdb.catalog` files left by DDL histories.
//!   correspondence: model `deser bytes` == canonical text of the Rust `deserialize bytes` (also on
//!                   every truncation of the buffer, which exercises the lenient end-of-buffer cases),
//!                   model `reser bytes` == bytes, model `load file` == Rust `load file`;
//!   oracle on the code: deserialize(serialize(c)) == c  and  load(save(c)) == c.
//! case syntax: `catalog <seed>` (regenerates the catalog from the seed) or `catalogsql <sql ;; sql>`.
use crate::common::*;
use turdb::schema::persistence::CatalogPersistence;
use turdb::schema::{Catalog, ColumnDef, Constraint, IndexColumnDef, IndexDef, IndexType, ReferentialAction, SortDirection, TableDef};
use turdb::types::DataType;

const TYPES: &[DataType] = &[
    DataType::Bool, DataType::Int2, DataType::Int4, DataType::Int8, DataType::Float4, DataType::Float8, DataType::Date, DataType::Time,
    DataType::Timestamp, DataType::TimestampTz, DataType::Uuid, DataType::MacAddr, DataType::Inet4, DataType::Inet6, DataType::Text,
    DataType::Blob, DataType::Vector, DataType::Jsonb, DataType::Varchar, DataType::Char, DataType::Decimal, DataType::Interval,
    DataType::Int4Range, DataType::Int8Range, DataType::DateRange, DataType::TimestampRange, DataType::Enum, DataType::Point,
    DataType::Box, DataType::Circle, DataType::Composite, DataType::Array,
];

fn hx(s: &str) -> String {
    hex(s.as_bytes())
}
fn act(a: Option<ReferentialAction>) -> u8 {
    match a {
        None => 0,
        Some(ReferentialAction::Cascade) => 1,
        Some(ReferentialAction::Restrict) => 2,
        Some(ReferentialAction::NoAction) => 3,
        Some(ReferentialAction::SetNull) => 4,
        Some(ReferentialAction::SetDefault) => 5,
    }
}
fn opt(o: Option<String>) -> String {
    o.unwrap_or_else(|| "~".into())
}

fn canon_table(t: &TableDef) -> String {
    let cols: Vec<String> = t
        .columns()
        .iter()
        .map(|c| {
            let ks: Vec<String> = c
                .constraints()
                .iter()
                .map(|k| match k {
                    Constraint::NotNull => "nn".to_string(),
                    Constraint::PrimaryKey => "pk".to_string(),
                    Constraint::Unique => "uq".to_string(),
                    Constraint::AutoIncrement => "ai".to_string(),
                    Constraint::ForeignKey { table, column, on_delete, on_update } => format!("fk({},{},{},{})", hx(table), hx(column), act(*on_delete), act(*on_update)),
                    Constraint::Check(e) => format!("ck({})", hx(e)),
                })
                .collect();
            format!("C({},{},[{}],{},{})", hx(c.name()), c.data_type() as u8, ks.join(","), opt(c.default_value().map(hx)), opt(c.max_length().map(|m| m.to_string())))
        })
        .collect();
    let ixs: Vec<String> = t
        .indexes()
        .iter()
        .map(|i| {
            let cs: Vec<String> = i
                .column_defs()
                .iter()
                .map(|c| {
                    // expression columns and partial-index predicates are part of the catalog; the canonical
                    // text shows them so that their loss is visible
                    let name = match (c.as_column(), c.as_expression()) {
                        (Some(n), _) => hx(n),
                        (None, Some(e)) => format!("expr:{}", hx(e)),
                        _ => "-".into(),
                    };
                    format!("c({},{})", name, c.is_desc() as u8)
                })
                .collect();
            let w = i.where_clause().map(|w| format!(",where:{}", hx(w))).unwrap_or_default();
            format!("I({},[{}],{},{}{})", hx(i.name()), cs.join(","), i.is_unique() as u8, (i.index_type() == IndexType::Hnsw) as u8, w)
        })
        .collect();
    format!(
        "T({},{},[{}],{},[{}],{})",
        t.id(),
        hx(t.name()),
        cols.join(","),
        opt(t.primary_key().map(|l| format!("[{}]", l.iter().map(|s| hx(s)).collect::<Vec<_>>().join(",")))),
        ixs.join(","),
        opt(t.toast_id().map(|x| x.to_string()))
    )
}

/// canonical text of a catalog, schemas and tables sorted (hash-map order is not part of the catalog);
/// schemas without tables are dropped (the model sees only what is in the bytes)
fn canon(c: &Catalog) -> String {
    let mut ss: Vec<String> = c
        .schemas()
        .values()
        .map(|s| {
            let mut ts: Vec<String> = s.tables().values().map(canon_table).collect();
            ts.sort();
            format!("S({},{},[{}])", s.id(), hx(s.name()), ts.join(","))
        })
        .collect();
    ss.sort();
    format!("ok [{}]", ss.join(","))
}

fn split_top(s: &str) -> Vec<String> {
    let mut out = vec![];
    let mut depth = 0i32;
    let mut cur = String::new();
    for ch in s.chars() {
        match ch {
            '(' | '[' => { depth += 1; cur.push(ch); }
            ')' | ']' => { depth -= 1; cur.push(ch); }
            ',' if depth == 0 => { out.push(std::mem::take(&mut cur)); }
            _ => cur.push(ch),
        }
    }
    if !cur.is_empty() {
        out.push(cur);
    }
    out
}

/// sort schemas and the tables of each schema in the model's canonical text
fn sort_model(m: &str) -> String {
    let inner = match m.strip_prefix("ok [").and_then(|x| x.strip_suffix(']')) {
        Some(i) => i,
        None => return m.to_string(),
    };
    let mut ss: Vec<String> = split_top(inner)
        .into_iter()
        .map(|s| {
            let body = s.strip_prefix("S(").and_then(|x| x.strip_suffix(')')).unwrap_or(&s).to_string();
            let f = split_top(&body);
            if f.len() != 3 {
                return s;
            }
            let tl = f[2].strip_prefix('[').and_then(|x| x.strip_suffix(']')).unwrap_or("");
            let mut ts = split_top(tl);
            ts.sort();
            format!("S({},{},[{}])", f[0], f[1], ts.join(","))
        })
        .collect();
    ss.sort();
    format!("ok [{}]", ss.join(","))
}

fn name(rng: &mut Rng) -> String {
    let n = 1 + rng.below(8) as usize;
    (0..n).map(|_| (b'a' + rng.below(26) as u8) as char).collect()
}

fn gen_table(rng: &mut Rng, id: u64, wf_only: bool, force: Option<&str>) -> TableDef {
    let ncols = 1 + rng.below(5) as usize;
    let mut cols = vec![];
    for i in 0..ncols {
        let mut c = ColumnDef::new(format!("{}{}", name(rng), i), *rng.pick(TYPES));
        for _ in 0..rng.below(4) {
            let k = match rng.below(6) {
                0 => Constraint::NotNull,
                1 => Constraint::PrimaryKey,
                2 => Constraint::Unique,
                3 => Constraint::AutoIncrement,
                4 => Constraint::Check(format!("{} > {}", name(rng), rng.below(100))),
                _ => {
                    let a = |r: &mut Rng| match r.below(6) {
                        0 => None,
                        1 => Some(ReferentialAction::Cascade),
                        2 => Some(ReferentialAction::Restrict),
                        3 => Some(ReferentialAction::NoAction),
                        4 => Some(ReferentialAction::SetNull),
                        _ => Some(ReferentialAction::SetDefault),
                    };
                    Constraint::ForeignKey { table: name(rng), column: name(rng), on_delete: a(rng), on_update: a(rng) }
                }
            };
            c = c.with_constraint(k);
        }
        if rng.chance(1, 3) {
            c = c.with_default(if rng.chance(1, 4) { String::new() } else { name(rng) });
        }
        if rng.chance(1, 3) {
            c = c.with_max_length(*rng.pick(&[0u32, 1, 255, 256, 65535, 65536, u32::MAX]));
        }
        cols.push(c);
    }
    let colnames: Vec<String> = cols.iter().map(|c| c.name().to_string()).collect();
    let mut t = TableDef::new(id, format!("t{}", name(rng)), cols);
    if rng.chance(1, 2) {
        let n = 1 + rng.below(colnames.len() as u64) as usize;
        t = t.with_primary_key(colnames[..n].to_vec());
    }
    for j in 0..rng.below(3) {
        let n = 1 + rng.below(colnames.len() as u64) as usize;
        let defs: Vec<IndexColumnDef> = colnames[..n]
            .iter()
            .map(|c| IndexColumnDef::column(c.clone()).with_direction(if rng.chance(1, 3) { SortDirection::Desc } else { SortDirection::Asc }))
            .collect();
        let ix = IndexDef::new_expression(format!("ix{j}"), defs, rng.chance(1, 2), if rng.chance(1, 5) { IndexType::Hnsw } else { IndexType::BTree });
        t = t.with_index(ix);
    }
    if !wf_only {
        match force {
            Some("expr") => {
                t = t.with_index(IndexDef::new_expression("ixe", vec![IndexColumnDef::expression(format!("{} + 1", colnames[0]))], false, IndexType::BTree));
            }
            Some("partial") => {
                t = t.with_index(IndexDef::new("ixp", vec![colnames[0].clone()], false, IndexType::BTree).with_where_clause(format!("{} > 0", colnames[0])));
            }
            _ => {}
        }
    }
    if rng.chance(1, 3) {
        t = t.with_toast_id(*rng.pick(&[1u64, 255, 256, 1 << 32, u64::MAX]));
    }
    t
}

fn deser_canon(bytes: &[u8]) -> String {
    let b = bytes.to_vec();
    match guarded(move || {
        let mut c = Catalog::new();
        CatalogPersistence::deserialize(&b, &mut c).map(|_| canon(&c)).map_err(|e| format!("{e:#}"))
    }) {
        Ok(Ok(s)) => s,
        Ok(Err(_)) => "err".into(),
        Err(p) => format!("panic {p}"),
    }
}

fn drop_empty(canon_text: &str) -> String {
    // remove schemas without tables (the bytes of an empty schema are still present, the model shows
    // them; Catalog::new() always has root + turdb_catalog): compare on non-empty schemas only
    let inner = match canon_text.strip_prefix("ok [").and_then(|x| x.strip_suffix(']')) {
        Some(i) => i,
        None => return canon_text.to_string(),
    };
    let keep: Vec<String> = split_top(inner).into_iter().filter(|s| !s.ends_with(",[])")).collect();
    format!("ok [{}]", keep.join(","))
}

struct Pending {
    case: String,
    bytes: Vec<u8>,
    got: String,
    cuts: Vec<usize>,
    first_req: usize,
}

/// code side of one catalog: oracle on the implementation + the model requests (answered later in one batch)
fn check_catalog(rep: &mut Report, case: &str, cat: &Catalog, expect_loss: Option<&str>, truncations: bool, reqs: &mut Vec<String>, pend: &mut Vec<Pending>) {
    let want = canon(cat);
    let bytes = match CatalogPersistence::serialize(cat) {
        Ok(b) => b,
        Err(e) => {
            rep.oracle_fail(case.to_string(), format!("serialize failed: {e:#}"), "catalog-rt:serialize-error".into());
            return;
        }
    };
    rep.case(Some(&hex(&bytes)));
    // oracle on the code: round trip
    let got = deser_canon(&bytes);
    if drop_empty(&got) != drop_empty(&want) {
        let what = if want.contains("expr:") { "expression-index-column-lost" } else if want.contains("where:") { "partial-index-predicate-lost" } else { "differs" };
        rep.oracle_fail(case.to_string(), format!("deserialize(serialize(c)) != c: before {} after {}", drop_empty(&want).chars().take(400).collect::<String>(), drop_empty(&got).chars().take(400).collect::<String>()), format!("catalog-rt:{what}"));
    } else if let Some(l) = expect_loss {
        rep.notes.push(format!("expected loss `{l}` did not reproduce: {case}"));
        rep.count("catalog-rt:expected-loss-not-reproduced");
    }
    // correspondence with the model
    let first_req = reqs.len();
    reqs.push(format!("deser {}", hex(&bytes)));
    reqs.push(format!("reser {}", hex(&bytes)));
    let mut cuts = vec![];
    if truncations {
        let n = bytes.len();
        for k in 0..n {
            if k + 40 >= n || k % 11 == 0 || k < 16 {
                cuts.push(k);
            }
        }
        for &k in &cuts {
            reqs.push(format!("deser {}", hex(&bytes[..k])));
        }
    }
    pend.push(Pending { case: case.to_string(), bytes, got, cuts, first_req });
}

fn judge(rep: &mut Report, resp: &[String], p: &Pending) {
    let (case, bytes, got, cuts) = (&p.case, &p.bytes, &p.got, &p.cuts);
    let resp = &resp[p.first_req..];
    if drop_empty(&sort_model(&resp[0])) != drop_empty(got) {
        rep.disagree(case.to_string(), format!("model deser {} ; code deser {}", resp[0].chars().take(300).collect::<String>(), got.chars().take(300).collect::<String>()), "catalog-deser".into());
    }
    if resp[1] != format!("ok {}", hex(bytes)) {
        rep.disagree(case.to_string(), format!("model serialize(deserialize(bytes)) != bytes: {}", resp[1].chars().take(200).collect::<String>()), "catalog-reser".into());
    }
    for (i, &k) in cuts.iter().enumerate() {
        let code = deser_canon(&bytes[..k]);
        let model = sort_model(&resp[2 + i]);
        rep.case(None);
        rep.count(if code == "err" { "catalog-truncation:err" } else { "catalog-truncation:accepted" });
        if code.starts_with("panic") {
            rep.oracle_fail(format!("{case} cut={k}"), format!("deserialize panicked on a truncated buffer: {code}"), "catalog-rt:deserialize-panic".into());
        } else if drop_empty(&model) != drop_empty(&code) {
            rep.disagree(format!("{case} cut={k}"), format!("truncated to {k} bytes: model {} ; code {}", model.chars().take(200).collect::<String>(), code.chars().take(200).collect::<String>()), "catalog-deser-truncated".into());
        }
    }
}

fn build(seed: u64, force: Option<&str>) -> Catalog {
    let mut rng = Rng::new(seed);
    let mut cat = Catalog::new();
    let nt = 1 + rng.below(3);
    for i in 0..nt {
        let id = *rng.pick(&[1u64, 2, 3, 1000, u32::MAX as u64 + 7]) + i;
        let t = gen_table(&mut rng, id, force.is_none(), if i == 0 { force } else { None });
        let sch = if rng.chance(1, 5) { "turdb_catalog" } else { "root" };
        cat.get_schema_mut(sch).unwrap().add_table(t);
    }
    cat
}

fn check_file(ctx: &Ctx, rep: &mut Report, case: &str, path: &std::path::Path) {
    let bytes = match std::fs::read(path) {
        Ok(b) => b,
        Err(_) => return,
    };
    let p = path.to_path_buf();
    let code = match guarded(move || {
        let mut c = Catalog::new();
        CatalogPersistence::load(&p, &mut c).map(|_| canon(&c)).map_err(|e| format!("{e:#}"))
    }) {
        Ok(Ok(s)) => s,
        Ok(Err(_)) => "err".into(),
        Err(p) => format!("panic {p}"),
    };
    let resp = model_batch(&ctx.model_bin, "catalog", &[format!("load {}", hex(&bytes))]);
    rep.case(Some(&hex(&bytes)));
    rep.count("catalog-file:compared");
    if drop_empty(&sort_model(&resp[0])) != drop_empty(&code) {
        rep.disagree(case.to_string(), format!("turdb.catalog of a DDL history: model load {} ; code load {}", resp[0].chars().take(300).collect::<String>(), code.chars().take(300).collect::<String>()), "catalog-load".into());
    }
    // save → load round trip on the code
    let p2 = path.with_extension("resaved");
    let p1 = path.to_path_buf();
    let rt = guarded(move || {
        let mut c = Catalog::new();
        CatalogPersistence::load(&p1, &mut c).map_err(|e| format!("{e:#}"))?;
        CatalogPersistence::save(&c, &p2).map_err(|e| format!("{e:#}"))?;
        let mut d = Catalog::new();
        CatalogPersistence::load(&p2, &mut d).map_err(|e| format!("{e:#}"))?;
        Ok::<_, String>((canon(&c), canon(&d)))
    });
    match rt {
        Ok(Ok((a, b))) if a == b => {}
        Ok(Ok((a, b))) => rep.oracle_fail(case.to_string(), format!("load(save(c)) != c: {} vs {}", a.chars().take(300).collect::<String>(), b.chars().take(300).collect::<String>()), "catalog-rt:save-load-differs".into()),
        Ok(Err(_)) if code == "err" => {}
        Ok(Err(e)) => rep.oracle_fail(case.to_string(), format!("save/load failed: {e}"), "catalog-rt:save-load-error".into()),
        Err(p) => rep.oracle_fail(case.to_string(), format!("save/load panicked: {p}"), "catalog-rt:save-load-panic".into()),
    }
}

pub fn run(ctx: &Ctx, rep: &mut Report) {
    let mut rng = Rng::new(ctx.seed ^ 0xC40);
    let mut reqs: Vec<String> = vec![];
    let mut pend: Vec<Pending> = vec![];
    // replay / corpus lines
    for line in ctx.corpus_cases("C40") {
        let p: Vec<&str> = line.split_whitespace().collect();
        if p.len() >= 2 && p[0] == "catalog" {
            if let Ok(seed) = p[1].parse::<u64>() {
                let force = p.get(2).copied();
                let cat = build(seed, force);
                check_catalog(rep, &line, &cat, force, true, &mut reqs, &mut pend);
            }
        }
    }
    if ctx.replay.is_some() {
        let resp = model_batch(&ctx.model_bin, "catalog", &reqs);
        for p in &pend {
            judge(rep, &resp, p);
        }
        return;
    }
    // systematic layer: the two constructs the format cannot store (must reproduce every run)
    for (i, f) in ["expr", "partial"].iter().enumerate() {
        let cat = build(1000 + i as u64, Some(f));
        check_catalog(rep, &format!("catalog {} {}", 1000 + i, f), &cat, Some(f), false, &mut reqs, &mut pend);
    }
    let n = if ctx.thorough { 3000 } else { 150 };
    for i in 0..n {
        let seed = rng.next() % 1_000_000_000;
        let cat = build(seed, None);
        rep.count("catalog:generated");
        check_catalog(rep, &format!("catalog {seed}"), &cat, None, i % 10 == 0, &mut reqs, &mut pend);
        if i == 0 {
            rep.sample(format!("catalog {seed} -> {}", canon(&cat).chars().take(300).collect::<String>()));
        }
    }
    let resp = model_batch(&ctx.model_bin, "catalog", &reqs);
    for p in &pend {
        judge(rep, &resp, p);
    }
    // catalogs left on disk by DDL histories
    let nh = if ctx.thorough { 40 } else { 6 };
    for h in 0..nh {
        let case = super::crash::gen_case(&mut rng, "ddl-heavy", 12);
        let dir = format!("{}/catalog-hist-{}", ctx.scratch, h);
        let _ = std::fs::remove_dir_all(&dir);
        let d2 = dir.clone();
        let stmts: Vec<String> = case.setup.iter().chain(case.work.iter()).cloned().collect();
        let _ = guarded(move || {
            if let Ok(db) = turdb::Database::create(&d2) {
                for s in &stmts {
                    let _ = db.execute(s);
                }
            }
        });
        check_file(ctx, rep, &format!("catalogsql {}", case.setup.iter().chain(case.work.iter()).cloned().collect::<Vec<_>>().join(" ;; ")), &std::path::Path::new(&dir).join("turdb.catalog"));
        let _ = std::fs::remove_dir_all(&dir);
    }
}
