//! C13: bound parameters behave like the equivalent literals; bound text is never SQL.
//!
//! Part A (M-code correspondence, Lean family `lex`): the real `Lexer` (tokens + spans), the real
//! `value_to_sql_literal` and `substitute_parameters` (cfg-guarded `verif_*` wrappers) against
//! `TurVerif.Lex` on generated SQL-ish text, plus a token-level oracle evaluated on the real code only:
//! lexing the substituted statement gives the original token stream with each parameter token
//! replaced by exactly one literal token carrying the bound text.
//!
//! Part B (differential): statement templates with `?` / `$n` executed through three parameter
//! paths (`execute_with_params`, prepared `BoundStatement` first execution / `query`, prepared
//! statement executed repeatedly = cached plan) on table `pa…`, against `Database::execute` of the
//! statement with the literal inlined by the harness's own printer on the twin table `li…`;
//! result, full dump of both tables and the survival of table `users` are compared.
//!
//! case syntax (corpus / replay):  `lex <sqlhex>` | `lit <val>` | `subst <sqlhex> <val>*` |
//! `stmt <path> <template> <val>` with <val> as printed by `sqlgen_val::enc_val`.
use crate::common::*;
use crate::sqlgen_val::*;
use turdb::database::prepared::{verif_substitute_parameters, verif_value_to_sql_literal};
use turdb::sql::{Lexer, Parameter, Token};
use turdb::{Database, OwnedValue};

// ------------------------------------------------------------------ part A: lexer / literal / substitution

fn real_tokens(sql: &str) -> Result<Vec<(usize, usize, String, Option<String>)>, String> {
    let s = sql.to_string();
    guarded(move || {
        let mut lx = Lexer::new(&s);
        let mut out = vec![];
        loop {
            let t = lx.next_token();
            let sp = lx.span();
            let (body, strval): (String, Option<String>) = match &t {
                Token::Eof => break,
                Token::Keyword(_) | Token::Ident(_) => (format!("w:{}", hexs(s[sp.start()..sp.end()].as_bytes())), None),
                Token::Integer(x) => (format!("i:{}", hexs(x.as_bytes())), None),
                Token::Float(x) => (format!("f:{}", hexs(x.as_bytes())), None),
                Token::HexNumber(x) => (format!("h:{}", hexs(x.as_bytes())), None),
                Token::BinaryNumber(x) => (format!("b:{}", hexs(x.as_bytes())), None),
                Token::OctalNumber(x) => (format!("o:{}", hexs(x.as_bytes())), None),
                Token::String(x) => (format!("s:{}", hexs(x.as_bytes())), Some(x.to_string())),
                Token::QuotedIdent(x) => (format!("q:{}", hexs(x.as_bytes())), None),
                Token::Parameter(Parameter::Anonymous) => ("p:anon".into(), None),
                Token::Parameter(Parameter::Positional(n)) => (format!("p:pos{n}"), None),
                Token::Parameter(Parameter::Named(x)) => (format!("p:named{}", hexs(x.as_bytes())), None),
                Token::Error(m) => (format!("err:{}", m.replace(' ', "_")), None),
                other => (format!("op:{:?}", other), None),
            };
            out.push((sp.start(), sp.end(), body, strval));
            if out.len() > 2_000_000 {
                break;
            }
        }
        out
    })
}

fn real_lex_line(sql: &str) -> String {
    match real_tokens(sql) {
        Ok(v) => v.iter().map(|(s, e, b, _)| format!("{s}:{e}:{b}")).collect::<Vec<_>>().join(" "),
        Err(p) => format!("panic {p}"),
    }
}

const FRAGS: &[&str] = &[
    "SELECT", "select", "FROM", "t", "x", "X", "a_1", "_u", "WHERE", "e", "E1", "x1", "0", "1", "42", "007", "1.5", "1.", "1..2", ".5", ".", "..",
    "1e5", "1e+", "1E-3", "2e", "1.e3", ".5e-2", "0x1F", "0x", "0X", "0b101", "0b2", "0B", "0o17", "0o8", "00x1", "9223372036854775808",
    "'a'", "'it''s'", "''", "''''", "'a", "'?'", "'$1'", "'--'", "'/*'", "\"q\"", "\"a\"\"b\"", "\"open", "`b`", "`a``b`", "`open",
    "$1", "$2", "$0", "$007", "$4294967295", "$4294967296", "$99999999999999999999", "$$", "$$body ? $$", "$$a$b$$", "$t$ x ? $t$", "$t$ $u$ $t$", "$tag", "$t$open", "$ ", "$", "$-",
    ":name", ":n1", "::", ":=", ":", ": ", "@v", "@_x", "@>", "@", "@1", "?", "?|", "?&", "??", "? ",
    "-", "--", "-- c ?\n", "-- c", "->", "->>", "-->", "/", "/*", "/* c ? */", "/* a /* b */ c */", "/* open /* x */", "*/", "/**/", "/*/", "/*/*/",
    "+", "*", "%", "^", "&", "&&", "|", "||", "~", "#", "#>", "#>>", "=", "=>", "==", "<", "<=", "<=>", "<>", "<<", "<@", "<->", "<-", "<- >", "<#>", "<#", "<-1",
    ">", ">=", ">>", "!", "!=", "!!", "(", ")", "[", "]", "{", "}", ",", ";", " ", "  ", "\t", "\n", "\r\n", "é", "😀", "ß1", "x'ff'", "X'00AB'", "x'zz'", "x'ab", "x''", "x'a'", "X'", "\\", "\\'", "\u{0}", "'\u{0}'",
];

fn gen_lex_input(rng: &mut Rng) -> String {
    let n = 1 + rng.below(12) as usize;
    let mut s = String::new();
    for _ in 0..n {
        s.push_str(*rng.pick(FRAGS));
        if rng.chance(1, 3) {
            s.push(' ');
        }
    }
    s
}

const ADV_TEXT: &[&str] = &[
    "", "a", "it's", "'", "''", "'''", "a'b'c", "'); DROP TABLE users; --", "x' OR '1'='1", "--", "/* x */", "a;b", "back\\slash", "\\'", "\\", "nul\u{0}in", "\u{0}",
    "?", "$1", "? $2 :n @v", "😀", "é'😀", "\u{10FFFF}", "line\nbreak", "tab\t", "\"dq\"", "`bt`", "$$", "$t$x$t$", "x'ff'", "%_", "NULL", "TRUE", "1", "-1", "1e5", " lead", "trail ",
];

pub fn gen_text(rng: &mut Rng) -> String {
    match rng.below(10) {
        0..=4 => rng.pick(ADV_TEXT).to_string(),
        5..=6 => {
            let n = 1 + rng.below(4) as usize;
            (0..n).map(|_| *rng.pick(ADV_TEXT)).collect::<Vec<_>>().join("")
        }
        7 => {
            let n = rng.below(24) as usize;
            (0..n).map(|_| *rng.pick(&['a', 'Z', '\'', '\'', '-', '/', '*', ';', '\\', '?', '$', ' ', '\u{e9}', '\u{1F600}', '\u{0}', '"'])).collect()
        }
        8 => {
            // long (above the TOAST threshold), with quotes sprinkled in
            let n = 1001 + rng.below(3000) as usize;
            let mut s: String = (0..n).map(|i| if i % 97 == 13 { '\'' } else { (b'a' + (i % 26) as u8) as char }).collect();
            if rng.chance(1, 2) { s.push_str("😀"); }
            s
        }
        _ => {
            let n = 990 + rng.below(20) as usize;
            "q".repeat(n)
        }
    }
}

pub fn gen_value(rng: &mut Rng) -> OwnedValue {
    match rng.below(12) {
        0 => OwnedValue::Null,
        1 => OwnedValue::Bool(rng.chance(1, 2)),
        2 | 3 => OwnedValue::Int(*rng.pick(&[0i64, 1, -1, 7, 42, -42, 2147483647, 2147483648, -2147483648, -2147483649, i64::MAX, i64::MIN, i64::MIN + 1, 1000000007])),
        4 | 5 => OwnedValue::Float(*rng.pick(&[0.0f64, -0.0, 1.5, -2.25, 3.0, 1e15, 1e16, 1e17, 1e21, 1e308, -1e308, 5e-324, 1e-7, 0.1, 123456789.125, f64::NAN, f64::INFINITY, f64::NEG_INFINITY, 9.3e18, 1e19])),
        6..=8 => OwnedValue::Text(gen_text(rng)),
        9 => {
            let n = *rng.pick(&[0usize, 1, 2, 16, 17, 18, 999, 1000, 1001, 1500]);
            let mut b = rng.bytes(n);
            // a 17-byte blob starting with 0xFE is read back as a TOAST pointer (known finding); keep its
            // total_size field small: a random one makes detoast_value call Vec::with_capacity(garbage)
            // and the allocation failure aborts the whole process (cannot be caught in-process)
            if n == 17 && rng.chance(1, 2) { b[0] = 0xFE; for k in 3..9 { b[k] = 0; } b[2] &= 0x1f; }
            if rng.chance(1, 3) { b = b.iter().map(|x| b'a' + x % 26).collect(); }
            OwnedValue::Blob(b)
        }
        10 => rng.pick(&[OwnedValue::Date(0), OwnedValue::Date(19782), OwnedValue::Time(0), OwnedValue::Time(86_399_999_999), OwnedValue::Timestamp(0), OwnedValue::Timestamp(1_700_000_000_123_456)]).clone(),
        _ => {
            let mut u = [0u8; 16];
            for x in u.iter_mut() { *x = rng.next() as u8; }
            OwnedValue::Uuid(u)
        }
    }
    .clone()
}

// ------------------------------------------------------------------ part B: differential statements

const DDL_COLS: &str = "(id BIGINT PRIMARY KEY, i BIGINT, f DOUBLE PRECISION, s TEXT, b BLOB, o BOOLEAN)";
const DDL_COLS2: &str = "(id BIGINT PRIMARY KEY, d DATE, t TIME, ts TIMESTAMP, u UUID)";

/// column that holds values of the probe's kind, and whether the second table shape is used
fn col_of(v: &OwnedValue) -> (&'static str, bool) {
    match v {
        OwnedValue::Null => ("s", false),
        OwnedValue::Bool(_) => ("o", false),
        OwnedValue::Int(_) => ("i", false),
        OwnedValue::Float(_) => ("f", false),
        OwnedValue::Text(_) => ("s", false),
        OwnedValue::Blob(_) => ("b", false),
        OwnedValue::Date(_) => ("d", true),
        OwnedValue::Time(_) => ("t", true),
        OwnedValue::Timestamp(_) => ("ts", true),
        OwnedValue::Uuid(_) => ("u", true),
        _ => ("s", false),
    }
}

#[derive(Clone, Copy, PartialEq)]
enum Slot {
    Probe,
    NewId(i64),
    Lit(i64),
}

struct Tmpl {
    id: &'static str,
    sql: &'static str,
    slots: &'static [Slot],
    /// only for the first table shape (mentions columns i/s/...)
    main_only: bool,
    select: bool,
}

use Slot::*;
const TEMPLATES: &[Tmpl] = &[
    Tmpl { id: "ins-cols", sql: "INSERT INTO {T} (id, {C}) VALUES (?, ?)", slots: &[NewId(100), Probe], main_only: false, select: false },
    Tmpl { id: "ins-cols-rev", sql: "INSERT INTO {T} ({C}, id) VALUES (?, ?)", slots: &[Probe, NewId(100)], main_only: false, select: false },
    Tmpl { id: "ins-pos-rev", sql: "INSERT INTO {T} (id, {C}) VALUES ($2, $1)", slots: &[Probe, NewId(100)], main_only: false, select: false },
    Tmpl { id: "ins-pos-rep", sql: "INSERT INTO {T} (id, i, {C2}) VALUES ($1, $1, $2)", slots: &[NewId(100), Probe], main_only: true, select: false },
    Tmpl { id: "ins-multi", sql: "INSERT INTO {T} (id, {C}) VALUES (?, ?), (?, ?)", slots: &[NewId(100), Probe, NewId(200), Probe], main_only: false, select: false },
    Tmpl { id: "ins-mixed", sql: "INSERT INTO {T} (id, {C}, o) VALUES (?, ?, TRUE)", slots: &[NewId(100), Probe], main_only: true, select: false },
    Tmpl { id: "upd-pk", sql: "UPDATE {T} SET {C} = ? WHERE id = ?", slots: &[Probe, Lit(2)], main_only: false, select: false },
    Tmpl { id: "upd-pk-pos", sql: "UPDATE {T} SET {C} = $2 WHERE id = $1", slots: &[Lit(2), Probe], main_only: false, select: false },
    Tmpl { id: "upd-two", sql: "UPDATE {T} SET o = ?, {C2} = ? WHERE id = ?", slots: &[Lit(1), Probe, Lit(1)], main_only: true, select: false },
    Tmpl { id: "upd-expr-pk", sql: "UPDATE {T} SET i = ? + 1 WHERE id = ?", slots: &[Lit(2), Lit(3)], main_only: true, select: false },
    Tmpl { id: "upd-expr2-pk", sql: "UPDATE {T} SET i = ? * ? WHERE id = ?", slots: &[Lit(1), Lit(2), Lit(3)], main_only: true, select: false },
    Tmpl { id: "upd-exprmix-pk", sql: "UPDATE {T} SET i = 1 + ?, {C2} = ? WHERE id = ?", slots: &[Lit(2), Probe, Lit(3)], main_only: true, select: false },
    Tmpl { id: "upd-range", sql: "UPDATE {T} SET {C} = ? WHERE id > ?", slots: &[Probe, Lit(1)], main_only: false, select: false },
    Tmpl { id: "upd-where", sql: "UPDATE {T} SET {C4} = NULL WHERE {C} = ?", slots: &[Probe], main_only: false, select: false },
    Tmpl { id: "upd-strlit", sql: "UPDATE {T} SET s = '$1 ?', {C3} = ? /* ? */ WHERE id = ? -- $2", slots: &[Probe, Lit(2)], main_only: true, select: false },
    Tmpl { id: "del-where", sql: "DELETE FROM {T} WHERE {C} = ?", slots: &[Probe], main_only: false, select: false },
    Tmpl { id: "del-and", sql: "DELETE FROM {T} WHERE id > ? AND {C} = ?", slots: &[Lit(0), Probe], main_only: false, select: false },
    Tmpl { id: "sel-where", sql: "SELECT id, {C} FROM {T} WHERE {C} = ?", slots: &[Probe], main_only: false, select: true },
    Tmpl { id: "sel-pos-rep", sql: "SELECT id FROM {T} WHERE {C} = $1 OR {C} = $1", slots: &[Probe], main_only: false, select: true },
    Tmpl { id: "sel-proj", sql: "SELECT id, ? FROM {T} WHERE id > 0", slots: &[Probe], main_only: false, select: true },
    Tmpl { id: "sel-strlit", sql: "SELECT id FROM {T} WHERE s = '?' OR {C} = ? -- is it ?", slots: &[Probe], main_only: true, select: true },
    Tmpl { id: "sel-comment", sql: "SELECT id FROM {T} /* $1 ? */ WHERE {C} = ? AND id > ?", slots: &[Probe, Lit(0)], main_only: false, select: true },
];

const PATHS: &[&str] = &["ewp", "prep", "prepx", "cached"];

fn instantiate(t: &Tmpl, table: &str, col: &str) -> String {
    // {C2}: the probe column, but never `i` (the template also assigns i); {C3}: never `s`
    let c2 = if col == "i" { "f" } else { col };
    let c3 = if col == "s" { "b" } else { col };
    // {C4}: some column other than the probe column
    let c4 = match col { "i" => "o", "d" => "t", "t" | "ts" | "u" => "d", _ => "i" };
    t.sql.replace("{T}", table).replace("{C2}", c2).replace("{C3}", c3).replace("{C4}", c4).replace("{C}", col)
}

/// the statement with every placeholder replaced by the harness's literal (own tokenizer-free
/// splice: the templates are fixed strings whose placeholders are found by scanning outside
/// quotes and comments)
fn inline(sql: &str, params: &[OwnedValue]) -> Option<String> {
    let b = sql.as_bytes();
    let mut out = String::new();
    let mut i = 0;
    let mut anon = 0usize;
    while i < b.len() {
        let c = b[i];
        if c == b'\'' {
            let j = i + 1 + sql[i + 1..].find('\'')?;
            out.push_str(&sql[i..=j]);
            i = j + 1;
        } else if c == b'-' && b.get(i + 1) == Some(&b'-') {
            let j = sql[i..].find('\n').map(|k| i + k).unwrap_or(b.len());
            out.push_str(&sql[i..j]);
            i = j;
        } else if c == b'/' && b.get(i + 1) == Some(&b'*') {
            let j = i + 2 + sql[i + 2..].find("*/")? + 2;
            out.push_str(&sql[i..j]);
            i = j;
        } else if c == b'?' {
            out.push_str(&literal_of(params.get(anon)?)?);
            anon += 1;
            i += 1;
        } else if c == b'$' {
            let mut j = i + 1;
            while j < b.len() && b[j].is_ascii_digit() { j += 1; }
            let n: usize = sql[i + 1..j].parse().ok()?;
            out.push_str(&literal_of(params.get(n.checked_sub(1)?)?)?);
            i = j;
        } else {
            out.push(c as char);
            i += 1;
        }
    }
    Some(out)
}

fn params_for(t: &Tmpl, probe: &OwnedValue, id_shift: i64) -> Vec<OwnedValue> {
    t.slots.iter().map(|s| match s {
        Probe => probe.clone(),
        NewId(n) => OwnedValue::Int(*n + id_shift),
        Lit(n) => OwnedValue::Int(*n),
    }).collect()
}

fn run_bound(db: &Database, path: &str, sql: &str, sets: &[Vec<OwnedValue>], select: bool) -> Vec<Res> {
    let mut out = vec![];
    match path {
        "ewp" => {
            for p in sets {
                let (s, p2) = (sql.to_string(), p.clone());
                out.push(res_of(guarded(std::panic::AssertUnwindSafe(move || db.execute_with_params(&s, &p2)))));
            }
        }
        _ => {
            let s = sql.to_string();
            let prepared = match guarded(std::panic::AssertUnwindSafe(move || db.prepare(&s))) {
                Ok(Ok(p)) => p,
                Ok(Err(e)) => return sets.iter().map(|_| Res::Err(format!("prepare: {e:#}"))).collect(),
                Err(p) => return sets.iter().map(|_| Res::Panic(format!("prepare: {p}"))).collect(),
            };
            for p in sets {
                let pr = &prepared;
                let p2 = p.clone();
                let use_query = select && path != "prepx";
                let r = guarded(std::panic::AssertUnwindSafe(move || {
                    let mut it = p2.into_iter();
                    let mut b = pr.bind(it.next().unwrap());
                    for v in it { b = b.bind(v); }
                    if use_query {
                        b.query(db).map(|rows| turdb::ExecuteResult::Select { columns: vec![], rows })
                    } else {
                        b.execute(db)
                    }
                }));
                out.push(res_of(r));
            }
        }
    }
    out
}

struct Pair {
    dbd: DbDir,
    tables_made: usize,
    /// append-only twin tables (INSERT / SELECT templates): (suffix, cases run on them)
    ao: Option<(usize, usize)>,
    serial: i64,
}

fn base_rows(table: &str, second: bool) -> Vec<String> {
    if second {
        vec![
            format!("CREATE TABLE {table} {DDL_COLS2}"),
            format!("INSERT INTO {table} VALUES (1, '2001-02-03', '04:05:06', '2001-02-03 04:05:06', '00112233-4455-6677-8899-aabbccddeeff')"),
            format!("INSERT INTO {table} VALUES (2, '1999-12-31', '23:59:59', '1999-12-31 23:59:59', 'ffffffff-ffff-ffff-ffff-ffffffffffff')"),
            format!("INSERT INTO {table} VALUES (3, NULL, NULL, NULL, NULL)"),
        ]
    } else {
        vec![
            format!("CREATE TABLE {table} {DDL_COLS}"),
            format!("INSERT INTO {table} VALUES (1, 10, 1.5, 'one', X'01', TRUE)"),
            format!("INSERT INTO {table} VALUES (2, 20, 2.5, 'two', X'0202', FALSE)"),
            format!("INSERT INTO {table} VALUES (3, NULL, NULL, NULL, NULL, NULL)"),
        ]
    }
}

fn fresh_pair(ctx: &Ctx) -> Pair {
    let dbd = DbDir::create(ctx, "c13");
    let db = dbd.db();
    let _ = exec(db, "CREATE TABLE users (id BIGINT PRIMARY KEY, name TEXT)");
    let _ = exec(db, "INSERT INTO users VALUES (1, 'root')");
    Pair { dbd, tables_made: 0, ao: None, serial: 0 }
}

/// Twin tables for one case.  UPDATE / DELETE templates get freshly created tables (the engine's
/// DELETE/UPDATE leave duplicate and resurrected rows behind — other properties' defects — so
/// tables are never reused after them); INSERT / SELECT templates share append-only twins for up
/// to 60 cases (file creation dominates the run time), renewed after any divergence.
fn run_stmt_case(ctx: &Ctx, rep: &mut Report, pair: &mut Option<Pair>, path: &str, t: &Tmpl, probe: &OwnedValue) {
    let (col, second) = col_of(probe);
    if second && t.main_only { return; }
    if literal_of(probe).is_none() { return; }
    let case = format!("stmt {path} {} {}", t.id, enc_val(probe));
    let mutating = t.id.starts_with("upd") || t.id.starts_with("del");
    if pair.as_ref().map(|p| p.tables_made >= 60).unwrap_or(true) {
        *pair = None;
        *pair = Some(fresh_pair(ctx));
        rep.count("fresh-database");
    }
    let p = pair.as_mut().unwrap();
    p.serial += 1;
    let shift = p.serial * 1000;
    let db = p.dbd.db();
    let (ta, tb): (String, String);
    if mutating {
        p.tables_made += 2;
        ta = format!("ua{}", p.tables_made);
        tb = format!("ul{}", p.tables_made);
        for s in base_rows(&ta, second) { let _ = exec(db, &s); }
        for s in base_rows(&tb, second) { let _ = exec(db, &s); }
    } else {
        if p.ao.map(|(_, used)| used >= 80).unwrap_or(true) {
            p.tables_made += 4;
            let k = p.tables_made;
            for (n, sec) in [(format!("pa{k}"), false), (format!("li{k}"), false), (format!("pd{k}"), true), (format!("ld{k}"), true)] {
                for s in base_rows(&n, sec) { let _ = exec(db, &s); }
            }
            p.ao = Some((k, 0));
        }
        let (k, used) = p.ao.unwrap();
        p.ao = Some((k, used + 1));
        ta = if second { format!("pd{k}") } else { format!("pa{k}") };
        tb = if second { format!("ld{k}") } else { format!("li{k}") };
    }
    // a row that already holds the probe value, so that `WHERE col = ?` can match
    if let Some(l) = literal_of(probe) {
        if !matches!(probe, OwnedValue::Null) {
            for tt in [&ta, &tb] { let _ = exec(db, &format!("INSERT INTO {tt} (id, {col}) VALUES ({}, {l})", shift + 4)); }
        }
    }
    let (d0a, d0b) = (dump(db, &ta), dump(db, &tb));
    if !d0a.same(&d0b) || !matches!(d0a, Res::Rows(_)) {
        rep.count("setup-diverged");
        p.ao = None;
        return;
    }
    // parameter sets: one, or (cached) a benign warm-up execution followed by the probe
    let warm = match probe {
        OwnedValue::Text(_) => OwnedValue::Text("w".into()),
        OwnedValue::Blob(_) => OwnedValue::Blob(vec![9]),
        OwnedValue::Float(_) => OwnedValue::Float(0.5),
        OwnedValue::Int(_) => OwnedValue::Int(5),
        other => other.clone(),
    };
    let sets: Vec<Vec<OwnedValue>> = if path == "cached" {
        vec![params_for(t, &warm, shift), params_for(t, probe, shift + 300)]
    } else {
        vec![params_for(t, probe, shift)]
    };
    let sql_a = instantiate(t, &ta, col);
    let sql_b = instantiate(t, &tb, col);
    let ra = run_bound(db, path, &sql_a, &sets, t.select);
    let mut rb = vec![];
    for s in &sets {
        match inline(&sql_b, s) {
            Some(l) => rb.push(exec(db, &l)),
            None => rb.push(Res::Other("no-literal".into())),
        }
    }
    let (da, dbb) = (dump(db, &ta), dump(db, &tb));
    let users = exec(db, "SELECT id FROM users WHERE id > 0");
    let kind = kind_of(probe);
    let flags = flags_of(probe);
    rep.case(Some(&case));
    rep.count(&format!("stmt:{path}"));
    rep.count(&format!("kind:{kind}"));
    let mut diverged = false;
    for (k, (a, b)) in ra.iter().zip(rb.iter()).enumerate() {
        if !a.same(b) {
            diverged = true;
            let what = if a.class() != b.class() { format!("{}-vs-{}", a.class(), b.class()) } else { format!("{}-differ", a.class()) };
            let which = if path == "cached" { format!("exec{}:", k + 1) } else { String::new() };
            rep.oracle_fail(case.clone(), format!("bound [{}] => {} ; inlined literal [{}] => {}", sql_a, a.show(), inline(&sql_b, &sets[k]).map(|s| short(&s)).unwrap_or_default(), b.show()),
                format!("param:{path}:{}:{kind}:{flags}:{which}result:{what}", t.id));
        }
    }
    if !da.same(&dbb) {
        diverged = true;
        rep.oracle_fail(case.clone(), format!("post-state differs after [{}]: bound table {} ; literal table {}", sql_a, da.show(), dbb.show()),
            format!("param:{path}:{}:{kind}:{flags}:state", t.id));
    }
    match users {
        Res::Rows(r) if r.len() == 1 => {}
        other => {
            diverged = true;
            rep.oracle_fail(case.clone(), format!("table users damaged after [{}]: {}", sql_a, other.show()), format!("param:{path}:{}:{kind}:{flags}:users-table", t.id));
        }
    }
    if ra.iter().all(|r| matches!(r, Res::Err(_))) { rep.count("stmt-both-or-bound-error"); }
    if diverged {
        rep.count("stmt-diverged");
    }
    if !mutating && !da.same(&dbb) {
        // bring the append-only twins back to the same state (rows missing on one side are inserted
        // with literals); new twins only if that does not work
        let ok = repair(db, &ta, &tb);
        rep.count(if ok { "twins-repaired" } else { "twins-renewed" });
        if !ok { if let Some(p) = pair.as_mut() { p.ao = None; } }
    }
    if ra.iter().chain(rb.iter()).any(|r| matches!(r, Res::Panic(_))) {
        *pair = None; // fresh database after a panic inside the engine
    }
}

fn dump_vals(db: &Database, table: &str) -> Option<Vec<Vec<OwnedValue>>> {
    let sql = format!("SELECT * FROM {table}");
    match guarded(std::panic::AssertUnwindSafe(move || db.query(&sql))) {
        Ok(Ok(rows)) => Some(rows.into_iter().map(|r| r.values).collect()),
        _ => None,
    }
}

fn repair(db: &Database, ta: &str, tb: &str) -> bool {
    let (Some(a), Some(b)) = (dump_vals(db, ta), dump_vals(db, tb)) else { return false };
    let key = |r: &Vec<OwnedValue>| r.iter().map(vcell).collect::<Vec<_>>().join(",");
    let ka: std::collections::HashSet<String> = a.iter().map(key).collect();
    let kb: std::collections::HashSet<String> = b.iter().map(key).collect();
    for (rows, have, target) in [(&b, &ka, ta), (&a, &kb, tb)] {
        for r in rows.iter() {
            if have.contains(&key(r)) { continue; }
            let lits: Option<Vec<String>> = r.iter().map(literal_of).collect();
            let Some(lits) = lits else { return false };
            if !matches!(exec(db, &format!("INSERT INTO {target} VALUES ({})", lits.join(", "))), Res::Affected(1)) { return false; }
        }
    }
    dump(db, ta).same(&dump(db, tb))
}

/// token-level injection-freedom oracle on the real code
fn token_oracle(rep: &mut Report, sql: &str, params: &[OwnedValue]) {
    let case = format!("subst {} {}", hexs(sql.as_bytes()), params.iter().map(enc_val).collect::<Vec<_>>().join(" "));
    let (s2, p2) = (sql.to_string(), params.to_vec());
    let out = match guarded(move || verif_substitute_parameters(&s2, &p2).map_err(|e| e.to_string())) {
        Ok(Ok(o)) => o,
        Ok(Err(_)) => return,
        Err(p) => { rep.oracle_fail(case, format!("substitute_parameters panicked: {p}"), "subst:panic".into()); return; }
    };
    let (Ok(before), Ok(after)) = (real_tokens(sql), real_tokens(&out)) else { return };
    // expected: same token bodies, parameter tokens replaced by one string token whose un-escaped
    // content is the bound text
    let mut anon = 0usize;
    let mut ok = before.len() == after.len();
    if ok {
        for (b, a) in before.iter().zip(after.iter()) {
            if let Some(rest) = b.2.strip_prefix("p:") {
                let idx = if rest == "anon" || rest.starts_with("named") { anon += 1; anon - 1 } else { rest[3..].parse::<usize>().unwrap_or(1).saturating_sub(1) };
                match (&params[idx], &a.3) {
                    (OwnedValue::Text(t), Some(raw)) => { if &raw.replace("''", "'") != t { ok = false; } }
                    _ => { ok = false; }
                }
            } else if b.2 != a.2 {
                ok = false;
            }
        }
    }
    if !ok {
        let fl = params.iter().map(flags_of).collect::<Vec<_>>().join(",");
        rep.oracle_fail(case, format!("token stream changed by substitution: [{}] -> [{}]", short(sql), short(&out)), format!("subst:token-structure:{fl}"));
    }
}

pub fn run(ctx: &Ctx) -> Report {
    let mut rep = Report::new(
        "sql_params",
        "A: SQL-ish strings built from ~190 lexer-boundary fragments (every operator, number form, quote/dollar/comment form, parameter form, unterminated forms, multi-byte text), all bound value kinds for value_to_sql_literal, substitution of 0..4 values into such strings; non-trivial = distinct input. \
         B: 19 statement templates (INSERT/UPDATE/DELETE/SELECT; ?, $n, repeated $1, reordered columns, placeholders inside string literals and comments) x 4 parameter paths (execute_with_params, prepared first execution / query, prepared execute for SELECT, repeated execution = cached plan) x probe values (every bindable kind; text with quotes, --, /*, ;, backslash, NUL, 4-byte code points, ?/$1, > TOAST threshold); oracle: result, full dump and table `users` equal to Database::execute of the statement with the harness-printed literal on a twin table. Every template x kind x path is run systematically each run (fixed representative values), random values on top; non-trivial = distinct (path, template, value)",
    );
    let mut rng = Rng::new(ctx.seed);
    let corpus = ctx.corpus_cases("C13");
    let t_start = std::time::Instant::now();

    // ---------------- A1: lexer
    let mut lex_inputs: Vec<String> = vec![];
    for f in FRAGS { lex_inputs.push(f.to_string()); }
    for a in FRAGS.iter().step_by(3) { for b in FRAGS.iter().step_by(5) { lex_inputs.push(format!("{a}{b}")); } }
    for t in TEMPLATES { lex_inputs.push(instantiate(t, "tbl", "s")); }
    for t in ADV_TEXT { lex_inputs.push(quote_text(t)); lex_inputs.push(format!("SELECT {} , 1", quote_text(t))); }
    let nlex = if ctx.thorough { 200_000 } else { 20_000 };
    for _ in 0..nlex { lex_inputs.push(gen_lex_input(&mut rng)); }
    for _ in 0..300 { let t = gen_text(&mut rng); lex_inputs.push(format!("INSERT INTO t VALUES ({}, {})", quote_text(&t), quote_text(&gen_text(&mut rng)))); }
    for c in &corpus { if let Some(h) = c.strip_prefix("lex ") { if let Ok(s) = String::from_utf8(unhex(h.trim())) { lex_inputs.push(s); } } }
    let reqs: Vec<String> = lex_inputs.iter().map(|s| format!("lex {}", hexs(s.as_bytes()))).collect();
    let resp = model_batch(&ctx.model_bin, "lex", &reqs);
    for (i, s) in lex_inputs.iter().enumerate() {
        let real = real_lex_line(s);
        rep.case(Some(&reqs[i]));
        rep.count("A:lex");
        if i % 4001 == 0 { rep.sample(format!("lex {:?} -> {}", short(s), short(&real))); }
        if real.starts_with("panic") {
            rep.oracle_fail(reqs[i].clone(), format!("lexer panicked on {:?}: {real}", short(s)), "lex:panic".into());
        }
        if real != resp[i] {
            rep.disagree(reqs[i].clone(), format!("input {:?}: impl={} model={}", short(s), short(&real), short(&resp[i])), "lex-differs".into());
        }
        // oracle on the code: spans are increasing, inside the input, tokens never overlap
        if let Ok(toks) = real_tokens(s) {
            let mut last = 0usize;
            for (st, en, _, _) in &toks {
                if *st < last || en < st || *en > s.len() { rep.oracle_fail(reqs[i].clone(), format!("token span {st}..{en} after {last}"), "lex:span-order".into()); break; }
                last = *en;
            }
        }
    }

    // ---------------- A2: literal printing + quoting oracle
    let mut vals: Vec<OwnedValue> = vec![];
    for t in ADV_TEXT { vals.push(OwnedValue::Text(t.to_string())); }
    for _ in 0..(if ctx.thorough { 20_000 } else { 3_000 }) { vals.push(gen_value(&mut rng)); }
    for c in &corpus { if let Some(v) = c.strip_prefix("lit ") { if let Some(v) = dec_val(v.trim()) { vals.push(v); } } }
    let vals: Vec<OwnedValue> = vals.into_iter().filter(|v| pval_of(v).is_some()).collect();
    let reqs: Vec<String> = vals.iter().map(|v| format!("lit {}", pval_of(v).unwrap())).collect();
    let resp = model_batch(&ctx.model_bin, "lex", &reqs);
    for (i, v) in vals.iter().enumerate() {
        let case = format!("lit {}", enc_val(v));
        let v2 = v.clone();
        let real = guarded(move || verif_value_to_sql_literal(&v2));
        rep.case(Some(&case));
        rep.count("A:lit");
        match real {
            Err(p) => rep.oracle_fail(case, format!("value_to_sql_literal panicked: {p}"), "lit:panic".into()),
            Ok(l) => {
                let h = hexs(l.as_bytes());
                if h != resp[i] { rep.disagree(case.clone(), format!("impl={} model={}", short(&h), short(&resp[i])), "lit-differs".into()); }
                // oracle on the code: a text literal followed by arbitrary SQL is exactly one string token with the text
                if let OwnedValue::Text(t) = v {
                    let sql = format!("{l} , 1;DROP");
                    let ok = match real_tokens(&sql) {
                        Ok(toks) => toks.len() == 5 && toks[0].3.as_ref().map(|r| &r.replace("''", "'") == t).unwrap_or(false) && toks[0].1 == l.len(),
                        Err(_) => false,
                    };
                    if !ok { rep.oracle_fail(case, format!("quoted text is not one string token: {}", short(&l)), format!("lit:text-not-one-token:{}", flags_of(v))); }
                }
            }
        }
    }

    // ---------------- A3: substitute_parameters + count_parameters
    let mut subs: Vec<(String, Vec<OwnedValue>)> = vec![];
    for t in TEMPLATES {
        for txt in ADV_TEXT.iter().step_by(2) {
            let p = params_for(t, &OwnedValue::Text(txt.to_string()), 0);
            subs.push((instantiate(t, "tbl", "s"), p));
        }
    }
    let nsub = if ctx.thorough { 60_000 } else { 8_000 };
    for k in 0..nsub {
        let sql = if k % 3 == 0 { instantiate(rng.pick(TEMPLATES), "tbl", "s") } else { gen_lex_input(&mut rng) };
        let np = rng.below(5) as usize;
        let ps: Vec<OwnedValue> = (0..np).map(|_| gen_value(&mut rng)).filter(|v| pval_of(v).is_some()).collect();
        subs.push((sql, ps));
    }
    for c in &corpus {
        if let Some(r) = c.strip_prefix("subst ") {
            let mut it = r.split_whitespace();
            if let Some(Ok(sql)) = it.next().map(|h| String::from_utf8(unhex(h))) {
                let ps: Vec<OwnedValue> = it.filter_map(dec_val).collect();
                subs.push((sql, ps));
            }
        }
    }
    let mut reqs: Vec<String> = vec![];
    for (sql, ps) in &subs {
        reqs.push(format!("subst {} {}", hexs(sql.as_bytes()), ps.iter().map(|v| pval_of(v).unwrap()).collect::<Vec<_>>().join(" ")).trim_end().to_string());
        reqs.push(format!("count {}", hexs(sql.as_bytes())));
    }
    let resp = model_batch(&ctx.model_bin, "lex", &reqs);
    for (i, (sql, ps)) in subs.iter().enumerate() {
        let case = format!("subst {} {}", hexs(sql.as_bytes()), ps.iter().map(enc_val).collect::<Vec<_>>().join(" "));
        rep.case(Some(&case));
        rep.count("A:subst");
        let (s2, p2) = (sql.clone(), ps.clone());
        let real = match guarded(move || verif_substitute_parameters(&s2, &p2).map_err(|e| e.to_string())) {
            Ok(Ok(o)) => format!("ok {}", hexs(o.as_bytes())),
            Ok(Err(_)) => "range".to_string(),
            Err(p) => format!("panic {p}"),
        };
        if real.starts_with("ok") { rep.count("A:subst-ok"); } else { rep.count("A:subst-range"); }
        if real != resp[2 * i] {
            rep.disagree(case.clone(), format!("sql {:?}: impl={} model={}", short(sql), short(&real), short(&resp[2 * i])), "subst-differs".into());
        }
        let s3 = sql.clone();
        let cnt = guarded(move || turdb::database::prepared::count_parameters(&s3)).map(|n| n.to_string()).unwrap_or_else(|p| format!("panic {p}"));
        if cnt != resp[2 * i + 1] {
            rep.disagree(format!("count {}", hexs(sql.as_bytes())), format!("sql {:?}: impl={} model={}", short(sql), cnt, resp[2 * i + 1]), "count-differs".into());
        }
        if i % 1501 == 0 { rep.sample(format!("subst {:?} {:?} -> {}", short(sql), ps.iter().map(enc_val).map(|s| short(&s)).collect::<Vec<_>>(), short(&real))); }
    }
    // token-level oracle: templates x adversarial text (all parameters text)
    for t in TEMPLATES {
        let n = t.slots.len();
        for _ in 0..(if ctx.thorough { 400 } else { 60 }) {
            let ps: Vec<OwnedValue> = (0..n).map(|_| OwnedValue::Text(gen_text(&mut rng))).collect();
            rep.case(None);
            rep.count("A:token-oracle");
            token_oracle(&mut rep, &instantiate(t, "tbl", "s"), &ps);
        }
    }

    rep.notes.push(format!("part A took {:?}", t_start.elapsed()));
    // ---------------- B: differential statements
    let mut pair: Option<Pair> = None;
    for c in &corpus {
        if let Some(r) = c.strip_prefix("stmt ") {
            let p: Vec<&str> = r.split_whitespace().collect();
            if p.len() == 3 {
                if let (Some(t), Some(v)) = (TEMPLATES.iter().find(|t| t.id == p[1]), dec_val(p[2])) {
                    if PATHS.contains(&p[0]) { run_stmt_case(ctx, &mut rep, &mut pair, p[0], t, &v); }
                }
            }
        }
    }
    // systematic layer: fixed representatives of every kind/flag class
    let mut uu = [0u8; 16];
    for (i, x) in uu.iter_mut().enumerate() { *x = (i * 17) as u8; }
    let long_text: String = (0..1500).map(|i| if i % 97 == 13 { '\'' } else { (b'a' + (i % 26) as u8) as char }).collect();
    let reps: Vec<OwnedValue> = vec![
        OwnedValue::Null, OwnedValue::Bool(true), OwnedValue::Bool(false),
        OwnedValue::Int(7), OwnedValue::Int(-7), OwnedValue::Int(20), OwnedValue::Int(3_000_000_000), OwnedValue::Int(i64::MAX), OwnedValue::Int(i64::MIN),
        OwnedValue::Float(2.5), OwnedValue::Float(3.0), OwnedValue::Float(-0.0), OwnedValue::Float(1e19), OwnedValue::Float(1e-7), OwnedValue::Float(0.1),
        OwnedValue::Text("two".into()), OwnedValue::Text("".into()), OwnedValue::Text("it's".into()), OwnedValue::Text("'); DROP TABLE users; --".into()),
        OwnedValue::Text("a /* b */ -- c".into()), OwnedValue::Text("semi;colon".into()), OwnedValue::Text("back\\slash\\'".into()), OwnedValue::Text("nul\u{0}x".into()),
        OwnedValue::Text("😀 é".into()), OwnedValue::Text("? $1 :n".into()), OwnedValue::Text(long_text.clone()),
        OwnedValue::Blob(vec![2, 2]), OwnedValue::Blob(vec![]), OwnedValue::Blob(vec![0xff; 1200]), OwnedValue::Blob(b"utf8 text in a blob".to_vec()),
        OwnedValue::Date(11356), OwnedValue::Time(14_706_000_000), OwnedValue::Timestamp(981_173_106_000_000), OwnedValue::Uuid(uu),
    ];
    // UPDATE / DELETE templates need freshly created tables (slow): they get one representative per
    // kind / decisive flag class, the other templates get all of them
    let core: [usize; 15] = [0, 1, 3, 6, 8, 9, 10, 15, 17, 18, 25, 26, 28, 30, 33];
    for (vi, v) in reps.iter().enumerate() {
        for t in TEMPLATES {
            let mutating = t.id.starts_with("upd") || t.id.starts_with("del");
            if mutating && !core.contains(&vi) && !ctx.thorough { continue; }
            for path in PATHS {
                if *path == "prepx" && !t.select { continue; }
                run_stmt_case(ctx, &mut rep, &mut pair, path, t, v);
            }
        }
    }
    rep.notes.push(format!("systematic layer done at {:?}", t_start.elapsed()));
    // random layer
    let nrand = if ctx.thorough { 12_000 } else { 900 };
    let mut done_rand = 0;
    for _ in 0..nrand {
        // the random layer is bounded by wall time (table creation is very slow on a loaded machine)
        if !ctx.thorough && t_start.elapsed().as_secs() > 150 { break; }
        done_rand += 1;
        let v = gen_value(&mut rng);
        let mut t = rng.pick(TEMPLATES);
        if (t.id.starts_with("upd") || t.id.starts_with("del")) && rng.chance(1, 2) { t = rng.pick(TEMPLATES); }
        let path = *rng.pick(PATHS);
        if path == "prepx" && !t.select { continue; }
        run_stmt_case(ctx, &mut rep, &mut pair, path, t, &v);
    }
    rep.notes.push(format!("random statement cases run: {done_rand} of {nrand}"));
    rep.notes.push(format!("total {:?}", t_start.elapsed()));
    rep
}
