//! C37: GroupCommitQueue driven by the caller protocol of `execute_small_commit`
//! (src/database/transaction.rs: submit_and_wait → take_pending → write → complete|fail), under
//! controlled interleavings, vs the Lean LTS model `TurVerif.GroupCommit`.
//! The caller protocol below is a copy of the one in transaction.rs (documented as modelled);
//! the WAL write is replaced by an append to an in-memory log with fault injection.
use crate::common::*;
use crate::sched::*;
use smallvec::smallvec;
use std::sync::Arc;
use std::time::Duration;
use turdb::database::group_commit::{CommitPayload, GroupCommitQueue};
use turdb::memory::PageBufferPool;

struct Shared {
    queue: GroupCommitQueue,
    pool: PageBufferPool,
    log: parking_lot::Mutex<Vec<u32>>,
    /// per thread: Some(true) = COMMIT reported success, Some(false) = error
    results: parking_lot::Mutex<Vec<Option<bool>>>,
    /// per thread: was its id in the log at the moment it was told "success"?
    logged_at_ack: parking_lot::Mutex<Vec<Option<bool>>>,
    /// ids of batches whose write failed
    failed_ids: parking_lot::Mutex<Vec<u32>>,
}

struct Outcome { steps: usize, disagreement: Option<String>, finished: bool, results: Vec<Option<bool>>, logged_at_ack: Vec<Option<bool>>, log: Vec<u32>, failed_ids: Vec<u32>, flag_pending_left: usize }

fn site_pc(site: &str) -> &str {
    match site { "gc.wait.lock" => "wait_lock", "gc.take_pending" => "take", "write" => "write", "gc.complete.mark" | "gc.fail.mark" => "mark", "gc.complete.clear_flag" | "gc.fail.clear_flag" => "clear", "start" => "start", o => o }
}

fn run_case(ctx: &Ctx, fails: &[bool], forced: Option<&[usize]>, rng: &mut Rng, model: &mut Model) -> Outcome {
    let _ = ctx;
    let n = fails.len();
    let sh = Arc::new(Shared {
        queue: GroupCommitQueue::with_default_config(),
        pool: PageBufferPool::new(64),
        log: parking_lot::Mutex::new(vec![]),
        results: parking_lot::Mutex::new(vec![None; n]),
        logged_at_ack: parking_lot::Mutex::new(vec![None; n]),
        failed_ids: parking_lot::Mutex::new(vec![]),
    });
    let sched = Sched::new(n);
    let mut handles = vec![];
    for tid in 0..n {
        let sh = sh.clone();
        let fail = fails[tid];
        handles.push(sched.spawn(tid, move || {
            let mut buf = sh.pool.acquire().expect("buffer");
            buf[0] = tid as u8;
            let payload: CommitPayload = smallvec![(tid as u32, 0u32, buf, 1u32)];
            // ---- caller protocol of execute_small_commit
            let res: bool = match sh.queue.submit_and_wait(payload) {
                Ok(_) => {
                    if let Some(batch) = sh.queue.take_pending() {
                        turdb::verif_hooks::yield_point("write");
                        let ids: Vec<u32> = batch.iter().flat_map(|c| c.payload.iter().map(|p| p.0)).collect();
                        if fail {
                            sh.failed_ids.lock().extend(ids);
                            sh.queue.fail_batch(&batch, "injected write failure");
                            false
                        } else {
                            sh.log.lock().extend(ids);
                            sh.queue.complete_batch(&batch);
                            true
                        }
                    } else { true }
                }
                Err(_) => false,
            };
            if res { let l = sh.log.lock().contains(&(tid as u32)); sh.logged_at_ack.lock()[tid] = Some(l); }
            sh.results.lock()[tid] = Some(res);
        }));
    }
    sched.settle(Duration::from_secs(5));
    let r = model.ask(&format!("init {}", fails.iter().map(|f| if *f { "1" } else { "0" }).collect::<Vec<_>>().join(" ")));
    assert_eq!(r, "ok");
    let mut out = Outcome { steps: 0, disagreement: None, finished: false, results: vec![], logged_at_ack: vec![], log: vec![], failed_ids: vec![], flag_pending_left: 0 };
    let mut waiting = vec![false; n];
    let mut fi = 0;
    let mut last_model = String::new();
    while out.steps < 2000 {
        let runnable = sched.runnable();
        if runnable.is_empty() { break; }
        let tid = match forced {
            Some(f) if fi < f.len() => { let t = f[fi]; fi += 1; if !runnable.contains(&t) { continue; } t }
            _ => *rng.pick(&runnable),
        };
        let mut res = sched.step(tid, Duration::from_secs(20));
        // `gc.submit` sits between `start` and the submit critical section: same model step
        if let StepResult::Parked("gc.submit") = res { res = sched.step(tid, Duration::from_secs(20)); }
        // `gc.wait.cond` is reached holding the state mutex, immediately before the condvar wait:
        // granting it again makes the thread enter the wait (which releases the mutex atomically),
        // so any later step of another thread that needs the mutex is ordered after it.
        if let StepResult::Parked("gc.wait.cond") = res { res = sched.step(tid, Duration::from_millis(3)); if let StepResult::Parked(_) = res {} else { res = StepResult::Blocked; } }
        out.steps += 1;
        let m = model.ask(&format!("step {tid}"));
        last_model = m.clone();
        match &res {
            StepResult::Blocked => {
                waiting[tid] = true;
                if !m.starts_with("pc cond_wait") && out.disagreement.is_none() {
                    out.disagreement = Some(format!("step {}: thread {tid} blocked on the condition variable, model: {m}", out.steps));
                }
            }
            StepResult::Parked(site) => {
                if !m.starts_with(&format!("pc {} ", site_pc(site))) && out.disagreement.is_none() {
                    out.disagreement = Some(format!("step {}: thread {tid} parked at {site}, model: {m}", out.steps));
                }
            }
            StepResult::Finished => {
                if !m.starts_with("pc done_") && out.disagreement.is_none() {
                    out.disagreement = Some(format!("step {}: thread {tid} finished, model: {m}", out.steps));
                }
            }
            StepResult::NotRunnable => {}
        }
        // the step that clears the flag does notify_all: every waiter re-runs the loop head and
        // parks again (or finishes); compare each with the model's pc after `wakeAll`
        if (m.starts_with("pc done_") || m.starts_with("pc clear")) && waiting.iter().any(|w| *w) {
            let pcs: Vec<String> = m.split(" pcs ").nth(1).and_then(|r| r.split(' ').next()).unwrap_or("").split(',').map(|x| x.to_string()).collect();
            let woken: Vec<usize> = (0..n).filter(|i| waiting[*i] && pcs.get(*i).map(|p| p != "cond_wait").unwrap_or(false)).collect();
            if !woken.is_empty() {
                let t0 = std::time::Instant::now();
                loop {
                    let st = sched.states();
                    if woken.iter().all(|i| matches!(st[*i], TState::Parked(_) | TState::Finished)) { break; }
                    if t0.elapsed() > Duration::from_secs(4) { break; }
                    std::thread::sleep(Duration::from_millis(1));
                }
                let st = sched.states();
                for i in woken {
                    waiting[i] = false;
                    let ok = match &st[i] {
                        TState::Parked(site) => pcs[i] == site_pc(site),
                        TState::Finished => pcs[i].starts_with("done_"),
                        _ => false,
                    };
                    if !ok && out.disagreement.is_none() {
                        out.disagreement = Some(format!("after notify_all thread {i} is {:?} but the model says {}", st[i], pcs[i]));
                    }
                }
            }
        }
    }
    // anyone still blocked although nothing is runnable?
    out.finished = sched.all_finished();
    sched.shutdown();
    if out.finished { for h in handles { let _ = h.join(); } }
    out.results = sh.results.lock().clone();
    out.logged_at_ack = sh.logged_at_ack.lock().clone();
    out.log = sh.log.lock().clone();
    out.failed_ids = sh.failed_ids.lock().clone();
    out.flag_pending_left = sh.queue.pending_count();
    if out.finished {
        // final model state must agree on who was told what and on the log
        let mlog = last_model.split(" log ").nth(1).and_then(|r| r.split(' ').next()).unwrap_or("-").to_string();
        let rlog = if out.log.is_empty() { "-".to_string() } else { out.log.iter().map(|x| x.to_string()).collect::<Vec<_>>().join(",") };
        if mlog != rlog && out.disagreement.is_none() { out.disagreement = Some(format!("final log real [{rlog}] model [{mlog}]")); }
        let mpcs = last_model.split(" pcs ").nth(1).and_then(|r| r.split(' ').next()).unwrap_or("").to_string();
        let rpcs = out.results.iter().map(|r| match r { Some(true) => "done_ok", Some(false) => "done_err", None => "?" }).collect::<Vec<_>>().join(",");
        if mpcs != rpcs && out.disagreement.is_none() { out.disagreement = Some(format!("final results real [{rpcs}] model [{mpcs}]")); }
    }
    out
}

fn judge(rep: &mut Report, case: &str, fails: &[bool], o: &Outcome) {
    if let Some(d) = &o.disagreement { rep.disagree(case.to_string(), d.clone(), "gc-step".into()); }
    if !o.finished {
        rep.oracle_fail(case.to_string(), "a committer never returned (stuck wait / lost wakeup)".into(), "gc:stuck".into());
        return;
    }
    for (tid, r) in o.results.iter().enumerate() {
        if *r == Some(true) {
            if o.logged_at_ack[tid] == Some(false) {
                let sig = if o.failed_ids.contains(&(tid as u32)) { "gc:failure-not-reported" } else { "gc:ack-before-logged" };
                rep.oracle_fail(case.to_string(), format!("committer {tid} was told success while its payload was not in the log (log {:?}, failed batch ids {:?})", o.log, o.failed_ids), sig.into());
            }
        } else if *r == Some(false) && o.log.contains(&(tid as u32)) && !fails.iter().any(|f| *f) {
            rep.oracle_fail(case.to_string(), format!("committer {tid} was told failure but its payload is in the log and no write failed"), "gc:spurious-failure".into());
        }
    }
    let mut seen = std::collections::BTreeSet::new();
    for id in &o.log { if !seen.insert(*id) { rep.oracle_fail(case.to_string(), format!("payload {id} written twice: {:?}", o.log), "gc:logged-twice".into()); } }
    if o.flag_pending_left != 0 { rep.oracle_fail(case.to_string(), format!("{} commits left pending at quiescence", o.flag_pending_left), "gc:pending-left".into()); }
}

/// `forced fails=[false, true] sched=[0, 1, 0]`
fn parse_forced(line: &str) -> Option<(Vec<bool>, Vec<usize>)> {
    let rest = line.strip_prefix("forced ")?;
    let f0 = rest.find("fails=[")? + 7;
    let f1 = f0 + rest[f0..].find(']')?;
    let s0 = rest.find("sched=[")? + 7;
    let s1 = s0 + rest[s0..].find(']')?;
    let mut fails = vec![];
    for t in rest[f0..f1].split(',') {
        match t.trim() { "true" => fails.push(true), "false" => fails.push(false), "" => {}, _ => return None }
    }
    let mut sched = vec![];
    for t in rest[s0..s1].split(',') {
        let t = t.trim();
        if t.is_empty() { continue; }
        let v: usize = t.parse().ok()?;
        if v >= fails.len() { return None; }
        sched.push(v);
    }
    if fails.len() < 2 || fails.len() > 8 { return None; }
    Some((fails, sched))
}

/// The caller side of the protocol on the REAL commit path (`Database::execute_small_commit`): a leader
/// whose WAL write fails must report the failure AND leave the queue usable (`fail_batch`: members
/// marked, `flush_in_progress` cleared).  The write failure is produced with RLIMIT_FSIZE = 0 (every
/// write(2) to a regular file fails with EFBIG, SIGXFSZ ignored) around one COMMIT; afterwards a
/// second handle must be able to commit promptly.
fn real_flush_failure_scenario(ctx: &Ctx, rep: &mut Report) {
    use crate::sqlgen::*;
    let case = "real commit path: COMMIT of handle A fails in the WAL write (RLIMIT_FSIZE=0); then handle B commits".to_string();
    rep.case(Some(&case));
    rep.count("real_flush_failure_scenarios");
    let dbh = Dbh::create(ctx, "c37-efbig");
    for s in ["PRAGMA wal=ON", "PRAGMA synchronous=FULL", "CREATE TABLE t (id INT PRIMARY KEY, v INT)", "INSERT INTO t VALUES (1, 10)", "INSERT INTO t VALUES (2, 20)", "BEGIN", "UPDATE t SET v = 11 WHERE id = 1", "COMMIT"] {
        if let Out::Err(e) = dbh.exec(s) { rep.notes.push(format!("flush-failure scenario setup failed: {s}: {e}")); return; }
    }
    let a = dbh.db.as_ref().unwrap().clone();
    let b = dbh.db.as_ref().unwrap().clone();
    let _ = a.execute("BEGIN");
    let _ = a.execute("UPDATE t SET v = 12 WHERE id = 1");
    // ---- every file write fails from here
    let mut old = libc::rlimit { rlim_cur: 0, rlim_max: 0 };
    let res_a = unsafe {
        libc::signal(libc::SIGXFSZ, libc::SIG_IGN);
        libc::getrlimit(libc::RLIMIT_FSIZE, &mut old);
        let zero = libc::rlimit { rlim_cur: 0, rlim_max: old.rlim_max };
        libc::setrlimit(libc::RLIMIT_FSIZE, &zero);
        let r = guarded(std::panic::AssertUnwindSafe(|| a.execute("COMMIT")));
        libc::setrlimit(libc::RLIMIT_FSIZE, &old);
        r
    };
    let a_failed = !matches!(res_a, Ok(Ok(_)));
    if !a_failed {
        // the write did not fail (limit not effective here): nothing to check
        rep.count("real_flush_failure:write-did-not-fail(skipped)");
        return;
    }
    let _ = a.execute("ROLLBACK");
    let (tx, rx) = std::sync::mpsc::channel();
    let t0 = std::time::Instant::now();
    std::thread::spawn(move || {
        let _ = b.execute("BEGIN");
        let _ = b.execute("UPDATE t SET v = 21 WHERE id = 2");
        let r = b.execute("COMMIT").map(|_| ()).map_err(|e| format!("{e:#}"));
        let _ = tx.send(r);
    });
    match rx.recv_timeout(std::time::Duration::from_secs(12)) {
        Ok(Ok(())) => { rep.count("real_flush_failure:next-commit-ok"); }
        Ok(Err(e)) => rep.oracle_fail(case.clone(), format!("after a commit whose WAL write failed, the next COMMIT of another handle fails after {:.1}s: {e}", t0.elapsed().as_secs_f64()), "gc-real:commit-after-failed-flush:error".into()),
        Err(_) => rep.oracle_fail(case.clone(), "after a commit whose WAL write failed, the next COMMIT of another handle has not returned within 12 s (the failed leader left the queue's flush_in_progress flag set / its batch unmarked)".into(), "gc-real:commit-after-failed-flush:stuck".into()),
    }
}

pub fn run(ctx: &Ctx) -> Report {
    let mut rep = Report::new(
        "groupcommit",
        "2-5 committers, each one commit through the caller protocol of execute_small_commit against the real GroupCommitQueue \
         (default config), optional injected write failure per committer; interleaved at the hook yield points (submit, wait loop lock, \
         take_pending, write, mark, clear flag) by the forced Lean counterexample schedules or a seeded random scheduler; condvar waits are \
         predicted by the model and confirmed by a no-progress window, wake-ups after notify_all are compared thread by thread. Oracle: \
         success implies the payload is in the log at that moment, nothing logged twice, a failed batch reports failure to all its members, \
         nobody stuck, nothing left pending. Real commit path: one COMMIT whose WAL write fails (RLIMIT_FSIZE = 0), after which another handle must commit within 12 s. non-trivial = distinct case with >= 3 committers",
    );
    if ctx.replay.is_none() { real_flush_failure_scenario(ctx, &mut rep); }
    let mut rng = Rng::new(ctx.seed);
    let mut model = Model::spawn(&ctx.model_bin, "groupcommit");
    let cex = [0usize, 1, 0, 1, 0, 0, 2, 2, 0, 0, 2, 1, 2];
    for fails in [vec![false, false, false], vec![false, true, false]] {
        let o = run_case(ctx, &fails, Some(&cex), &mut rng, &mut model);
        let case = format!("forced fails={:?} sched={:?}", fails, cex);
        rep.case(Some(&case));
        rep.sample(format!("{case} -> results {:?} log {:?} logged_at_ack {:?}", o.results, o.log, o.logged_at_ack));
        let before = rep.n_oracle_failures;
        judge(&mut rep, &case, &fails, &o);
        if rep.n_oracle_failures == before { rep.notes.push(format!("forced counterexample (fails={fails:?}) did NOT reproduce on the real code")); }
    }
    // corpus / replay lines: `forced fails=[false, true, ..] sched=[0, 1, ..]` (the forced prefix is
    // followed by the seeded random scheduler until every committer has returned)
    for line in ctx.corpus_cases("C37") {
        match parse_forced(&line) {
            Some((fails, fs)) => {
                let o = run_case(ctx, &fails, Some(&fs), &mut rng, &mut model);
                let case = format!("forced fails={:?} sched={:?}", fails, fs);
                rep.case(Some(&case));
                rep.count("corpus_cases");
                rep.sample(format!("{case} -> results {:?} log {:?} logged_at_ack {:?}", o.results, o.log, o.logged_at_ack));
                judge(&mut rep, &case, &fails, &o);
            }
            None => { if line.starts_with("forced ") { rep.notes.push(format!("unparsable corpus line: {line}")); } }
        }
    }
    let ncases = if ctx.thorough { 4000 } else { 400 };
    for _ in 0..ncases {
        let n = 2 + rng.below(4) as usize;
        let fails: Vec<bool> = (0..n).map(|_| rng.chance(1, 6)).collect();
        let o = run_case(ctx, &fails, None, &mut rng, &mut model);
        let case = format!("random fails={:?} seed={}", fails, ctx.seed);
        let key = format!("{case} #{}", rep.evaluations);
        rep.case(if n >= 3 { Some(&key) } else { None });
        rep.count(&format!("committers_{n}"));
        rep.count_n("granted_steps", o.steps as u64);
        if fails.iter().any(|f| *f) { rep.count("with_write_failure"); }
        if rep.evaluations % 67 == 0 { rep.sample(format!("{case} -> results {:?} log {:?}", o.results, o.log)); }
        judge(&mut rep, &case, &fails, &o);
        if rep.n_disagreements >= 12 {
            rep.notes.push(format!("stopped after {} cases: the model and the code disagree on {} of them (every further case costs watchdog time)", rep.evaluations, rep.n_disagreements));
            break;
        }
    }
    rep
}
