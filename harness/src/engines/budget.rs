//! C39: MemoryBudget allocate/release under controlled interleavings vs the Lean LTS model
//! `TurVerif.Budget` (coarse step = yield point to yield point), with the hard-limit monitor
//! `total_used <= total_limit` evaluated on the real object after every step.
use crate::common::*;
use crate::sched::*;
use std::sync::Arc;
use std::time::Duration;
use turdb::memory::{MemoryBudget, Pool};

fn pool(i: usize) -> Pool {
    match i { 0 => Pool::Cache, 1 => Pool::Query, 2 => Pool::Recovery, 3 => Pool::Schema, _ => Pool::Shared }
}

#[derive(Clone, Debug)]
enum Op { Alloc(usize, usize), Release(usize, usize) }

fn progs_sx(progs: &[Vec<Op>]) -> String {
    progs.iter().map(|p| format!("({})", p.iter().map(|o| match o { Op::Alloc(p, b) => format!("(a {p} {b})"), Op::Release(p, b) => format!("(r {p} {b})") }).collect::<Vec<_>>().join(" "))).collect::<Vec<_>>().join(" ")
}

fn used_of(b: &MemoryBudget) -> String {
    let s = b.stats();
    format!("{} {} {} {} {}", s.cache_used, s.query_used, s.recovery_used, s.schema_used, s.shared_used)
}

struct Outcome { steps: usize, exceeded: Option<(usize, usize)>, disagreement: Option<String>, pools_touched: usize, results: Vec<Vec<bool>>, finished: bool }

/// run `progs` on a fresh MemoryBudget under `policy` (forced schedule or random), mirroring each
/// granted step in the model
fn run_case(ctx: &Ctx, limit: usize, progs: &[Vec<Op>], forced: Option<&[usize]>, rng: &mut Rng, model: &mut Model) -> Outcome {
    let budget = Arc::new(MemoryBudget::with_limit(limit));
    let n = progs.len();
    let sched = Sched::new(n);
    let results: Arc<parking_lot::Mutex<Vec<Vec<bool>>>> = Arc::new(parking_lot::Mutex::new(vec![vec![]; n]));
    let mut handles = vec![];
    for (tid, prog) in progs.iter().enumerate() {
        let b = budget.clone();
        let prog = prog.clone();
        let res = results.clone();
        let s2 = sched.clone();
        handles.push(sched.spawn(tid, move || {
            let _ = &s2;
            for (k, op) in prog.iter().enumerate() {
                if k > 0 { turdb::verif_hooks::yield_point("idle"); }
                match op {
                    Op::Alloc(p, bytes) => { let ok = b.allocate(pool(*p), *bytes).is_ok(); res.lock()[tid].push(ok); }
                    Op::Release(p, bytes) => b.release(pool(*p), *bytes),
                }
            }
        }));
    }
    sched.settle(Duration::from_secs(5));
    let r = model.ask(&format!("init {} {}", limit, progs_sx(progs)));
    assert_eq!(r, "ok", "model init");
    let mut out = Outcome { steps: 0, exceeded: None, disagreement: None, pools_touched: 0, results: vec![], finished: false };
    let mut pools = std::collections::BTreeSet::new();
    for p in progs { for o in p { match o { Op::Alloc(p, _) | Op::Release(p, _) => { pools.insert(*p); } } } }
    out.pools_touched = pools.len();
    let mut fi = 0;
    let maxsteps = 4000;
    while out.steps < maxsteps {
        let runnable = sched.runnable();
        if runnable.is_empty() { break; }
        let tid = match forced {
            Some(f) if fi < f.len() => { let t = f[fi]; fi += 1; if !runnable.contains(&t) { continue; } t }
            _ => *rng.pick(&runnable),
        };
        let res = sched.step(tid, Duration::from_secs(5));
        out.steps += 1;
        let m = model.ask(&format!("step {tid}"));
        // compare shared counters
        let real_used = used_of(&budget);
        let model_used = m.strip_prefix("used ").and_then(|r| r.split(" pc ").next()).unwrap_or("?").to_string();
        if real_used != model_used && out.disagreement.is_none() {
            out.disagreement = Some(format!("after step {} of thread {tid} ({res:?}): real used [{real_used}] model [{model_used}] ({m})", out.steps));
        }
        // site the thread is parked at must be the model's pc
        if let StepResult::Parked(site) = res {
            let expect = match site { "budget.alloc.load_pool" => "load_pool", "budget.alloc.load_total" => "load_total", "budget.alloc.load_shared" => "load_shared", "budget.alloc.cas" => "cas", "budget.release.load" => "rload", "budget.release.cas" => "rcas", "idle" => "idle", o => o };
            if !m.contains(&format!(" pc {expect} ")) && out.disagreement.is_none() {
                out.disagreement = Some(format!("after step {} thread {tid} is at site {site} but the model says: {m}", out.steps));
            }
        }
        let st = budget.stats();
        if st.total_used > st.total_limit && out.exceeded.is_none() {
            out.exceeded = Some((st.total_used, st.total_limit));
        }
    }
    out.finished = sched.all_finished();
    sched.shutdown();
    for h in handles { let _ = h.join(); }
    out.results = results.lock().clone();
    let _ = ctx;
    out
}

pub fn run(ctx: &Ctx) -> Report {
    let mut rep = Report::new(
        "budget",
        "1-3 threads, each a program of 1-4 allocate/release calls on pools chosen from {same pool, two pools, random}, \
         sizes near the 4 MiB floor limit so that the limit check matters; interleaved at the yield points inside \
         allocate/release (before each atomic load group and before each CAS) by a forced schedule (the Lean counterexample) \
         or a seeded random scheduler; after every granted step the five real counters are compared with the model state and \
         the hard-limit monitor total_used <= total_limit is evaluated. non-trivial = distinct (programs, schedule) with >= 2 threads \
         or a refused allocation",
    );
    let mut rng = Rng::new(ctx.seed);
    let mut model = Model::spawn(&ctx.model_bin, "budget");
    let limit = 4 * 1024 * 1024;

    // ---- forced replay of the counterexample proved in Props/C39.lean
    {
        let progs = vec![vec![Op::Alloc(0, 2_000_000)], vec![Op::Alloc(1, 2_500_000)]];
        let sched = [0, 0, 0, 0, 1, 1, 1, 1, 0, 1];
        let o = run_case(ctx, limit, &progs, Some(&sched), &mut rng, &mut model);
        let case = format!("forced limit={limit} progs={} sched={:?}", progs_sx(&progs), sched);
        rep.case(Some(&case));
        rep.sample(format!("{case} -> results {:?} exceeded {:?}", o.results, o.exceeded));
        if let Some(d) = &o.disagreement { rep.disagree(case.clone(), d.clone(), "budget-step".into()); }
        match o.exceeded {
            Some((u, l)) => rep.oracle_fail(case, format!("total_used {u} > total_limit {l} after both allocations returned Ok"), "budget:limit-exceeded:2t:cross-pool".into()),
            None => rep.notes.push("the Lean counterexample schedule did NOT exceed the limit on the real code (finding C39-cross-pool-race not reproduced)".into()),
        }
    }

    // ---- forced replay of Props/C39 `same_pool_release_aba_counterexample` (one pool, ABA through a release)
    {
        let progs = vec![vec![Op::Alloc(4, 2_500_000)], vec![Op::Alloc(4, 2_000_000), Op::Release(4, 2_000_000), Op::Alloc(4, 2_000_000)]];
        let sched = [1, 1, 1, 1, 0, 0, 1, 1, 1, 0, 1, 1, 1, 1, 0];
        let o = run_case(ctx, limit, &progs, Some(&sched), &mut rng, &mut model);
        let case = format!("forced limit={limit} progs={} sched={:?}", progs_sx(&progs), sched);
        rep.case(Some(&case));
        rep.sample(format!("{case} -> results {:?} exceeded {:?}", o.results, o.exceeded));
        if let Some(d) = &o.disagreement { rep.disagree(case.clone(), d.clone(), "budget-step".into()); }
        match o.exceeded {
            Some((u, l)) => rep.oracle_fail(case, format!("total_used {u} > total_limit {l}: compare-exchange succeeded on a pool counter that went away and came back (ABA)"), "budget:limit-exceeded:2t:same-pool-with-release".into()),
            None => rep.notes.push("the Lean same-pool ABA counterexample schedule did NOT exceed the limit on the real code".into()),
        }
    }

    // ---- random programs and schedules
    let ncases = if ctx.thorough { 6000 } else { 500 };
    for _ in 0..ncases {
        let nthreads = 1 + rng.below(3) as usize;
        let mode = rng.below(3);
        let base_pool = rng.below(5) as usize;
        let mut progs = vec![];
        for t in 0..nthreads {
            let nops = 1 + rng.below(4) as usize;
            let mut prog = vec![];
            let mut held: Vec<(usize, usize)> = vec![];
            for _ in 0..nops {
                let p = match mode { 0 => base_pool, 1 => (base_pool + t % 2) % 5, _ => rng.below(5) as usize };
                if !held.is_empty() && rng.chance(1, 3) {
                    let (hp, hb) = held.remove(rng.below(held.len() as u64) as usize);
                    prog.push(Op::Release(hp, hb));
                } else {
                    let b = *rng.pick(&[1usize, 4096, 131072, 262144, 524288, 1_000_000, 1_500_000, 2_000_000, 2_500_000, 3_014_656, 3_100_000, 4_194_304]);
                    prog.push(Op::Alloc(p, b));
                    held.push((p, b));
                }
            }
            progs.push(prog);
        }
        let o = run_case(ctx, limit, &progs, None, &mut rng, &mut model);
        let case = format!("random limit={limit} progs={} seed={}", progs_sx(&progs), ctx.seed);
        let refused = o.results.iter().flatten().any(|b| !b);
        rep.case(if nthreads >= 2 || refused { Some(&case) } else { None });
        rep.count(&format!("threads_{nthreads}"));
        rep.count(&format!("pools_touched_{}", o.pools_touched));
        rep.count(if refused { "has_refusal" } else { "all_granted" });
        rep.count_n("granted_steps", o.steps as u64);
        if !o.finished { rep.count("unfinished"); }
        if rep.evaluations % 97 == 0 { rep.sample(format!("{case} -> results {:?}", o.results)); }
        if let Some(d) = o.disagreement { rep.disagree(case.clone(), d, "budget-step".into()); }
        if let Some((u, l)) = o.exceeded {
            let has_release = progs.iter().flatten().any(|o| matches!(o, Op::Release(..)));
            let kind = if o.pools_touched >= 2 { "cross-pool" } else if has_release { "same-pool-with-release" } else { "same-pool-alloc-only" };
            rep.oracle_fail(case, format!("total_used {u} > total_limit {l}"), format!("budget:limit-exceeded:{nthreads}t:{kind}"));
        }
    }
    rep
}
