//! C19: semantically equivalent formulations must return the same bag -- purely metamorphic on the
//! engine.  For each generated predicate p (and pairs of predicates, join conditions, select lists)
//! the original query and its rewrite both run on the real engine and their results are compared
//! as bags.  Every pair runs on table `t` (no key, no index) and on table `k` (same rows, PRIMARY
//! KEY on id, secondary index on n0); rule `plan-path` compares `t` against `k` directly.
//!
//! Rules: tlp (p / NOT p / p IS NULL partition the table), and-comm, or-comm, and-true (`p AND TRUE`),
//! and-1eq1 (`p AND 1 = 1`), true-and (`TRUE AND p`), or-false, not-not, between (`x BETWEEN a AND b`
//! vs `x >= a AND x <= b`), in-list (`x IN (a, b)` vs `x = a OR x = b`), select-perm (select-item
//! permutation), from-comm (`FROM a, b WHERE c` vs `FROM b, a WHERE c`), join-comm (`a JOIN b ON c`
//! vs `b JOIN a ON c`), plan-path (same query on t and on k).
//!
//! Signature (finite alphabet): `rewrite:<rule>:<top operator of p>:<null|nonull>:<missing|extra|both>:<scan|index>`
//! where null/nonull says whether an operand of p's top operator is NULL (per the reference
//! evaluator) on the first row on which the two results differ, missing/extra is the direction of
//! the difference (rewrite lacks rows / rewrite has additional rows) and scan/index says whether
//! EXPLAIN shows an index scan for either query.  `rewrite:<rule>:<top>:error:<a>/<b>:<scan|index>`
//! when exactly one side fails or they fail differently.
//! Case syntax (one line): `<rule>:<top>:<null flag> ;; <setup statements separated by ' ; '> ;; <queries A...> ;; = ;; <queries B...>`
//! (corpus / replay lines are re-run as written: the bag sum of the A results must equal the bag sum of the B results).
use crate::common::*;
use crate::sqlgen::*;

type Bag = Vec<Vec<String>>;

fn run_q(db: &Dbh, sql: &str) -> Result<Bag, String> {
    match db.exec(sql) {
        Out::Rows(mut rs) => { rs.sort(); Ok(rs) }
        Out::Err(e) => Err(format!("err-{}", error_class(&e))),
        Out::Panic(_) => Err("panic".to_string()),
        o => Err(format!("unexpected-{}", format!("{o:?}").chars().take(12).collect::<String>())),
    }
}

fn uses_index(db: &Dbh, sql: &str) -> bool {
    match db.exec(&format!("EXPLAIN {sql}")) { Out::Other(s) => s.contains("IndexScan"), _ => false }
}

/// multiset difference: rows of a not in b, rows of b not in a (inputs sorted)
fn bag_diff(a: &Bag, b: &Bag) -> (Bag, Bag) {
    let (mut i, mut j) = (0, 0);
    let (mut only_a, mut only_b) = (vec![], vec![]);
    while i < a.len() && j < b.len() {
        if a[i] == b[j] { i += 1; j += 1; }
        else if a[i] < b[j] { only_a.push(a[i].clone()); i += 1; }
        else { only_b.push(b[j].clone()); j += 1; }
    }
    only_a.extend_from_slice(&a[i..]);
    only_b.extend_from_slice(&b[j..]);
    (only_a, only_b)
}

struct World {
    t: TableSpec,
    k: TableSpec,
    u: TableSpec,
    setup: Vec<String>,
}

fn id_of(cell: &str) -> Option<usize> { cell.strip_prefix('I').and_then(|x| x.parse::<usize>().ok()) }

struct Eng<'a> {
    db: &'a Dbh,
    model: &'a mut Model,
    rep: &'a mut Report,
    w: &'a World,
}

impl<'a> Eng<'a> {
    /// reference row for a result row that starts with the id column(s)
    fn null_flag(&mut self, row: &[V], p: &E) -> &'static str {
        let kids: Vec<&E> = if p.children().is_empty() { vec![p] } else { p.children() };
        for c in kids {
            let r = self.model.ask(&format!("eval ({}) {}", row.iter().map(|v| v.sx()).collect::<Vec<_>>().join(" "), c.sx()));
            if r == "ok N" { return "null"; }
        }
        "nonull"
    }

    /// compare results of the original formulation(s) `a` (bags are added) with the rewrite `b`
    #[allow(clippy::too_many_arguments)]
    fn check(&mut self, rule: &str, p: &E, qa: &[String], qbs: &[String], row_of: &dyn Fn(&[String]) -> Option<Vec<V>>, unperm_b: Option<&dyn Fn(Vec<String>) -> Vec<String>>) {
        let mut a: Bag = vec![];
        let mut a_err: Option<String> = None;
        for q in qa {
            match run_q(self.db, q) { Ok(mut r) => a.append(&mut r), Err(e) => { if a_err.is_none() { a_err = Some(e); } } }
        }
        a.sort();
        let qb = qbs.join(" ;; ");
        let qb = qb.as_str();
        let mut b: Result<Bag, String> = Ok(vec![]);
        for q in qbs {
            match (run_q(self.db, q), &mut b) {
                (Ok(rows), Ok(acc)) => { match unperm_b { Some(f) => acc.extend(rows.into_iter().map(f)), None => acc.extend(rows) } }
                (Err(e), Ok(_)) => { b = Err(e); }
                _ => {}
            }
        }
        if let Ok(acc) = &mut b { acc.sort(); }
        let mk_case = |tag: &str| format!("{rule}:{}:{tag} ;; {} ;; {} ;; = ;; {}", head2(p), self.w.setup.join(" ; "), qa.join(" ;; "), qb);
        let key = format!("{rule}|{}|{}", qa.join("|"), qb);
        self.rep.count(&format!("rule_{rule}"));
        let idx = qa.iter().any(|q| uses_index(self.db, q)) || qbs.iter().any(|q| uses_index(self.db, q));
        let plan = if idx { "index" } else { "scan" };
        self.rep.count(&format!("plan_{plan}"));
        match (a_err, b) {
            (None, Ok(b)) => {
                let nontrivial = !a.is_empty();
                self.rep.case(if nontrivial { Some(&key) } else { None });
                if a != b {
                    let (only_a, only_b) = bag_diff(&a, &b);
                    let dir = match (only_a.is_empty(), only_b.is_empty()) { (false, true) => "missing", (true, false) => "extra", _ => "both" };
                    let first = only_a.first().or(only_b.first()).cloned().unwrap_or_default();
                    let nf = match row_of(&first) { Some(r) => self.null_flag(&r, p), None => "norow" };
                    let sig = format!("rewrite:{rule}:{}:{nf}:{dir}:{plan}", head2(p));
                    self.rep.oracle_fail(mk_case(nf), format!("A = {:?} gives {} rows, B = {qb} gives {} rows; only in A: {}; only in B: {}", qa, a.len(), b.len(), show_rows(&only_a[..only_a.len().min(6)]), show_rows(&only_b[..only_b.len().min(6)])), sig);
                }
            }
            (Some(ea), Err(eb)) if ea == eb => { self.rep.count(&format!("both_fail_{ea}")); }
            (ea, eb) => {
                self.rep.case(None);
                let ea = ea.unwrap_or("ok".into());
                let eb = match eb { Ok(_) => "ok".to_string(), Err(e) => e };
                let sig = format!("rewrite:{rule}:{}:error:{ea}/{eb}:{plan}", head2(p));
                self.rep.oracle_fail(mk_case("error"), format!("A = {:?}: {ea}; B = {qb}: {eb}", qa), sig);
            }
        }
    }
}

/// top operator with the heads of its operands, e.g. `eq(col,lit:int)`, `and(eq,gt)`; IN lists and
/// CASE arms are summarised so the alphabet stays finite
fn head2(p: &E) -> String {
    let kids = p.children();
    if kids.is_empty() { return p.head(); }
    let hs: Vec<String> = match p {
        E::In(x, l, _) => vec![x.head(), if l.iter().any(|e| matches!(e, E::Lit(V::Null))) { "list-null".into() } else { "list".into() }],
        E::Case(..) | E::Coalesce(_) => vec![],
        _ => kids.iter().map(|k| k.head()).collect(),
    };
    format!("{}({})", p.head(), hs.join(","))
}

fn and(a: &E, b: &E) -> E { E::Bin(Op::And, Box::new(a.clone()), Box::new(b.clone())) }
fn or(a: &E, b: &E) -> E { E::Bin(Op::Or, Box::new(a.clone()), Box::new(b.clone())) }
fn not(a: &E) -> E { E::Not(Box::new(a.clone())) }
fn cmp(op: Op, a: E, b: E) -> E { E::Bin(op, Box::new(a), Box::new(b)) }
fn int(i: i64) -> E { E::Lit(V::Int(i)) }

fn make_world(rng: &mut Rng) -> World {
    let nrows = 10 + rng.below(5) as usize;
    let t = gen_table(rng, "t", 5, nrows, 25);
    let mut k = t.clone();
    k.name = "k".into();
    let nu = 4 + rng.below(4) as usize;
    let u = gen_table(rng, "u", 2, nu, 20);
    let mut setup = vec![t.create_sql()];
    setup.extend(t.insert_sqls());
    setup.push(format!("CREATE TABLE k ({})", k.cols.iter().enumerate().map(|(i, (n, ty))| format!("{} {}{}", n, ty.sql(), if i == 0 { " PRIMARY KEY" } else { "" })).collect::<Vec<_>>().join(", ")));
    setup.push(format!("CREATE INDEX k_n ON k ({})", k.cols[1].0));
    setup.extend(k.insert_sqls());
    setup.push(u.create_sql());
    setup.extend(u.insert_sqls());
    World { t, k, u, setup }
}

pub fn run(ctx: &Ctx) -> Report {
    let mut rep = Report::new(
        "sql_rewrite",
        "per round: table t (10-14 rows: unique id + INT/DOUBLE/TEXT/BOOLEAN/INT columns, ~25% NULLs), table k with the same rows \
         but PRIMARY KEY(id) and an index on the first INT column, table u (4-7 rows) for joins; predicates: systematic layer \
         (sargable equalities on id / indexed column alone and inside AND/OR, every comparison x NULL-bearing operands, bare \
         booleans, IN/BETWEEN/LIKE/IS NULL) + random typed expressions to depth 3; 14 rewrite rules, each on t and on k, results \
         compared as bags on the engine only. non-trivial = distinct (rule, query pair) whose original formulation returns at least one row",
    );
    let mut rng = Rng::new(ctx.seed);
    let mut model = Model::spawn(&ctx.model_bin, "sql");
    replay_corpus(ctx, &mut rep);
    let rounds = if ctx.thorough { 30 } else { 4 };
    let nrand = if ctx.thorough { 300 } else { 150 };
    for round in 0..rounds {
        let w = make_world(&mut rng);
        let db = Dbh::create(ctx, &format!("c19-{round}"));
        for s in &w.setup { db.must(s); }
        let tys: Vec<Ty> = w.t.cols.iter().map(|(_, ty)| *ty).collect();
        let eg = ExprGen { tys: &tys, null_pct: 15 };
        // ------------------------------------------------------------ predicates
        let mut preds: Vec<E> = vec![];
        let some_n = w.t.rows.iter().find_map(|r| if let V::Int(i) = r[1] { Some(i) } else { None }).unwrap_or(10);
        // every distinct value of the indexed INT column (zero, negatives, large) as an index-equality probe
        let mut distinct_n: Vec<i64> = w.t.rows.iter().filter_map(|r| if let V::Int(i) = r[1] { Some(i) } else { None }).collect();
        distinct_n.sort(); distinct_n.dedup();
        for v in distinct_n.iter().take(10) {
            preds.push(cmp(Op::Eq, E::Col(1), int(*v)));
            preds.push(cmp(Op::Eq, int(*v), E::Col(1)));
            preds.push(and(&cmp(Op::Eq, E::Col(1), int(*v)), &cmp(Op::Ge, E::Col(0), int(1))));
        }
        let sarg: Vec<E> = vec![
            cmp(Op::Eq, E::Col(0), int(3)), cmp(Op::Eq, E::Col(0), int(99)), cmp(Op::Eq, int(2), E::Col(0)),
            cmp(Op::Eq, E::Col(1), int(some_n)), cmp(Op::Eq, E::Col(1), int(10)), cmp(Op::Eq, E::Col(1), E::Lit(V::Null)),
            cmp(Op::Gt, E::Col(0), int(4)), cmp(Op::Le, E::Col(1), int(5)), cmp(Op::Ne, E::Col(1), int(10)),
            cmp(Op::Eq, E::Col(1), E::Col(5)), cmp(Op::Eq, E::Col(0), E::Col(1)),
            cmp(Op::Eq, E::Col(3), E::Lit(V::Text("a".into()))), cmp(Op::Lt, E::Col(2), E::Lit(V::Flt(6, 4))),
            E::IsNull(Box::new(E::Col(1)), false), E::IsNull(Box::new(E::Col(3)), true), E::Col(4), E::Lit(V::Bool(true)), E::Lit(V::Null),
            E::In(Box::new(E::Col(1)), vec![int(10), int(5)], false), E::In(Box::new(E::Col(0)), vec![int(1), int(2), E::Lit(V::Null)], true),
            E::Between(Box::new(E::Col(1)), Box::new(int(0)), Box::new(int(10)), false), E::Between(Box::new(E::Col(0)), Box::new(int(2)), Box::new(E::Col(1)), true),
            E::Like(Box::new(E::Col(3)), Box::new(E::Lit(V::Text("a%".into()))), false),
            // DOUBLE literal against the indexed INT column; IN list mixing a DOUBLE literal and the indexed column
            cmp(Op::Eq, E::Lit(V::Flt(4 * some_n, 4)), E::Col(1)), cmp(Op::Eq, E::Col(1), E::Lit(V::Flt(40, 4))),
            E::In(Box::new(int(some_n)), vec![E::Lit(V::Flt(0, 4)), E::Col(1)], false),
            E::In(Box::new(int(0)), vec![E::Lit(V::Flt(0, 4)), E::Col(1)], false),
            // sub-predicates on which the filter-level and the value-level evaluator disagree
            and(&cmp(Op::Ne, E::Lit(V::Null), E::Lit(V::Text("".into()))), &cmp(Op::Eq, E::Col(2), E::Col(2))),
            or(&and(&cmp(Op::Ge, E::Lit(V::Text("b".into())), E::Col(3)), &E::IsNull(Box::new(E::Col(3)), false)), &not(&E::Lit(V::Bool(true)))),
            E::Between(Box::new(E::Col(2)), Box::new(E::Col(2)), Box::new(E::Col(1)), false),
        ];
        // explicit commutativity pairs: every sargable equality with every other systematic predicate
        let mut pairs: Vec<(E, E)> = vec![];
        for a in sarg.iter().take(6) { for b in sarg.iter().skip(1) { pairs.push((a.clone(), b.clone())); } }
        for a in &sarg { preds.push(a.clone()); }
        for a in sarg.iter().take(6) { for b in sarg.iter().skip(3) { preds.push(and(a, b)); preds.push(or(a, b)); } }
        for a in sarg.iter().take(8) { preds.push(not(a)); }
        for _ in 0..nrand { let d = 1 + rng.below(3) as usize; preds.push(eg.boolean(&mut rng, d)); }

        let w_ref = &w;
        for tab in ["t", "k"] {
            let sc = w.t.bare_scope();
            let q = |p: &E| format!("SELECT id FROM {tab} WHERE {}", p.sql(&sc));
            let all = format!("SELECT id FROM {tab}");
            let trows = w.t.rows.clone();
            let row_of = move |r: &[String]| -> Option<Vec<V>> { r.first().and_then(|c| id_of(c)).and_then(|i| trows.get(i.wrapping_sub(1)).cloned()) };
            let mut en = Eng { db: &db, model: &mut model, rep: &mut rep, w: w_ref };
            for (pi, p) in preds.iter().enumerate() {
                // 1 TLP
                en.check("tlp", p, &[all.clone()], &[q(p), q(&not(p)), q(&E::IsNull(Box::new(p.clone()), false))], &row_of, None);
                // 3 always-true conjuncts / always-false disjuncts
                en.check("and-true", p, &[q(p)], &[q(&and(p, &E::Lit(V::Bool(true))))], &row_of, None);
                en.check("and-1eq1", p, &[q(p)], &[q(&and(p, &cmp(Op::Eq, int(1), int(1))))], &row_of, None);
                en.check("true-and", p, &[q(p)], &[q(&and(&E::Lit(V::Bool(true)), p))], &row_of, None);
                en.check("or-false", p, &[q(p)], &[q(&or(p, &E::Lit(V::Bool(false))))], &row_of, None);
                // 6 double negation
                en.check("not-not", p, &[q(p)], &[q(&not(&not(p)))], &row_of, None);
                // 2 commutativity with another predicate
                let p2 = &preds[(pi * 7 + 3) % preds.len()];
                en.check("and-comm", &and(p, p2), &[q(&and(p, p2))], &[q(&and(p2, p))], &row_of, None);
                en.check("or-comm", &or(p, p2), &[q(&or(p, p2))], &[q(&or(p2, p))], &row_of, None);
                if pi < pairs.len() {
                    let (a, b) = &pairs[pi];
                    en.check("and-comm", &and(a, b), &[q(&and(a, b))], &[q(&and(b, a))], &row_of, None);
                    en.check("or-comm", &or(a, b), &[q(&or(a, b))], &[q(&or(b, a))], &row_of, None);
                }
                // 7 BETWEEN / IN definitions
                if let E::Between(x, lo, hi, false) = p {
                    let r = and(&cmp(Op::Ge, (**x).clone(), (**lo).clone()), &cmp(Op::Le, (**x).clone(), (**hi).clone()));
                    en.check("between", p, &[q(p)], &[q(&r)], &row_of, None);
                }
                if let E::In(x, l, false) = p {
                    if l.len() >= 2 {
                        let mut r = cmp(Op::Eq, (**x).clone(), l[0].clone());
                        for y in &l[1..] { r = or(&r, &cmp(Op::Eq, (**x).clone(), y.clone())); }
                        en.check("in-list", p, &[q(p)], &[q(&r)], &row_of, None);
                    }
                }
                // 5 select-item permutation (id first in A; B is a rotation/reversal, un-permuted before comparing)
                if pi % 3 == 0 {
                    let n = sc.len();
                    let perm: Vec<usize> = if pi % 2 == 0 { (0..n).rev().collect() } else { (0..n).map(|i| (i + 2) % n).collect() };
                    let qa = format!("SELECT {} FROM {tab} WHERE ({}) AND (id > 0)", sc.join(", "), p.sql(&sc));
                    let qb = format!("SELECT {} FROM {tab} WHERE ({}) AND (id > 0)", perm.iter().map(|i| sc[*i].clone()).collect::<Vec<_>>().join(", "), p.sql(&sc));
                    let permc = perm.clone();
                    let unperm = move |r: Vec<String>| -> Vec<String> { let mut o = vec![String::new(); r.len()]; for (pos, src) in permc.iter().enumerate() { if pos < r.len() && *src < o.len() { o[*src] = r[pos].clone(); } } o };
                    en.check("select-perm", p, &[qa], &[qb], &row_of, Some(&unperm));
                }
            }
        }
        // 8 plan path: the same query on t and on k
        {
            let sc = w.t.bare_scope();
            let trows = w.t.rows.clone();
            let row_of = move |r: &[String]| -> Option<Vec<V>> { r.first().and_then(|c| id_of(c)).and_then(|i| trows.get(i.wrapping_sub(1)).cloned()) };
            let mut en = Eng { db: &db, model: &mut model, rep: &mut rep, w: w_ref };
            for p in &preds {
                en.check("plan-path", p, &[format!("SELECT id FROM t WHERE {}", p.sql(&sc))], &[format!("SELECT id FROM k WHERE {}", p.sql(&sc))], &row_of, None);
                let cols = format!("{}, {}, {}", sc[0], sc[3], sc[1]);
                en.check("plan-path", p, &[format!("SELECT {cols} FROM t WHERE {}", p.sql(&sc))], &[format!("SELECT {cols} FROM k WHERE {}", p.sql(&sc))], &row_of, None);
            }
        }
        // 4 FROM / JOIN commutativity
        for tab in ["t", "k"] {
            let mut lt = w.t.clone();
            lt.name = tab.into();
            let mut sc = lt.scope();
            sc.extend(w.u.scope());
            let wl = lt.cols.len();
            let mut jt: Vec<Ty> = tys.clone();
            jt.extend(w.u.cols.iter().map(|(_, ty)| *ty));
            let jg = ExprGen { tys: &jt, null_pct: 10 };
            let mut conds: Vec<E> = vec![
                cmp(Op::Eq, E::Col(0), E::Col(wl)), cmp(Op::Eq, E::Col(1), E::Col(wl + 1)), cmp(Op::Lt, E::Col(1), E::Col(wl + 1)),
                and(&cmp(Op::Eq, E::Col(0), E::Col(wl)), &cmp(Op::Gt, E::Col(1), int(1))),
                and(&cmp(Op::Eq, E::Col(1), E::Col(wl + 1)), &cmp(Op::Eq, E::Col(0), int(3))),
                or(&cmp(Op::Eq, E::Col(0), E::Col(wl)), &E::IsNull(Box::new(E::Col(wl + 1)), false)),
                cmp(Op::Eq, E::Col(5), E::Col(wl + 1)), cmp(Op::Ne, E::Col(0), E::Col(wl)),
                and(&cmp(Op::Eq, E::Col(wl + 1), E::Col(1)), &E::Col(4)),
                and(&cmp(Op::Eq, E::Col(0), E::Col(wl)), &E::IsNull(Box::new(E::Col(3)), true)),
            ];
            let nj = if ctx.thorough { 40 } else { 20 };
            for _ in 0..nj { let d = 1 + rng.below(2) as usize; conds.push(jg.boolean(&mut rng, d)); }
            let trows = w.t.rows.clone();
            let urows = w.u.rows.clone();
            let row_of = move |r: &[String]| -> Option<Vec<V>> {
                let a = r.first().and_then(|c| id_of(c)).and_then(|i| trows.get(i.wrapping_sub(1)).cloned())?;
                let b = r.get(1).and_then(|c| id_of(c)).and_then(|i| urows.get(i.wrapping_sub(1)).cloned())?;
                let mut v = a; v.extend(b); Some(v)
            };
            let mut en = Eng { db: &db, model: &mut model, rep: &mut rep, w: w_ref };
            let sel_a = format!("{tab}.id, u.id, {tab}.{}, u.{}", lt.cols[3].0, w.u.cols[1].0);
            let sel_b = format!("u.{}, u.id, {tab}.{}, {tab}.id", w.u.cols[1].0, lt.cols[3].0);
            let unperm = |r: Vec<String>| -> Vec<String> { if r.len() == 4 { vec![r[3].clone(), r[1].clone(), r[2].clone(), r[0].clone()] } else { r } };
            for c in &conds {
                let cs = c.sql(&sc);
                en.check("from-comm", c, &[format!("SELECT {sel_a} FROM {tab}, u WHERE {cs}")], &[format!("SELECT {sel_b} FROM u, {tab} WHERE {cs}")], &row_of, Some(&unperm));
                en.check("join-comm", c, &[format!("SELECT {sel_a} FROM {tab} JOIN u ON {cs}")], &[format!("SELECT {sel_b} FROM u JOIN {tab} ON {cs}")], &row_of, Some(&unperm));
                en.check("join-vs-where", c, &[format!("SELECT {sel_a} FROM {tab} JOIN u ON {cs}")], &[format!("SELECT {sel_a} FROM {tab}, u WHERE {cs}")], &row_of, None);
            }
        }
    }
    rep.notes.push(format!("model requests: {}", model.requests));
    rep
}

/// corpus / replay lines: `<rule> ;; <setup ; ...> ;; <A> [;; <A2> ;; <A3>] ;; <B>`
fn replay_corpus(ctx: &Ctx, rep: &mut Report) {
    for (n, line) in ctx.corpus_cases("C19").into_iter().enumerate() {
        let parts: Vec<&str> = line.split(" ;; ").collect();
        if parts.len() < 4 { rep.notes.push(format!("unparsable corpus line: {}", &line[..line.len().min(80)])); continue; }
        let db = Dbh::create(ctx, &format!("c19-corpus-{n}"));
        for s in parts[1].split(" ; ") { let _ = db.exec(s); }
        let eqpos = match parts.iter().position(|x| *x == "=") { Some(i) if i > 2 && i + 1 < parts.len() => i, _ => { rep.notes.push("corpus line without ' ;; = ;; '".into()); continue; } };
        let mut a: Bag = vec![];
        let mut ea = None;
        for q in &parts[2..eqpos] { match run_q(&db, q) { Ok(mut r) => a.append(&mut r), Err(e) => ea = Some(e) } }
        a.sort();
        let mut b: Result<Bag, String> = Ok(vec![]);
        for q in &parts[eqpos + 1..] { match (run_q(&db, q), &mut b) { (Ok(r), Ok(acc)) => acc.extend(r), (Err(e), Ok(_)) => b = Err(e), _ => {} } }
        if let Ok(acc) = &mut b { acc.sort(); }
        rep.case(None);
        rep.count("corpus_case");
        let (rule_s, rest) = match parts[0].split_once(':') { Some(x) => x, None => { rep.notes.push(format!("bad corpus tag {}", parts[0])); continue; } };
        let (head_s, nf_s) = match rest.rsplit_once(':') { Some(x) => x, None => { rep.notes.push(format!("bad corpus tag {}", parts[0])); continue; } };
        let tag = [rule_s, head_s, nf_s];
        let idx = parts[2..].iter().any(|q| *q != "=" && uses_index(&db, q));
        let plan = if idx { "index" } else { "scan" };
        // select-perm / comm rules permute columns: compare cells as multisets per row
        let norm = |x: &Bag| { let mut y: Bag = x.iter().map(|r| { let mut r = r.clone(); r.sort(); r }).collect(); y.sort(); y };
        match (ea, b) {
            (None, Ok(b)) => {
                let (na, nb) = (norm(&a), norm(&b));
                if na != nb {
                    let (oa, ob) = bag_diff(&na, &nb);
                    let dir = match (oa.is_empty(), ob.is_empty()) { (false, true) => "missing", (true, false) => "extra", _ => "both" };
                    rep.oracle_fail(line.clone(), format!("corpus case: A gives {} rows, B gives {} rows", a.len(), b.len()), format!("rewrite:{}:{}:{}:{dir}:{plan}", tag[0], tag[1], tag[2]));
                }
            }
            (Some(x), Err(y)) if x == y => {}
            (x, y) => {
                let ea = x.unwrap_or("ok".into());
                let eb = match y { Ok(_) => "ok".to_string(), Err(e) => e };
                rep.oracle_fail(line.clone(), format!("corpus case: A {ea}, B {eb}"), format!("rewrite:{}:{}:error:{ea}/{eb}:{plan}", tag[0], tag[1]));
            }
        }
    }
}
