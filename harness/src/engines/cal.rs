//! C41: every calendar converter of /repo vs the Lean model `TurVerif.Cal`, and the property's own
//! oracle (the proleptic Gregorian calendar obtained by *counting days*) evaluated on the real code.
//!
//! Case syntax (corpus / replay files, one case per line):
//!   `date Y M D`            all numeric converters on one field triple
//!   `parse <parser> <hex>`  parser ∈ litdate littime litts defdate deftime defts castdate casttime castts fndate
//!   `render <renderer> N`   renderer ∈ fmtdate fmttime fmtts fromdays unixts
//!   `ts Y M D SEC`          timestamp text `YYYY-MM-DD HH:MM:SS` through all timestamp parsers + renderer
//!   `sql <kind> <text>`     kind ∈ date time ts : text through INSERT / SELECT / CAST / DEFAULT of a real database
use crate::common::*;
use std::borrow::Cow;
use turdb::constraints::{
    verif_days_from_ymd, verif_parse_date_default, verif_parse_time_default, verif_parse_timestamp_default,
};
use turdb::parsing::{
    parse_date, parse_time, parse_timestamp, verif_lit_date_to_days_since_epoch, verif_lit_days_in_month,
    verif_lit_is_leap_year,
};
use turdb::sql::functions::datetime::{
    eval_datetime_function, verif_fn_date_to_days, verif_fn_day_of_week, verif_fn_day_of_year,
    verif_fn_days_in_month, verif_fn_days_to_date, verif_fn_format_unix_timestamp, verif_fn_parse_date,
};
use turdb::sql::predicate::verif_cast_parse_temporal;
use turdb::types::Value;
use turdb::verif_cli_table::TableFormatter;
use turdb::{Database, OwnedValue, Row};

const RD_UNIX: i64 = 719_163; // Rata Die of 1970-01-01
const MICROS_DAY: i64 = 86_400_000_000;

// ---------------------------------------------------------------- reference calendar (by counting)
fn ref_leap(y: i64) -> bool {
    y.rem_euclid(4) == 0 && (y.rem_euclid(100) != 0 || y.rem_euclid(400) == 0)
}
fn ref_mlen(y: i64, m: u32) -> u32 {
    match m {
        1 | 3 | 5 | 7 | 8 | 10 | 12 => 31,
        4 | 6 | 9 | 11 => 30,
        2 => {
            if ref_leap(y) {
                29
            } else {
                28
            }
        }
        _ => 0,
    }
}
fn ref_valid(y: i64, m: u32, d: u32) -> bool {
    (1..=12).contains(&m) && d >= 1 && d <= ref_mlen(y, m)
}
/// Rata Die of Jan 1 of every year 0..=10401, by summing year lengths (year 1 ↦ 1)
fn jan1_table() -> Vec<i64> {
    let mut t = vec![0i64; 10_402];
    t[1] = 1;
    t[0] = 1 - 366; // year 0 is leap
    for y in 2..10_402usize {
        t[y] = t[y - 1] + if ref_leap(y as i64 - 1) { 366 } else { 365 };
    }
    t
}
fn ref_rd(t: &[i64], y: i64, m: u32, d: u32) -> i64 {
    let mut rd = t[y as usize];
    for k in 1..m {
        rd += ref_mlen(y, k) as i64;
    }
    rd + d as i64 - 1
}
fn invalid_kind(y: i64, m: u32, d: u32) -> &'static str {
    if m == 0 {
        "month0"
    } else if m > 12 {
        "month-gt-12"
    } else if d == 0 {
        "day0"
    } else if m == 2 && d == 29 && !ref_leap(y) {
        "feb29-nonleap"
    } else if m == 2 && d == 30 {
        "feb30"
    } else if m == 2 && d == 31 {
        "feb31"
    } else if d == 31 && ref_mlen(y, m) == 30 {
        "day31-in-30-day-month"
    } else {
        "day-gt-31"
    }
}
fn ymd_text(y: i64, m: u32, d: u32) -> String {
    format!("{:04}-{:02}-{:02}", y, m, d)
}
fn hms_text(s: u32) -> String {
    format!("{:02}:{:02}:{:02}", s / 3600, s / 60 % 60, s % 60)
}

// ---------------------------------------------------------------- thin wrappers over the real code
fn ov_str(v: &OwnedValue) -> String {
    match v {
        OwnedValue::Date(d) => format!("some {d}"),
        OwnedValue::Time(t) => format!("some {t}"),
        OwnedValue::Timestamp(t) => format!("some {t}"),
        OwnedValue::Null => "none".into(),
        o => format!("other {o:?}"),
    }
}
fn res_str(r: Result<eyre::Result<OwnedValue>, String>) -> String {
    match r {
        Ok(Ok(v)) => ov_str(&v),
        Ok(Err(_)) => "none".into(),
        Err(m) => format!("panic {m}"),
    }
}
fn opt_str(r: Result<Option<i64>, String>) -> String {
    match r {
        Ok(Some(v)) => format!("some {v}"),
        Ok(None) => "none".into(),
        Err(m) => format!("panic {m}"),
    }
}
/// run one of the ten text parsers of the real code; canonical answer `some N` | `none` | `panic ..`
fn impl_parse(parser: &str, text: &str) -> String {
    let t = text.to_string();
    match parser {
        "litdate" => res_str(guarded(move || parse_date(&t))),
        "littime" => res_str(guarded(move || parse_time(&t))),
        "litts" => res_str(guarded(move || parse_timestamp(&t))),
        "defdate" => res_str(guarded(move || Ok(verif_parse_date_default(&t)))),
        "deftime" => res_str(guarded(move || Ok(verif_parse_time_default(&t)))),
        "defts" => res_str(guarded(move || Ok(verif_parse_timestamp_default(&t)))),
        "castdate" => opt_str(guarded(move || verif_cast_parse_temporal(0, &t))),
        "casttime" => opt_str(guarded(move || verif_cast_parse_temporal(1, &t))),
        "castts" => opt_str(guarded(move || verif_cast_parse_temporal(2, &t))),
        "fndate" => match guarded(move || verif_fn_parse_date(&t)) {
            Ok(Some((y, m, d))) => format!("some {y} {m} {d}"),
            Ok(None) => "none".into(),
            Err(m) => format!("panic {m}"),
        },
        _ => "unknown-parser".into(),
    }
}
const PARSERS: [&str; 10] = [
    "litdate", "littime", "litts", "defdate", "deftime", "defts", "castdate", "casttime", "castts", "fndate",
];
const RENDERERS: [&str; 5] = ["fmtdate", "fmttime", "fmtts", "fromdays", "unixts"];

/// render a batch of values through the real `TableFormatter` (cli/table.rs format_value)
fn impl_format_values(vals: Vec<OwnedValue>) -> Result<Vec<String>, String> {
    guarded(move || {
        let rows: Vec<Row> = vals.into_iter().map(|v| Row::new(vec![v])).collect();
        let out = TableFormatter::new(vec!["v".to_string()], &rows).render();
        out.lines()
            .skip(3)
            .filter(|l| l.starts_with('|'))
            .map(|l| l.trim_matches('|').trim().to_string())
            .collect()
    })
}
fn impl_render(renderer: &str, n: i64) -> String {
    let one = |v: OwnedValue| match impl_format_values(vec![v]) {
        Ok(mut v) if v.len() == 1 => v.pop().unwrap(),
        Ok(v) => format!("bad-render {v:?}"),
        Err(m) => format!("panic {m}"),
    };
    match renderer {
        "fmtdate" => {
            if n < i32::MIN as i64 || n > i32::MAX as i64 {
                "out-of-range".into()
            } else {
                one(OwnedValue::Date(n as i32))
            }
        }
        "fmttime" => one(OwnedValue::Time(n)),
        "fmtts" => one(OwnedValue::Timestamp(n)),
        "fromdays" => match guarded(move || {
            eval_datetime_function("FROM_DAYS", &[Some(Value::Int(n))]).map(|v| match v {
                Value::Text(s) => s.to_string(),
                o => format!("other {o:?}"),
            })
        }) {
            Ok(Some(s)) => s,
            Ok(None) => "none".into(),
            Err(m) => format!("panic {m}"),
        },
        "unixts" => match guarded(move || verif_fn_format_unix_timestamp(n)) {
            Ok(s) => s,
            Err(m) if m.contains("subtract with overflow") => "panic-sub-overflow".into(),
            Err(m) => format!("panic {m}"),
        },
        _ => "unknown-renderer".into(),
    }
}
fn fn_text1(name: &'static str, arg: &str) -> String {
    let a = arg.to_string();
    match guarded(move || {
        eval_datetime_function(name, &[Some(Value::Text(Cow::Owned(a)))]).map(|v| match v {
            Value::Int(i) => i.to_string(),
            Value::Text(s) => s.to_string(),
            Value::Null => "NULL".into(),
            o => format!("other {o:?}"),
        })
    }) {
        Ok(Some(s)) => s,
        Ok(None) => "none".into(),
        Err(m) => format!("panic {m}"),
    }
}

/// the six-field tuple of the `year` / `date` model ops, computed by the real code; second result:
/// canonical answer of `parse_date` on the zero-padded text (year >= 0 only)
fn impl_tuple2(y: i64, m: u32, d: u32) -> (String, String) {
    let r = guarded(move || {
        let yi = y as i32;
        // validity check of parse_date + its day number (one call of the real parser when the text is
        // expressible, i.e. year >= 0); otherwise the private helpers directly
        let (ok, lit, litres) = if y >= 0 {
            match parse_date(&ymd_text(y, m, d)) {
                Ok(OwnedValue::Date(v)) => (1, v as i64, format!("some {v}")),
                Ok(o) => (0, verif_lit_date_to_days_since_epoch(yi, m, d) as i64, format!("other {o:?}")),
                Err(_) => (0, verif_lit_date_to_days_since_epoch(yi, m, d) as i64, "none".to_string()),
            }
        } else {
            let ok = (1..=12).contains(&m) && d >= 1 && d <= verif_lit_days_in_month(yi, m);
            (ok as i32, verif_lit_date_to_days_since_epoch(yi, m, d) as i64, String::new())
        };
        (
            format!(
                "{} {} {} {} {} {}",
                ok,
                lit,
                verif_days_from_ymd(yi, m, d),
                verif_fn_date_to_days(y, m, d),
                verif_fn_day_of_week(y, m, d),
                verif_fn_day_of_year(y, m, d)
            ),
            litres,
        )
    });
    match r {
        Ok(s) => s,
        Err(m) => (format!("panic {m}"), format!("panic {m}")),
    }
}
fn impl_tuple(y: i64, m: u32, d: u32) -> String {
    impl_tuple2(y, m, d).0
}
fn impl_tuple_ext(y: i64, m: u32, d: u32) -> String {
    let base = impl_tuple(y, m, d);
    match guarded(move || {
        format!(
            "{} {} {}",
            verif_lit_days_in_month(y as i32, m),
            verif_fn_days_in_month(y, m),
            verif_lit_is_leap_year(y as i32) as i32
        )
    }) {
        Ok(s) => format!("{base} {s}"),
        Err(m) => format!("{base} panic {m}"),
    }
}

fn merge(into: &mut Report, from: Report) {
    into.evaluations += from.evaluations;
    into.nontrivial.extend(from.nontrivial);
    for (k, v) in from.hist {
        *into.hist.entry(k).or_insert(0) += v;
    }
    for s in from.samples {
        into.sample(s);
    }
    into.notes.extend(from.notes);
    into.n_disagreements += from.n_disagreements;
    for f in from.disagreements {
        if into.disagreements.len() < 200 {
            into.disagreements.push(f);
        }
    }
    let extra = from.n_oracle_failures - from.oracle_failures.len() as u64;
    for f in from.oracle_failures {
        into.oracle_fail(f.case, f.detail, f.signature);
    }
    into.n_oracle_failures += extra;
}

// ---------------------------------------------------------------- oracle for one triple
/// Property oracle on the real code for one (y, m, d) with 1 <= y <= 9999, 1 <= m <= 12, 1 <= d <= 31.
/// `rd` = Rata Die if the date is valid (from counting), `ordinal` = day of year.
fn oracle_triple(rep: &mut Report, t: &[i64], y: i64, m: u32, d: u32, sec: u32, lit_known: Option<String>) {
    let text = ymd_text(y, m, d);
    let case = format!("date {y} {m} {d}");
    let lit = lit_known.unwrap_or_else(|| impl_parse("litdate", &text));
    let def = impl_parse("defdate", &text);
    let cast = impl_parse("castdate", &text);
    for (who, got) in [("lit.parse_date", &lit), ("default.parse_date", &def), ("cast.parse_date", &cast)] {
        if got.starts_with("panic") {
            rep.oracle_fail(case.clone(), format!("{who}('{text}') {got}"), format!("{who}:panic"));
        }
    }
    if ref_valid(y, m, d) {
        let rd = ref_rd(t, y, m, d);
        let e = rd - RD_UNIX;
        let want = format!("some {e}");
        for (who, got) in [("lit.parse_date", &lit), ("default.parse_date", &def), ("cast.parse_date", &cast)] {
            if *got != want {
                let kind = if got == "none" { "rejects-valid" } else { "wrong-day-number" };
                rep.oracle_fail(case.clone(), format!("{who}('{text}') = {got}, calendar says {want}"), format!("{who}:{kind}"));
            }
        }
        // date functions: TO_DAYS epoch is RD (0001-01-01 ↦ 1); must agree up to that constant
        let todays = fn_text1("TO_DAYS", &text);
        if todays != rd.to_string() {
            rep.oracle_fail(case.clone(), format!("TO_DAYS('{text}') = {todays}, calendar day number (RD) {rd}"), "fn.to_days:wrong-day-number".into());
        }
        match guarded(move || verif_fn_days_to_date(rd)) {
            Ok((yy, mm, dd)) if (yy, mm, dd) == (y, m, d) => {}
            other => rep.oracle_fail(case.clone(), format!("days_to_date({rd}) = {other:?}, expected {text}"), "fn.days_to_date:not-inverse".into()),
        }
        let dow = guarded(move || verif_fn_day_of_week(y, m, d));
        if dow != Ok((rd.rem_euclid(7)) as u32) {
            rep.oracle_fail(case.clone(), format!("day_of_week({text}) = {dow:?}, calendar says {}", rd.rem_euclid(7)), "fn.day_of_week:wrong".into());
        }
        let ordinal = rd - t[y as usize] + 1;
        let doy = guarded(move || verif_fn_day_of_year(y, m, d));
        if doy != Ok(ordinal as u32) {
            rep.oracle_fail(case.clone(), format!("day_of_year({text}) = {doy:?}, calendar says {ordinal}"), "fn.day_of_year:wrong".into());
        }
        // timestamp at one second of the day: parse (literal) and render (cli)
        let ts_text = format!("{text} {}", hms_text(sec));
        let want_ts = e * MICROS_DAY + sec as i64 * 1_000_000;
        let got_ts = impl_parse("litts", &ts_text);
        if got_ts != format!("some {want_ts}") {
            rep.oracle_fail(format!("ts {y} {m} {d} {sec}"), format!("parse_timestamp('{ts_text}') = {got_ts}, expected {want_ts}"), "lit.parse_timestamp:wrong-value".into());
        }
        let back = impl_render("fmtts", want_ts);
        if back != ts_text {
            let sig = if want_ts < 0 && sec != 0 { "cli.format_timestamp:pre-1970-time-of-day" } else { "cli.format_timestamp:roundtrip" };
            rep.oracle_fail(format!("ts {y} {m} {d} {sec}"), format!("format_timestamp({want_ts}) = '{back}', expected '{ts_text}'"), sig.into());
        }
        rep.count("sweep_valid_dates");
    } else {
        let kind = invalid_kind(y, m, d);
        for (who, got) in [("lit.parse_date", &lit), ("default.parse_date", &def), ("cast.parse_date", &cast)] {
            if got.starts_with("some") {
                rep.oracle_fail(case.clone(), format!("{who}('{text}') = {got}: a date that does not exist is accepted"), format!("{who}:accepts-invalid:{kind}"));
            }
        }
        // observation only (text argument of a function, not a DATE literal): date functions do not validate
        if fn_text1("TO_DAYS", &text) != "none" {
            rep.count(&format!("observed_fn_to_days_accepts_{kind}"));
        }
        rep.count(&format!("sweep_invalid_{kind}"));
    }
}

// ---------------------------------------------------------------- phase A: every date
fn sweep_years(ctx: &Ctx, t: &[i64], years: &[i64], seed: u64) -> Report {
    let mut rep = Report::new("cal", "");
    let mut rng = Rng::new(seed);
    let mut lines = Vec::with_capacity(years.len());
    for &y in years {
        let mut line = String::with_capacity(16 * 1024);
        let in_prop = (1..=9999).contains(&y);
        let mut dates: Vec<(OwnedValue, String)> = vec![];
        for m in 1..=12u32 {
            for d in 1..=31u32 {
                let (tup, litres) = impl_tuple2(y, m, d);
                line.push_str(&tup);
                line.push(';');
                if in_prop {
                    let sec = rng.below(86_400) as u32;
                    oracle_triple(&mut rep, t, y, m, d, sec, Some(litres));
                    if ref_valid(y, m, d) {
                        let e = ref_rd(t, y, m, d) - RD_UNIX;
                        dates.push((OwnedValue::Date(e as i32), ymd_text(y, m, d)));
                    }
                    rep.case(Some(&format!("date {y} {m} {d}")));
                } else {
                    rep.case(None);
                    rep.count("sweep_outside_1_9999");
                }
            }
        }
        // render every date of the year through the CLI renderer
        if in_prop {
            let vals: Vec<OwnedValue> = dates.iter().map(|p| p.0.clone()).collect();
            match impl_format_values(vals) {
                Ok(out) => {
                    for (i, (v, text)) in dates.iter().enumerate() {
                        if out.get(i) != Some(text) {
                            rep.oracle_fail(format!("render fmtdate {}", ov_str(v).replace("some ", "")), format!("format_date gives {:?}, expected '{text}'", out.get(i)), "cli.format_date:roundtrip".into());
                        }
                    }
                }
                Err(m) => rep.oracle_fail(format!("date {y} 1 1"), format!("TableFormatter panicked: {m}"), "cli.format_date:panic".into()),
            }
        }
        lines.push(line);
    }
    let reqs: Vec<String> = years.iter().map(|y| format!("year {y}")).collect();
    let resp = model_batch(&ctx.model_bin, "cal", &reqs);
    for (i, &y) in years.iter().enumerate() {
        if resp[i] != lines[i] {
            let a: Vec<&str> = lines[i].split(';').collect();
            let b: Vec<&str> = resp[i].split(';').collect();
            let mut reported = false;
            for k in 0..a.len().max(b.len()) {
                if a.get(k) != b.get(k) {
                    let (m, d) = (k / 31 + 1, k % 31 + 1);
                    rep.disagree(format!("date {y} {m} {d}"), format!("impl={:?} model={:?} (fields: ok lit def fn dow doy)", a.get(k), b.get(k)), "tuple-differs".into());
                    reported = true;
                    break;
                }
            }
            if !reported {
                rep.disagree(format!("date {y} 1 1"), "year line differs".into(), "tuple-differs".into());
            }
        }
    }
    rep
}

// ---------------------------------------------------------------- phase C: inverse sweep
fn next_day(y: &mut i64, m: &mut u32, d: &mut u32) {
    if *d < ref_mlen(*y, *m) {
        *d += 1;
    } else if *m < 12 {
        *m += 1;
        *d = 1;
    } else {
        *y += 1;
        *m = 1;
        *d = 1;
    }
}
fn sweep_inverse(ctx: &Ctx, t: &[i64], blocks: &[(i64, usize)]) -> Report {
    let mut rep = Report::new("cal", "");
    let mut lines = vec![];
    for &(n0, cnt) in blocks {
        // locate the civil date of n0 by counting from Jan 1 of its year (reference)
        let rd0 = n0 + RD_UNIX;
        let mut y = t.partition_point(|&j| j <= rd0) as i64 - 1;
        let (mut m, mut d) = (1u32, 1u32);
        let mut rd = t[y as usize];
        while rd < rd0 {
            next_day(&mut y, &mut m, &mut d);
            rd += 1;
        }
        let vals: Vec<OwnedValue> = (0..cnt).map(|i| OwnedValue::Date((n0 + i as i64) as i32)).collect();
        let cli = impl_format_values(vals).unwrap_or_else(|m| vec![format!("panic {m}"); cnt]);
        let mut line = String::with_capacity(cnt * 34);
        for i in 0..cnt {
            let n = n0 + i as i64;
            let a = cli.get(i).cloned().unwrap_or_else(|| "missing".into());
            let b = impl_render("fromdays", n + RD_UNIX);
            let c0 = impl_render("unixts", n * 86_400);
            let c = c0.split(' ').next().unwrap_or("").to_string();
            line.push_str(&format!("{a} {b} {c};"));
            let in_prop = (1..=9999).contains(&y);
            if in_prop {
                let want = ymd_text(y, m, d);
                for (who, got) in [("cli.format_date", &a), ("fn.from_days", &b), ("fn.format_unix_timestamp", &c)] {
                    if *got != want {
                        let sig = if got == "panic-sub-overflow" && m == 2 && d == 29 {
                            format!("{who}:feb29-panic-sub-overflow")
                        } else if m == 2 && d == 29 && y % 400 == 0 && got == &ymd_text(y, 3, 1) {
                            format!("{who}:feb29-of-400th-year-rendered-as-mar01")
                        } else {
                            format!("{who}:wrong-date")
                        };
                        rep.oracle_fail(format!("render {} {}", if who == "fn.from_days" { "fromdays" } else if who == "cli.format_date" { "fmtdate" } else { "unixts" },
                            if who == "fn.from_days" { n + RD_UNIX } else if who == "cli.format_date" { n } else { n * 86_400 }),
                            format!("{who} of day {n} (since 1970-01-01) = '{got}', calendar says '{want}'"), sig);
                    }
                }
                rep.case(Some(&format!("inv {n}")));
            } else {
                rep.case(None);
            }
            next_day(&mut y, &mut m, &mut d);
        }
        lines.push(line);
    }
    let reqs: Vec<String> = blocks.iter().map(|(n0, c)| format!("inv {n0} {c}")).collect();
    let resp = model_batch(&ctx.model_bin, "cal", &reqs);
    for (i, &(n0, _)) in blocks.iter().enumerate() {
        if resp[i] != lines[i] {
            let a: Vec<&str> = lines[i].split(';').collect();
            let b: Vec<&str> = resp[i].split(';').collect();
            for k in 0..a.len().max(b.len()) {
                if a.get(k) != b.get(k) {
                    rep.disagree(format!("render fmtdate {}", n0 + k as i64), format!("day {} impl={:?} model={:?} (fields: cli.format_date fn.from_days fn.format_unix_timestamp)", n0 + k as i64, a.get(k), b.get(k)), "inverse-differs".into());
                    break;
                }
            }
        }
    }
    rep
}

// ---------------------------------------------------------------- generic text / render cases
enum Case {
    Date(i64, u32, u32),
    Parse(String, Vec<u8>),
    Render(String, i64),
}
/// does the case contain a numeric field with more than 5 digits (date part) / a value beyond ±10^5 years?
fn long_field(c: &Case) -> bool {
    match c {
        Case::Date(y, m, d) => y.abs() > 100_000 || *m > 100_000 || *d > 100_000,
        Case::Parse(_, bytes) => {
            let mut run = 0;
            let mut in_frac = false;
            for b in bytes {
                if b.is_ascii_digit() {
                    run += 1;
                    if run > 5 && !in_frac {
                        return true;
                    }
                } else {
                    run = 0;
                    in_frac = *b == b'.';
                }
            }
            false
        }
        Case::Render(_, n) => n.abs() > 4_000_000_000_000_000_000,
    }
}
fn run_cases(ctx: &Ctx, cases: &[Case]) -> Report {
    let mut rep = Report::new("cal", "");
    let mut reqs = vec![];
    let mut impls = vec![];
    let mut names = vec![];
    for c in cases {
        match c {
            Case::Date(y, m, d) => {
                reqs.push(format!("date {y} {m} {d}"));
                impls.push(impl_tuple_ext(*y, *m, *d));
                names.push(format!("date {y} {m} {d}"));
            }
            Case::Parse(p, bytes) => {
                reqs.push(format!("{p} {}", hex(bytes)));
                impls.push(match std::str::from_utf8(bytes) {
                    Ok(s) => impl_parse(p, s),
                    Err(_) => "not-utf8".into(),
                });
                names.push(format!("parse {p} {}", hex(bytes)));
            }
            Case::Render(r, n) => {
                reqs.push(format!("{r} {n}"));
                impls.push(hex(impl_render(r, *n).as_bytes()));
                names.push(format!("render {r} {n}"));
            }
        }
    }
    let resp = model_batch(&ctx.model_bin, "cal", &reqs);
    for i in 0..cases.len() {
        let kind = names[i].split(' ').take(2).collect::<Vec<_>>().join("_");
        rep.count(&format!("cases_{}", if names[i].starts_with("date") { "date".to_string() } else { kind.clone() }));
        rep.case(Some(&names[i]));
        if i % 20011 == 0 {
            rep.sample(format!("{} -> {}", names[i], impls[i]));
        }
        // integer overflow is not modelled: a dev-profile overflow panic on an input with a field of more
        // than 5 digits (far outside years 1..9999) is counted and skipped, never compared
        let overflow_panic = impls[i].contains("panic") && impls[i].contains("overflow") && impls[i] != "panic-sub-overflow";
        if overflow_panic && long_field(&cases[i]) {
            rep.count("skipped_overflow_panic_outside_model_domain");
            continue;
        }
        if impls[i] != resp[i] {
            rep.disagree(names[i].clone(), format!("impl={} model={}", impls[i], resp[i]), format!("{}-differs", kind));
        }
        if impls[i].starts_with("panic") || impls[i].contains(" panic ") {
            let sig = if impls[i] == "panic-sub-overflow" { "fn.format_unix_timestamp:panic-sub-overflow".to_string() } else { format!("{kind}:panic") };
            rep.oracle_fail(names[i].clone(), impls[i].clone(), sig);
        }
    }
    rep
}

// ---------------------------------------------------------------- time of day: all 86 400 seconds
fn sweep_seconds(ctx: &Ctx) -> Report {
    let mut rep = Report::new("cal", "");
    let mut cases = vec![];
    for s in 0..86_400u32 {
        let text = hms_text(s);
        let want = format!("some {}", s as i64 * 1_000_000);
        for p in ["littime", "casttime", "deftime"] {
            let got = impl_parse(p, &text);
            if got != want {
                rep.oracle_fail(format!("parse {p} {}", hex(text.as_bytes())), format!("{p}('{text}') = {got}, expected {want}"), format!("{p}:wrong-value"));
            }
            cases.push(Case::Parse(p.into(), text.clone().into_bytes()));
        }
        let back = impl_render("fmttime", s as i64 * 1_000_000);
        if back != text {
            rep.oracle_fail(format!("render fmttime {}", s as i64 * 1_000_000), format!("format_time = '{back}', expected '{text}'"), "cli.format_time:roundtrip".into());
        }
        cases.push(Case::Render("fmttime".into(), s as i64 * 1_000_000));
        rep.count("seconds_of_day");
    }
    merge(&mut rep, run_cases(ctx, &cases));
    rep
}

/// one timestamp text `YYYY-MM-DD HH:MM:SS` through the three timestamp parsers and the renderer
/// (oracle on the real code; the model comparison cases are appended to `cases`)
fn check_ts(rep: &mut Report, cases: &mut Vec<Case>, t: &[i64], y: i64, m: u32, d: u32, s: u32) {
    let e = ref_rd(t, y, m, d) - RD_UNIX;
    let text = format!("{} {}", ymd_text(y, m, d), hms_text(s));
    let want_v = e * MICROS_DAY + s as i64 * 1_000_000;
    let want = format!("some {want_v}");
    for p in ["litts", "castts", "defts"] {
        let got = impl_parse(p, &text);
        if got != want {
            rep.oracle_fail(format!("ts {y} {m} {d} {s}"), format!("{p}('{text}') = {got}, expected {want}"), format!("{p}:wrong-value"));
        }
        cases.push(Case::Parse(p.into(), text.clone().into_bytes()));
    }
    let back = impl_render("fmtts", want_v);
    if back != text {
        let sig = if want_v < 0 && s != 0 { "cli.format_timestamp:pre-1970-time-of-day" } else { "cli.format_timestamp:roundtrip" };
        rep.oracle_fail(format!("ts {y} {m} {d} {s}"), format!("format_timestamp({want_v}) = '{back}', expected '{text}'"), sig.into());
    }
    cases.push(Case::Render("fmtts".into(), want_v));
    rep.count("timestamp_seconds");
}

/// all 86 400 seconds (or every `step`-th) of one date as timestamps
fn sweep_timestamp_day(ctx: &Ctx, t: &[i64], y: i64, m: u32, d: u32, step: u32) -> Report {
    let mut rep = Report::new("cal", "");
    let mut cases = vec![];
    let mut s = 0u32;
    while s < 86_400 {
        check_ts(&mut rep, &mut cases, t, y, m, d, s);
        s += step;
    }
    merge(&mut rep, run_cases(ctx, &cases));
    rep
}

// ---------------------------------------------------------------- structured invalid / boundary texts
fn time_texts(rng: &mut Rng, thorough: bool) -> Vec<(String, Option<i64>)> {
    // (text, Some(expected micros) if it is a valid canonical-ish TIME literal, None if it must be rejected)
    let mut v: Vec<(String, Option<i64>)> = vec![];
    for (h, mi, s) in [(24, 0, 0), (23, 60, 0), (23, 59, 60), (0, 60, 0), (0, 0, 60), (24, 60, 60), (25, 0, 0), (99, 99, 99), (0, 61, 0), (12, 0, 61), (100, 0, 0), (4294967295u32, 0, 0), (0, 4294967295u32, 0)] {
        v.push((format!("{:02}:{:02}:{:02}", h, mi, s), None));
        v.push((format!("{:02}:{:02}:{:02}.5", h, mi, s), None));
    }
    for (txt, us) in [
        ("00:00:00.000001", 1i64), ("00:00:00.999999", 999_999), ("23:59:59.999999", 86_399_999_999), ("12:34:56.5", 45_296_500_000),
        ("12:34:56.123456", 45_296_123_456), ("00:00:00.0", 0), ("00:00:00.000000", 0), ("23:59:59.000001", 86_399_000_001),
        ("12:00:00.1", 43_200_100_000), ("12:00:00.12", 43_200_120_000), ("12:00:00.123", 43_200_123_000),
    ] {
        v.push((txt.to_string(), Some(us)));
    }
    let n = if thorough { 20_000 } else { 3_000 };
    for _ in 0..n {
        let s = rng.below(86_400);
        let us = match rng.below(4) { 0 => 0, 1 => rng.below(1_000_000), 2 => 999_999 - rng.below(3), _ => rng.below(3) + 1 } as i64;
        let base = hms_text(s as u32);
        if us == 0 {
            v.push((base, Some(s as i64 * 1_000_000)));
        } else {
            v.push((format!("{base}.{:06}", us), Some(s as i64 * 1_000_000 + us)));
        }
    }
    v
}

fn random_text(rng: &mut Rng) -> Vec<u8> {
    // field-structured ASCII text around the date/time grammar with mutations
    const ALPH: &[u8] = b"0123456789-:. T+";
    let mut s: Vec<u8> = match rng.below(6) {
        0 => format!("{}-{}-{}", rng.range(0, 10500), rng.range(0, 14), rng.range(0, 33)).into_bytes(),
        1 => format!("{:04}-{:02}-{:02}", rng.range(0, 10500), rng.range(0, 14), rng.range(0, 33)).into_bytes(),
        2 => format!("{:02}:{:02}:{:02}", rng.range(0, 25), rng.range(0, 61), rng.range(0, 61)).into_bytes(),
        3 => format!("{:04}-{:02}-{:02}{}{:02}:{:02}:{:02}", rng.range(1, 9999), rng.range(1, 12), rng.range(1, 31), if rng.chance(1, 2) { ' ' } else { 'T' }, rng.range(0, 24), rng.range(0, 60), rng.range(0, 60)).into_bytes(),
        4 => format!("{:02}:{:02}:{:02}.{}", rng.range(0, 23), rng.range(0, 59), rng.range(0, 59), rng.below(10_000_000)).into_bytes(),
        _ => (0..rng.below(14)).map(|_| *rng.pick(ALPH)).collect(),
    };
    for _ in 0..rng.below(3) {
        if s.is_empty() {
            break;
        }
        let i = rng.below(s.len() as u64) as usize;
        match rng.below(4) {
            0 => s[i] = *rng.pick(ALPH),
            1 => s.insert(i, *rng.pick(ALPH)),
            2 => {
                s.remove(i);
            }
            _ => {
                if rng.chance(1, 2) {
                    s.insert(0, b' ')
                } else {
                    s.push(b' ')
                }
            }
        }
    }
    s
}

// ---------------------------------------------------------------- SQL level (real Database)
struct Sql {
    db: Database,
    next_id: i64,
}
fn sql_open(ctx: &Ctx) -> Result<Sql, String> {
    let dir = format!("{}/caldb", ctx.scratch);
    let _ = std::fs::remove_dir_all(&dir);
    let r = guarded(move || -> eyre::Result<Database> {
        let db = Database::create(&dir)?;
        Ok(db)
    });
    match r {
        Ok(Ok(db)) => Ok(Sql { db, next_id: 1 }),
        Ok(Err(e)) => Err(format!("{e:#}")),
        Err(m) => Err(format!("panic {m}")),
    }
}
/// INSERT a batch of literals into the typed column of a fresh table and read them back; one canonical
/// answer per literal (`rejected` = the INSERT failed)
fn sql_insert_select(sql: &mut Sql, kind: &str, texts: &[String]) -> Vec<String> {
    let ty = match kind {
        "date" => "DATE",
        "time" => "TIME",
        _ => "TIMESTAMP",
    };
    let table = format!("cal_b_{}", sql.next_id);
    sql.next_id += 1;
    let mut out = vec!["rejected".to_string(); texts.len()];
    let db = &sql.db;
    if let Err(e) = guarded(std::panic::AssertUnwindSafe(|| db.execute(&format!("CREATE TABLE {table} (id INT, v {ty})")))).map_err(|m| m).and_then(|r| r.map_err(|e| format!("{e:#}"))) {
        return vec![format!("create-failed {e}"); texts.len()];
    }
    // first try one multi-row insert (fast path: all literals accepted) …
    let stmt = format!(
        "INSERT INTO {table} VALUES {}",
        texts.iter().enumerate().map(|(i, t)| format!("({}, '{}')", i, t)).collect::<Vec<_>>().join(", ")
    );
    let all_ok = matches!(guarded(std::panic::AssertUnwindSafe(|| db.execute(&stmt))), Ok(Ok(_)));
    if !all_ok {
        // … else row by row, so that each literal gets its own accept / reject answer
        for (i, t) in texts.iter().enumerate() {
            let stmt = format!("INSERT INTO {table} VALUES ({}, '{}')", i, t);
            match guarded(std::panic::AssertUnwindSafe(|| db.execute(&stmt))) {
                Ok(Ok(_)) => {}
                Ok(Err(_)) => {}
                Err(m) => out[i] = format!("panic {m}"),
            }
        }
    }
    let q = format!("SELECT id, v FROM {table}");
    match guarded(std::panic::AssertUnwindSafe(|| db.query(&q))) {
        Ok(Ok(rows)) => {
            for r in rows {
                if let (Some(OwnedValue::Int(id)), Some(v)) = (r.get(0), r.get(1)) {
                    let k = *id as usize;
                    if k < out.len() {
                        out[k] = ov_str(v);
                    }
                }
            }
        }
        Ok(Err(e)) => out.iter_mut().for_each(|o| *o = format!("select-error {e:#}")),
        Err(m) => out.iter_mut().for_each(|o| *o = format!("panic {m}")),
    }
    let _ = guarded(std::panic::AssertUnwindSafe(|| db.execute(&format!("DROP TABLE {table}"))));
    out
}
/// `SELECT CAST('text' AS <type>)` for a batch (one statement, many select items)
fn sql_cast(sql: &Sql, kind: &str, texts: &[String]) -> Vec<String> {
    let ty = match kind {
        "date" => "DATE",
        "time" => "TIME",
        _ => "TIMESTAMP",
    };
    let q = format!("SELECT {}", texts.iter().map(|t| format!("CAST('{t}' AS {ty})")).collect::<Vec<_>>().join(", "));
    let db = &sql.db;
    match guarded(std::panic::AssertUnwindSafe(|| db.query(&q))) {
        Ok(Ok(rows)) if rows.len() == 1 => rows[0]
            .values
            .iter()
            .map(|v| match v {
                OwnedValue::Int(i) => format!("some {i}"),
                OwnedValue::TimestampTz(t, _) => format!("some {t}"),
                o => ov_str(o),
            })
            .collect(),
        Ok(Ok(rows)) => vec![format!("bad-row-count {}", rows.len()); texts.len()],
        Ok(Err(e)) => vec![format!("error {e:#}"); texts.len()],
        Err(m) => vec![format!("panic {m}"); texts.len()],
    }
}
/// a column DEFAULT '<text>' applied by an INSERT that omits the column
fn sql_default(sql: &mut Sql, kind: &str, text: &str) -> String {
    let ty = match kind {
        "date" => "DATE",
        "time" => "TIME",
        _ => "TIMESTAMP",
    };
    let name = format!("cal_def_{}", sql.next_id);
    sql.next_id += 1;
    let db = &sql.db;
    let r = guarded(std::panic::AssertUnwindSafe(|| -> eyre::Result<String> {
        if let Err(e) = db.execute(&format!("CREATE TABLE {name} (id INT, v {ty} DEFAULT '{text}')")) {
            return Ok(format!("rejected-at-create {e:#}").chars().take(80).collect());
        }
        let res = (|| -> eyre::Result<String> {
            if let Err(e) = db.execute(&format!("INSERT INTO {name} (id) VALUES (1)")) {
                return Ok(format!("rejected-at-insert {e:#}").chars().take(80).collect());
            }
            // (`SELECT v` alone returns NULL on this tree - a projection defect outside C41 - so select both)
            let rows = db.query(&format!("SELECT id, v FROM {name}"))?;
            Ok(rows.first().and_then(|r| r.get(1)).map(ov_str).unwrap_or_else(|| "no-row".into()))
        })();
        let _ = db.execute(&format!("DROP TABLE {name}"));
        res
    }));
    match r {
        Ok(Ok(s)) => s,
        Ok(Err(e)) => format!("error {e:#}"),
        Err(m) => format!("panic {m}"),
    }
}

fn sql_phase(ctx: &Ctx, t: &[i64], rng: &mut Rng, extra: &[(String, String)]) -> Report {
    let mut rep = Report::new("cal", "");
    let mut sql = match sql_open(ctx) {
        Ok(s) => s,
        Err(e) => {
            rep.oracle_fail("sql date 1970-01-01".into(), format!("cannot create scratch database: {e}"), "sql:setup-failed".into());
            return rep;
        }
    };
    // ---- dates: every date of a set of years (boundary years + random), and five boundary days of every year
    let mut years: Vec<i64> = vec![1, 2, 4, 99, 100, 101, 399, 400, 401, 1582, 1600, 1699, 1700, 1899, 1900, 1901, 1968, 1969, 1970, 1971, 1972, 1999, 2000, 2001, 2024, 2037, 2038, 2100, 2400, 5000, 9996, 9998, 9999];
    let nrand = if ctx.thorough { 9999 } else { 30 };
    if ctx.thorough {
        years = (1..=9999).collect();
    } else {
        for _ in 0..nrand {
            years.push(rng.range(1, 9999));
        }
    }
    let mut batches: Vec<Vec<(i64, u32, u32)>> = vec![];
    for &y in &years {
        let mut b = vec![];
        for m in 1..=12u32 {
            for d in 1..=31u32 {
                b.push((y, m, d));
            }
        }
        batches.push(b);
    }
    if !ctx.thorough {
        let mut b = vec![];
        for y in 1..=9999i64 {
            for (m, d) in [(1, 1), (2, 28), (2, 29), (3, 1), (12, 31)] {
                b.push((y, m, d));
                if b.len() >= 400 {
                    batches.push(std::mem::take(&mut b));
                }
            }
        }
        batches.push(b);
    }
    for b in &batches {
        if b.is_empty() {
            continue;
        }
        let valid: Vec<&(i64, u32, u32)> = b.iter().filter(|(y, m, d)| ref_valid(*y, *m, *d)).collect();
        let invalid: Vec<&(i64, u32, u32)> = b.iter().filter(|(y, m, d)| !ref_valid(*y, *m, *d)).collect();
        // valid dates: one multi-row INSERT + SELECT, and one multi-item CAST query
        let texts: Vec<String> = valid.iter().map(|(y, m, d)| ymd_text(*y, *m, *d)).collect();
        let got = sql_insert_select(&mut sql, "date", &texts);
        let got_cast = sql_cast(&sql, "date", &texts);
        for (i, (y, m, d)) in valid.iter().enumerate() {
            let e = ref_rd(t, *y, *m, *d) - RD_UNIX;
            let want = format!("some {e}");
            rep.case(Some(&format!("sql date {}", texts[i])));
            rep.count("sql_valid_dates");
            if got[i] != want {
                rep.oracle_fail(format!("sql date {}", texts[i]), format!("INSERT '{}' into a DATE column then SELECT gives {}, calendar says {want}", texts[i], got[i]), "sql.insert-select-date:wrong".into());
            }
            if got_cast.get(i) != Some(&want) {
                rep.oracle_fail(format!("sql date {}", texts[i]), format!("SELECT CAST('{}' AS DATE) gives {:?}, calendar says {want}", texts[i], got_cast.get(i)), "sql.cast-date:wrong".into());
            }
        }
        // invalid dates: each must be rejected by INSERT and give NULL from CAST
        let texts: Vec<String> = invalid.iter().map(|(y, m, d)| ymd_text(*y, *m, *d)).collect();
        if !texts.is_empty() {
            let got = sql_insert_select(&mut sql, "date", &texts);
            let got_cast = sql_cast(&sql, "date", &texts);
            for (i, (y, m, d)) in invalid.iter().enumerate() {
                let kind = invalid_kind(*y, *m, *d);
                rep.case(Some(&format!("sql date {}", texts[i])));
                rep.count(&format!("sql_invalid_{kind}"));
                if got[i] != "rejected" {
                    rep.oracle_fail(format!("sql date {}", texts[i]), format!("INSERT of the non-existent date '{}' is accepted: {}", texts[i], got[i]), format!("sql.insert-date:accepts-invalid:{kind}"));
                }
                if got_cast.get(i).map(|s| s.starts_with("some")).unwrap_or(false) {
                    rep.oracle_fail(format!("sql date {}", texts[i]), format!("CAST('{}' AS DATE) = {:?}", texts[i], got_cast.get(i)), format!("sql.cast-date:accepts-invalid:{kind}"));
                }
            }
        }
    }
    // ---- corpus / replay `sql <kind> <text>` cases through INSERT+SELECT and CAST (DEFAULT: below)
    for (kind, text) in extra {
        if text.contains('\'') {
            continue;
        }
        let want = expected_value(t, kind, text);
        let got = sql_insert_select(&mut sql, kind, &[text.clone()]).pop().unwrap_or_default();
        let got_cast = sql_cast(&sql, kind, &[text.clone()]).pop().unwrap_or_default();
        rep.case(Some(&format!("sql {kind} {text}")));
        let what = match kind.as_str() { "date" => "date", "time" => "time", _ => "timestamp" };
        match want {
            Some(v) => {
                if got != format!("some {v}") {
                    rep.oracle_fail(format!("sql {kind} {text}"), format!("INSERT '{text}' then SELECT gives {got}, expected some {v}"), format!("sql.insert-select-{what}:wrong"));
                }
                if got_cast != format!("some {v}") {
                    rep.oracle_fail(format!("sql {kind} {text}"), format!("CAST('{text}') gives {got_cast}, expected some {v}"), format!("sql.cast-{what}:wrong"));
                }
            }
            None => {
                if got != "rejected" {
                    rep.oracle_fail(format!("sql {kind} {text}"), format!("INSERT of invalid {what} '{text}' accepted: {got}"), format!("sql.insert-{what}:accepts-invalid:{}", default_invalid_kind(kind, text)));
                }
                if got_cast.starts_with("some") {
                    rep.oracle_fail(format!("sql {kind} {text}"), format!("CAST('{text}') = {got_cast}"), format!("sql.cast-{what}:accepts-invalid:{}", default_invalid_kind(kind, text)));
                }
            }
        }
    }
    // ---- DEFAULT: a few hundred literals (each needs its own table)
    let mut defs: Vec<(String, String)> = vec![];
    for (y, m, d) in [(1i64, 1u32, 1u32), (1969, 12, 31), (1970, 1, 1), (2000, 2, 29), (2024, 2, 29), (9999, 12, 31), (2023, 2, 29), (2023, 2, 30), (2023, 4, 31), (1900, 2, 29), (2023, 13, 1), (2023, 0, 10), (2023, 6, 0), (2023, 6, 32)] {
        defs.push(("date".into(), ymd_text(y, m, d)));
    }
    let ndef = if ctx.thorough { 400 } else { 40 };
    for _ in 0..ndef {
        let y = rng.range(1, 9999);
        let m = rng.range(1, 12) as u32;
        let d = rng.range(1, 31) as u32;
        defs.push(("date".into(), ymd_text(y, m, d)));
    }
    for tx in ["00:00:00", "23:59:59", "12:34:56.789", "24:00:00", "23:60:00", "23:59:60"] {
        defs.push(("time".into(), tx.to_string()));
    }
    for tx in ["1970-01-01 00:00:00", "1969-12-31 23:59:59", "2024-02-29 12:00:00", "9999-12-31 23:59:59", "2023-02-30 00:00:00", "2023-06-15 24:00:00"] {
        defs.push(("ts".into(), tx.to_string()));
    }
    defs.extend(extra.iter().cloned());
    for (kind, text) in &defs {
        let got = sql_default(&mut sql, kind, text);
        let want: Option<i64> = expected_value(t, kind, text);
        rep.case(Some(&format!("sql-default {kind} {text}")));
        rep.count(&format!("sql_default_{kind}_{}", if want.is_some() { "valid" } else { "invalid" }));
        match want {
            Some(v) => {
                if got != format!("some {v}") {
                    rep.oracle_fail(format!("sql {kind} {text}"), format!("column DEFAULT '{text}' ({kind}) yields {got}, expected some {v}"), format!("sql.default-{kind}:wrong"));
                }
            }
            None => {
                if got.starts_with("some") {
                    let k = default_invalid_kind(kind, text);
                    rep.oracle_fail(format!("sql {kind} {text}"), format!("column DEFAULT '{text}' ({kind}) is not a valid literal but yields {got}"), format!("sql.default-{kind}:accepts-invalid:{k}"));
                }
            }
        }
    }
    // ---- times / timestamps through INSERT + SELECT and CAST
    let mut ttexts: Vec<(String, Option<i64>)> = time_texts(rng, false).into_iter().take(400).collect();
    ttexts.retain(|(s, _)| !s.contains('\''));
    for chunk in ttexts.chunks(100) {
        let valid: Vec<&(String, Option<i64>)> = chunk.iter().filter(|c| c.1.is_some()).collect();
        let texts: Vec<String> = valid.iter().map(|c| c.0.clone()).collect();
        let got = sql_insert_select(&mut sql, "time", &texts);
        let got_cast = sql_cast(&sql, "time", &texts);
        for (i, c) in valid.iter().enumerate() {
            let want = format!("some {}", c.1.unwrap());
            rep.case(Some(&format!("sql time {}", c.0)));
            rep.count("sql_valid_times");
            if got[i] != want {
                rep.oracle_fail(format!("sql time {}", c.0), format!("INSERT '{}' into TIME then SELECT gives {}, expected {want}", c.0, got[i]), "sql.insert-select-time:wrong".into());
            }
            if got_cast.get(i) != Some(&want) {
                rep.oracle_fail(format!("sql time {}", c.0), format!("CAST('{}' AS TIME) gives {:?}, expected {want}", c.0, got_cast.get(i)), "sql.cast-time:wrong".into());
            }
        }
        let invalid: Vec<&(String, Option<i64>)> = chunk.iter().filter(|c| c.1.is_none()).collect();
        let texts: Vec<String> = invalid.iter().map(|c| c.0.clone()).collect();
        if !texts.is_empty() {
            let got = sql_insert_select(&mut sql, "time", &texts);
            let got_cast = sql_cast(&sql, "time", &texts);
            for (i, c) in invalid.iter().enumerate() {
                rep.case(Some(&format!("sql time {}", c.0)));
                rep.count("sql_invalid_times");
                if got[i] != "rejected" {
                    rep.oracle_fail(format!("sql time {}", c.0), format!("INSERT of invalid TIME '{}' accepted: {}", c.0, got[i]), "sql.insert-time:accepts-invalid".into());
                }
                if got_cast.get(i).map(|s| s.starts_with("some")).unwrap_or(false) {
                    rep.oracle_fail(format!("sql time {}", c.0), format!("CAST('{}' AS TIME) = {:?}", c.0, got_cast.get(i)), "sql.cast-time:accepts-invalid".into());
                }
            }
        }
    }
    let mut ts_cases: Vec<(String, i64)> = vec![];
    for _ in 0..(if ctx.thorough { 20_000 } else { 2_000 }) {
        let y = match rng.below(4) { 0 => rng.range(1, 9999), 1 => rng.range(1960, 1980), 2 => *rng.pick(&[1i64, 9999, 1969, 1970, 2000, 2038]), _ => rng.range(1, 9999) };
        let m = rng.range(1, 12) as u32;
        let d = rng.range(1, ref_mlen(y, m) as i64) as u32;
        let s = match rng.below(3) { 0 => 0, 1 => 86_399, _ => rng.below(86_400) } as u32;
        let e = ref_rd(t, y, m, d) - RD_UNIX;
        ts_cases.push((format!("{} {}", ymd_text(y, m, d), hms_text(s)), e * MICROS_DAY + s as i64 * 1_000_000));
    }
    for chunk in ts_cases.chunks(200) {
        let texts: Vec<String> = chunk.iter().map(|c| c.0.clone()).collect();
        let got = sql_insert_select(&mut sql, "ts", &texts);
        let got_cast = sql_cast(&sql, "ts", &texts);
        for (i, c) in chunk.iter().enumerate() {
            let want = format!("some {}", c.1);
            rep.case(Some(&format!("sql ts {}", c.0)));
            rep.count("sql_valid_timestamps");
            if got[i] != want {
                rep.oracle_fail(format!("sql ts {}", c.0), format!("INSERT '{}' into TIMESTAMP then SELECT gives {}, expected {want}", c.0, got[i]), "sql.insert-select-timestamp:wrong".into());
            }
            if got_cast.get(i) != Some(&want) {
                rep.oracle_fail(format!("sql ts {}", c.0), format!("CAST('{}' AS TIMESTAMP) gives {:?}, expected {want}", c.0, got_cast.get(i)), "sql.cast-timestamp:wrong".into());
            }
        }
    }
    rep
}

/// reference value of a canonical literal text (`None` = not a valid literal)
fn expected_value(t: &[i64], kind: &str, text: &str) -> Option<i64> {
    fn num(s: &str, len: usize) -> Option<i64> {
        if s.len() == len && s.bytes().all(|b| b.is_ascii_digit()) {
            s.parse().ok()
        } else {
            None
        }
    }
    let date = |s: &str| -> Option<i64> {
        let p: Vec<&str> = s.split('-').collect();
        if p.len() != 3 {
            return None;
        }
        let (y, m, d) = (num(p[0], 4)?, num(p[1], 2)? as u32, num(p[2], 2)? as u32);
        if (1..=9999).contains(&y) && ref_valid(y, m, d) {
            Some(ref_rd(t, y, m, d) - RD_UNIX)
        } else {
            None
        }
    };
    let time = |s: &str| -> Option<i64> {
        let (hms, frac) = match s.split_once('.') {
            Some((a, b)) => (a, Some(b)),
            None => (s, None),
        };
        let p: Vec<&str> = hms.split(':').collect();
        if p.len() != 3 {
            return None;
        }
        let (h, mi, sec) = (num(p[0], 2)?, num(p[1], 2)?, num(p[2], 2)?);
        if h > 23 || mi > 59 || sec > 59 {
            return None;
        }
        let us = match frac {
            None => 0,
            Some(f) => {
                if f.is_empty() || f.len() > 6 || !f.bytes().all(|b| b.is_ascii_digit()) {
                    return None;
                }
                format!("{:0<6}", f).parse::<i64>().ok()?
            }
        };
        Some((h * 3600 + mi * 60 + sec) * 1_000_000 + us)
    };
    match kind {
        "date" => date(text),
        "time" => time(text),
        _ => {
            let (d, tm) = text.split_once(' ')?;
            Some(date(d)? * MICROS_DAY + time(tm)?)
        }
    }
}
fn default_invalid_kind(kind: &str, text: &str) -> String {
    if kind == "time" {
        return "time-field-out-of-range".into();
    }
    let dpart = text.split(' ').next().unwrap_or("");
    let p: Vec<i64> = dpart.split('-').filter_map(|x| x.parse().ok()).collect();
    if p.len() == 3 && !ref_valid(p[0], p[1] as u32, p[2] as u32) {
        invalid_kind(p[0], p[1] as u32, p[2] as u32).into()
    } else if kind == "ts" {
        "time-field-out-of-range".into()
    } else {
        "malformed".into()
    }
}

// ---------------------------------------------------------------- driver
pub fn run(ctx: &Ctx) -> Report {
    let mut rep = Report::new(
        "cal",
        "EVERY (year, month, day) with year 0..10400 (property range 1..9999), month 1..12, day 1..31 (so every calendar date \
         and every Feb 29/30/31, Apr/Jun/Sep/Nov 31) through literal, DEFAULT, CAST and date-function converters; every day \
         number of that span through the three inverse converters / renderers; boundary triples (month 0/13, day 0/32, \
         negative and huge years); all 86 400 seconds of the day as TIME and, on selected dates, as TIMESTAMP; structured \
         invalid times; grammar-mutated ASCII texts through all ten parsers; a real Database (INSERT/SELECT, CAST, DEFAULT). \
         non-trivial = distinct case whose year is in 1..9999 (date cases) or that is a distinct text / value (other cases)",
    );
    let t = jan1_table();
    let mut rng = Rng::new(ctx.seed);
    let t0 = std::time::Instant::now();
    let mut phase_times: Vec<String> = vec![];
    let nthreads = std::thread::available_parallelism().map(|n| n.get()).unwrap_or(4).clamp(2, 12);

    // ---- corpus / replay cases first
    let mut corpus_cases: Vec<Case> = vec![];
    let mut corpus_ts: Vec<(i64, u32, u32, u32)> = vec![];
    let mut corpus_sql: Vec<(String, String)> = vec![];
    let mut sqlraw: Vec<String> = vec![];
    for c in ctx.corpus_cases("C41") {
        let p: Vec<&str> = c.split_whitespace().collect();
        match p.as_slice() {
            ["date", y, m, d] => {
                if let (Ok(y), Ok(m), Ok(d)) = (y.parse(), m.parse(), d.parse()) {
                    corpus_cases.push(Case::Date(y, m, d));
                    if (1..=9999).contains(&y) && (1..=12).contains(&m) && (1..=31).contains(&d) {
                        oracle_triple(&mut rep, &t, y, m, d, 43_200, None);
                    }
                }
            }
            ["parse", parser, h] if PARSERS.contains(parser) => corpus_cases.push(Case::Parse(parser.to_string(), unhex(h))),
            ["render", r, n] if RENDERERS.contains(r) => {
                if let Ok(n) = n.parse() {
                    corpus_cases.push(Case::Render(r.to_string(), n));
                }
            }
            ["ts", y, m, d, s] => {
                if let (Ok(y), Ok(m), Ok(d), Ok(s)) = (y.parse(), m.parse(), d.parse(), s.parse()) {
                    corpus_ts.push((y, m, d, s));
                }
            }
            ["sqlraw", ..] => {
                // exploration aid (replay files only): run raw statements on one scratch database, outcome -> notes
                sqlraw.push(c.splitn(2, ' ').nth(1).unwrap_or("").to_string());
            }
            ["sql", kind, ..] => {
                let text = c.splitn(3, ' ').nth(2).unwrap_or("").to_string();
                corpus_sql.push((kind.to_string(), text));
            }
            _ => rep.notes.push(format!("unparsed corpus line: {c}")),
        }
    }
    if !sqlraw.is_empty() {
        if let Ok(sql) = sql_open(ctx) {
            for st in &sqlraw {
                let db = &sql.db;
                let out = if st.to_uppercase().starts_with("SELECT") {
                    match guarded(std::panic::AssertUnwindSafe(|| db.query(st))) {
                        Ok(Ok(rows)) => format!("{:?}", rows.iter().map(|r| r.values.clone()).collect::<Vec<_>>()),
                        Ok(Err(e)) => format!("error {e:#}"),
                        Err(m) => format!("panic {m}"),
                    }
                } else {
                    match guarded(std::panic::AssertUnwindSafe(|| db.execute(st))) {
                        Ok(Ok(_)) => "ok".to_string(),
                        Ok(Err(e)) => format!("error {e:#}"),
                        Err(m) => format!("panic {m}"),
                    }
                };
                eprintln!("sqlraw {st} => {out}");
                rep.notes.push(format!("sqlraw {st} => {out}"));
            }
        }
        if std::env::var("CAL_SQLRAW_ONLY").is_ok() {
            return rep;
        }
    }
    for (y, m, d, s) in &corpus_ts {
        if (1..=9999).contains(y) && ref_valid(*y, *m, *d) && *s < 86_400 {
            oracle_triple(&mut rep, &t, *y, *m, *d, *s, None);
            check_ts(&mut rep, &mut corpus_cases, &t, *y, *m, *d, *s);
        }
    }
    if !corpus_cases.is_empty() {
        merge(&mut rep, run_cases(ctx, &corpus_cases));
    }

    // ---- phase A: every date, in parallel
    let all_years: Vec<i64> = (0..=10_400).collect();
    let chunk = all_years.len().div_ceil(nthreads * 4);
    let chunks: Vec<&[i64]> = all_years.chunks(chunk).collect();
    let seeds: Vec<u64> = chunks.iter().map(|_| rng.next()).collect();
    let results: Vec<Report> = std::thread::scope(|s| {
        let hs: Vec<_> = chunks
            .iter()
            .zip(seeds.iter())
            .map(|(c, sd)| {
                let t = &t;
                s.spawn(move || sweep_years(ctx, t, c, *sd))
            })
            .collect();
        hs.into_iter().map(|h| h.join().unwrap_or_else(|_| Report::new("cal", "thread-panic"))).collect()
    });
    for r in results {
        if r.rule == "thread-panic" {
            rep.oracle_fail("date 1 1 1".into(), "a sweep worker thread panicked outside guarded code".into(), "harness:worker-panic".into());
        }
        merge(&mut rep, r);
    }

    phase_times.push(format!("every-date sweep {:.1}s", t0.elapsed().as_secs_f64()));
    // ---- phase C: every day number (plus a margin on both sides), in parallel
    let lo = t[0] - RD_UNIX; // 0000-01-01
    let hi = t[10_401] - RD_UNIX - 1; // 10400-12-31
    let mut blocks = vec![];
    let mut n = lo;
    while n <= hi {
        let c = ((hi - n + 1) as usize).min(2000);
        blocks.push((n, c));
        n += c as i64;
    }
    let bchunk = blocks.len().div_ceil(nthreads * 2);
    let results: Vec<Report> = std::thread::scope(|s| {
        let hs: Vec<_> = blocks
            .chunks(bchunk)
            .map(|c| {
                let t = &t;
                s.spawn(move || sweep_inverse(ctx, t, c))
            })
            .collect();
        hs.into_iter().map(|h| h.join().unwrap_or_else(|_| Report::new("cal", "thread-panic"))).collect()
    });
    for r in results {
        if r.rule == "thread-panic" {
            rep.oracle_fail("render fmtdate 0".into(), "an inverse-sweep worker thread panicked outside guarded code".into(), "harness:worker-panic".into());
        }
        merge(&mut rep, r);
    }

    phase_times.push(format!("+inverse sweep {:.1}s", t0.elapsed().as_secs_f64()));
    // ---- phase B: boundary / random triples with the complete model functions (incl. the year loop)
    let mut cases: Vec<Case> = vec![];
    for y in 1..=9999i64 {
        for (m, d) in [(1u32, 1u32), (2, 28), (2, 29), (3, 1), (12, 31)] {
            if y % 4 == 0 || y % 7 == (ctx.seed % 7) as i64 || ctx.thorough {
                cases.push(Case::Date(y, m, d));
            }
        }
    }
    for y in [-4801i64, -4800, -4799, -401, -400, -101, -100, -5, -4, -1, 0, 1, 2, 3, 4, 5, 100, 400, 1582, 1900, 1969, 1970, 1971, 2000, 2024, 2100, 9999, 10000, 10001, 12345, 99999, 100000] {
        for m in [0u32, 1, 2, 3, 11, 12, 13, 14, 15, 24, 26, 27, 100, 999] {
            for d in [0u32, 1, 28, 29, 30, 31, 32, 99, 1000] {
                cases.push(Case::Date(y, m, d));
            }
        }
    }
    for _ in 0..(if ctx.thorough { 200_000 } else { 20_000 }) {
        let y = match rng.below(3) { 0 => rng.range(1, 9999), 1 => rng.range(-6000, 20000), _ => rng.range(1890, 2110) };
        cases.push(Case::Date(y, rng.range(0, 14) as u32, rng.range(0, 33) as u32));
    }
    // renderers on boundary values
    for n in [-719_528i64, -719_163, -719_162, -1, 0, 1, 59, 60, 11_016, 11_017, 2_932_896, 2_932_897, -2_440_588, -2_472_633, 3_000_000] {
        for dn in -1..=1 {
            cases.push(Case::Render("fmtdate".into(), n + dn));
            cases.push(Case::Render("fromdays".into(), n + dn + RD_UNIX));
            cases.push(Case::Render("unixts".into(), (n + dn) * 86_400));
            cases.push(Case::Render("unixts".into(), (n + dn) * 86_400 + 86_399));
            cases.push(Case::Render("fmtts".into(), (n + dn) * MICROS_DAY));
            cases.push(Case::Render("fmtts".into(), (n + dn) * MICROS_DAY + 1));
            cases.push(Case::Render("fmtts".into(), (n + dn) * MICROS_DAY + MICROS_DAY - 1));
        }
    }
    for n in [0i64, 1, 999_999, 1_000_000, 59_999_999, 60_000_000, 3_599_999_999, 3_600_000_000, 86_399_999_999, 86_400_000_000, -1, -1_000_000, 360_000_000_000] {
        cases.push(Case::Render("fmttime".into(), n));
    }
    for _ in 0..(if ctx.thorough { 100_000 } else { 10_000 }) {
        cases.push(Case::Render("fmttime".into(), rng.below(86_400_000_000) as i64));
        cases.push(Case::Render("fmtts".into(), rng.range(-62_135_596_800, 253_402_300_799) * 1_000_000 + rng.below(1_000_000) as i64 * (rng.below(2) as i64)));
        cases.push(Case::Render("unixts".into(), rng.range(-62_135_596_800, 253_402_300_799)));
    }
    // structured time texts (with the property oracle) and mutated texts (model vs code) through all parsers
    let mut orep = Report::new("cal", "");
    for (text, want) in time_texts(&mut rng, ctx.thorough) {
        for p in ["littime", "casttime", "deftime"] {
            let got = impl_parse(p, &text);
            match want {
                Some(v) => {
                    if got != format!("some {v}") {
                        orep.oracle_fail(format!("parse {p} {}", hex(text.as_bytes())), format!("{p}('{text}') = {got}, expected some {v}"), format!("{p}:wrong-value"));
                    }
                }
                None => {
                    if got.starts_with("some") {
                        orep.oracle_fail(format!("parse {p} {}", hex(text.as_bytes())), format!("{p}('{text}') = {got}: an invalid TIME is accepted"), format!("{p}:accepts-invalid-time"));
                    }
                }
            }
            cases.push(Case::Parse(p.into(), text.clone().into_bytes()));
        }
        if let Some(v) = want {
            // canonical TIME text = no fraction, or exactly six fractional digits that are not all zero
            let canonical = match text.split_once('.') {
                None => true,
                Some((_, f)) => f.len() == 6 && f != "000000",
            };
            if canonical {
                let back = impl_render("fmttime", v);
                if back != text {
                    orep.oracle_fail(format!("render fmttime {v}"), format!("format_time({v}) = '{back}', expected '{text}'"), "cli.format_time:roundtrip".into());
                }
            }
            cases.push(Case::Render("fmttime".into(), v));
        }
    }
    merge(&mut rep, orep);
    for tx in ["", " ", "-", "--", "---", "2024-01", "2024-01-01-01", " 2024-02-29 ", "\t2024-02-29\n", "+2024-+2-+29", "2024-02-29 ", "02024-002-0029", "2024-2-9", "-2024-01-01", "2024--01-01", "4294967296-01-01", "2147483647-01-01x", "2024-4294967296-01", "2024-01-4294967295", "2024-01-01T00:00:00", "2024-01-01 00:00:00", "2024-01-01  00:00:00", "2024-01-01T", "T", "2024-01-01 24:00:00", "2024-01-01 23:59:60", "2023-02-29 12:00:00", "12:00", "12", "12:00:00:00", "12:00:00.", "12:00:00.-5", "12:00:00.+5", "12:00:00.1234567", "12:00:00.12345678901234567890", "1:2:3", "+1:+2:+3", "-1:00:00", "00:-1:00", "12.5:00:00", "12:00:00.5.5", "12:00:00 ", "0000-01-01", "0000-00-00", "10000-01-01", "99999-12-31", "CURRENT_DATEX"] {
        for p in PARSERS {
            cases.push(Case::Parse(p.into(), tx.as_bytes().to_vec()));
        }
    }
    for _ in 0..(if ctx.thorough { 300_000 } else { 30_000 }) {
        let s = random_text(&mut rng);
        for p in PARSERS {
            if rng.chance(1, 2) {
                cases.push(Case::Parse(p.into(), s.clone()));
            }
        }
    }
    let cchunk = cases.len().div_ceil(nthreads);
    let results: Vec<Report> = std::thread::scope(|s| {
        let hs: Vec<_> = cases.chunks(cchunk).map(|c| s.spawn(move || run_cases(ctx, c))).collect();
        hs.into_iter().map(|h| h.join().unwrap_or_else(|_| Report::new("cal", "thread-panic"))).collect()
    });
    for r in results {
        merge(&mut rep, r);
    }

    phase_times.push(format!("+triples/texts/renders {:.1}s", t0.elapsed().as_secs_f64()));
    // ---- phase D: time of day
    merge(&mut rep, sweep_seconds(ctx));
    let mut ts_days: Vec<(i64, u32, u32)> = vec![(1969, 12, 31), (2000, 2, 29), (9999, 12, 31)];
    if ctx.thorough {
        ts_days.extend([(1, 1, 1), (1970, 1, 1), (1600, 2, 29), (1900, 3, 1), (2038, 1, 19), (1582, 10, 15), (2024, 2, 29)]);
        for _ in 0..40 {
            let y = rng.range(1, 9999);
            let m = rng.range(1, 12) as u32;
            ts_days.push((y, m, rng.range(1, ref_mlen(y, m) as i64) as u32));
        }
    }
    let results: Vec<Report> = std::thread::scope(|s| {
        let hs: Vec<_> = ts_days
            .iter()
            .map(|&(y, m, d)| {
                let t = &t;
                s.spawn(move || sweep_timestamp_day(ctx, t, y, m, d, 1))
            })
            .collect();
        hs.into_iter().map(|h| h.join().unwrap_or_else(|_| Report::new("cal", "thread-panic"))).collect()
    });
    for r in results {
        merge(&mut rep, r);
    }
    // a coarse time grid on more dates
    for (y, m, d) in [(1i64, 1u32, 1u32), (1970, 1, 1), (1600, 2, 29), (2024, 2, 29), (1900, 3, 1), (1582, 10, 15)] {
        merge(&mut rep, sweep_timestamp_day(ctx, &t, y, m, d, 617));
    }

    phase_times.push(format!("+seconds/timestamps {:.1}s", t0.elapsed().as_secs_f64()));
    // ---- phase F: SQL
    merge(&mut rep, sql_phase(ctx, &t, &mut rng, &corpus_sql));
    phase_times.push(format!("+sql {:.1}s", t0.elapsed().as_secs_f64()));
    rep.notes.push(format!("cumulative phase times: {}", phase_times.join(", ")));
    rep
}
