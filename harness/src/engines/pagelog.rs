//! Page-level correspondence for C04 / C42: the M-code model `Model/PageLog.lean` (family
//! `pagelog`) against the real page store + WAL primitives, composed exactly as the database layer
//! composes them:
//!   write    = `WalStoragePerTable::page_mut` (WAL on: in place + dirty tracker) / `MmapStorage::page_mut`
//!   flush    = `WalStoragePerTable::flush_wal_for_table`            (flush_wal_if_autocommit)
//!   ckptshared = `Wal::rotate_segment` + `get_closed_segments` + `Database::replay_schema_tables_from_segments`
//!                (hook `verif_replay_schema_tables_from_segments`, the real routine) + `remove_closed_segments`
//!                                                                      (SharedDatabase::checkpoint, Drop)
//!   ckptdb   = flush of every dirty table + `Wal::truncate` / `cleanup_old_segments`   (Database::checkpoint)
//!   commit   = flush of every dirty table + `Wal::needs_checkpoint` → ckptshared         (execute_commit)
//!   reopen   = ckptdb, drop everything, `Database::recover_all_tables` (hook), fresh handles, WAL off
//!   dropreopen = ckptshared, drop everything, recover, fresh handles
//! Table files are real `root/tN.tbd` files created by `FileManager::create_table`; a page image is
//! the u64 at byte 256 of the page.  After every operation the values of pages 1..4 of both files
//! (read through the long-lived mappings, as queries do), the number of dirty pages and the WAL
//! switch are compared with the model.  Sequences are generated without regard to `safeOp`, so the
//! unsafe situations of the counterexample theorems (checkpoint over an unlogged in-place write)
//! are exercised as well – model and code must agree there too.
use crate::common::*;
use turdb::database::dirty_tracker::ShardedDirtyTracker;
use turdb::storage::{FileManager, MmapStorage, Storage, Wal, WalStoragePerTable};
use turdb::Database;

const NFILES: u32 = 2;
const NPAGES: u32 = 4;
const OFF: usize = 256;

struct World {
    dir: String,
    st: Vec<MmapStorage>,
    wal: Option<Wal>,
    tracker: ShardedDirtyTracker,
    wal_on: bool,
    thr: u32,
}

fn e2s<T>(r: eyre::Result<T>) -> Result<T, String> { r.map_err(|e| format!("{e:#}")) }

impl World {
    fn create(dir: &str) -> Result<World, String> {
        let _ = std::fs::remove_dir_all(dir);
        {
            let mut fm = e2s(FileManager::create(dir, 8))?;
            for f in 1..=NFILES { e2s(fm.create_table("root", &format!("t{f}"), f as u64, 2))?; }
        }
        for f in 1..=NFILES {
            let mut s = e2s(MmapStorage::open(format!("{dir}/root/t{f}.tbd")))?;
            e2s(s.grow(NPAGES + 2))?;
            e2s(s.sync())?;
        }
        let mut w = World { dir: dir.to_string(), st: vec![], wal: None, tracker: ShardedDirtyTracker::new(), wal_on: false, thr: 1000 };
        w.open_files()?;
        Ok(w)
    }
    fn open_files(&mut self) -> Result<(), String> {
        self.st.clear();
        for f in 1..=NFILES { self.st.push(e2s(MmapStorage::open(format!("{}/root/t{f}.tbd", self.dir)))?); }
        Ok(())
    }
    fn wal_dir(&self) -> std::path::PathBuf { std::path::Path::new(&self.dir).join("wal") }
    fn ensure_wal(&mut self) -> Result<(), String> {
        if self.wal.is_none() {
            let d = self.wal_dir();
            let w = if d.exists() { e2s(Wal::open(&d))? } else { e2s(Wal::create(&d))? };
            w.set_checkpoint_threshold(self.thr);
            self.wal = Some(w);
        }
        Ok(())
    }
    fn flush(&mut self, f: u32) -> Result<(), String> {
        if !self.wal_on { return Ok(()); }
        if !self.tracker.has_dirty_pages(f) { return Ok(()); }
        let wal = self.wal.as_mut().ok_or("WAL on without a WAL object")?;
        e2s(WalStoragePerTable::flush_wal_for_table(&self.tracker, &self.st[f as usize - 1], wal, f))?;
        Ok(())
    }
    fn flush_all_dirty(&mut self) -> Result<(), String> {
        let ids = self.tracker.all_dirty_table_ids();
        let Some(wal) = self.wal.as_mut() else { return Ok(()) };
        for f in ids {
            if f >= 1 && f <= NFILES { e2s(WalStoragePerTable::flush_wal_for_table(&self.tracker, &self.st[f as usize - 1], wal, f))?; }
        }
        Ok(())
    }
    fn ckpt_shared(&mut self) -> Result<(), String> {
        let Some(wal) = self.wal.as_ref() else { return Ok(()) };
        e2s(wal.rotate_segment())?;
        let segs = wal.get_closed_segments();
        if segs.is_empty() { return Ok(()); }
        let root = std::path::Path::new(&self.dir).join("root");
        e2s(Database::verif_replay_schema_tables_from_segments(&root, &segs))?;
        e2s(wal.remove_closed_segments(&segs))?;
        Ok(())
    }
    fn ckpt_db(&mut self) -> Result<(), String> {
        if self.wal.is_none() { self.tracker.clear_all(); return Ok(()); }
        if self.tracker.is_empty() { return e2s(self.wal.as_ref().unwrap().cleanup_old_segments()); }
        self.flush_all_dirty()?;
        let wal = self.wal.as_ref().unwrap();
        if wal.current_offset() > 0 { e2s(wal.truncate())?; }
        Ok(())
    }
    fn commit(&mut self) -> Result<(), String> {
        if !self.wal_on { return Ok(()); }
        self.flush_all_dirty()?;
        if self.wal.as_ref().map(|w| w.needs_checkpoint()).unwrap_or(false) { self.ckpt_shared()?; }
        Ok(())
    }
    fn reopen_after(&mut self) -> Result<(), String> {
        self.wal = None;
        self.st.clear();
        self.tracker = ShardedDirtyTracker::new();
        self.wal_on = false;
        self.thr = 1000;
        let d = self.wal_dir();
        if d.exists() { e2s(Database::verif_recover_all_tables_in(std::path::Path::new(&self.dir), &d))?; }
        self.open_files()
    }
    fn apply(&mut self, op: &str) -> Result<(), String> {
        let w: Vec<&str> = op.split(' ').collect();
        match w[0] {
            "write" => {
                let (f, p, v): (u32, u32, u64) = (w[1].parse().unwrap(), w[2].parse().unwrap(), w[3].parse().unwrap());
                let st = &mut self.st[f as usize - 1];
                if self.wal_on {
                    let mut ws = WalStoragePerTable::new(st, &self.tracker, f);
                    let pg = e2s(ws.page_mut(p))?;
                    pg[OFF..OFF + 8].copy_from_slice(&v.to_le_bytes());
                } else {
                    let pg = e2s(st.page_mut(p))?;
                    pg[OFF..OFF + 8].copy_from_slice(&v.to_le_bytes());
                }
                Ok(())
            }
            "flush" => self.flush(w[1].parse().unwrap()),
            "wal" => { if w[1] == "1" { self.ensure_wal()?; self.wal_on = true; } else { self.wal_on = false; } Ok(()) }
            "thr" => { self.thr = w[1].parse().unwrap(); if let Some(wl) = self.wal.as_ref() { wl.set_checkpoint_threshold(self.thr); } Ok(()) }
            "ckptshared" => self.ckpt_shared(),
            "ckptdb" => self.ckpt_db(),
            "commit" => self.commit(),
            "reopen" => { self.ckpt_db()?; self.reopen_after() }
            "dropreopen" => { self.ckpt_shared()?; self.reopen_after() }
            _ => Err(format!("bad op {op}")),
        }
    }
    fn observe(&self) -> Result<String, String> {
        let mut t = vec![];
        for f in 0..NFILES as usize {
            for p in 1..=NPAGES {
                let pg = e2s(self.st[f].page(p))?;
                t.push(u64::from_le_bytes(pg[OFF..OFF + 8].try_into().unwrap()).to_string());
            }
        }
        Ok(format!("t={} d={} on={}", t.join(","), self.tracker.total_dirty_count(), self.wal_on as u8))
    }
}

fn strip_w(m: &str) -> String { m.split(' ').filter(|x| !x.starts_with("w=")).collect::<Vec<_>>().join(" ") }

/// generated operation sequence; `shape`: 0 = autocommit discipline (write+flush, maintenance in
/// between), 1 = free mixture incl. unflushed writes and WAL switches (unsafe situations)
fn gen_seq(rng: &mut Rng, shape: u64) -> Vec<String> {
    let mut v = vec![];
    let mut val = 10u64;
    let mut on = false;
    if shape == 0 || rng.chance(2, 3) { v.push("wal 1".to_string()); on = true; }
    if rng.chance(1, 3) { v.push("thr 1".into()); }
    let n = 6 + rng.below(30);
    for _ in 0..n {
        let f = 1 + rng.below(NFILES as u64);
        let p = 1 + rng.below(NPAGES as u64);
        val += 1;
        match rng.below(if shape == 0 { 10 } else { 14 }) {
            0..=4 => { v.push(format!("write {f} {p} {val}")); if shape == 0 || rng.chance(2, 3) { v.push(format!("flush {f}")); } }
            5 => v.push("ckptshared".into()),
            6 => v.push("ckptdb".into()),
            7 => v.push("commit".into()),
            8 => { v.push("reopen".into()); if on { v.push("wal 1".into()); } }
            9 => { v.push("dropreopen".into()); if on { v.push("wal 1".into()); } }
            10 => { on = !on; v.push(format!("wal {}", on as u8)); }
            11 => v.push(format!("flush {f}")),
            12 => v.push(format!("thr {}", if rng.chance(1, 2) { 1 } else { 1000 })),
            _ => v.push(format!("write {f} {p} {val}")),
        }
    }
    v
}

pub fn run_corr(ctx: &Ctx, rep: &mut Report, rng: &mut Rng) {
    let nseq = if ctx.thorough { 1500 } else { 120 };
    let mut seqs: Vec<Vec<String>> = vec![];
    // the two counterexamples of Props/C04.lean, literally
    seqs.push(["wal 1", "write 1 1 1", "flush 1", "write 1 1 2", "ckptshared"].iter().map(|s| s.to_string()).collect());
    seqs.push(["wal 1", "write 1 1 1", "flush 1", "wal 0", "write 1 1 2", "ckptshared"].iter().map(|s| s.to_string()).collect());
    seqs.push(["wal 1", "write 1 1 1", "flush 1", "wal 0", "write 1 1 2", "dropreopen"].iter().map(|s| s.to_string()).collect());
    for c in ctx.corpus_cases("C04") {
        if let Some(r) = c.strip_prefix("pagelog ") { seqs.push(r.split(" ; ").map(|s| s.trim().to_string()).collect()); }
    }
    for i in 0..nseq { seqs.push(gen_seq(rng, (i % 2) as u64)); }
    let mut all: Vec<String> = vec![];
    for s in &seqs { all.push("reset".into()); all.extend(s.iter().cloned()); }
    let resp = model_batch(&ctx.model_bin, "pagelog", &all);
    let mut off = 0;
    for (si, s) in seqs.iter().enumerate() {
        let mresp = &resp[off + 1..off + 1 + s.len()];
        off += 1 + s.len();
        let case = format!("pagelog {}", s.join(" ; "));
        rep.case(Some(&case));
        rep.count("pagelog_sequences");
        rep.count_n("pagelog_ops", s.len() as u64);
        if si % 17 == 0 { rep.sample(clip_case(&case)); }
        let dir = format!("{}/pl-{}-{}", ctx.scratch, si, std::process::id());
        let r = guarded({
            let dir = dir.clone();
            let s = s.clone();
            move || -> Result<Vec<String>, String> {
                let mut w = World::create(&dir)?;
                let mut out = vec![];
                for op in &s { w.apply(op).map_err(|e| format!("{op}: {e}"))?; out.push(w.observe()?); }
                Ok(out)
            }
        });
        let _ = std::fs::remove_dir_all(&dir);
        match r {
            Ok(Ok(out)) => {
                let mut regress = false;
                for (i, (g, m)) in out.iter().zip(mresp).enumerate() {
                    if *g != strip_w(m) {
                        rep.disagree(case.clone(), format!("op {i} `{}`: real page store {g}, model {}", s[i], strip_w(m)), format!("pagelog:{}", s[i].split(' ').next().unwrap_or("")));
                        break;
                    }
                    // count how often a maintenance operation changed a visible page (the unsafe
                    // situations): evidence that the run reaches them
                    if i > 0 && !s[i].starts_with("write") && out[i].split(' ').next() != out[i - 1].split(' ').next() { regress = true; }
                }
                if regress { rep.count("pagelog_sequences_with_page_regression"); }
            }
            Ok(Err(e)) => rep.disagree(case.clone(), format!("real page store call failed: {e}"), "pagelog:error".into()),
            Err(p) => rep.disagree(case.clone(), format!("real page store panicked: {p}"), "pagelog:panic".into()),
        }
    }
}

fn clip_case(s: &str) -> String { if s.len() > 300 { format!("{}…", &s[..300]) } else { s.to_string() } }
