//! C31: RecordBuilder / RecordView / OwnedValue glue vs the Lean model `TurVerif.Record`.
//!
//! case syntax (one line; also the replay/corpus syntax):
//!   glue <types> | <tok>* [| <tok>*]   build the row through OwnedValue::build_record_from_values and read it
//!                                      back with extract_row_from_record; with a second row: the builder is
//!                                      first filled with that row, then reused (reset) for the first one
//!   f4glue <f64 bits hex>              the glue on a (FLOAT4, INT4) schema (outside the byte model)
//!   range <kind> <flags> <lo> <hi>     typed range setters/getters (kind 4|8, flags: bit0 lo-incl, bit1 hi-incl,
//!                                      bit2 lo-missing, bit3 hi-missing, bit4 empty)
//! <types> = comma separated DataType names; tokens as in lean/Driver/RowSerde.lean (+ b: d: t: s:).
use super::rowserde::{row_toks, V};
use crate::common::{guarded, model_batch, Ctx, Report, Rng};
use turdb::records::types::ColumnDef as RecCol;
use turdb::records::{RecordBuilder, RecordView, Schema};
use turdb::schema::ColumnDef as SchCol;
use turdb::types::{DataType, OwnedValue};

fn hex(b: &[u8]) -> String {
    if b.is_empty() {
        return "-".to_string();
    }
    const D: &[u8; 16] = b"0123456789abcdef";
    let mut s = Vec::with_capacity(b.len() * 2);
    for x in b {
        s.push(D[(x >> 4) as usize]);
        s.push(D[(x & 15) as usize]);
    }
    String::from_utf8(s).unwrap()
}

const TYPES: &[(DataType, &str)] = &[
    (DataType::Bool, "Bool"), (DataType::Int2, "Int2"), (DataType::Int4, "Int4"), (DataType::Int8, "Int8"),
    (DataType::Float8, "Float8"), (DataType::Date, "Date"), (DataType::Time, "Time"), (DataType::Timestamp, "Timestamp"),
    (DataType::TimestampTz, "TimestampTz"), (DataType::Uuid, "Uuid"), (DataType::MacAddr, "MacAddr"),
    (DataType::Inet4, "Inet4"), (DataType::Inet6, "Inet6"), (DataType::Text, "Text"), (DataType::Blob, "Blob"),
    (DataType::Vector, "Vector"), (DataType::Jsonb, "Jsonb"), (DataType::Varchar, "Varchar"), (DataType::Char, "Char"),
    (DataType::Decimal, "Decimal"), (DataType::Interval, "Interval"), (DataType::Enum, "Enum"), (DataType::Point, "Point"),
    (DataType::Box, "Box"), (DataType::Circle, "Circle"), (DataType::Composite, "Composite"), (DataType::Array, "Array"),
    // only ever NULL in glue cases (no OwnedValue carries them; typed path: `range` / `f4glue` cases)
    (DataType::Float4, "Float4"), (DataType::Int4Range, "Int4Range"), (DataType::Int8Range, "Int8Range"),
    (DataType::DateRange, "DateRange"), (DataType::TimestampRange, "TimestampRange"),
];
const N_VALUED: usize = 27;

fn type_by_name(n: &str) -> Option<DataType> {
    TYPES.iter().find(|(_, s)| *s == n).map(|(t, _)| *t)
}
fn type_name(t: DataType) -> &'static str {
    TYPES.iter().find(|(x, _)| *x == t).map(|(_, s)| *s).unwrap_or("?")
}
fn kind_tok(t: DataType) -> String {
    match t.fixed_size() {
        Some(n) => format!("f{n}"),
        None => "v".into(),
    }
}
fn schema_tok(ts: &[DataType]) -> String {
    if ts.is_empty() {
        "-".into()
    } else {
        ts.iter().map(|t| kind_tok(*t)).collect::<Vec<_>>().join(",")
    }
}

/// the bytes the setter chosen by `OwnedValue::set_in_builder` writes for `v` into a column of type `t`
/// (None: this value/type pair is not representable in the byte model)
fn raw_of(t: DataType, v: &V) -> Option<Vec<u8>> {
    Some(match (t, v) {
        (_, V::Null) => return None,
        (DataType::Bool, V::Bool(b)) => vec![*b as u8],
        (DataType::Bool, V::Int(i)) => vec![(*i != 0) as u8],
        (DataType::Int2, V::Int(i)) => (*i as i16).to_le_bytes().to_vec(),
        (DataType::Int4, V::Int(i)) => (*i as i32).to_le_bytes().to_vec(),
        (DataType::Int8, V::Int(i)) => i.to_le_bytes().to_vec(),
        (DataType::Float8, V::Float(b)) => b.to_le_bytes().to_vec(),
        (DataType::Date, V::Date(d)) => d.to_le_bytes().to_vec(),
        (DataType::Time, V::Time(x)) | (DataType::Timestamp, V::Timestamp(x)) => x.to_le_bytes().to_vec(),
        (DataType::TimestampTz, V::Tstz(m, o)) => [m.to_le_bytes().to_vec(), o.to_le_bytes().to_vec()].concat(),
        (DataType::Uuid, V::Uuid(b)) => b.to_vec(),
        (DataType::MacAddr, V::Mac(b)) => b.to_vec(),
        (DataType::Inet4, V::Inet4(b)) => b.to_vec(),
        (DataType::Inet6, V::Inet6(b)) => b.to_vec(),
        (DataType::Text | DataType::Varchar | DataType::Char, V::Text(s)) => s.as_bytes().to_vec(),
        (DataType::Blob | DataType::Composite | DataType::Array, V::Blob(b)) => b.clone(),
        (DataType::Blob | DataType::Text, V::Toast(b)) => b.clone(),
        (DataType::Vector, V::Vector(x)) => {
            let mut o = (x.len() as u32).to_le_bytes().to_vec();
            for e in x {
                o.extend_from_slice(&e.to_le_bytes());
            }
            o
        }
        (DataType::Jsonb, V::Jsonb(b)) => b.clone(),
        (DataType::Decimal, V::Decimal(d, s)) => {
            let mut o = vec![if *d < 0 { 0x80u8 } else { 0 }];
            o.extend_from_slice(&s.to_le_bytes());
            o.extend_from_slice(&d.to_le_bytes());
            o
        }
        (DataType::Interval, V::Interval(m, d, mo)) => [m.to_le_bytes().to_vec(), d.to_le_bytes().to_vec(), mo.to_le_bytes().to_vec()].concat(),
        (DataType::Enum, V::Enum(a, b)) => [a.to_le_bytes(), b.to_le_bytes()].concat(),
        (DataType::Point, V::Point(x, y)) => [x.to_le_bytes(), y.to_le_bytes()].concat(),
        (DataType::Box, V::GeoBox(a)) => a.iter().flat_map(|x| x.to_le_bytes()).collect(),
        (DataType::Circle, V::Circle(a)) => a.iter().flat_map(|x| x.to_le_bytes()).collect(),
        _ => return None,
    })
}

fn gen_i64(rng: &mut Rng, bits: u32) -> i64 {
    let (lo, hi) = (-(1i128 << (bits - 1)), (1i128 << (bits - 1)) - 1);
    match rng.below(6) {
        0 => lo as i64,
        1 => hi as i64,
        2 => *rng.pick(&[0i64, 1, -1, 127, -128, 255, 256]),
        _ => {
            let w = rng.below(bits as u64) as u32;
            let v = (rng.next() >> (63 - w)) as i64 >> 1;
            (if rng.chance(1, 2) { -v } else { v }).clamp(lo as i64, hi as i64)
        }
    }
}
fn gen_f64(rng: &mut Rng) -> u64 {
    match rng.below(4) {
        0 => *rng.pick(&[0u64, 0x8000000000000000, 0x7ff0000000000000, 0xfff0000000000000, 0x7ff8000000000000, 0xfff8000000000001, 1, 0x3ff0000000000000]),
        _ => rng.next(),
    }
}
fn gen_len(rng: &mut Rng) -> usize {
    match rng.below(12) {
        0 | 1 => 0,
        2 => *rng.pick(&[1usize, 16, 17, 18, 255, 256, 1000]),
        _ => rng.below(20) as usize,
    }
}
fn gen_text(rng: &mut Rng, n: usize) -> String {
    const CH: &[char] = &['a', 'Z', ' ', '\0', 'é', '€', '😀', '\u{7f}'];
    let mut s = String::new();
    while s.len() < n {
        let c = *rng.pick(CH);
        if s.len() + c.len_utf8() <= n { s.push(c) } else { s.push('x') }
    }
    s
}
fn gen_blob(rng: &mut Rng, n: usize) -> Vec<u8> {
    let mut b = rng.bytes(n);
    if n > 0 && rng.chance(1, 6) {
        b[0] = 0xFE; // the in-band TOAST marker
    }
    b
}

/// a non-null value that fits a column of type `t`
fn gen_value(rng: &mut Rng, t: DataType, len_hint: Option<usize>) -> V {
    let n = len_hint.unwrap_or_else(|| gen_len(rng));
    match t {
        DataType::Bool => V::Bool(rng.chance(1, 2)),
        DataType::Int2 => V::Int(gen_i64(rng, 16)),
        DataType::Int4 => V::Int(gen_i64(rng, 32)),
        DataType::Int8 => V::Int(gen_i64(rng, 64)),
        DataType::Float8 => V::Float(gen_f64(rng)),
        DataType::Date => V::Date(gen_i64(rng, 32) as i32),
        DataType::Time => V::Time(gen_i64(rng, 64)),
        DataType::Timestamp => V::Timestamp(gen_i64(rng, 64)),
        DataType::TimestampTz => V::Tstz(gen_i64(rng, 64), gen_i64(rng, 32) as i32),
        DataType::Uuid => V::Uuid(rng.bytes(16).try_into().unwrap()),
        DataType::MacAddr => V::Mac(rng.bytes(6).try_into().unwrap()),
        DataType::Inet4 => V::Inet4(rng.bytes(4).try_into().unwrap()),
        DataType::Inet6 => V::Inet6(rng.bytes(16).try_into().unwrap()),
        DataType::Text | DataType::Varchar | DataType::Char => V::Text(gen_text(rng, n)),
        DataType::Blob | DataType::Composite | DataType::Array => {
            let m = if rng.chance(1, 8) { 17 } else { n };
            V::Blob(gen_blob(rng, m))
        }
        DataType::Vector => V::Vector((0..n / 4).map(|_| rng.next() as u32).collect()),
        DataType::Jsonb => V::Jsonb(rng.bytes(n.max(4))),
        DataType::Decimal => V::Decimal(if rng.chance(1, 4) { *rng.pick(&[0i128, i128::MAX, i128::MIN, -1]) } else { gen_i64(rng, 64) as i128 * 1_000_003 }, gen_i64(rng, 16) as i16),
        DataType::Interval => V::Interval(gen_i64(rng, 64), gen_i64(rng, 32) as i32, gen_i64(rng, 32) as i32),
        DataType::Enum => V::Enum(rng.next() as u16, rng.next() as u16),
        DataType::Point => V::Point(gen_f64(rng), gen_f64(rng)),
        DataType::Box => V::GeoBox([gen_f64(rng), gen_f64(rng), gen_f64(rng), gen_f64(rng)]),
        DataType::Circle => V::Circle([gen_f64(rng), gen_f64(rng), gen_f64(rng)]),
        _ => V::Null,
    }
}

struct Glue {
    types: Vec<DataType>,
    row: Vec<V>,
    prev: Option<Vec<V>>,
}
impl Glue {
    fn case(&self) -> String {
        let t = self.types.iter().map(|t| type_name(*t)).collect::<Vec<_>>().join(",");
        match &self.prev {
            Some(p) => format!("glue {} | {} | {}", if t.is_empty() { "-".into() } else { t }, row_toks(&self.row), row_toks(p)),
            None => format!("glue {} | {}", if t.is_empty() { "-".into() } else { t }, row_toks(&self.row)),
        }
    }
    fn parse(line: &str) -> Option<Glue> {
        let parts: Vec<&str> = line.split('|').map(|s| s.trim()).collect();
        if parts.len() < 2 {
            return None;
        }
        let head: Vec<&str> = parts[0].split_whitespace().collect();
        if head.len() != 2 || head[0] != "glue" {
            return None;
        }
        let types: Vec<DataType> = if head[1] == "-" { vec![] } else { head[1].split(',').map(type_by_name).collect::<Option<_>>()? };
        let prow = |s: &str| -> Option<Vec<V>> { s.split_whitespace().filter(|t| *t != "()").map(V::parse).collect() };
        let row = prow(parts[1])?;
        let prev = if parts.len() > 2 { Some(prow(parts[2])?) } else { None };
        if row.len() != types.len() || prev.as_ref().map(|p| p.len() != types.len()).unwrap_or(false) {
            return None;
        }
        Some(Glue { types, row, prev })
    }
}

fn gen_glue(rng: &mut Rng) -> Glue {
    let ncols = match rng.below(10) {
        0 => 1,
        1 => *rng.pick(&[7usize, 8, 9, 15, 16, 17, 63, 64]),
        2 => rng.range(1, 64) as usize,
        _ => rng.range(1, 10) as usize,
    };
    let style = rng.below(8);
    let types: Vec<DataType> = (0..ncols)
        .map(|_| match style {
            0 => TYPES[13 + rng.below(7) as usize].0,                 // variable-width kinds only
            1 => TYPES[rng.below(13) as usize].0,                     // fixed kinds only
            _ => {
                let m = if rng.chance(1, 12) { TYPES.len() } else { N_VALUED } as u64;
                TYPES[rng.below(m) as usize].0
            }
        })
        .collect();
    let null_p = *rng.pick(&[0u64, 1, 3, 5, 10]);
    let empties = rng.chance(1, 5);
    let mk = |rng: &mut Rng| -> Vec<V> {
        types.iter().map(|t| if rng.below(10) < null_p { V::Null } else { gen_value(rng, *t, if empties { Some(0) } else { None }) }).collect()
    };
    let mut row = mk(rng);
    // sizes around the u16 limit of the variable area
    if rng.chance(1, 40) {
        let vars: Vec<usize> = (0..ncols).filter(|i| matches!(types[*i], DataType::Text | DataType::Blob)).collect();
        if !vars.is_empty() {
            let other: usize = (0..ncols).filter(|i| types[*i].fixed_size().is_none() && !vars.contains(i)).map(|i| raw_of(types[i], &row[i]).map(|b| b.len()).unwrap_or(0)).sum();
            let target = *rng.pick(&[65534usize, 65535, 65536, 65537, 65546, 131072]);
            let mut left = target.saturating_sub(other);
            for (k, i) in vars.iter().enumerate() {
                let n = if k + 1 == vars.len() { left } else { rng.below(left as u64 + 1) as usize };
                left -= n;
                row[*i] = if types[*i] == DataType::Text { V::Text(gen_text(rng, n)) } else { V::Blob(rng.bytes(n)) };
            }
        }
    }
    let prev = if rng.chance(1, 2) { Some(mk(rng)) } else { None };
    Glue { types, row, prev }
}

fn sig_of(t: DataType, a: &V, b: &V, all_empty: bool) -> String {
    let ty = type_name(t);
    if matches!(b, V::Null) && all_empty {
        return format!("record:{}:{}->null:no-bytes-after-header", ty, a.kind());
    }
    if a.kind() != b.kind() {
        format!("record:{}:{}->{}", ty, a.kind(), b.kind())
    } else {
        format!("record:{}:{}:value-changed", ty, a.kind())
    }
}

pub fn run(ctx: &Ctx) -> Report {
    let mut rep = Report::new(
        "record",
        "schemas of 1..64 columns over every DataType (all-fixed, all-variable, mixed; FLOAT4 and the range types only as \
         NULLs in glue cases, with typed cases of their own), NULL densities 0..100%, empty values, 17-byte 0xFE blobs, \
         variable-area totals 65534..131072, builder reuse after a different row (reset = fresh). non-trivial = distinct \
         case with at least one non-NULL column",
    );
    let mut rng = Rng::new(ctx.seed ^ 0x31);
    let n = if ctx.thorough { 200_000 } else { 20_000 };
    let mut cases: Vec<Glue> = vec![];
    let mut f4: Vec<u64> = vec![0x3ff0000000000000, 0, 0x400921fb54442d18, 0xc05ec00000000000];
    let mut ranges: Vec<(u8, u8, i64, i64)> = vec![];
    for c in ctx.corpus_cases("C31") {
        if c.starts_with("glue") {
            match Glue::parse(&c) {
                Some(g) => cases.push(g),
                None => rep.notes.push(format!("unparsable corpus/replay line ignored: {}", &c[..c.len().min(80)])),
            }
        } else if let Some(h) = c.strip_prefix("f4glue ") {
            if let Ok(b) = u64::from_str_radix(h.trim(), 16) {
                f4.push(b);
            }
        } else if c.starts_with("range ") {
            let p: Vec<&str> = c.split_whitespace().collect();
            if p.len() == 5 {
                if let (Ok(k), Ok(fl), Ok(lo), Ok(hi)) = (p[1].parse(), p[2].parse(), p[3].parse(), p[4].parse()) {
                    ranges.push((k, fl, lo, hi));
                }
            }
        }
    }
    // every type alone, NULL and non-NULL, empty and non-empty
    for (t, _) in &TYPES[..N_VALUED] {
        for k in 0..6 {
            let v = gen_value(&mut rng, *t, if k < 2 { Some(0) } else { None });
            cases.push(Glue { types: vec![*t], row: vec![v.clone()], prev: None });
            cases.push(Glue { types: vec![DataType::Int4, *t, DataType::Text], row: vec![V::Null, v.clone(), V::Text("".into())], prev: Some(vec![V::Int(7), v, V::Text("zz".into())]) });
        }
        cases.push(Glue { types: vec![*t], row: vec![V::Null], prev: None });
    }
    for _ in 0..n {
        cases.push(gen_glue(&mut rng));
    }

    // ------------------------------------------------------------ glue cases
    let mut reqs = vec![];
    let mut pend: Vec<(usize, String, String, String)> = vec![]; // (case idx, impl build outcome, impl view (opt) as model tokens or "", raw-view "")
    for (ci, g) in cases.iter().enumerate() {
        let case = g.case();
        let nonnull = g.row.iter().any(|v| !matches!(v, V::Null));
        rep.case(if nonnull { Some(&case) } else { None });
        rep.count(&format!("cols_{}", match g.types.len() { 1 => "1", 2..=8 => "2-8", 9..=16 => "9-16", 17..=63 => "17-63", _ => "64+" }));
        for t in &g.types {
            rep.count(&format!("type_{}", type_name(*t)));
        }
        // model ops: the raw bytes each glue setter writes
        let mut ops: Vec<String> = vec![];
        let mut representable = true;
        let mut push_row = |ops: &mut Vec<String>, row: &[V]| {
            for (i, v) in row.iter().enumerate() {
                match v {
                    V::Null => ops.push(format!("n{i}")),
                    v => match raw_of(g.types[i], v) {
                        Some(b) => ops.push(format!("s{i}:{}", hex(&b))),
                        None => representable = false,
                    },
                }
            }
        };
        if let Some(p) = &g.prev {
            push_row(&mut ops, p);
            ops.push("r".into());
        }
        push_row(&mut ops, &g.row);
        if !representable {
            rep.notes.push(format!("case skipped (value does not match column type): {}", &case[..case.len().min(120)]));
            continue;
        }
        let var_total: usize = g.row.iter().enumerate().filter(|(i, _)| g.types[*i].fixed_size().is_none()).map(|(i, v)| raw_of(g.types[i], v).map(|b| b.len()).unwrap_or(0)).sum();
        let fits = var_total < 65536;
        rep.count(if fits { "fits" } else { "outside_fits" });

        let types = g.types.clone();
        let row: Vec<OwnedValue> = g.row.iter().map(|v| v.to_owned_value()).collect();
        let prev: Option<Vec<OwnedValue>> = g.prev.as_ref().map(|p| p.iter().map(|v| v.to_owned_value()).collect());
        let res = guarded(move || -> Result<(Vec<u8>, Vec<u8>, Result<Vec<V>, String>), String> {
            let schema = Schema::new(types.iter().enumerate().map(|(i, t)| RecCol::new(format!("c{i}"), *t)).collect());
            let cols: Vec<SchCol> = types.iter().enumerate().map(|(i, t)| SchCol::new(format!("c{i}"), *t)).collect();
            let fresh = OwnedValue::build_record_from_values(&row, &schema).map_err(|e| format!("build: {e}"))?;
            // the same row through a reused builder
            let mut b = RecordBuilder::new(&schema);
            if let Some(p) = &prev {
                for (i, v) in p.iter().enumerate() {
                    v.set_in_builder(&mut b, i).map_err(|e| format!("set prev: {e}"))?;
                }
            }
            let mut reused = Vec::new();
            OwnedValue::build_record_into_buffer(&row, &mut b, &mut reused).map_err(|e| format!("build_into: {e}"))?;
            let view = RecordView::new(&fresh, &schema).map_err(|e| format!("view: {e}"))?;
            let back = OwnedValue::extract_row_from_record(&view, &cols).map(|r| r.iter().map(V::from_owned_value).collect::<Vec<V>>()).map_err(|e| e.to_string());
            Ok((fresh, reused, back))
        });
        let build_req = format!("build {} {}", schema_tok(&g.types), ops.join(" "));
        match res {
            Err(m) => {
                // panic: inside `fits` this contradicts the property; outside it is the documented u16 overflow
                if fits {
                    rep.oracle_fail(case.clone(), format!("panic: {m}"), "record:panic-inside-fits".into());
                }
                reqs.push(build_req);
                pend.push((ci, "overflow".into(), String::new(), String::new()));
            }
            Ok(Err(e)) => {
                rep.oracle_fail(case.clone(), e, "record:error".into());
            }
            Ok(Ok((fresh, reused, back))) => {
                if ci % 1999 == 0 {
                    rep.sample(format!("{} -> {}", &case[..case.len().min(200)], &hex(&fresh)[..hex(&fresh).len().min(100)]));
                }
                // oracle: reset = fresh
                if fresh != reused {
                    rep.oracle_fail(case.clone(), format!("fresh {} vs reused {}", clip(&hex(&fresh)), clip(&hex(&reused))), "record:reset-differs-from-fresh".into());
                }
                // oracle: round trip (inside fits)
                let all_empty = fresh.len() == u16::from_le_bytes([fresh[0], fresh[1]]) as usize;
                let mut view_toks = String::new();
                match &back {
                    Ok(vals) => {
                        if fits {
                            for (i, (a, b)) in g.row.iter().zip(vals.iter()).enumerate() {
                                if a != b {
                                    rep.oracle_fail(case.clone(), format!("column {i} ({}): wrote {} read {}", type_name(g.types[i]), a.tok(), b.tok()), sig_of(g.types[i], a, b, all_empty));
                                    break;
                                }
                            }
                        }
                        // what the real view returned, re-encoded to raw bytes for the comparison with the model view
                        let toks: Vec<String> = vals.iter().enumerate().map(|(i, v)| match v {
                            V::Null => "N".to_string(),
                            V::Toast(b) => hex(b),
                            v => raw_of(g.types[i], v).map(|b| hex(&b)).unwrap_or_else(|| "?".into()),
                        }).collect();
                        view_toks = if toks.is_empty() { "()".into() } else { toks.join(" ") };
                    }
                    Err(e) => {
                        if fits {
                            rep.oracle_fail(case.clone(), format!("extract_row_from_record: {e}"), "record:extract-error".into());
                        }
                    }
                }
                reqs.push(build_req);
                pend.push((ci, format!("ok {}", hex(&fresh)), view_toks.clone(), String::new()));
                if !view_toks.is_empty() && !lossy_text(g, &fresh) {
                    reqs.push(format!("viewopt {} {}", schema_tok(&g.types), hex(&fresh)));
                    pend.push((ci, view_toks, String::new(), String::new()));
                }
            }
        }
    }
    let resp = model_batch(&ctx.model_bin, "record", &reqs);
    for (i, (ci, want, _, _)) in pend.iter().enumerate() {
        if &resp[i] != want {
            let kind = if reqs[i].starts_with("build") { "build-differs" } else { "view-differs" };
            rep.disagree(cases[*ci].case(), format!("impl = {} ; model = {} ; request = {}", clip(want), clip(&resp[i]), clip(&reqs[i])), kind.into());
        }
    }

    // ------------------------------------------------------------ FLOAT4 through the glue
    for _ in 0..40 {
        f4.push(f64::to_bits(rng.range(-1000, 1000) as f64 / 4.0));
    }
    for bits in f4 {
        let case = format!("f4glue {bits:016x}");
        rep.case(Some(&case));
        let res = guarded(move || -> Result<Vec<V>, String> {
            let schema = Schema::new(vec![RecCol::new("a", DataType::Float4), RecCol::new("b", DataType::Int4)]);
            let cols = vec![SchCol::new("a", DataType::Float4), SchCol::new("b", DataType::Int4)];
            let row = vec![OwnedValue::Float(f64::from_bits(bits)), OwnedValue::Int(0x01020304)];
            let rec = OwnedValue::build_record_from_values(&row, &schema).map_err(|e| e.to_string())?;
            let view = RecordView::new(&rec, &schema).map_err(|e| e.to_string())?;
            OwnedValue::extract_row_from_record(&view, &cols).map(|r| r.iter().map(V::from_owned_value).collect()).map_err(|e| e.to_string())
        });
        let want = vec![V::Float(bits), V::Int(0x01020304)];
        // the value is chosen exactly representable as f32, so FLOAT4 can hold it
        match res {
            Ok(Ok(got)) if got == want => {}
            Ok(Ok(got)) => rep.oracle_fail(case, format!("wrote {} read {}", row_toks(&want), row_toks(&got)), "glue:float4-column-written-as-float8".into()),
            Ok(Err(e)) => rep.oracle_fail(case, e, "glue:float4:error".into()),
            Err(m) => rep.oracle_fail(case, format!("panic: {m}"), "glue:float4:panic".into()),
        }
    }

    // ------------------------------------------------------------ typed ranges
    for _ in 0..300 {
        ranges.push((if rng.chance(1, 2) { 4 } else { 8 }, rng.below(32) as u8, gen_i64(&mut rng, 32), gen_i64(&mut rng, 32)));
    }
    for (k, fl, lo, hi) in ranges {
        let case = format!("range {k} {fl} {lo} {hi}");
        rep.case(Some(&case));
        let res = guarded(move || -> Result<String, String> {
            let t = if k == 4 { DataType::Int4Range } else { DataType::Int8Range };
            let schema = Schema::new(vec![RecCol::new("p", DataType::Int2), RecCol::new("r", t), RecCol::new("q", DataType::Int2)]);
            let mut b = RecordBuilder::new(&schema);
            b.set_int2(0, 0x1111).map_err(|e| e.to_string())?;
            b.set_int2(2, 0x2222).map_err(|e| e.to_string())?;
            let (lo_o, hi_o) = (if fl & 4 != 0 { None } else { Some(lo) }, if fl & 8 != 0 { None } else { Some(hi) });
            if fl & 16 != 0 {
                if k == 4 { b.set_int4_range_empty(1) } else { b.set_int8_range_empty(1) }.map_err(|e| e.to_string())?;
            } else if k == 4 {
                b.set_int4_range(1, lo_o.map(|x| x as i32), hi_o.map(|x| x as i32), fl & 1 != 0, fl & 2 != 0).map_err(|e| e.to_string())?;
            } else {
                b.set_int8_range(1, lo_o, hi_o, fl & 1 != 0, fl & 2 != 0).map_err(|e| e.to_string())?;
            }
            let rec = b.build().map_err(|e| e.to_string())?;
            let v = RecordView::new(&rec, &schema).map_err(|e| e.to_string())?;
            let nb = (v.get_int2(0).map_err(|e| e.to_string())?, v.get_int2(2).map_err(|e| e.to_string())?);
            let got = if k == 4 {
                v.get_int4_range_opt(1).map_err(|e| e.to_string())?.map(|r| format!("{:?}", r))
            } else {
                v.get_int8_range_opt(1).map_err(|e| e.to_string())?.map(|r| format!("{:?}", r))
            };
            Ok(format!("{:?} {:?}", nb, got))
        });
        match res {
            Ok(Ok(s)) => {
                // neighbours intact and the range readable; the Debug text must mention the bounds that were set
                let ok_nb = s.starts_with("(4369, 8738)");
                let mentions = fl & 16 != 0 || ((fl & 4 != 0 || s.contains(&format!("{}", if k == 4 { lo as i32 as i64 } else { lo }))) && (fl & 8 != 0 || s.contains(&format!("{}", if k == 4 { hi as i32 as i64 } else { hi }))));
                if !ok_nb || !mentions || s.ends_with("None") {
                    rep.oracle_fail(case, s, "range:roundtrip".into());
                }
            }
            Ok(Err(e)) => rep.oracle_fail(case, e, "range:error".into()),
            Err(m) => rep.oracle_fail(case, format!("panic: {m}"), "range:panic".into()),
        }
    }
    rep
}

/// TEXT columns are read back through from_utf8_lossy; outside `fits` (wrapped offsets) a text slice may be cut inside
/// a scalar, and the re-encoded value then differs from the bytes in the record — the view comparison is byte-exact
/// only when every text slice is valid UTF-8, which holds inside `fits`.
fn lossy_text(g: &Glue, _rec: &[u8]) -> bool {
    let var_total: usize = g.row.iter().enumerate().filter(|(i, _)| g.types[*i].fixed_size().is_none()).map(|(i, v)| raw_of(g.types[i], v).map(|b| b.len()).unwrap_or(0)).sum();
    var_total >= 65536
}

fn clip(s: &str) -> String {
    if s.len() > 300 {
        format!("{}…({} chars)", &s[..300], s.len())
    } else {
        s.to_string()
    }
}
